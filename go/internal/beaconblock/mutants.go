package beaconblock

import (
	"fmt"
	kbls "github.com/kilic/bls12-381"
	"math/rand"

	"github.com/protolambda/ztyp/tree"
	"verifharness/internal/flatblock"

	"github.com/protolambda/zrnt/eth2/beacon/common"
	"github.com/protolambda/zrnt/eth2/beacon/phase0"
	"github.com/protolambda/ztyp/view"

	"verifharness/internal/chain"
	"verifharness/internal/flat"
)

// extraMutants are this component's additions to chain.Mutations: block shapes the SSZ layer would refuse but
// the typed API lets through (malformed / over-long bitlists, over-limit index lists).
func extraMutants(c *chain.Chain, s *chain.Step, fs *flat.State, rng *rand.Rand) []chain.Mutant {
	var out []chain.Mutant
	add := func(label, rule string, f func(b *chain.SignedBlock, body chain.BodyRef) bool) {
		b := s.Block.Clone(c.Spec)
		if !f(b, b.Body()) {
			return
		}
		c.SignBlock(b, s.PreBlock)
		out = append(out, chain.Mutant{Label: label, Rule: rule, Resigned: true, Block: b})
	}
	// Cross-fork replays made with this package's OWN domain code (not zrnt's GetDomain): every signed object signed
	// under the fork version the specification does NOT prescribe for its epoch (previous version at or after the
	// fork epoch, current version before it). Only where the state's fork record has two different versions.
	if fs.ForkPrevVersion != fs.ForkCurrVersion {
		spe := uint64(c.Spec.SLOTS_PER_EPOCH)
		wrong := func(t [4]byte, epoch uint64) [32]byte {
			v := fs.ForkPrevVersion
			if epoch < fs.ForkEpoch {
				v = fs.ForkCurrVersion
			}
			return computeDomain(t, v, fs.GenesisValidatorsRoot)
		}
		rel := func(epoch uint64) string {
			switch {
			case epoch == fs.ForkEpoch:
				return "at-fork-epoch"
			case epoch+1 == fs.ForkEpoch:
				return "fork-epoch-1"
			case epoch == fs.ForkEpoch+1:
				return "fork-epoch+1"
			case epoch < fs.ForkEpoch:
				return "before-fork"
			}
			return "after-fork"
		}
		cur := fs.Slot / spe
		keyOf := func(v common.ValidatorIndex) (int, bool) { return c.KeyOf(v) }
		if k, ok := keyOf(s.Proposer); ok {
			out = append(out, func() chain.Mutant {
				b := s.Block.Clone(c.Spec)
				tb, _ := flatblockOf(b)
				*b.Header().Signature = c.Keys.Sign(k, signingRoot(tb.MessageRoot(c.Spec), wrong(domainBeaconProposer, cur)))
				return chain.Mutant{Label: "block.signature:wrong-fork-version(" + rel(cur) + ")", Rule: "block.signature.fork", Block: b}
			}())
			add("randao_reveal:wrong-fork-version("+rel(cur)+")", "randao.signature.fork", func(b *chain.SignedBlock, body chain.BodyRef) bool {
				*body.RandaoReveal = c.Keys.Sign(k, signingRoot(epochRoot(cur), wrong(domainRandao, cur)))
				return true
			})
		}
		hf := tree.GetHashFn()
		for i := range *s.Block.Body().VoluntaryExits {
			i := i
			e := &(*s.Block.Body().VoluntaryExits)[i]
			if flat.ForkIndex(fs.Fork) >= 4 {
				break // deneb: the exit domain is fixed to the capella version (EIP-7044)
			}
			if k, ok := keyOf(e.Message.ValidatorIndex); ok {
				ep := uint64(e.Message.Epoch)
				add("voluntary_exit.signature:wrong-fork-version("+rel(ep)+")", "exit.signature.fork", func(b *chain.SignedBlock, body chain.BodyRef) bool {
					x := &(*body.VoluntaryExits)[i]
					x.Signature = c.Keys.Sign(k, signingRoot(x.Message.HashTreeRoot(hf), wrong(domainVoluntaryExit, ep)))
					return true
				})
			}
			break
		}
		for _, op := range s.Ops {
			if op.Kind != chain.OpAttestation || op.Index >= len(*s.Block.Body().Attestations) {
				continue
			}
			keys := make([]int, 0, len(op.Validators))
			okAll := true
			for _, v := range op.Validators {
				k, ok := keyOf(v)
				okAll = okAll && ok
				keys = append(keys, k)
			}
			if !okAll || len(keys) == 0 {
				continue
			}
			i := op.Index
			te := uint64((*s.Block.Body().Attestations)[i].Data.Target.Epoch)
			add("attestation.signature:wrong-fork-version("+rel(te)+")", "attestation.signature.fork", func(b *chain.SignedBlock, body chain.BodyRef) bool {
				a := &(*body.Attestations)[i]
				a.Signature = c.Keys.SignAggregate(keys, signingRoot(a.Data.HashTreeRoot(hf), wrong(domainBeaconAttester, te)))
				return true
			})
			break
		}
		if sa := s.Block.Body().SyncAggregate; sa != nil && fs.CurrentSyncCommittee != nil && fs.Slot > 0 {
			var keys []int
			okAll := true
			for j, pk := range fs.CurrentSyncCommittee.Pubkeys {
				if j/8 < len(sa.SyncCommitteeBits) && (sa.SyncCommitteeBits[j/8]>>(uint(j)%8))&1 == 1 {
					k, ok := c.Keys.IndexOf(pk)
					okAll = okAll && ok
					keys = append(keys, k)
				}
			}
			sphr := uint64(c.Spec.SLOTS_PER_HISTORICAL_ROOT)
			if okAll && len(keys) > 0 && uint64(len(fs.BlockRoots)) == sphr {
				prev := fs.Slot - 1
				pe := prev / spe
				root := fs.BlockRoots[prev%sphr]
				add("sync_aggregate.signature:wrong-fork-version("+rel(pe)+")", "sync_aggregate.signature.fork", func(b *chain.SignedBlock, body chain.BodyRef) bool {
					body.SyncAggregate.SyncCommitteeSignature = c.Keys.SignAggregate(keys, signingRoot(root, wrong(domainSyncCommittee, pe)))
					return true
				})
			}
		}
	}
	if n := len(*s.Block.Body().Attestations); n > 0 {
		i := rng.Intn(n)
		add("attestation.bits:empty-bytes", "ssz.malformed_bitlist", func(b *chain.SignedBlock, body chain.BodyRef) bool {
			(*body.Attestations)[i].AggregationBits = phase0.AttestationBits{}
			return true
		})
		add("attestation.bits:trailing-zero-byte", "ssz.malformed_bitlist", func(b *chain.SignedBlock, body chain.BodyRef) bool {
			a := &(*body.Attestations)[i]
			a.AggregationBits = append(append(phase0.AttestationBits{}, a.AggregationBits...), 0)
			return true
		})
		add("attestation.bits:delimiter-cleared", "ssz.malformed_bitlist", func(b *chain.SignedBlock, body chain.BodyRef) bool {
			// the delimiter bit removed: no valid SSZ bitlist; when it was the only bit of the last byte ztyp's
			// BitlistLen still reports the committee size
			for j := range *body.Attestations {
				a := &(*body.Attestations)[j]
				if n := len(a.AggregationBits); n >= 2 && a.AggregationBits[n-1] == 1 {
					nb := append(phase0.AttestationBits{}, a.AggregationBits...)
					nb[n-1] = 0
					a.AggregationBits = nb
					return true
				}
			}
			return false
		})
		add("attestation.bits:only-delimiter", "attestation.bits_length", func(b *chain.SignedBlock, body chain.BodyRef) bool {
			(*body.Attestations)[i].AggregationBits = phase0.AttestationBits{1}
			return true
		})
		add("attestation.bits:over-limit", "limits.aggregation_bits", func(b *chain.SignedBlock, body chain.BodyRef) bool {
			n := uint64(c.Spec.MAX_VALIDATORS_PER_COMMITTEE) + 1
			bits := make(phase0.AttestationBits, n/8+1)
			bits[n/8] = 1 << (n % 8)
			bits[0] = 1
			(*body.Attestations)[i].AggregationBits = bits
			return true
		})
		add("attestation.bits:extra-high-bit", "attestation.bits_length", func(b *chain.SignedBlock, body chain.BodyRef) bool {
			// move the delimiter one bit up: one more (unset) participant bit than the committee has members
			a := &(*body.Attestations)[i]
			bits, ok := decodeBitlist(a.AggregationBits)
			if !ok {
				return false
			}
			n := len(bits) + 1
			nb := make(phase0.AttestationBits, n/8+1)
			for j, v := range bits {
				if v {
					nb[j/8] |= 1 << (uint(j) % 8)
				}
			}
			nb[n/8] |= 1 << (uint(n) % 8)
			a.AggregationBits = nb
			return true
		})
	}
	if pl := s.Block.Body().Payload; pl != nil && pl.Withdrawals != nil {
		add("payload.withdrawals:over-limit", "limits.withdrawals", func(b *chain.SignedBlock, body chain.BodyRef) bool {
			w := body.Payload.Withdrawals
			for uint64(len(*w)) <= uint64(c.Spec.MAX_WITHDRAWALS_PER_PAYLOAD) {
				*w = append(*w, common.Withdrawal{Index: common.WithdrawalIndex(len(*w))})
			}
			return true
		})
	}
	if s.Block.Body().BlobKZGCommitments != nil {
		add("blob_kzg_commitments:over-list-limit", "limits.blob_kzg_commitments", func(b *chain.SignedBlock, body chain.BodyRef) bool {
			k := body.BlobKZGCommitments
			for uint64(len(*k)) <= uint64(c.Spec.MAX_BLOB_COMMITMENTS_PER_BLOCK) {
				*k = append(*k, common.KZGCommitment{0xc0})
			}
			return true
		})
	}
	if s.Block.Body().Payload != nil {
		add("payload.extra_data:over-limit", "limits.extra_data", func(b *chain.SignedBlock, body chain.BodyRef) bool {
			*body.Payload.ExtraData = make(common.ExtraData, int(c.Spec.MAX_EXTRA_DATA_BYTES)+1)
			return true
		})
	}
	if n := len(*s.Block.Body().AttesterSlashings); n > 0 {
		i := rng.Intn(n)
		add("attester_slashing.indices:over-limit", "limits.attesting_indices", func(b *chain.SignedBlock, body chain.BodyRef) bool {
			a := &(*body.AttesterSlashings)[i].Attestation1
			for v := uint64(0); v <= uint64(c.Spec.MAX_VALIDATORS_PER_COMMITTEE); v++ {
				a.AttestingIndices = append(a.AttestingIndices, common.ValidatorIndex(1<<20+v))
			}
			return true
		})
		add("attester_slashing.data:same-source-lower-target(re-signed)", "attester_slashing.not_slashable_data", func(b *chain.SignedBlock, body chain.BodyRef) bool {
			// neither a double vote (targets differ) nor a surround vote (sources equal): validly signed, not slashable
			as := &(*body.AttesterSlashings)[i]
			if as.Attestation1.Data.Target.Epoch == 0 {
				return false
			}
			as.Attestation2.Data = as.Attestation1.Data
			as.Attestation2.Data.Target.Epoch--
			as.Attestation2.Signature = c.SignIndexed(s.PreBlock, &as.Attestation2.Data, as.Attestation2.AttestingIndices)
			return true
		})
		add("attester_slashing.data:same-target-higher-source-swapped(re-signed)", "attester_slashing.not_slashable_data", func(b *chain.SignedBlock, body chain.BodyRef) bool {
			// attestation_2 surrounds attestation_1 (the order the spec does NOT accept) with different targets
			as := &(*body.AttesterSlashings)[i]
			d := as.Attestation1.Data
			if d.Source.Epoch == 0 {
				return false
			}
			as.Attestation2.Data = d
			as.Attestation2.Data.Source.Epoch--
			as.Attestation2.Data.Target.Epoch++
			as.Attestation2.Signature = c.SignIndexed(s.PreBlock, &as.Attestation2.Data, as.Attestation2.AttestingIndices)
			return true
		})
		add("attester_slashing.indices:marker", "attester_slashing.attestation_1_invalid", func(b *chain.SignedBlock, body chain.BodyRef) bool {
			// the value ZigZagJoin uses as its end-of-list marker, as an (out of range) attesting index
			a := &(*body.AttesterSlashings)[i].Attestation1
			a.AttestingIndices = append(a.AttestingIndices, common.ValidatorIndex(^uint64(0)))
			return true
		})
	}
	return out
}

type stateVariant struct {
	label, rule string
	st          *flat.State
	spec        *common.Spec // nil: the chain's configuration; otherwise a variant of it (constants changed)
}

// stateVariants returns modified copies of the flat pre-block state on which the step's (otherwise valid)
// block must be refused for a reason no mutation of the block can produce.
func stateVariants(c *chain.Chain, spec *common.Spec, s *chain.Step, fs *flat.State, rng *rand.Rand) []stateVariant {
	var out []stateVariant
	withSpec := func(f func(sp *common.Spec)) *common.Spec {
		sp := *spec
		f(&sp)
		return &sp
	}
	// configuration variants: the same state and block under a preset whose list limits are just reached
	for _, op := range s.Ops {
		if op.Kind == chain.OpDepositNew {
			n := uint64(len(fs.Validators))
			out = append(out, stateVariant{"config:validator-registry-limit-reached", "deposit.registry_full", fs,
				withSpec(func(sp *common.Spec) { sp.VALIDATOR_REGISTRY_LIMIT = view.Uint64View(n) })})
			break
		}
	}
	if atts := *s.Block.Body().Attestations; fs.Fork == "phase0" && len(atts) > 0 && uint64(s.Slot)%2 == 0 {
		// both pending-attestation lists filled up to a (small) limit MAX_ATTESTATIONS * SLOTS_PER_EPOCH: the block's
		// first attestation no longer fits
		spe := uint64(spec.SLOTS_PER_EPOCH)
		k := uint64(len(fs.CurrAtts))
		if uint64(len(fs.PrevAtts)) > k {
			k = uint64(len(fs.PrevAtts))
		}
		m := (k + spe - 1) / spe
		if b := uint64(len(atts)); b > m {
			m = b
		}
		a := &atts[0]
		bits, ok := decodeBitlist(a.AggregationBits)
		if ok && m >= 1 {
			tmpl := flat.PendingAtt{Bits: bits, Slot: uint64(a.Data.Slot), Index: uint64(a.Data.Index), BeaconBlockRoot: a.Data.BeaconBlockRoot,
				Source: flat.Checkpoint{Epoch: uint64(a.Data.Source.Epoch), Root: a.Data.Source.Root},
				Target: flat.Checkpoint{Epoch: uint64(a.Data.Target.Epoch), Root: a.Data.Target.Root}, InclusionDelay: 1, ProposerIndex: uint64(s.Proposer)}
			g := *fs
			g.PrevAtts = append([]flat.PendingAtt(nil), fs.PrevAtts...)
			g.CurrAtts = append([]flat.PendingAtt(nil), fs.CurrAtts...)
			for uint64(len(g.PrevAtts)) < m*spe {
				g.PrevAtts = append(g.PrevAtts, tmpl)
			}
			for uint64(len(g.CurrAtts)) < m*spe {
				g.CurrAtts = append(g.CurrAtts, tmpl)
			}
			out = append(out, stateVariant{"config+pre-state:pending-attestations-limit-reached", "attestation.pending_list_full", &g,
				withSpec(func(sp *common.Spec) { sp.MAX_ATTESTATIONS = view.Uint64View(m) })})
		}
	}
	if fs.CurrentSyncCommittee != nil && s.Block.Body().SyncAggregate != nil {
		// a sync committee member whose key is not in the registry (its bit unset, so the signature still verifies)
		bits := s.Block.Body().SyncAggregate.SyncCommitteeBits
		for i := range fs.CurrentSyncCommittee.Pubkeys {
			if i/8 < len(bits) && (bits[i/8]>>(uint(i)%8))&1 == 0 {
				g := *fs
				sc := *fs.CurrentSyncCommittee
				sc.Pubkeys = append([][48]byte(nil), fs.CurrentSyncCommittee.Pubkeys...)
				sc.Pubkeys[i] = c.Keys.Pubkey(1900 + i%64)
				g.CurrentSyncCommittee = &sc
				out = append(out, stateVariant{"pre-state:sync-committee-member-not-in-registry", "sync_aggregate.committee_pubkey_unknown", &g, nil})
				break
			}
		}
	}
	if flat.ForkIndex(fs.Fork) >= 3 && uint64(s.Slot)%3 == 0 {
		g := *fs
		g.NextWithdrawalValIdx = uint64(len(fs.Validators)) + uint64(rng.Intn(3))
		out = append(out, stateVariant{"pre-state:withdrawal-cursor-out-of-registry", "withdrawals.validator_index", &g, nil})
	}
	clone := func() *flat.State {
		g := *fs
		g.Validators = append([]flat.Validator(nil), fs.Validators...)
		g.Eth1DataVotes = append([]flat.Eth1Data(nil), fs.Eth1DataVotes...)
		g.Balances = append([]uint64(nil), fs.Balances...)
		return &g
	}
	if rng.Intn(3) == 0 {
		// the fork record says the current version was adopted exactly in the previous / the current epoch (with some other
		// version before): every object of the block whose epoch is at or after that epoch stays valid under the current
		// version — independent of how the chain library signs
		spe := uint64(spec.SLOTS_PER_EPOCH)
		cur := fs.Slot / spe
		for _, fe := range []uint64{cur, cur - 1} {
			if fe > cur {
				continue
			}
			g := clone()
			g.ForkEpoch = fe
			g.ForkPrevVersion = [4]byte{0xde, 0xad, 0xbe, byte(fe)}
			lbl := "pre-state:fork-record-epoch=current"
			if fe != cur {
				lbl = "pre-state:fork-record-epoch=previous"
			}
			out = append(out, stateVariant{lbl, "valid", g, nil})
		}
	}
	if rng.Intn(3) == 0 {
		// the proposer has been slashed
		g := clone()
		p := int(s.Proposer)
		if p < len(g.Validators) {
			g.Validators[p].Slashed = true
			out = append(out, stateVariant{"pre-state:proposer-slashed", "header.proposer_slashed", g, nil})
		}
	}
	if rng.Intn(3) == 0 {
		// a block was already processed in this slot: latest_block_header.slot == state.slot
		g := clone()
		g.Header.Slot = g.Slot
		out = append(out, stateVariant{"pre-state:latest-header-at-same-slot", "header.not_newer_than_latest", g, nil})
	}
	if rng.Intn(4) == 0 {
		// the eth1 votes list is already full (cannot happen at a period boundary; the list limit must hold anyway)
		g := clone()
		limit := int(uint64(spec.EPOCHS_PER_ETH1_VOTING_PERIOD) * uint64(spec.SLOTS_PER_EPOCH))
		for len(g.Eth1DataVotes) < limit {
			g.Eth1DataVotes = append(g.Eth1DataVotes, flat.Eth1Data{DepositCount: uint64(len(g.Eth1DataVotes))})
		}
		out = append(out, stateVariant{"pre-state:eth1-votes-full", "eth1_data.votes_list_full", g, nil})
	}
	if rng.Intn(3) == 0 && flat.ForkIndex(fs.Fork) >= 1 {
		// the proposer's balance is (almost) gone while it sits in the sync committee: the order in which the spec
		// interleaves its proposer rewards with its own participant penalty becomes visible (clipping at zero)
		g := clone()
		p := int(s.Proposer)
		if p < len(g.Balances) {
			g.Balances[p] = uint64(rng.Intn(3))
			out = append(out, stateVariant{"pre-state:proposer-balance-near-zero", "valid", g, nil})
		}
	}
	if n := len(*s.Block.Body().Deposits); n > 0 && uint64(n) == uint64(spec.MAX_DEPOSITS) && fs.Eth1DepositIndex > 0 {
		// an adopted eth1 vote whose deposit_count is below the deposits already processed (root unchanged):
		// `deposit_count - eth1_deposit_index` underflows in the spec (uint64: the block is invalid)
		g := clone()
		g.Eth1Data.DepositCount = g.Eth1DepositIndex - 1
		out = append(out, stateVariant{"pre-state:deposit-count-below-index", "operations.deposit_count_underflow", g, nil})
	} else if rng.Intn(6) == 0 && fs.Eth1DepositIndex > 0 {
		g := clone()
		g.Eth1Data.DepositCount = g.Eth1DepositIndex - 1
		out = append(out, stateVariant{"pre-state:deposit-count-below-index", "operations.deposit_count_underflow", g, nil})
	}
	if rng.Intn(4) == 0 && flat.ForkIndex(fs.Fork) >= 3 {
		// the withdrawal sweep cursor elsewhere: the payload's withdrawals no longer match
		g := clone()
		g.NextWithdrawalValIdx = (g.NextWithdrawalValIdx + 1 + uint64(rng.Intn(len(g.Validators)-1))) % uint64(len(g.Validators))
		out = append(out, stateVariant{"pre-state:withdrawal-cursor-moved", "withdrawals.mismatch", g, nil})
	}
	return out
}

// overLimitMutants: the step's block with one list of operations extended to MAX_x + 1 operations that are ALL valid
// and effective (distinct, untouched, slashable / exitable validators; correct signatures; duplicated attestations,
// which the specification accepts), so that the list limit is the ONLY reason to refuse the block — a limit check
// that compares with the constant of another operation kind lets it through. Such a block exists through the typed
// API only (SSZ decoding enforces the list limits itself).
func overLimitMutants(c *chain.Chain, s *chain.Step, fs *flat.State, rng *rand.Rand) []chain.Mutant {
	var out []chain.Mutant
	spec := c.Spec
	cur := fs.Slot / uint64(spec.SLOTS_PER_EPOCH)
	body0 := s.Block.Body()
	touched := map[common.ValidatorIndex]bool{s.Proposer: true}
	for _, ps := range *body0.ProposerSlashings {
		touched[ps.SignedHeader1.Message.ProposerIndex] = true
	}
	for _, as := range *body0.AttesterSlashings {
		for _, v := range as.Attestation1.AttestingIndices {
			touched[v] = true
		}
		for _, v := range as.Attestation2.AttestingIndices {
			touched[v] = true
		}
	}
	for _, ex := range *body0.VoluntaryExits {
		touched[ex.Message.ValidatorIndex] = true
	}
	// validators nothing in the block concerns: active, not exiting, not slashed, old enough to exit, key known
	type cand struct {
		v common.ValidatorIndex
		k int
	}
	var free []cand
	for i := range fs.Validators {
		f := &fs.Validators[i]
		v := common.ValidatorIndex(i)
		if touched[v] || f.Slashed || f.ActivationEpoch > cur || f.ExitEpoch != ^uint64(0) || cur < f.ActivationEpoch+uint64(spec.SHARD_COMMITTEE_PERIOD) {
			continue
		}
		if k, ok := c.KeyOf(v); ok {
			free = append(free, cand{v, k})
		}
	}
	rng.Shuffle(len(free), func(i, j int) { free[i], free[j] = free[j], free[i] })
	// never use up more than a quarter of the registry
	if m := len(fs.Validators) / 4; len(free) > m {
		free = free[:m]
	}
	add := func(label, rule string, f func(b *chain.SignedBlock, body chain.BodyRef) bool) {
		b := s.Block.Clone(spec)
		if !f(b, b.Body()) {
			return
		}
		c.SignBlock(b, s.PreBlock)
		out = append(out, chain.Mutant{Label: label, Rule: rule, Resigned: true, Block: b})
	}
	root := func(x byte) (r common.Root) {
		r[0], r[1], r[31] = 0xee, x, byte(fs.Slot)
		return
	}
	add("proposer_slashings:max+1-all-valid", "limits.proposer_slashings", func(b *chain.SignedBlock, body chain.BodyRef) bool {
		need := int(spec.MAX_PROPOSER_SLASHINGS) + 1 - len(*body.ProposerSlashings)
		if need <= 0 || need > len(free) {
			return false
		}
		for _, x := range free[:need] {
			h1 := common.BeaconBlockHeader{Slot: common.Slot(fs.Slot), ProposerIndex: x.v, ParentRoot: root(1), StateRoot: root(2), BodyRoot: root(3)}
			h2 := h1
			h2.BodyRoot = root(4)
			*body.ProposerSlashings = append(*body.ProposerSlashings, phase0.ProposerSlashing{
				SignedHeader1: c.SignHeader(s.PreBlock, h1, x.k), SignedHeader2: c.SignHeader(s.PreBlock, h2, x.k)})
		}
		return true
	})
	add("attester_slashings:max+1-all-valid", "limits.attester_slashings", func(b *chain.SignedBlock, body chain.BodyRef) bool {
		need := int(spec.MAX_ATTESTER_SLASHINGS) + 1 - len(*body.AttesterSlashings)
		if need <= 0 || need > len(free) {
			return false
		}
		for _, x := range free[:need] {
			// a double vote of validator x.v alone: same target epoch, different block roots
			d1 := phase0.AttestationData{Slot: common.Slot(fs.Slot), Index: 0, BeaconBlockRoot: root(5),
				Source: common.Checkpoint{Epoch: 0, Root: root(6)}, Target: common.Checkpoint{Epoch: common.Epoch(cur), Root: root(7)}}
			d2 := d1
			d2.BeaconBlockRoot = root(8)
			who := []common.ValidatorIndex{x.v}
			*body.AttesterSlashings = append(*body.AttesterSlashings, phase0.AttesterSlashing{
				Attestation1: phase0.IndexedAttestation{AttestingIndices: who, Data: d1, Signature: c.SignIndexed(s.PreBlock, &d1, who)},
				Attestation2: phase0.IndexedAttestation{AttestingIndices: who, Data: d2, Signature: c.SignIndexed(s.PreBlock, &d2, who)}})
		}
		return true
	})
	add("voluntary_exits:max+1-all-valid", "limits.voluntary_exits", func(b *chain.SignedBlock, body chain.BodyRef) bool {
		need := int(spec.MAX_VOLUNTARY_EXITS) + 1 - len(*body.VoluntaryExits)
		if need <= 0 || need > len(free) {
			return false
		}
		for _, x := range free[:need] {
			*body.VoluntaryExits = append(*body.VoluntaryExits, c.SignExit(s.PreBlock, phase0.VoluntaryExit{Epoch: common.Epoch(cur), ValidatorIndex: x.v}, x.k))
		}
		return true
	})
	if n := len(*body0.Attestations); n > 0 && uint64(spec.MAX_ATTESTATIONS) <= 40 {
		add("attestations:max+1-all-valid(duplicates)", "limits.attestations", func(b *chain.SignedBlock, body chain.BodyRef) bool {
			for i := 0; uint64(len(*body.Attestations)) <= uint64(spec.MAX_ATTESTATIONS); i++ {
				*body.Attestations = append(*body.Attestations, (*body.Attestations)[i%n])
			}
			return true
		})
	}
	if body0.BlobKZGCommitments != nil && uint64(spec.MAX_BLOBS_PER_BLOCK) < uint64(spec.MAX_BLOB_COMMITMENTS_PER_BLOCK) {
		// deneb: one commitment more than MAX_BLOBS_PER_BLOCK, and as many as the list type admits; the engine says valid
		for _, target := range []uint64{uint64(spec.MAX_BLOBS_PER_BLOCK) + 1, uint64(spec.MAX_BLOB_COMMITMENTS_PER_BLOCK)} {
			target := target
			if target > 64 {
				continue
			}
			add(fmt.Sprintf("blob_kzg_commitments:%d>MAX_BLOBS_PER_BLOCK(engine-valid)", target), "payload.blob_commitments_limit", func(b *chain.SignedBlock, body chain.BodyRef) bool {
				k := body.BlobKZGCommitments
				for i := 0; uint64(len(*k)) < target; i++ {
					cm := common.KZGCommitment{0xc0}
					if len(*k) > 0 {
						cm = (*k)[i%len(*k)]
					}
					*k = append(*k, cm)
				}
				return true
			})
		}
	}
	if body0.BLSChanges != nil {
		add("bls_to_execution_changes:max+1-all-valid", "limits.bls_changes", func(b *chain.SignedBlock, body chain.BodyRef) bool {
			has := map[common.ValidatorIndex]bool{}
			for _, ch := range *body.BLSChanges {
				has[ch.BLSToExecutionChange.ValidatorIndex] = true
			}
			for i := range fs.Validators {
				if uint64(len(*body.BLSChanges)) > uint64(spec.MAX_BLS_TO_EXECUTION_CHANGES) {
					break
				}
				v := common.ValidatorIndex(i)
				k, ok := c.KeyOf(v)
				if !ok || has[v] || fs.Validators[i].WithdrawalCredentials[0] != 0 || fs.Validators[i].WithdrawalCredentials != [32]byte(c.Keys.BLSCredentials(k)) {
					continue
				}
				ch := common.BLSToExecutionChange{ValidatorIndex: v, FromBLSPubKey: c.Keys.WithdrawalPubkey(k), ToExecutionAddress: c.Keys.ExecutionAddress(k)}
				*body.BLSChanges = append(*body.BLSChanges, c.SignBLSChange(ch, k))
			}
			return uint64(len(*body.BLSChanges)) > uint64(spec.MAX_BLS_TO_EXECUTION_CHANGES)
		})
	}
	return out
}

// secondBlockVariant: block processing applied to the state AFTER the step's block (latest_block_header is that block's
// header, state root still zero) with a SECOND block of the same slot: the slot's proposer, parent_root =
// hash_tree_root(latest_block_header), the same randao reveal / eth1 vote / sync aggregate (all valid again), no
// operations. The specification refuses it by `block.slot > state.latest_block_header.slot` alone. Only where the
// post-state has no pending deposits (a block would have to carry them) and the fork has no execution payload.
func secondBlockVariant(c *chain.Chain, spec *common.Spec, s *chain.Step) []blockVariant {
	if s.Post == nil || s.Fork > chain.Altair {
		return nil
	}
	ps, err := flat.From(spec, s.Post)
	if err != nil || ps.Eth1Data.DepositCount != ps.Eth1DepositIndex {
		return nil
	}
	latest, err := s.Post.LatestBlockHeader()
	if err != nil {
		return nil
	}
	b := s.Block.Clone(spec)
	*b.Header().ParentRoot = latest.HashTreeRoot(tree.GetHashFn())
	body := b.Body()
	*body.ProposerSlashings, *body.AttesterSlashings, *body.Attestations = nil, nil, nil
	*body.Deposits, *body.VoluntaryExits = nil, nil
	c.SignBlock(b, s.Post)
	return []blockVariant{{"pre-state:after-the-block+second-block-at-the-same-slot", "header.not_newer_than_latest", ps, b}}
}

// validEdits: the step's block with a payload field moved to a boundary of its type, still valid (the state root is
// re-computed and the block signed again by the caller): extra_data of 0, MAX_EXTRA_DATA_BYTES − 1 and exactly
// MAX_EXTRA_DATA_BYTES bytes.
func validEdits(c *chain.Chain, s *chain.Step) (out []blockVariant) {
	if s.Block.Body().Payload == nil {
		return nil
	}
	max := int(c.Spec.MAX_EXTRA_DATA_BYTES)
	n := []int{max, max - 1, 0}[int(s.Slot)%3]
	b := s.Block.Clone(c.Spec)
	ed := make(common.ExtraData, n)
	for i := range ed {
		ed[i] = byte(0x40 + i)
	}
	*b.Body().Payload.ExtraData = ed
	c.SignBlock(b, s.PreBlock) // valid signature even where the real code cannot produce the post-state (the caller heals the state root)
	label := fmt.Sprintf("payload.extra_data:%d-bytes(valid)", n)
	if n == max {
		label = fmt.Sprintf("payload.extra_data:exactly-the-limit-%d-bytes(valid)", n)
	}
	return []blockVariant{{label, "valid", nil, b}}
}

// defaultHeaderVariants: the block's execution payload on a pre-state whose latest_execution_payload_header is still the
// DEFAULT one (a chain that reached the fork without ever processing a payload: bellatrix before the merge transition
// block, capella/deneb reached before it), with a payload parent hash that is (a) non-zero, (b) zero. Per fork:
// bellatrix checks the parent hash only once the merge is complete (both accepted: the payload is the merge transition
// block); capella and deneb check it always (non-zero refused; zero = the default header's block_hash, accepted).
// The blocks are signed; the caller heals the state root where the real code gets through.
func defaultHeaderVariants(c *chain.Chain, s *chain.Step, fs *flat.State) (out []blockVariant) {
	if s.Block.Body().Payload == nil || fs.PayloadHeader == nil {
		return nil
	}
	g := *fs
	g.PayloadHeader = &flat.PayloadHeader{}
	for _, zero := range []bool{false, true} {
		b := s.Block.Clone(c.Spec)
		var h common.Hash32
		if !zero {
			for i := range h {
				h[i] = byte(0xd0 + i%16)
			}
		}
		*b.Body().Payload.ParentHash = h
		c.SignBlock(b, s.PreBlock)
		switch {
		case zero:
			out = append(out, blockVariant{"pre-state:default-exec-header:payload-parent-hash-zero(valid)", "valid", &g, b})
		case fs.Fork == "bellatrix":
			out = append(out, blockVariant{"pre-state:default-exec-header:payload-parent-hash-nonzero(merge-transition-block,valid)", "valid", &g, b})
		default:
			out = append(out, blockVariant{"pre-state:default-exec-header:payload-parent-hash-nonzero", "payload.parent_hash", &g, b})
		}
	}
	// default header + the ENTIRE payload = the default (all-zero, empty) payload. bellatrix: execution is not enabled,
	// nothing is processed, valid. capella/deneb: process_execution_payload always runs and refuses it (prev_randao),
	// unless process_withdrawals refuses it first — so once on a pre-state that expects NO withdrawals (every 0x01
	// credential prefix turned into 0x00) and once on the pre-state as it is.
	zeroPayload := func() *chain.SignedBlock {
		b := s.Block.Clone(c.Spec)
		pl := b.Body().Payload
		*pl.ParentHash, *pl.FeeRecipient, *pl.StateRoot, *pl.ReceiptsRoot = common.Hash32{}, common.Eth1Address{}, common.Bytes32{}, common.Bytes32{}
		*pl.LogsBloom, *pl.PrevRandao, *pl.BlockNumber, *pl.GasLimit, *pl.GasUsed = common.LogsBloom{}, common.Bytes32{}, 0, 0, 0
		*pl.Timestamp, *pl.ExtraData, *pl.BaseFeePerGas, *pl.BlockHash = 0, nil, view.Uint256View{}, common.Hash32{}
		*pl.Transactions = nil
		if pl.Withdrawals != nil {
			*pl.Withdrawals = nil
		}
		if pl.BlobGasUsed != nil {
			*pl.BlobGasUsed, *pl.ExcessBlobGas = 0, 0
		}
		if k := b.Body().BlobKZGCommitments; k != nil {
			*k = nil
		}
		c.SignBlock(b, s.PreBlock)
		return b
	}
	if fs.Fork == "bellatrix" {
		out = append(out, blockVariant{"pre-state:default-exec-header:default-payload(execution-not-enabled,valid)", "valid", &g, zeroPayload()})
	} else {
		h := g
		h.Validators = append([]flat.Validator(nil), g.Validators...)
		for i := range h.Validators {
			if h.Validators[i].WithdrawalCredentials[0] == 0x01 {
				h.Validators[i].WithdrawalCredentials[0] = 0x00
			}
		}
		zb := zeroPayload()
		out = append(out, blockVariant{"pre-state:default-exec-header+no-withdrawals-expected:default-payload", "payload.prev_randao", &h, zb},
			blockVariant{"pre-state:default-exec-header:default-payload", "payload.default", &g, zb})
	}
	return out
}

// crossForkOps: operations made by hand whose signing epoch lies on the OTHER side of the state's fork boundary than
// another epoch the object or the state carries — so that taking the domain at any other epoch than the one the
// specification names picks the other fork version:
//   - attester slashing: two votes with data.slot in the last epoch BEFORE the fork and target.epoch = the fork epoch
//     (domain by target epoch: the current version);
//   - proposer slashing: two headers of the last slot before the fork (domain by the header's epoch: the previous version);
//   - voluntary exit with exit.epoch = fork epoch - 1 (domain by exit.epoch: the previous version; deneb: capella's).
//
// valid: ONE block carrying all of them (what fits and finds a validator), correctly signed; muts (c03): each object alone,
// signed under the other version. Only where the fork record has two versions and fork.epoch >= 1.
func crossForkOps(c *chain.Chain, s *chain.Step, fs *flat.State, rng *rand.Rand) (valid []blockVariant, muts []chain.Mutant) {
	if fs.ForkPrevVersion == fs.ForkCurrVersion || fs.ForkEpoch == 0 {
		return
	}
	spec := c.Spec
	spe := uint64(spec.SLOTS_PER_EPOCH)
	cur := fs.Slot / spe
	fe := fs.ForkEpoch
	before := common.Slot(fe*spe - 1)
	body0 := s.Block.Body()
	touched := map[common.ValidatorIndex]bool{s.Proposer: true}
	for _, ps := range *body0.ProposerSlashings {
		touched[ps.SignedHeader1.Message.ProposerIndex] = true
	}
	for _, as := range *body0.AttesterSlashings {
		for _, v := range as.Attestation1.AttestingIndices {
			touched[v] = true
		}
		for _, v := range as.Attestation2.AttestingIndices {
			touched[v] = true
		}
	}
	for _, ex := range *body0.VoluntaryExits {
		touched[ex.Message.ValidatorIndex] = true
	}
	if body0.BLSChanges != nil {
		for _, ch := range *body0.BLSChanges {
			touched[ch.BLSToExecutionChange.ValidatorIndex] = true
		}
	}
	type cand struct {
		v   common.ValidatorIndex
		k   int
		old bool
	}
	var free []cand
	for i := range fs.Validators {
		f := &fs.Validators[i]
		v := common.ValidatorIndex(i)
		if touched[v] || f.Slashed || f.ActivationEpoch > cur || f.ExitEpoch != ^uint64(0) || f.WithdrawableEpoch != ^uint64(0) {
			continue
		}
		if k, ok := c.KeyOf(v); ok {
			free = append(free, cand{v, k, cur >= f.ActivationEpoch+uint64(spec.SHARD_COMMITTEE_PERIOD)})
		}
	}
	rng.Shuffle(len(free), func(i, j int) { free[i], free[j] = free[j], free[i] })
	if len(free) < 3 || len(free) < len(fs.Validators)/2 {
		return // never thin out a registry that is already short of free validators
	}
	root := func(x byte) (r common.Root) {
		r[0], r[1], r[31] = 0xcf, x, byte(fs.Slot)
		return
	}
	hf := tree.GetHashFn()
	gvr := fs.GenesisValidatorsRoot
	// the three objects; sign(other) = under the version the specification does NOT name
	mkAtt := func(x cand, other bool) phase0.AttesterSlashing {
		d1 := phase0.AttestationData{Slot: before, Index: 0, BeaconBlockRoot: root(5),
			Source: common.Checkpoint{Epoch: 0, Root: root(6)}, Target: common.Checkpoint{Epoch: common.Epoch(fe), Root: root(7)}}
		d2 := d1
		d2.BeaconBlockRoot = root(8)
		who := []common.ValidatorIndex{x.v}
		sig := func(d *phase0.AttestationData) common.BLSSignature {
			if !other {
				return c.SignIndexed(s.PreBlock, d, who)
			}
			return c.Keys.SignAggregate([]int{x.k}, signingRoot(d.HashTreeRoot(hf), computeDomain(domainBeaconAttester, fs.ForkPrevVersion, gvr)))
		}
		return phase0.AttesterSlashing{
			Attestation1: phase0.IndexedAttestation{AttestingIndices: who, Data: d1, Signature: sig(&d1)},
			Attestation2: phase0.IndexedAttestation{AttestingIndices: who, Data: d2, Signature: sig(&d2)}}
	}
	mkProp := func(x cand, other bool) phase0.ProposerSlashing {
		h1 := common.BeaconBlockHeader{Slot: before, ProposerIndex: x.v, ParentRoot: root(1), StateRoot: root(2), BodyRoot: root(3)}
		h2 := h1
		h2.BodyRoot = root(4)
		sig := func(h common.BeaconBlockHeader) common.SignedBeaconBlockHeader {
			if !other {
				return c.SignHeader(s.PreBlock, h, x.k)
			}
			return common.SignedBeaconBlockHeader{Message: h, Signature: c.Keys.Sign(x.k, signingRoot(h.HashTreeRoot(hf), computeDomain(domainBeaconProposer, fs.ForkCurrVersion, gvr)))}
		}
		return phase0.ProposerSlashing{SignedHeader1: sig(h1), SignedHeader2: sig(h2)}
	}
	mkExit := func(x cand, other bool) phase0.SignedVoluntaryExit {
		ex := phase0.VoluntaryExit{Epoch: common.Epoch(fe - 1), ValidatorIndex: x.v}
		if !other {
			return c.SignExit(s.PreBlock, ex, x.k)
		}
		return phase0.SignedVoluntaryExit{Message: ex, Signature: c.Keys.Sign(x.k, signingRoot(ex.HashTreeRoot(hf), computeDomain(domainVoluntaryExit, fs.ForkCurrVersion, gvr)))}
	}
	var exitCand *cand
	for i := 2; i < len(free); i++ {
		if free[i].old {
			exitCand = &free[i]
			break
		}
	}
	roomA := uint64(len(*body0.AttesterSlashings)) < uint64(spec.MAX_ATTESTER_SLASHINGS)
	roomP := uint64(len(*body0.ProposerSlashings)) < uint64(spec.MAX_PROPOSER_SLASHINGS)
	roomE := uint64(len(*body0.VoluntaryExits)) < uint64(spec.MAX_VOLUNTARY_EXITS) && exitCand != nil
	if !roomA && !roomP && !roomE {
		return
	}
	{
		b := s.Block.Clone(spec)
		body := b.Body()
		if roomA {
			*body.AttesterSlashings = append(*body.AttesterSlashings, mkAtt(free[0], false))
		}
		if roomP {
			*body.ProposerSlashings = append(*body.ProposerSlashings, mkProp(free[1], false))
		}
		if roomE {
			*body.VoluntaryExits = append(*body.VoluntaryExits, mkExit(*exitCand, false))
		}
		c.SignBlock(b, s.PreBlock)
		valid = append(valid, blockVariant{"ops-signed-across-the-fork-boundary(valid)", "valid", fs, b})
	}
	one := func(label, rule string, f func(body chain.BodyRef)) {
		b := s.Block.Clone(spec)
		f(b.Body())
		c.SignBlock(b, s.PreBlock)
		muts = append(muts, chain.Mutant{Label: label, Rule: rule, Resigned: true, Block: b})
	}
	if roomA {
		one("attester_slashing.signature:version-of-the-vote-slot-epoch-not-of-the-target-epoch", "attester_slashing.signature.fork", func(body chain.BodyRef) {
			*body.AttesterSlashings = append(*body.AttesterSlashings, mkAtt(free[0], true))
		})
	}
	if roomP {
		one("proposer_slashing.signature:current-version-for-a-header-before-the-fork", "proposer_slashing.signature.fork", func(body chain.BodyRef) {
			*body.ProposerSlashings = append(*body.ProposerSlashings, mkProp(free[1], true))
		})
	}
	if roomE && flat.ForkIndex(fs.Fork) < 4 {
		one("voluntary_exit.signature:current-version-for-an-exit-epoch-before-the-fork", "exit.signature.fork", func(body chain.BodyRef) {
			*body.VoluntaryExits = append(*body.VoluntaryExits, mkExit(*exitCand, true))
		})
	}
	return
}

// blsPrefixVariants: the block's first BLS-to-execution change meets a validator whose withdrawal credentials carry
// another first byte than BLS_WITHDRAWAL_PREFIX (0x02, 0xff) over the SAME 31 hash bytes — refused for the prefix, the
// hash and the signature would pass — or the BLS prefix over a wrong hash.
func blsPrefixVariants(s *chain.Step, fs *flat.State) (out []blockVariant) {
	ch := s.Block.Body().BLSChanges
	if ch == nil || len(*ch) == 0 {
		return nil
	}
	vi := int((*ch)[0].BLSToExecutionChange.ValidatorIndex)
	if vi >= len(fs.Validators) || fs.Validators[vi].WithdrawalCredentials[0] != 0 {
		return nil
	}
	for _, e := range []struct {
		label string
		f     func(w *[32]byte)
	}{
		{"pre-state:bls-change-validator-credentials-prefix-0x02-same-hash", func(w *[32]byte) { w[0] = 0x02 }},
		{"pre-state:bls-change-validator-credentials-prefix-0xff-same-hash", func(w *[32]byte) { w[0] = 0xff }},
		{"pre-state:bls-change-validator-credentials-bls-prefix-wrong-hash", func(w *[32]byte) { w[7] ^= 0x40 }},
	} {
		g := *fs
		g.Validators = append([]flat.Validator(nil), fs.Validators...)
		e.f(&g.Validators[vi].WithdrawalCredentials)
		out = append(out, blockVariant{e.label, "bls_change.credentials", &g, nil})
	}
	return out
}

// compensate returns a + x and b - x (G2 point arithmetic on the decompressed signatures): each of the two is an invalid
// signature for its own message, their sum is unchanged — what a batched (aggregated) verification cannot see.
func compensate(a, b, x common.BLSSignature) (common.BLSSignature, common.BLSSignature, bool) {
	g := kbls.NewG2()
	pa, e1 := g.FromCompressed(a[:])
	pb, e2 := g.FromCompressed(b[:])
	px, e3 := g.FromCompressed(x[:])
	if e1 != nil || e2 != nil || e3 != nil || g.IsZero(px) {
		return a, b, false
	}
	var ra, rb common.BLSSignature
	nx := g.Neg(g.New(), px)
	copy(ra[:], g.ToCompressed(g.Add(g.New(), pa, px)))
	copy(rb[:], g.ToCompressed(g.Add(g.New(), pb, nx)))
	return ra, rb, true
}

// compensatingMutants (c03): wherever the specification verifies SEVERAL signatures one by one, two of them are changed
// to s1 + X and s2 - X (X = the block's randao reveal, a valid signature point): the two headers of a proposer slashing,
// the two indexed attestations of an attester slashing, two voluntary exits, an exit and the randao reveal. Slashings
// are made by hand when the block has none and a free validator exists.
func compensatingMutants(c *chain.Chain, s *chain.Step, fs *flat.State) []chain.Mutant {
	var out []chain.Mutant
	spec := c.Spec
	x := *s.Block.Body().RandaoReveal
	add := func(label, rule string, f func(body chain.BodyRef) bool) {
		b := s.Block.Clone(spec)
		if !f(b.Body()) {
			return
		}
		c.SignBlock(b, s.PreBlock)
		out = append(out, chain.Mutant{Label: label, Rule: rule, Resigned: true, Block: b})
	}
	// a free validator for hand-made slashings
	cur := fs.Slot / uint64(spec.SLOTS_PER_EPOCH)
	body0 := s.Block.Body()
	touched := map[common.ValidatorIndex]bool{s.Proposer: true}
	for _, ex := range *body0.VoluntaryExits {
		touched[ex.Message.ValidatorIndex] = true
	}
	if body0.BLSChanges != nil {
		for _, ch := range *body0.BLSChanges {
			touched[ch.BLSToExecutionChange.ValidatorIndex] = true
		}
	}
	freeV, freeK, haveFree := common.ValidatorIndex(0), 0, false
	for i := len(fs.Validators) - 1; i >= 0 && !haveFree; i-- {
		f := &fs.Validators[i]
		v := common.ValidatorIndex(i)
		if touched[v] || f.Slashed || f.ActivationEpoch > cur || f.ExitEpoch != ^uint64(0) || f.WithdrawableEpoch != ^uint64(0) {
			continue
		}
		if k, ok := c.KeyOf(v); ok {
			freeV, freeK, haveFree = v, k, true
		}
	}
	root := func(b byte) (r common.Root) {
		r[0], r[1], r[31] = 0xc5, b, byte(fs.Slot)
		return
	}
	add("proposer_slashing.signatures:compensating(s1+X,s2-X)", "proposer_slashing.signature", func(body chain.BodyRef) bool {
		ps := body.ProposerSlashings
		if len(*ps) == 0 {
			if !haveFree || uint64(spec.MAX_PROPOSER_SLASHINGS) == 0 {
				return false
			}
			h1 := common.BeaconBlockHeader{Slot: common.Slot(fs.Slot), ProposerIndex: freeV, ParentRoot: root(1), StateRoot: root(2), BodyRoot: root(3)}
			h2 := h1
			h2.BodyRoot = root(4)
			*ps = append(*ps, phase0.ProposerSlashing{SignedHeader1: c.SignHeader(s.PreBlock, h1, freeK), SignedHeader2: c.SignHeader(s.PreBlock, h2, freeK)})
		}
		p := &(*ps)[len(*ps)-1]
		a, b, ok := compensate(p.SignedHeader1.Signature, p.SignedHeader2.Signature, x)
		p.SignedHeader1.Signature, p.SignedHeader2.Signature = a, b
		return ok
	})
	add("attester_slashing.signatures:compensating(s1+X,s2-X)", "attester_slashing.signature", func(body chain.BodyRef) bool {
		as := body.AttesterSlashings
		if len(*as) == 0 {
			if !haveFree || uint64(spec.MAX_ATTESTER_SLASHINGS) == 0 {
				return false
			}
			d1 := phase0.AttestationData{Slot: common.Slot(fs.Slot), Index: 0, BeaconBlockRoot: root(5),
				Source: common.Checkpoint{Epoch: 0, Root: root(6)}, Target: common.Checkpoint{Epoch: common.Epoch(cur), Root: root(7)}}
			d2 := d1
			d2.BeaconBlockRoot = root(8)
			who := []common.ValidatorIndex{freeV}
			*as = append(*as, phase0.AttesterSlashing{
				Attestation1: phase0.IndexedAttestation{AttestingIndices: who, Data: d1, Signature: c.SignIndexed(s.PreBlock, &d1, who)},
				Attestation2: phase0.IndexedAttestation{AttestingIndices: who, Data: d2, Signature: c.SignIndexed(s.PreBlock, &d2, who)}})
		}
		p := &(*as)[len(*as)-1]
		a, b, ok := compensate(p.Attestation1.Signature, p.Attestation2.Signature, x)
		p.Attestation1.Signature, p.Attestation2.Signature = a, b
		return ok
	})
	add("voluntary_exits.signatures:compensating-across-two-exits", "exit.signature", func(body chain.BodyRef) bool {
		ex := *body.VoluntaryExits
		if len(ex) < 2 {
			return false
		}
		a, b, ok := compensate(ex[0].Signature, ex[1].Signature, x)
		ex[0].Signature, ex[1].Signature = a, b
		return ok
	})
	add("voluntary_exit+randao.signatures:compensating-across-operations", "randao.signature", func(body chain.BodyRef) bool {
		ex := *body.VoluntaryExits
		if len(ex) < 1 {
			return false
		}
		// X must differ from the randao reveal itself here: the exit's own signature doubled is a valid point too
		a, b, ok := compensate(ex[0].Signature, *body.RandaoReveal, ex[0].Signature)
		ex[0].Signature, *body.RandaoReveal = a, b
		return ok
	})
	return out
}

// blockVariant: a pre-state variant together with the block to run on it (nil: the step's block).
type blockVariant struct {
	label, rule string
	st          *flat.State
	block       *chain.SignedBlock
}

// participationVariant fills both participation lists with every flag byte 0..7 (validator i gets (i*5+slot) mod 8 and
// (i*3+slot+1) mod 8): the block's attestations then meet validators that already hold any subset of the
// timely-source/target/head flags — as after late, wrong-head or wrong-target attestations included earlier. The block
// stays valid (participation flags are only read by attestations and by epoch processing).
func participationVariant(s *chain.Step, fs *flat.State) (out []blockVariant) {
	if flat.ForkIndex(fs.Fork) < 1 || len(*s.Block.Body().Attestations) == 0 {
		return nil
	}
	g := *fs
	g.PrevParticipation = make([]uint64, len(fs.PrevParticipation))
	g.CurrParticipation = make([]uint64, len(fs.CurrParticipation))
	for i := range g.PrevParticipation {
		g.PrevParticipation[i] = (uint64(i)*5 + uint64(s.Slot)) % 8
	}
	for i := range g.CurrParticipation {
		g.CurrParticipation[i] = (uint64(i)*3 + uint64(s.Slot) + 1) % 8
	}
	return []blockVariant{{"pre-state:participation-flags-all-patterns", "valid", &g, nil}}
}

// exitAgeVariants: for a block with voluntary exits, the exiting validators joined later than they became eligible
// (activation_eligibility_epoch 0, as after a deposit) and have been active for exactly SHARD_COMMITTEE_PERIOD epochs
// (accepted) or one epoch less (refused). The block runs without its attestations, so that the committees of the
// previous epoch (which the changed activation epochs can alter) play no role.
func exitAgeVariants(c *chain.Chain, spec *common.Spec, s *chain.Step, fs *flat.State) (out []blockVariant) {
	exits := *s.Block.Body().VoluntaryExits
	if len(exits) == 0 {
		return nil
	}
	cur := fs.Slot / uint64(spec.SLOTS_PER_EPOCH)
	period := uint64(spec.SHARD_COMMITTEE_PERIOD)
	if cur < period {
		return nil
	}
	sb := s.Block.Clone(spec)
	*sb.Body().Attestations = nil
	for _, d := range []uint64{0, 1} {
		if d == 1 && period == 0 {
			continue
		}
		g := *fs
		g.Validators = append([]flat.Validator(nil), fs.Validators...)
		for _, e := range exits {
			if vi := int(e.Message.ValidatorIndex); vi < len(g.Validators) {
				g.Validators[vi].ActivationEligibilityEpoch = 0
				g.Validators[vi].ActivationEpoch = cur - period + d
			}
		}
		if d == 0 {
			out = append(out, blockVariant{"pre-state:exiting-validator-aged-exactly-the-period", "valid", &g, sb})
		} else {
			out = append(out, blockVariant{"pre-state:exiting-validator-one-epoch-too-young", "voluntary_exit.too_young", &g, sb})
		}
	}
	return out
}

// submitOddDeposit sends one unusual but well-formed deposit to the deposit contract (the contract checks
// nothing but the amount format); the chain includes it when the protocol says so. Returns the kind.
func submitOddDeposit(c *chain.Chain, rng *rand.Rand, key int) string {
	eth := common.Gwei(1_000_000_000)
	creds := c.Keys.BLSCredentials(key)
	switch rng.Intn(9) {
	case 0: // not a curve point
		d := c.MakeDeposit(key, creds, 32*eth, key)
		for i := range d.Pubkey {
			d.Pubkey[i] = byte(rng.Intn(256))
		}
		d.Pubkey[0] |= 0x80
		c.SubmitDeposit(d)
		return "garbage-pubkey"
	case 1: // the point at infinity as key and as signature
		d := common.DepositData{WithdrawalCredentials: creds, Amount: 32 * eth}
		d.Pubkey[0], d.Signature[0] = 0xc0, 0xc0
		c.SubmitDeposit(d)
		return "infinity-pubkey-and-signature"
	case 2: // signature bytes that are no curve point
		d := c.MakeDeposit(key, creds, 32*eth, key)
		for i := range d.Signature {
			d.Signature[i] = byte(rng.Intn(256))
		}
		c.SubmitDeposit(d)
		return "garbage-signature"
	case 3: // one gwei: a validator with effective balance 0
		c.SubmitDeposit(c.MakeDeposit(key, creds, 1, key))
		return "new-validator-1-gwei"
	case 4: // far above the maximum effective balance
		c.SubmitDeposit(c.MakeDeposit(key, creds, 70*eth+12345, key))
		return "new-validator-70-eth"
	case 5: // the same new key twice in a row: the second deposit is a top-up of the validator the first one creates
		c.SubmitDeposit(c.MakeDeposit(key, creds, 32*eth, key))
		c.SubmitDeposit(c.MakeDeposit(key, creds, 3*eth, key))
		return "new-validator-then-top-up"
	case 6: // top-up of an existing validator with a signature by somebody else (top-ups are not signature checked)
		c.SubmitDeposit(c.MakeDeposit(rng.Intn(16), creds, 2*eth, key+1))
		return "top-up-foreign-signature"
	case 7: // proof of possession over another amount
		d := c.MakeDeposit(key, creds, 32*eth, key)
		d.Amount = 31 * eth
		c.SubmitDeposit(d)
		return "signature-over-other-amount"
	default: // a second deposit for a key whose first deposit had an invalid proof of possession, now valid
		d := c.MakeDeposit(key, creds, 32*eth, key+1)
		c.SubmitDeposit(d)
		c.SubmitDeposit(c.MakeDeposit(key, creds, 32*eth, key))
		return "bad-pop-then-good-pop"
	}
}

func flatblockOf(b *chain.SignedBlock) (*flatblock.Typed, error) { return flatblock.Of(b.Obj) }
