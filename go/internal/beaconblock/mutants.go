package beaconblock

import (
	"math/rand"

	"github.com/protolambda/zrnt/eth2/beacon/common"
	"github.com/protolambda/zrnt/eth2/beacon/phase0"

	"verifharness/internal/chain"
	"verifharness/internal/flat"
)

// extraMutants are this component's additions to chain.Mutations: block shapes the SSZ layer would refuse but
// the typed API lets through (malformed / over-long bitlists, over-limit index lists).
func extraMutants(c *chain.Chain, s *chain.Step, rng *rand.Rand) []chain.Mutant {
	var out []chain.Mutant
	add := func(label, rule string, f func(b *chain.SignedBlock, body chain.BodyRef) bool) {
		b := s.Block.Clone(c.Spec)
		if !f(b, b.Body()) {
			return
		}
		c.SignBlock(b, s.PreBlock)
		out = append(out, chain.Mutant{Label: label, Rule: rule, Resigned: true, Block: b})
	}
	if n := len(*s.Block.Body().Attestations); n > 0 {
		i := rng.Intn(n)
		add("attestation.bits:empty-bytes", "ssz.malformed_bitlist", func(b *chain.SignedBlock, body chain.BodyRef) bool {
			(*body.Attestations)[i].AggregationBits = phase0.AttestationBits{}
			return true
		})
		add("attestation.bits:trailing-zero-byte", "ssz.malformed_bitlist", func(b *chain.SignedBlock, body chain.BodyRef) bool {
			a := &(*body.Attestations)[i]
			a.AggregationBits = append(append(phase0.AttestationBits{}, a.AggregationBits...), 0)
			return true
		})
		add("attestation.bits:only-delimiter", "attestation.bits_length", func(b *chain.SignedBlock, body chain.BodyRef) bool {
			(*body.Attestations)[i].AggregationBits = phase0.AttestationBits{1}
			return true
		})
		add("attestation.bits:over-limit", "limits.aggregation_bits", func(b *chain.SignedBlock, body chain.BodyRef) bool {
			n := uint64(c.Spec.MAX_VALIDATORS_PER_COMMITTEE) + 1
			bits := make(phase0.AttestationBits, n/8+1)
			bits[n/8] = 1 << (n % 8)
			bits[0] = 1
			(*body.Attestations)[i].AggregationBits = bits
			return true
		})
		add("attestation.bits:extra-high-bit", "attestation.bits_length", func(b *chain.SignedBlock, body chain.BodyRef) bool {
			// move the delimiter one bit up: one more (unset) participant bit than the committee has members
			a := &(*body.Attestations)[i]
			bits, ok := decodeBitlist(a.AggregationBits)
			if !ok {
				return false
			}
			n := len(bits) + 1
			nb := make(phase0.AttestationBits, n/8+1)
			for j, v := range bits {
				if v {
					nb[j/8] |= 1 << (uint(j) % 8)
				}
			}
			nb[n/8] |= 1 << (uint(n) % 8)
			a.AggregationBits = nb
			return true
		})
	}
	if n := len(*s.Block.Body().AttesterSlashings); n > 0 {
		i := rng.Intn(n)
		add("attester_slashing.indices:over-limit", "limits.attesting_indices", func(b *chain.SignedBlock, body chain.BodyRef) bool {
			a := &(*body.AttesterSlashings)[i].Attestation1
			for v := uint64(0); v <= uint64(c.Spec.MAX_VALIDATORS_PER_COMMITTEE); v++ {
				a.AttestingIndices = append(a.AttestingIndices, common.ValidatorIndex(1<<20+v))
			}
			return true
		})
		add("attester_slashing.indices:marker", "attester_slashing.attestation_1_invalid", func(b *chain.SignedBlock, body chain.BodyRef) bool {
			// the value ZigZagJoin uses as its end-of-list marker, as an (out of range) attesting index
			a := &(*body.AttesterSlashings)[i].Attestation1
			a.AttestingIndices = append(a.AttestingIndices, common.ValidatorIndex(^uint64(0)))
			return true
		})
	}
	return out
}

type stateVariant struct {
	label, rule string
	st          *flat.State
}

// stateVariants returns modified copies of the flat pre-block state on which the step's (otherwise valid)
// block must be refused for a reason no mutation of the block can produce.
func stateVariants(spec *common.Spec, s *chain.Step, fs *flat.State, rng *rand.Rand) []stateVariant {
	var out []stateVariant
	clone := func() *flat.State {
		g := *fs
		g.Validators = append([]flat.Validator(nil), fs.Validators...)
		g.Eth1DataVotes = append([]flat.Eth1Data(nil), fs.Eth1DataVotes...)
		g.Balances = append([]uint64(nil), fs.Balances...)
		return &g
	}
	if rng.Intn(3) == 0 {
		// the proposer has been slashed
		g := clone()
		p := int(s.Proposer)
		if p < len(g.Validators) {
			g.Validators[p].Slashed = true
			out = append(out, stateVariant{"pre-state:proposer-slashed", "header.proposer_slashed", g})
		}
	}
	if rng.Intn(3) == 0 {
		// a block was already processed in this slot: latest_block_header.slot == state.slot
		g := clone()
		g.Header.Slot = g.Slot
		out = append(out, stateVariant{"pre-state:latest-header-at-same-slot", "header.not_newer_than_latest", g})
	}
	if rng.Intn(4) == 0 {
		// the eth1 votes list is already full (cannot happen at a period boundary; the list limit must hold anyway)
		g := clone()
		limit := int(uint64(spec.EPOCHS_PER_ETH1_VOTING_PERIOD) * uint64(spec.SLOTS_PER_EPOCH))
		for len(g.Eth1DataVotes) < limit {
			g.Eth1DataVotes = append(g.Eth1DataVotes, flat.Eth1Data{DepositCount: uint64(len(g.Eth1DataVotes))})
		}
		out = append(out, stateVariant{"pre-state:eth1-votes-full", "eth1_data.votes_list_full", g})
	}
	if rng.Intn(4) == 0 && flat.ForkIndex(fs.Fork) >= 3 {
		// the withdrawal sweep cursor elsewhere: the payload's withdrawals no longer match
		g := clone()
		g.NextWithdrawalValIdx = (g.NextWithdrawalValIdx + 1 + uint64(rng.Intn(len(g.Validators)-1))) % uint64(len(g.Validators))
		out = append(out, stateVariant{"pre-state:withdrawal-cursor-moved", "withdrawals.mismatch", g})
	}
	return out
}
