// Package beaconblock is the harness of properties C01 (block transition equals the consensus spec for every
// valid block) and C03 (every block the spec rejects is rejected, without panicking).
//
// Modes c01 and c03 share one stateful line protocol (see /verif/lean/Zrnt/Beacon/BlockDriver.lean):
//
//	pre <config tokens> <flat state tokens>                       -> pre-ok
//	blk mode=post tag=<label> fv=<fork version hex> <flat block tokens incl. oracle tokens>
//	                                                              -> ok <abbreviated post-state> | err | panic
//	reset
//
// The pre-state of mode=post is the chain state AFTER slot processing up to the block's slot; the Go side
// answers with the real common.PostSlotTransition (proposer signature, per-fork ProcessBlock, state-root
// check; signature validation on) on a copy of that state with an epochs context computed from it.
// The Lean side answers with the specification S. c01 streams the valid blocks of generated chains, c03 the
// mutants of each of those blocks (chain.Mutations + the additions in mutants.go).
package beaconblock

import (
	"bufio"
	"context"
	"encoding/hex"
	"errors"
	"fmt"
	"os"
	"runtime/pprof"
	"sort"
	"strings"
	"sync"

	"github.com/protolambda/zrnt/eth2/beacon"
	"github.com/protolambda/zrnt/eth2/beacon/common"
	"github.com/protolambda/zrnt/eth2/configs"
	"github.com/protolambda/ztyp/tree"
	"github.com/protolambda/ztyp/view"

	"verifharness/internal/chain"
	"verifharness/internal/flat"
	"verifharness/internal/flatblock"
	"verifharness/internal/hreg"
)

func init() {
	hreg.Register(&hreg.Mode{Name: "c01", Gen: func(o hreg.Opts, w *bufio.Writer) error { return gen(o, w, false) }, Exec: exec})
	hreg.Register(&hreg.Mode{Name: "c03", Gen: func(o hreg.Opts, w *bufio.Writer) error { return gen(o, w, true) }, Exec: exec})
}

// chainPlan is one generated chain.
type chainPlan struct {
	cfg        *chain.Config
	validators int
	balances   string
	slots      int
	seed       int64
	late       bool // attestations are often held back, split into overlapping aggregates, and vote for odd heads/targets
}

// sweep returns cfg with another MAX_VALIDATORS_PER_WITHDRAWALS_SWEEP.
func sweep(cfg *chain.Config, n uint64) *chain.Config {
	cfg.Spec.MAX_VALIDATORS_PER_WITHDRAWALS_SWEEP = view.Uint64View(n)
	cfg.ID += fmt.Sprintf("+sweep%d", n)
	return cfg
}

func plans(o hreg.Opts) []chainPlan {
	rng := o.Rand()
	N := chain.Never
	var p []chainPlan
	add := func(cfg *chain.Config, n int, bal string, slots int) {
		p = append(p, chainPlan{cfg: cfg, validators: n, balances: bal, slots: slots, seed: rng.Int63()})
	}
	if !o.Thorough() {
		// every fork is reached; fork boundaries adjacent, equal and spread; one published-minimal chain
		add(chain.Fast(1, 2, 3, 4), 64, "mixed", 56)
		add(chain.Fast(0, 0, 0, 0), 48, "mixed", 40)
		add(chain.Fast(N, N, N, N), 48, "mixed", 40)
		add(chain.Fast(0, 1, N, N), 32, "rich", 32)
		add(chain.Fast(0, 0, 1, 3), 48, "poor", 40)
		add(chain.Fast(0, 0, 0, N), 48, "rich", 28)
		// registries SMALLER than MAX_VALIDATORS_PER_WITHDRAWALS_SWEEP and not dividing it (the sweep cursor wraps
		// around the registry more than once): capella and deneb
		add(sweep(chain.Fast(0, 0, 0, N), 16), 12, "rich", 20)
		add(sweep(chain.Fast(0, 0, 0, 0), 16), 13, "rich", 20)
		add(sweep(chain.Fast(0, 0, 0, 1), 20), 11, "rich", 20)
		add(chain.Fast(0, N, N, N), 32, "mixed", 24)
		add(chain.MinimalAt(1, 2, 3, 4), 64, "uniform", 44)
		add(chain.RandomConfig(rng.Int63n(1<<30)), 48, "mixed", 32)
		add(chain.RandomConfig(rng.Int63n(1<<30)), 32, "mixed", 32)
		// late, split and odd votes: validators are attested again with other flag sets (altair and deneb windows)
		add(chain.Fast(0, N, N, N), 48, "mixed", 24)
		p[len(p)-1].late = true
		add(chain.Fast(0, 0, 0, 1), 48, "mixed", 24)
		p[len(p)-1].late = true
		return p
	}
	for i := 0; i < 10; i++ {
		add(chain.Fast(common.Epoch(rng.Intn(3)), common.Epoch(2+rng.Intn(2)), common.Epoch(4+rng.Intn(2)), common.Epoch(6+rng.Intn(2))), 32+16*rng.Intn(5), "mixed", 72)
	}
	add(chain.Fast(N, N, N, N), 64, "mixed", 64)
	add(chain.Fast(0, N, N, N), 64, "mixed", 64)
	add(chain.Fast(0, 0, N, N), 64, "poor", 64)
	add(chain.Fast(0, 0, 0, N), 64, "rich", 64)
	add(chain.Fast(0, 0, 0, 0), 128, "mixed", 64)
	add(sweep(chain.Fast(0, 0, 0, N), 16), 12, "rich", 48)
	add(sweep(chain.Fast(0, 0, 0, 0), 16), 13, "rich", 48)
	add(sweep(chain.Fast(0, 0, 0, 1), 20), 11, "mixed", 48)
	add(sweep(chain.Fast(0, 0, 0, 0), 24), 20, "rich", 48)
	add(chain.MinimalAt(1, 2, 3, 4), 64, "mixed", 64)
	add(chain.Minimal(), 64, "mixed", 48)
	for _, cfg := range []*chain.Config{chain.Fast(0, N, N, N), chain.Fast(0, 0, N, N), chain.Fast(0, 0, 0, 2), chain.MinimalAt(0, 1, 2, 3)} {
		add(cfg, 64, "mixed", 56)
		p[len(p)-1].late = true
	}
	for i := 0; i < 12; i++ {
		add(chain.RandomConfig(rng.Int63n(1<<30)), 16+16*rng.Intn(8), []string{"mixed", "uniform", "rich", "poor"}[rng.Intn(4)], 56)
	}
	return p
}

type seqOut struct {
	lines []string
	stats [][2]string
	err   error
}

func gen(o hreg.Opts, w *bufio.Writer, mutants bool) error {
	if f := os.Getenv("VERIF_CPUPROFILE"); f != "" {
		if fh, err := os.Create(f); err == nil {
			pprof.StartCPUProfile(fh) // pprofStart
			defer pprof.StopCPUProfile()
		}
	}
	ps := plans(o)
	outs := make([]seqOut, len(ps))
	var wg sync.WaitGroup
	sem := make(chan struct{}, 8)
	for i := range ps {
		wg.Add(1)
		go func(i int) {
			defer wg.Done()
			sem <- struct{}{}
			defer func() { <-sem }()
			outs[i] = genChain(o, ps[i], mutants)
		}(i)
	}
	wg.Wait()
	for i := range outs {
		if outs[i].err != nil {
			return fmt.Errorf("chain %d (%s): %w", i, ps[i].cfg.ID, outs[i].err)
		}
		for _, s := range outs[i].stats {
			o.Stats.Add(s[0], s[1])
		}
		for _, l := range outs[i].lines {
			w.WriteString(l)
			w.WriteByte('\n')
		}
	}
	return nil
}

// postRoot runs the real block processing WITHOUT result validation on a copy of the pre-block state and
// returns the hash-tree-root of the state it reaches (nil: the real code rejects or panics).
func postRoot(spec *common.Spec, pre common.BeaconState, tb *flatblock.Typed, fv common.Version, gvr common.Root, engine string) (out *[32]byte) {
	defer func() {
		if r := recover(); r != nil {
			out = nil
		}
	}()
	st := chain.CopyState(pre)
	sp := withEngine(spec, engine)
	epc, err := common.NewEpochsContext(sp, st)
	if err != nil {
		return nil
	}
	env := tb.Obj().Envelope(sp, common.ComputeForkDigest(fv, gvr))
	if err := common.PostSlotTransition(context.Background(), sp, epc, st, env, false); err != nil {
		return nil
	}
	r := [32]byte(st.HashTreeRoot(tree.GetHashFn()))
	return &r
}

func withEngine(spec *common.Spec, verdict string) *common.Spec {
	sp := *spec
	e := chain.NewMockEngine(&sp)
	switch verdict {
	case "invalid":
		e.Default = chain.EngineInvalid
	case "error":
		e.Default = chain.EngineError
	}
	sp.ExecutionEngine = e
	return &sp
}

func engineOf(mu *chain.Mutant) string {
	for _, v := range mu.Engine {
		switch v {
		case chain.EngineInvalid:
			return "invalid"
		case chain.EngineError:
			return "error"
		}
	}
	return "valid"
}

func tagOf(s string) string {
	s = strings.Map(func(r rune) rune {
		if r == ' ' || r == '=' || r == '\t' {
			return '_'
		}
		return r
	}, s)
	if s == "" {
		return "-"
	}
	return s
}

func genChain(o hreg.Opts, p chainPlan, mutants bool) (out seqOut) {
	defer func() {
		if r := recover(); r != nil {
			out.err = fmt.Errorf("panic: %v", r)
		}
	}()
	stat := func(h, b string) { out.stats = append(out.stats, [2]string{h, b}) }
	c, err := chain.NewChain(p.cfg, p.validators, p.balances, p.seed)
	if err != nil {
		out.err = err
		return
	}
	c.Policy = chain.DefaultPolicy()
	c.Policy.SkipProb = 0.08
	if p.late {
		c.Policy.LateInclusionProb, c.Policy.SplitProb, c.Policy.OddVoteProb = 0.5, 0.45, 0.2
		stat("chain_policy", "late-split-odd-votes")
	}
	if mutants {
		// the same chains as c01 would be fine; a slightly quieter policy keeps the mutant volume per block bounded
	}
	spec := c.Spec
	cfgToks := flat.SpecTokens(spec)
	perBlock := o.Pick(18, 120)
	perKind := o.Pick(2, 0)
	rng := o.Rand()
	stat("chain_config", p.cfg.ID)
	var gapPre common.BeaconState // state before the first of a run of skipped slots
	slots := p.slots
	if !mutants {
		slots *= 3 // valid blocks are cheap (no mutant volume): longer chains for c01
	}
	oddKey := 2000
	for i := 0; i < slots; i++ {
		if rng.Intn(8) == 0 {
			oddKey += 2
			stat("odd_deposits", submitOddDeposit(c, rng, oddKey))
		}
		step, err := c.NextSlot(nil)
		if err != nil {
			// the real code refused a block the generator built as valid: hand exactly that block to both sides
			// (a concrete failing input if the specification accepts it) and end this chain
			var rej *chain.RejectedError
			if errors.As(err, &rej) && rej.Step != nil && rej.Step.Block != nil && rej.Step.PreBlock != nil {
				rs := rej.Step
				fs, e1 := flat.From(spec, rs.PreBlock)
				pf, e2 := rs.PreBlock.Fork()
				tb, e3 := flatblock.Of(rs.Block.Obj)
				if e1 == nil && e2 == nil && e3 == nil {
					fv := pf.CurrentVersion
					pr := postRoot(spec, rs.PreBlock, tb, fv, c.GenesisValidatorsRoot, "valid")
					orc := ComputeOracle(spec, fs, tb, "valid", pr)
					out.lines = append(out.lines, "pre "+cfgToks+" "+fs.String(),
						fmt.Sprintf("blk mode=post tag=%s fv=%x %s", tagOf("generator-block-refused:"+rej.Stage), fv[:], flatblock.Dump(spec, tb, orc)),
						// a marker the two sides can never agree on (Go: generator-failure, Lean: bad-op): a block the generator
						// built as valid was refused by the real code. Whether S accepts it is on the line above; if S rejects it
						// too, the chain library (it signs with zrnt's own domain helpers) and the real code are at odds.
						fmt.Sprintf("genfail config=%s slot=%d stage=%s", tagOf(p.cfg.ID), rs.Slot, tagOf(rej.Stage)), "reset")
					stat("chain_aborted", "generated-block-refused-by-real-code")
					stat("chain_summary", c.Counters.Summary())
					return
				}
			}
			out.err = err
			return
		}
		if step.Block == nil {
			stat("slots", "skipped")
			if gapPre == nil {
				gapPre = step.Pre
			}
			continue
		}
		fullPre := step.Pre
		if gapPre != nil {
			fullPre, gapPre = gapPre, nil
		}
		fork := step.Fork.String()
		stat("slots", "block")
		stat("blocks_per_fork", fork)
		fs, err := flat.From(spec, step.PreBlock)
		if err != nil {
			out.err = err
			return
		}
		pf, err := step.PreBlock.Fork()
		if err != nil {
			out.err = err
			return
		}
		fv := pf.CurrentVersion
		out.lines = append(out.lines, "pre "+cfgToks+" "+fs.String())
		// heal: when the real block processing (no result validation) lets a must-reject corruption through, give the
		// block the state root it produced and sign it again, so that the validated run ACCEPTS it and the
		// difference to S is not masked by "invalid state root" (chain.Mutations does the same for its mutants)
		emitOn := func(spec *common.Spec, preFlat *flat.State, preView common.BeaconState, tag string, sb *chain.SignedBlock, engine string, known *[32]byte, heal bool) {
			tb, err := flatblock.Of(sb.Obj)
			if err != nil {
				out.err = err
				return
			}
			pr := known
			if pr == nil {
				pr = postRoot(spec, preView, tb, fv, c.GenesisValidatorsRoot, engine)
			}
			if heal && pr != nil && [32]byte(*sb.Header().StateRoot) != *pr {
				sb = sb.Clone(spec)
				*sb.Header().StateRoot = *pr
				c.SignBlock(sb, preView)
				if tb, err = flatblock.Of(sb.Obj); err != nil {
					out.err = err
					return
				}
				tag += ":healed"
				stat("mutants", "healed-state-root")
			}
			orc := ComputeOracle(spec, preFlat, tb, engine, pr)
			out.lines = append(out.lines, fmt.Sprintf("blk mode=post tag=%s fv=%x %s", tagOf(tag), fv[:], flatblock.Dump(spec, tb, orc)))
		}
		emit := func(tag string, sb *chain.SignedBlock, engine string, known *[32]byte) {
			emitOn(spec, fs, step.PreBlock, tag, sb, engine, known, false)
		}
		if !mutants {
			pr := [32]byte(step.PostRoot)
			emit("valid:"+fork, step.Block, "valid", &pr)
			for _, op := range step.Ops {
				stat("ops_per_kind", string(op.Kind))
				stat("ops_per_kind_and_fork", fork+":"+string(op.Kind))
			}
			stat("ops_in_block", bucket(len(step.Ops)))
			// the same block through the whole state_transition, from the state before slot processing
			if ex, ok := slotExtras(spec, fullPre, step.Slot); ok {
				if pfs, err := flat.From(spec, fullPre); err == nil {
					tb, _ := flatblock.Of(step.Block.Obj)
					orc := ComputeOracle(spec, fs, tb, "valid", &pr)
					out.lines = append(out.lines, "reset", "pre "+cfgToks+" "+pfs.String()+" "+ex,
						fmt.Sprintf("blk mode=full tag=%s fv=%x %s", tagOf("valid-full:"+fork), fv[:], flatblock.Dump(spec, tb, orc)))
					stat("full_transition_slots", bucket(int(step.Slot)-int(pfs.Slot)))
					if pfs.Fork != fs.Fork {
						stat("full_transition", "fork-upgrade-inside:"+pfs.Fork+"->"+fs.Fork)
					} else if (pfs.Slot)/uint64(spec.SLOTS_PER_EPOCH) != uint64(step.Slot)/uint64(spec.SLOTS_PER_EPOCH) {
						stat("full_transition", "epoch-boundary-inside")
					} else {
						stat("full_transition", "same-epoch")
					}
				}
			}
		} else {
			// the chain library would heal every mutant it makes (one more real run each); only a sample is used
			// here, and the sampled re-signed mutants are healed in emitOn
			// the unmutated block too: "Go = S's post-state whenever S accepts" starts with the block itself
			pr := [32]byte(step.PostRoot)
			emit("valid:"+fork, step.Block, "valid", &pr)
			c.NoHealMutants = true
			ms := c.Mutations(step, perKind)
			own := map[string]bool{}
			ownMs := extraMutants(c, step, fs, rng)
			for i := range ownMs {
				own[ownMs[i].Label] = true
			}
			// second stream: single-byte changes of the block's SSZ encoding that still decode (validity unknown by
			// construction; S decides). This component's own mutants and the byte mutants are not part of the
			// per-block sample cut below: always kept.
			bytesMs := c.ByteMutations(step, o.Pick(3, 16), rng.Int63())
			for i := range bytesMs {
				own[bytesMs[i].Label] = true
			}
			if len(ms) > perBlock {
				// deterministic sample that keeps the spread over mutation kinds: shuffle, then cut
				rng.Shuffle(len(ms), func(a, b int) { ms[a], ms[b] = ms[b], ms[a] })
				ms = ms[:perBlock]
				sort.SliceStable(ms, func(a, b int) bool { return ms[a].Label < ms[b].Label })
			}
			ms = append(append(ms, ownMs...), bytesMs...)
			for k := range ms {
				mu := &ms[k]
				emitOn(spec, fs, step.PreBlock, mu.Label, mu.Block, engineOf(mu), nil, own[mu.Label] || (mu.Resigned && mu.Engine == nil))
				if mu.Healed {
					stat("mutants", "healed-by-chain-library")
				}
				stat("mutant_rule_intended", fork+":"+mu.Rule)
				stat("mutant_area", strings.SplitN(strings.SplitN(mu.Label, ".", 2)[0], "[", 2)[0])
				if mu.ExpectValid {
					stat("mutants", "expected-valid")
				} else {
					stat("mutants", "expected-invalid")
				}
			}
		}
		out.lines = append(out.lines, "reset")
		{
			// the block (healed: new state root, signed again) on pre-state variants on which it stays valid or is refused
			// by one rule only; c01: the valid ones
			bvs := participationVariant(step, fs)
			if mutants {
				bvs = append(bvs, exitAgeVariants(c, spec, step, fs)...)
			}
			for _, v := range bvs {
				view, err := v.st.ToView(spec)
				if err != nil {
					out.err = fmt.Errorf("state variant %s: %w", v.label, err)
					return
				}
				blk := step.Block
				if v.block != nil {
					blk = v.block
				}
				out.lines = append(out.lines, "pre "+cfgToks+" "+v.st.String())
				emitOn(spec, v.st, view, v.label, blk, "valid", nil, true)
				out.lines = append(out.lines, "reset")
				stat("state_variants", v.label)
				if mutants {
					stat("mutant_rule_intended", fork+":"+v.rule)
					stat("mutant_area", "pre-state")
					stat("mutants", "state-variant")
				}
			}
		}
		if mutants {
			// the same valid block on variants of the pre-state (rules that no block mutation can reach)
			for _, v := range stateVariants(c, spec, step, fs, rng) {
				sp, toks := spec, cfgToks
				if v.spec != nil {
					sp, toks = v.spec, flat.SpecTokens(v.spec)
				}
				view, err := v.st.ToView(sp)
				if err != nil {
					out.err = fmt.Errorf("state variant %s: %w", v.label, err)
					return
				}
				out.lines = append(out.lines, "pre "+toks+" "+v.st.String())
				emitOn(sp, v.st, view, v.label, step.Block, "valid", nil, true)
				out.lines = append(out.lines, "reset")
				stat("mutant_rule_intended", fork+":"+v.rule)
				stat("mutant_area", "pre-state")
				stat("mutants", "state-variant")
			}
		}
		if out.err != nil {
			return
		}
	}
	stat("chain_summary", c.Counters.Summary())
	return
}

func bucket(n int) string {
	switch {
	case n <= 4:
		return fmt.Sprintf("%d", n)
	case n <= 8:
		return "5-8"
	case n <= 16:
		return "9-16"
	}
	return "17+"
}

// ---------------------------------------------------------------------------------------------
// exec

type preState struct {
	spec *common.Spec
	st   common.BeaconState
	gvr  common.Root
}

// exec answers the lines of a stateful stream. Sequences (separated by `reset`) are independent, so batches of
// them are processed by a pool of workers; the answers are written in input order.
func exec(o hreg.Opts, r *bufio.Scanner, w *bufio.Writer) error {
	const batchLines = 4000
	var batch [][]string // sequences; each ends with its `reset` line if it had one
	var cur []string
	n := 0
	flush := func() {
		outs := make([][]string, len(batch))
		var wg sync.WaitGroup
		sem := make(chan struct{}, 12)
		for i := range batch {
			wg.Add(1)
			go func(i int) {
				defer wg.Done()
				sem <- struct{}{}
				defer func() { <-sem }()
				outs[i] = execSeq(batch[i])
			}(i)
		}
		wg.Wait()
		for _, l := range outs {
			for _, x := range l {
				w.WriteString(x)
				w.WriteByte('\n')
			}
		}
		batch, n = nil, 0
	}
	for r.Scan() {
		line := r.Text()
		cur = append(cur, line)
		n++
		if strings.TrimSpace(line) == "reset" {
			batch = append(batch, cur)
			cur = nil
			if n >= batchLines {
				flush()
			}
		}
	}
	if len(cur) > 0 {
		batch = append(batch, cur)
	}
	flush()
	return r.Err()
}

// execSeq answers one sequence (state is not shared between sequences).
func execSeq(lines []string) []string {
	var cur *preState
	res := make([]string, 0, len(lines))
	for _, line := range lines {
		out := "bad-op"
		t := strings.TrimSpace(line)
		switch {
		case t == "reset":
			cur = nil
			out = "reset"
		case strings.HasPrefix(t, "pre "):
			cur = nil
			kv, rest := flat.KV(t)
			if len(rest) == 1 && rest[0] == "pre" {
				if p := loadPre(kv); p != nil {
					cur, out = p, "pre-ok"
				}
			}
		case strings.HasPrefix(t, "genfail "):
			out = "generator-failure"
		case strings.HasPrefix(t, "blk "):
			kv, rest := flat.KV(t)
			if len(rest) == 1 && rest[0] == "blk" && cur != nil {
				out = hreg.Guard(func() string { return runBlock(cur, kv) })
			}
		}
		res = append(res, out)
	}
	return res
}

func loadPre(kv map[string]string) (p *preState) {
	defer func() {
		if r := recover(); r != nil {
			p = nil
		}
	}()
	sp := *configs.Minimal
	sp.ExecutionEngine = nil
	if err := flat.ApplySpecTokens(&sp, kv); err != nil {
		return nil
	}
	fs, err := flat.Parse(kv)
	if err != nil {
		return nil
	}
	st, err := fs.ToView(&sp)
	if err != nil {
		return nil
	}
	return &preState{spec: &sp, st: st, gvr: fs.GenesisValidatorsRoot}
}

func runBlock(p *preState, kv map[string]string) string {
	mode := kv["mode"]
	if mode != "post" && mode != "full" {
		return "bad-op"
	}
	var fv common.Version
	if b, err := hex.DecodeString(kv["fv"]); err != nil || len(b) != 4 {
		return "bad-op"
	} else {
		copy(fv[:], b)
	}
	tb, orc, err := flatblock.Parse(p.spec, kv)
	if err != nil {
		return "bad-op"
	}
	// the text must be the image of the typed block the real code is about to run on
	for _, f := range flatblock.Fields(p.spec, tb, orc) {
		if kv[f[0]] != f[1] {
			return "bad-op"
		}
	}
	sp := withEngine(p.spec, orc.Engine)
	st := chain.CopyState(p.st)
	epc, err := common.NewEpochsContext(sp, st)
	if err != nil {
		return "err"
	}
	env := tb.Obj().Envelope(sp, common.ComputeForkDigest(fv, p.gvr))
	var post common.BeaconState = st
	if mode == "full" {
		us := chain.WrapState(st)
		if err := common.StateTransition(context.Background(), sp, epc, us, env, true); err != nil {
			return "err"
		}
		post = us.BeaconState
	} else if err := common.PostSlotTransition(context.Background(), sp, epc, st, env, true); err != nil {
		return "err"
	}
	fs, err := flat.From(sp, post)
	if err != nil {
		return "err-dump"
	}
	return "ok " + fs.Abbrev()
}

var _ = beacon.StandardUpgradeableBeaconState{}
