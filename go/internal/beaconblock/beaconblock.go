// Package beaconblock is the harness of properties C01 (block transition equals the consensus spec for every
// valid block) and C03 (every block the spec rejects is rejected, without panicking).
//
// Modes c01 and c03 share one stateful line protocol (see /verif/lean/Zrnt/Beacon/BlockDriver.lean):
//
//	pre <config tokens> <flat state tokens>                       -> pre-ok
//	blk mode=post tag=<label> fv=<fork version hex> <flat block tokens incl. oracle tokens>
//	                                                              -> ok <abbreviated post-state> | err | panic
//	reset
//
// The pre-state of mode=post is the chain state AFTER slot processing up to the block's slot; the Go side
// answers with the real common.PostSlotTransition (proposer signature, per-fork ProcessBlock, state-root
// check; signature validation on) on a copy of that state with an epochs context computed from it.
// The Lean side answers with the specification S. c01 streams the valid blocks of generated chains, c03 the
// mutants of each of those blocks (chain.Mutations + the additions in mutants.go).
package beaconblock

import (
	"bufio"
	"context"
	"encoding/hex"
	"errors"
	"fmt"
	"github.com/protolambda/zrnt/eth2/beacon/bellatrix"
	"github.com/protolambda/zrnt/eth2/beacon/capella"
	"github.com/protolambda/zrnt/eth2/beacon/deneb"
	"os"
	"runtime/pprof"
	"sort"
	"strings"
	"sync"

	"github.com/protolambda/zrnt/eth2/beacon"
	"github.com/protolambda/zrnt/eth2/beacon/common"
	"github.com/protolambda/zrnt/eth2/configs"
	"github.com/protolambda/ztyp/tree"
	"github.com/protolambda/ztyp/view"

	"verifharness/internal/chain"
	"verifharness/internal/flat"
	"verifharness/internal/flatblock"
	"verifharness/internal/hreg"
)

func init() {
	hreg.Register(&hreg.Mode{Name: "c01", Gen: func(o hreg.Opts, w *bufio.Writer) error { return gen(o, w, false) }, Exec: exec})
	hreg.Register(&hreg.Mode{Name: "c03", Gen: func(o hreg.Opts, w *bufio.Writer) error { return gen(o, w, true) }, Exec: exec})
}

// chainPlan is one generated chain.
type chainPlan struct {
	cfg        *chain.Config
	validators int
	balances   string
	slots      int
	seed       int64
	late       bool   // attestations are often held back, split into overlapping aggregates, and vote for odd heads/targets
	policy     string // a named policy of the chain library ("late", "full", "edge", "showcase", …); "": the default policy
	limits     bool   // blocks that carry exactly MAX_x operations of one kind in turn, and attestation backlogs (very late inclusion)
	straddle   bool   // attestation backlog across EVERY fork boundary: nothing included in the epoch before a fork and in the first half of the fork epoch
}

// apart returns cfg with every per-fork constant family taking pairwise different values across the forks and every
// per-block operation limit a different (small) value, so that a constant of the wrong fork or of the wrong
// operation kind changes the outcome: MIN_SLASHING_PENALTY_QUOTIENT{,_ALTAIR,_BELLATRIX} = 128/64/32,
// PROPORTIONAL_SLASHING_MULTIPLIER* = 1/2/3 (the mainnet values), INACTIVITY_PENALTY_QUOTIENT* = 256/384/128,
// MAX_PROPOSER_SLASHINGS 3, MAX_ATTESTER_SLASHINGS 2, MAX_VOLUNTARY_EXITS 4, MAX_DEPOSITS 5, MAX_BLOBS_PER_BLOCK 6,
// MAX_BLS_TO_EXECUTION_CHANGES 7, MAX_ATTESTATIONS 20; MAX_EFFECTIVE_BALANCE 40 ETH, EJECTION_BALANCE 33 ETH, and the electra
// preset's MIN_ACTIVATION_BALANCE 24 ETH / MAX_EFFECTIVE_BALANCE_ELECTRA 2000 ETH / MAX_BLOBS_PER_BLOCK_ELECTRA 9.
func apart(cfg *chain.Config) *chain.Config {
	s := cfg.Spec
	s.MIN_SLASHING_PENALTY_QUOTIENT, s.MIN_SLASHING_PENALTY_QUOTIENT_ALTAIR, s.MIN_SLASHING_PENALTY_QUOTIENT_BELLATRIX = 128, 64, 32
	s.PROPORTIONAL_SLASHING_MULTIPLIER, s.PROPORTIONAL_SLASHING_MULTIPLIER_ALTAIR, s.PROPORTIONAL_SLASHING_MULTIPLIER_BELLATRIX = 1, 2, 3
	s.INACTIVITY_PENALTY_QUOTIENT, s.INACTIVITY_PENALTY_QUOTIENT_ALTAIR, s.INACTIVITY_PENALTY_QUOTIENT_BELLATRIX = 256, 384, 128
	s.MAX_PROPOSER_SLASHINGS, s.MAX_ATTESTER_SLASHINGS, s.MAX_VOLUNTARY_EXITS, s.MAX_DEPOSITS = 3, 2, 4, 5
	s.MAX_BLOBS_PER_BLOCK, s.MAX_BLS_TO_EXECUTION_CHANGES, s.MAX_ATTESTATIONS = 6, 7, 20
	// Gwei constants: no two alike, and none equal to the 32 ETH several of them share in the published presets —
	// including the electra preset constants that deneb code can reach by mistake
	const eth = 1_000_000_000
	s.MAX_EFFECTIVE_BALANCE, s.MIN_ACTIVATION_BALANCE, s.MAX_EFFECTIVE_BALANCE_ELECTRA = 40*eth, 24*eth, 2000*eth
	s.EJECTION_BALANCE = 33 * eth
	s.MAX_BLOBS_PER_BLOCK_ELECTRA, s.MIN_PER_EPOCH_CHURN_LIMIT_ELECTRA, s.MAX_PER_EPOCH_ACTIVATION_EXIT_CHURN_LIMIT = 9, 100*eth, 200*eth
	cfg.ID += "+apart"
	return cfg
}

// limitsOpts: the block of slot i of a `limits` chain. In turn: exactly MAX_x operations of one kind (as far as the
// registry has candidates), bursts of deposits (included MAX_DEPOSITS at a time later on), MAX_BLOBS_PER_BLOCK blobs;
// and every third epoch plus the first half of the next one carry no attestations at all, so that the blocks after
// that include a backlog: MAX_ATTESTATIONS at a time, and — deneb — attestations that are more than SLOTS_PER_EPOCH late.
func limitsOpts(spec *common.Spec, slot uint64, i int) *chain.SlotOpts {
	spe := uint64(spec.SLOTS_PER_EPOCH)
	m := &chain.OpMix{SyncParticipation: 0.9, Transactions: 1, Blobs: 1, OddVoteProb: 0.05}
	switch i % 8 {
	case 0:
		m.ProposerSlashings = int(spec.MAX_PROPOSER_SLASHINGS)
	case 1:
		m.AttesterSlashings = int(spec.MAX_ATTESTER_SLASHINGS)
	case 2:
		m.Exits = int(spec.MAX_VOLUNTARY_EXITS)
	case 3:
		m.NewDeposits, m.TopUps = int(spec.MAX_DEPOSITS)+2, 2
	case 4:
		m.BLSChanges = int(spec.MAX_BLS_TO_EXECUTION_CHANGES)
	case 5:
		m.Blobs = int(spec.MAX_BLOBS_PER_BLOCK)
	case 6:
		m.ProposerSlashings, m.AttesterSlashings, m.Exits = 1, 1, 1
	}
	if e, pos := slot/spe, slot%spe; e%3 == 1 || (e%3 == 2 && pos <= spe/2) {
		m.NoAttestations = true
	}
	return &chain.SlotOpts{Mix: m, Propose: i%8 != 7}
}

// sweep returns cfg with another MAX_VALIDATORS_PER_WITHDRAWALS_SWEEP.
// straddleOpts: no attestations in the epoch before a fork epoch and in the first half of a fork epoch; the second half
// of the fork epoch then includes the backlog: attestations whose target epoch precedes the fork, included by the new
// fork's rules (deneb: also those of the early slots of the last capella epoch, more than one epoch late).
func straddleOpts(spec *common.Spec, slot uint64) *chain.SlotOpts {
	spe := uint64(spec.SLOTS_PER_EPOCH)
	e, pos := slot/spe, slot%spe
	isFork := func(x uint64) bool {
		for _, f := range []common.Epoch{spec.ALTAIR_FORK_EPOCH, spec.BELLATRIX_FORK_EPOCH, spec.CAPELLA_FORK_EPOCH, spec.DENEB_FORK_EPOCH} {
			if uint64(f) == x && x > 0 {
				return true
			}
		}
		return false
	}
	m := &chain.OpMix{SyncParticipation: 0.9, Transactions: 1, Blobs: 1}
	if isFork(e+1) || (isFork(e) && pos <= spe/2) {
		m.NoAttestations = true
	}
	return &chain.SlotOpts{Mix: m, Propose: true}
}

func sweep(cfg *chain.Config, n uint64) *chain.Config {
	cfg.Spec.MAX_VALIDATORS_PER_WITHDRAWALS_SWEEP = view.Uint64View(n)
	cfg.ID += fmt.Sprintf("+sweep%d", n)
	return cfg
}

func plans(o hreg.Opts) []chainPlan {
	rng := o.Rand()
	N := chain.Never
	var p []chainPlan
	add := func(cfg *chain.Config, n int, bal string, slots int) {
		p = append(p, chainPlan{cfg: cfg, validators: n, balances: bal, slots: slots, seed: rng.Int63()})
	}
	if !o.Thorough() {
		// every fork is reached; fork boundaries adjacent, equal and spread; one published-minimal chain
		add(chain.Fast(1, 2, 3, 4), 64, "mixed", 56)
		add(chain.Fast(0, 0, 0, 0), 48, "mixed", 40)
		add(chain.Fast(N, N, N, N), 48, "mixed", 40)
		add(chain.Fast(0, 1, N, N), 32, "rich", 32)
		add(chain.Fast(0, 0, 1, 3), 48, "poor", 40)
		add(chain.Fast(0, 0, 0, N), 48, "rich", 28)
		// registries SMALLER than MAX_VALIDATORS_PER_WITHDRAWALS_SWEEP and not dividing it (the sweep cursor wraps
		// around the registry more than once): capella and deneb
		add(sweep(chain.Fast(0, 0, 0, N), 16), 12, "rich", 20)
		add(sweep(chain.Fast(0, 0, 0, 0), 16), 13, "rich", 20)
		add(sweep(chain.Fast(0, 0, 0, 1), 20), 11, "rich", 20)
		add(chain.Fast(0, N, N, N), 32, "mixed", 24)
		add(chain.MinimalAt(1, 2, 3, 4), 64, "uniform", 44)
		add(chain.RandomConfig(rng.Int63n(1<<30)), 48, "mixed", 32)
		add(chain.RandomConfig(rng.Int63n(1<<30)), 32, "mixed", 32)
		// late, split and odd votes: validators are attested again with other flag sets (altair and deneb windows)
		add(chain.Fast(0, N, N, N), 48, "mixed", 24)
		p[len(p)-1].late = true
		add(chain.Fast(0, 0, 0, 1), 48, "mixed", 24)
		p[len(p)-1].late = true
		// every fork under a configuration whose per-fork constants and per-block limits are pairwise different, with
		// blocks at the limits
		for _, cfg := range []*chain.Config{chain.Fast(N, N, N, N), chain.Fast(0, N, N, N), chain.Fast(0, 0, N, N), chain.Fast(0, 0, 0, N), chain.Fast(0, 0, 0, 0)} {
			add(apart(cfg), 64, "mixed", 18)
			p[len(p)-1].limits = true
		}
		// attestation backlogs across every fork boundary (c01: slots x 3 reaches the last fork; c03: a short prefix)
		add(chain.Fast(1, 2, 3, 4), 64, "mixed", 16)
		p[len(p)-1].straddle = true
		add(chain.Fast(2, 4, 6, 8), 64, "mixed", 24)
		p[len(p)-1].straddle = true
		// the chain library's own "apart" configurations (also: non-power-of-two vectors, other sweeps, all five forks
		// within 7 epochs) under its planned-delay, at-the-limit and payload-edge policies
		for _, pol := range []string{"late", "full", "edge"} {
			add(chain.Apart(rng.Int63n(1<<30)), 64, "mixed", 14)
			p[len(p)-1].policy = pol
		}
		return p
	}
	for i := 0; i < 10; i++ {
		add(chain.Fast(common.Epoch(rng.Intn(3)), common.Epoch(2+rng.Intn(2)), common.Epoch(4+rng.Intn(2)), common.Epoch(6+rng.Intn(2))), 32+16*rng.Intn(5), "mixed", 72)
	}
	add(chain.Fast(N, N, N, N), 64, "mixed", 64)
	add(chain.Fast(0, N, N, N), 64, "mixed", 64)
	add(chain.Fast(0, 0, N, N), 64, "poor", 64)
	add(chain.Fast(0, 0, 0, N), 64, "rich", 64)
	add(chain.Fast(0, 0, 0, 0), 128, "mixed", 64)
	add(sweep(chain.Fast(0, 0, 0, N), 16), 12, "rich", 48)
	add(sweep(chain.Fast(0, 0, 0, 0), 16), 13, "rich", 48)
	add(sweep(chain.Fast(0, 0, 0, 1), 20), 11, "mixed", 48)
	add(sweep(chain.Fast(0, 0, 0, 0), 24), 20, "rich", 48)
	add(chain.MinimalAt(1, 2, 3, 4), 64, "mixed", 64)
	add(chain.Minimal(), 64, "mixed", 48)
	for _, cfg := range []*chain.Config{chain.Fast(0, N, N, N), chain.Fast(0, 0, N, N), chain.Fast(0, 0, 0, 2), chain.MinimalAt(0, 1, 2, 3)} {
		add(cfg, 64, "mixed", 56)
		p[len(p)-1].late = true
	}
	for _, cfg := range []*chain.Config{chain.Fast(N, N, N, N), chain.Fast(0, N, N, N), chain.Fast(0, 0, N, N), chain.Fast(0, 0, 0, N), chain.Fast(0, 0, 0, 0),
		chain.Fast(1, 3, 5, 7), chain.Fast(0, 2, 4, 6)} {
		add(apart(cfg), 96, "mixed", 64)
		p[len(p)-1].limits = true
	}
	for _, pol := range []string{"late", "full", "edge", "showcase", "earlyexit", "late", "full"} {
		add(chain.Apart(rng.Int63n(1<<30)), 64+32*rng.Intn(2), "mixed", 64)
		p[len(p)-1].policy = pol
		add(chain.RandomConfig2(rng.Int63n(1<<30)), 64, "mixed", 48)
		p[len(p)-1].policy = pol
	}
	for _, cfg := range []*chain.Config{chain.Fast(1, 2, 3, 4), chain.Fast(2, 4, 6, 8), chain.Fast(1, 3, 4, 6), chain.MinimalAt(1, 2, 3, 4)} {
		add(cfg, 64, "mixed", 32)
		p[len(p)-1].straddle = true
	}
	add(chain.MainnetConst(0, N, N, N), 64, "mixed", 24)
	add(chain.MainnetConst(0, 0, 1, 2), 64, "mixed", 32)
	add(chain.Fast2(3, 7, 11, 15), 64, "mixed", 128)
	p[len(p)-1].policy = "showcase"
	for i := 0; i < 12; i++ {
		add(chain.RandomConfig(rng.Int63n(1<<30)), 16+16*rng.Intn(8), []string{"mixed", "uniform", "rich", "poor"}[rng.Intn(4)], 56)
	}
	return p
}

type seqOut struct {
	lines []string
	stats [][2]string
	err   error
}

func gen(o hreg.Opts, w *bufio.Writer, mutants bool) error {
	if f := os.Getenv("VERIF_CPUPROFILE"); f != "" {
		if fh, err := os.Create(f); err == nil {
			pprof.StartCPUProfile(fh) // pprofStart
			defer pprof.StopCPUProfile()
		}
	}
	ps := plans(o)
	outs := make([]seqOut, len(ps))
	var wg sync.WaitGroup
	sem := make(chan struct{}, 8)
	for i := range ps {
		wg.Add(1)
		go func(i int) {
			defer wg.Done()
			sem <- struct{}{}
			defer func() { <-sem }()
			outs[i] = genChain(o, ps[i], mutants)
		}(i)
	}
	wg.Wait()
	for i := range outs {
		if outs[i].err != nil {
			return fmt.Errorf("chain %d (%s): %w", i, ps[i].cfg.ID, outs[i].err)
		}
		for _, s := range outs[i].stats {
			o.Stats.Add(s[0], s[1])
		}
		for _, l := range outs[i].lines {
			w.WriteString(l)
			w.WriteByte('\n')
		}
	}
	return nil
}

// postRoot runs the real block processing WITHOUT result validation on a copy of the pre-block state and
// returns the hash-tree-root of the state it reaches (nil: the real code rejects or panics).
func postRoot(spec *common.Spec, pre common.BeaconState, tb *flatblock.Typed, fv common.Version, gvr common.Root, engine string) (out *[32]byte) {
	defer func() {
		if r := recover(); r != nil {
			out = nil
		}
	}()
	st := chain.CopyState(pre)
	sp := withEngine(spec, engine)
	epc, err := common.NewEpochsContext(sp, st)
	if err != nil {
		return nil
	}
	env := tb.Obj().Envelope(sp, common.ComputeForkDigest(fv, gvr))
	if err := common.PostSlotTransition(context.Background(), sp, epc, st, env, false); err != nil {
		return nil
	}
	r := [32]byte(st.HashTreeRoot(tree.GetHashFn()))
	return &r
}

func withEngine(spec *common.Spec, verdict string) *common.Spec {
	sp := *spec
	e := chain.NewMockEngine(&sp)
	switch verdict {
	case "invalid":
		e.Default = chain.EngineInvalid
	case "error":
		e.Default = chain.EngineError
	}
	sp.ExecutionEngine = e
	return &sp
}

func engineOf(mu *chain.Mutant) string {
	for _, v := range mu.Engine {
		switch v {
		case chain.EngineInvalid:
			return "invalid"
		case chain.EngineError:
			return "error"
		}
	}
	return "valid"
}

func tagOf(s string) string {
	s = strings.Map(func(r rune) rune {
		if r == ' ' || r == '=' || r == '\t' {
			return '_'
		}
		return r
	}, s)
	if s == "" {
		return "-"
	}
	return s
}

func genChain(o hreg.Opts, p chainPlan, mutants bool) (out seqOut) {
	defer func() {
		if r := recover(); r != nil {
			out.err = fmt.Errorf("panic: %v", r)
		}
	}()
	stat := func(h, b string) { out.stats = append(out.stats, [2]string{h, b}) }
	c, err := chain.NewChain(p.cfg, p.validators, p.balances, p.seed)
	if err != nil {
		out.err = err
		return
	}
	c.Policy = chain.DefaultPolicy()
	c.Policy.SkipProb = 0.08
	if p.policy != "" {
		c.Policy = chain.PolicyByName(p.policy)
		stat("chain_policy", p.policy)
	}
	if p.late {
		c.Policy.LateInclusionProb, c.Policy.SplitProb, c.Policy.OddVoteProb = 0.5, 0.45, 0.2
		stat("chain_policy", "late-split-odd-votes")
	}
	if p.limits {
		stat("chain_policy", "operations-at-limits+attestation-backlogs")
	}
	if mutants {
		// the same chains as c01 would be fine; a slightly quieter policy keeps the mutant volume per block bounded
	}
	spec := c.Spec
	cfgToks := flat.SpecTokens(spec)
	perBlock := o.Pick(18, 48)
	perKind := o.Pick(2, 0)
	rng := o.Rand()
	stat("chain_config", p.cfg.ID)
	var gapPre common.BeaconState // state before the first of a run of skipped slots
	slots := p.slots
	if !mutants {
		slots *= 3 // valid blocks are cheap (no mutant volume): longer chains for c01
	}
	if mutants && p.straddle && slots > 12 {
		slots = 12
	}
	oddKey := 2000
	dhSeen := map[string]int{}
	xfSeen := map[string]int{}
	for i := 0; i < slots; i++ {
		if rng.Intn(8) == 0 {
			oddKey += 2
			stat("odd_deposits", submitOddDeposit(c, rng, oddKey))
		}
		var opts *chain.SlotOpts
		if p.limits {
			opts = limitsOpts(spec, uint64(c.Slot())+1, i)
		}
		if p.straddle {
			opts = straddleOpts(spec, uint64(c.Slot())+1)
		}
		step, err := c.NextSlot(opts)
		if err != nil {
			// the real code refused a block the generator built as valid: hand exactly that block to both sides
			// (a concrete failing input if the specification accepts it) and end this chain
			var rej *chain.RejectedError
			if errors.As(err, &rej) && rej.Step != nil && rej.Step.Block != nil && rej.Step.PreBlock != nil {
				rs := rej.Step
				fs, e1 := flat.From(spec, rs.PreBlock)
				pf, e2 := rs.PreBlock.Fork()
				tb, e3 := flatblock.Of(rs.Block.Obj)
				if e1 == nil && e2 == nil && e3 == nil {
					fv := pf.CurrentVersion
					pr := postRoot(spec, rs.PreBlock, tb, fv, c.GenesisValidatorsRoot, "valid")
					orc := ComputeOracle(spec, fs, tb, "valid", pr)
					out.lines = append(out.lines, "pre "+cfgToks+" "+fs.String(),
						fmt.Sprintf("blk mode=post tag=%s fv=%x %s", tagOf("generator-block-refused:"+rej.Stage), fv[:], flatblock.Dump(spec, tb, orc)),
						// a marker the two sides can never agree on (Go: generator-failure, Lean: bad-op): a block the generator
						// built as valid was refused by the real code. Whether S accepts it is on the line above; if S rejects it
						// too, the chain library (it signs with zrnt's own domain helpers) and the real code are at odds.
						fmt.Sprintf("genfail config=%s slot=%d stage=%s", tagOf(p.cfg.ID), rs.Slot, tagOf(rej.Stage)), "reset")
					stat("chain_aborted", "generated-block-refused-by-real-code")
					stat("chain_summary", c.Counters.Summary())
					return
				}
			}
			out.err = err
			return
		}
		if step.Block == nil {
			stat("slots", "skipped")
			if gapPre == nil {
				gapPre = step.Pre
			}
			continue
		}
		fullPre := step.Pre
		if gapPre != nil {
			fullPre, gapPre = gapPre, nil
		}
		fork := step.Fork.String()
		stat("slots", "block")
		stat("blocks_per_fork", fork)
		fs, err := flat.From(spec, step.PreBlock)
		if err != nil {
			out.err = err
			return
		}
		pf, err := step.PreBlock.Fork()
		if err != nil {
			out.err = err
			return
		}
		fv := pf.CurrentVersion
		out.lines = append(out.lines, "pre "+cfgToks+" "+fs.String())
		// heal: when the real block processing (no result validation) lets a must-reject corruption through, give the
		// block the state root it produced and sign it again, so that the validated run ACCEPTS it and the
		// difference to S is not masked by "invalid state root" (chain.Mutations does the same for its mutants)
		emitOn := func(spec *common.Spec, preFlat *flat.State, preView common.BeaconState, tag string, sb *chain.SignedBlock, engine string, known *[32]byte, heal bool) {
			tb, err := flatblock.Of(sb.Obj)
			if err != nil {
				out.err = err
				return
			}
			pr := known
			if pr == nil {
				pr = postRoot(spec, preView, tb, fv, c.GenesisValidatorsRoot, engine)
			}
			if heal && pr != nil && [32]byte(*sb.Header().StateRoot) != *pr {
				sb = sb.Clone(spec)
				*sb.Header().StateRoot = *pr
				c.SignBlock(sb, preView)
				if tb, err = flatblock.Of(sb.Obj); err != nil {
					out.err = err
					return
				}
				tag += ":healed"
				stat("mutants", "healed-state-root")
			}
			orc := ComputeOracle(spec, preFlat, tb, engine, pr)
			out.lines = append(out.lines, fmt.Sprintf("blk mode=post tag=%s fv=%x %s", tagOf(tag), fv[:], flatblock.Dump(spec, tb, orc)))
			// the execution-payload step on its own (same pre-state, same block): for the block itself and for every
			// variant that concerns the payload or the blob commitments
			if sb.Body().Payload != nil && (strings.HasPrefix(tag, "valid:") || strings.HasPrefix(tag, "payload.extra_data") || strings.HasPrefix(tag, "blob_kzg_commitments") || strings.HasPrefix(tag, "pre-state:default-exec-header")) {
				out.lines = append(out.lines, fmt.Sprintf("blk mode=payload tag=%s fv=%x %s", tagOf(tag+":payload-step-alone"), fv[:], flatblock.Dump(spec, tb, orc)))
				stat("payload_step_alone", strings.SplitN(tag, ":", 2)[0])
			}
		}
		emit := func(tag string, sb *chain.SignedBlock, engine string, known *[32]byte) {
			emitOn(spec, fs, step.PreBlock, tag, sb, engine, known, false)
		}
		if !mutants {
			pr := [32]byte(step.PostRoot)
			emit("valid:"+fork, step.Block, "valid", &pr)
			for _, op := range step.Ops {
				stat("ops_per_kind", string(op.Kind))
				stat("ops_per_kind_and_fork", fork+":"+string(op.Kind))
			}
			stat("ops_in_block", bucket(len(step.Ops)))
			{
				bd := step.Block.Body()
				at := func(kind string, n int, max uint64) {
					if max > 0 && uint64(n) == max {
						stat("blocks_with_exactly_MAX_operations", fork+":"+kind)
					}
				}
				at("proposer_slashings", len(*bd.ProposerSlashings), uint64(spec.MAX_PROPOSER_SLASHINGS))
				at("attester_slashings", len(*bd.AttesterSlashings), uint64(spec.MAX_ATTESTER_SLASHINGS))
				at("attestations", len(*bd.Attestations), uint64(spec.MAX_ATTESTATIONS))
				at("deposits", len(*bd.Deposits), uint64(spec.MAX_DEPOSITS))
				at("voluntary_exits", len(*bd.VoluntaryExits), uint64(spec.MAX_VOLUNTARY_EXITS))
				if bd.BLSChanges != nil {
					at("bls_to_execution_changes", len(*bd.BLSChanges), uint64(spec.MAX_BLS_TO_EXECUTION_CHANGES))
				}
				if bd.BlobKZGCommitments != nil {
					at("blob_kzg_commitments", len(*bd.BlobKZGCommitments), uint64(spec.MAX_BLOBS_PER_BLOCK))
				}
				if bd.Payload != nil && bd.Payload.Withdrawals != nil {
					at("withdrawals", len(*bd.Payload.Withdrawals), uint64(spec.MAX_WITHDRAWALS_PER_PAYLOAD))
				}
				for _, a := range *bd.Attestations {
					if d := uint64(step.Slot) - uint64(a.Data.Slot); d > uint64(spec.SLOTS_PER_EPOCH) {
						stat("attestations_included_later_than_one_epoch", fork)
					}
					if uint64(a.Data.Target.Epoch) < fs.ForkEpoch {
						stat("attestations_with_target_epoch_before_the_state_fork", fork)
						if d := uint64(step.Slot) - uint64(a.Data.Slot); d > uint64(spec.SLOTS_PER_EPOCH) {
							stat("attestations_with_target_epoch_before_the_state_fork", fork+":later-than-one-epoch")
						}
					}
				}
			}
			// the same block through the whole state_transition, from the state before slot processing
			if ex, ok := slotExtras(spec, fullPre, step.Slot); ok {
				if pfs, err := flat.From(spec, fullPre); err == nil {
					tb, _ := flatblock.Of(step.Block.Obj)
					orc := ComputeOracle(spec, fs, tb, "valid", &pr)
					out.lines = append(out.lines, "reset", "pre "+cfgToks+" "+pfs.String()+" "+ex,
						fmt.Sprintf("blk mode=full tag=%s fv=%x %s", tagOf("valid-full:"+fork), fv[:], flatblock.Dump(spec, tb, orc)))
					stat("full_transition_slots", bucket(int(step.Slot)-int(pfs.Slot)))
					if pfs.Fork != fs.Fork {
						stat("full_transition", "fork-upgrade-inside:"+pfs.Fork+"->"+fs.Fork)
					} else if (pfs.Slot)/uint64(spec.SLOTS_PER_EPOCH) != uint64(step.Slot)/uint64(spec.SLOTS_PER_EPOCH) {
						stat("full_transition", "epoch-boundary-inside")
					} else {
						stat("full_transition", "same-epoch")
					}
				}
			}
		} else {
			// the chain library would heal every mutant it makes (one more real run each); only a sample is used
			// here, and the sampled re-signed mutants are healed in emitOn
			// the unmutated block too: "Go = S's post-state whenever S accepts" starts with the block itself
			pr := [32]byte(step.PostRoot)
			emit("valid:"+fork, step.Block, "valid", &pr)
			c.NoHealMutants = true
			ms := c.Mutations(step, perKind)
			own := map[string]bool{}
			ownMs := extraMutants(c, step, fs, rng)
			if uint64(step.Slot)%2 == 0 || p.limits {
				ownMs = append(ownMs, overLimitMutants(c, step, fs, rng)...)
			}
			if uint64(step.Slot)%2 == 1 || p.limits {
				ownMs = append(ownMs, compensatingMutants(c, step, fs)...)
			}
			for i := range ownMs {
				own[ownMs[i].Label] = true
			}
			// second stream: single-byte changes of the block's SSZ encoding that still decode (validity unknown by
			// construction; S decides). This component's own mutants and the byte mutants are not part of the
			// per-block sample cut below: always kept.
			bytesMs := c.ByteMutations(step, o.Pick(3, 8), rng.Int63())
			for i := range bytesMs {
				own[bytesMs[i].Label] = true
			}
			if len(ms) > perBlock {
				// deterministic sample that keeps the spread over mutation kinds: shuffle, then cut
				rng.Shuffle(len(ms), func(a, b int) { ms[a], ms[b] = ms[b], ms[a] })
				ms = ms[:perBlock]
				sort.SliceStable(ms, func(a, b int) bool { return ms[a].Label < ms[b].Label })
			}
			ms = append(append(ms, ownMs...), bytesMs...)
			for k := range ms {
				mu := &ms[k]
				emitOn(spec, fs, step.PreBlock, mu.Label, mu.Block, engineOf(mu), nil, own[mu.Label] || (mu.Resigned && mu.Engine == nil))
				if mu.Healed {
					stat("mutants", "healed-by-chain-library")
				}
				stat("mutant_rule_intended", fork+":"+mu.Rule)
				stat("mutant_area", strings.SplitN(strings.SplitN(mu.Label, ".", 2)[0], "[", 2)[0])
				if mu.ExpectValid {
					stat("mutants", "expected-valid")
				} else {
					stat("mutants", "expected-invalid")
				}
			}
		}
		out.lines = append(out.lines, "reset")
		{
			// the block (healed: new state root, signed again) on pre-state variants on which it stays valid or is refused
			// by one rule only; c01: the valid ones
			bvs := participationVariant(step, fs)
			for _, v := range validEdits(c, step) {
				v.st = fs
				bvs = append(bvs, v)
			}
			// default execution header: on the first two payload blocks of every fork of the chain, and then every 4th slot
			if dh := defaultHeaderVariants(c, step, fs); len(dh) > 0 && (dhSeen[fork] < 2 || uint64(step.Slot)%4 == 0) {
				dhSeen[fork]++
				for _, v := range dh {
					if mutants || v.rule == "valid" {
						bvs = append(bvs, v)
					}
				}
			}
			// hand-made operations signed across the state's fork boundary: first two blocks of every fork, then every 4th slot
			var xfMuts []chain.Mutant
			if xfSeen[fork] < 2 || uint64(step.Slot)%4 == 2 {
				xv, xm := crossForkOps(c, step, fs, rng)
				if len(xv) > 0 {
					xfSeen[fork]++
				}
				bvs = append(bvs, xv...)
				xfMuts = xm
			}
			if mutants {
				for k := range xfMuts {
					mu := &xfMuts[k]
					out.lines = append(out.lines, "pre "+cfgToks+" "+fs.String())
					emitOn(spec, fs, step.PreBlock, mu.Label, mu.Block, "valid", nil, true)
					out.lines = append(out.lines, "reset")
					stat("mutant_rule_intended", fork+":"+mu.Rule)
					stat("mutant_area", "cross-fork-signature")
					stat("mutants", "expected-invalid")
				}
				bvs = append(bvs, blsPrefixVariants(step, fs)...)
			}
			if mutants {
				bvs = append(bvs, exitAgeVariants(c, spec, step, fs)...)
				bvs = append(bvs, secondBlockVariant(c, spec, step)...)
			}
			for _, v := range bvs {
				var view common.BeaconState = step.PreBlock
				if v.st != fs {
					if view, err = v.st.ToView(spec); err != nil {
						out.err = fmt.Errorf("state variant %s: %w", v.label, err)
						return
					}
				}
				blk := step.Block
				if v.block != nil {
					blk = v.block
				}
				out.lines = append(out.lines, "pre "+cfgToks+" "+v.st.String())
				emitOn(spec, v.st, view, v.label, blk, "valid", nil, true)
				out.lines = append(out.lines, "reset")
				stat("state_variants", v.label)
				if mutants {
					stat("mutant_rule_intended", fork+":"+v.rule)
					stat("mutant_area", "pre-state")
					stat("mutants", "state-variant")
				}
			}
		}
		if mutants {
			// the same valid block on variants of the pre-state (rules that no block mutation can reach)
			for _, v := range stateVariants(c, spec, step, fs, rng) {
				sp, toks := spec, cfgToks
				if v.spec != nil {
					sp, toks = v.spec, flat.SpecTokens(v.spec)
				}
				view, err := v.st.ToView(sp)
				if err != nil {
					out.err = fmt.Errorf("state variant %s: %w", v.label, err)
					return
				}
				out.lines = append(out.lines, "pre "+toks+" "+v.st.String())
				emitOn(sp, v.st, view, v.label, step.Block, "valid", nil, true)
				out.lines = append(out.lines, "reset")
				stat("mutant_rule_intended", fork+":"+v.rule)
				stat("mutant_area", "pre-state")
				stat("mutants", "state-variant")
			}
		}
		if out.err != nil {
			return
		}
	}
	stat("chain_summary", c.Counters.Summary())
	return
}

func bucket(n int) string {
	switch {
	case n <= 4:
		return fmt.Sprintf("%d", n)
	case n <= 8:
		return "5-8"
	case n <= 16:
		return "9-16"
	}
	return "17+"
}

// ---------------------------------------------------------------------------------------------
// exec

type preState struct {
	spec *common.Spec
	st   common.BeaconState
	gvr  common.Root
}

// exec answers the lines of a stateful stream. Sequences (separated by `reset`) are independent, so batches of
// them are processed by a pool of workers; the answers are written in input order.
func exec(o hreg.Opts, r *bufio.Scanner, w *bufio.Writer) error {
	const batchLines = 4000
	var batch [][]string // sequences; each ends with its `reset` line if it had one
	var cur []string
	n := 0
	flush := func() {
		outs := make([][]string, len(batch))
		var wg sync.WaitGroup
		sem := make(chan struct{}, 12)
		for i := range batch {
			wg.Add(1)
			go func(i int) {
				defer wg.Done()
				sem <- struct{}{}
				defer func() { <-sem }()
				outs[i] = execSeq(batch[i])
			}(i)
		}
		wg.Wait()
		for _, l := range outs {
			for _, x := range l {
				w.WriteString(x)
				w.WriteByte('\n')
			}
		}
		batch, n = nil, 0
	}
	for r.Scan() {
		line := r.Text()
		cur = append(cur, line)
		n++
		if strings.TrimSpace(line) == "reset" {
			batch = append(batch, cur)
			cur = nil
			if n >= batchLines {
				flush()
			}
		}
	}
	if len(cur) > 0 {
		batch = append(batch, cur)
	}
	flush()
	return r.Err()
}

// execSeq answers one sequence (state is not shared between sequences).
func execSeq(lines []string) []string {
	var cur *preState
	res := make([]string, 0, len(lines))
	for _, line := range lines {
		out := "bad-op"
		t := strings.TrimSpace(line)
		switch {
		case t == "reset":
			cur = nil
			out = "reset"
		case strings.HasPrefix(t, "pre "):
			cur = nil
			kv, rest := flat.KV(t)
			if len(rest) == 1 && rest[0] == "pre" {
				if p := loadPre(kv); p != nil {
					cur, out = p, "pre-ok"
				}
			}
		case strings.HasPrefix(t, "genfail "):
			out = "generator-failure"
		case strings.HasPrefix(t, "blk "):
			kv, rest := flat.KV(t)
			if len(rest) == 1 && rest[0] == "blk" && cur != nil {
				out = hreg.Guard(func() string { return runBlock(cur, kv) })
			}
		}
		res = append(res, out)
	}
	return res
}

func loadPre(kv map[string]string) (p *preState) {
	defer func() {
		if r := recover(); r != nil {
			p = nil
		}
	}()
	sp := *configs.Minimal
	sp.ExecutionEngine = nil
	if err := flat.ApplySpecTokens(&sp, kv); err != nil {
		return nil
	}
	fs, err := flat.Parse(kv)
	if err != nil {
		return nil
	}
	st, err := fs.ToView(&sp)
	if err != nil {
		return nil
	}
	return &preState{spec: &sp, st: st, gvr: fs.GenesisValidatorsRoot}
}

func runBlock(p *preState, kv map[string]string) string {
	mode := kv["mode"]
	if mode != "post" && mode != "full" && mode != "payload" {
		return "bad-op"
	}
	var fv common.Version
	if b, err := hex.DecodeString(kv["fv"]); err != nil || len(b) != 4 {
		return "bad-op"
	} else {
		copy(fv[:], b)
	}
	tb, orc, err := flatblock.Parse(p.spec, kv)
	if err != nil {
		return "bad-op"
	}
	// the text must be the image of the typed block the real code is about to run on
	for _, f := range flatblock.Fields(p.spec, tb, orc) {
		if kv[f[0]] != f[1] {
			return "bad-op"
		}
	}
	sp := withEngine(p.spec, orc.Engine)
	st := chain.CopyState(p.st)
	epc, err := common.NewEpochsContext(sp, st)
	if err != nil {
		return "err"
	}
	env := tb.Obj().Envelope(sp, common.ComputeForkDigest(fv, p.gvr))
	var post common.BeaconState = st
	if mode == "payload" {
		// the fork's ProcessExecutionPayload alone, called directly on the pre-state (ProcessBlock repeats some of its
		// checks later on — CheckLimits —, so a defect in them is invisible through the block entry)
		ctx := context.Background()
		var err error = errors.New("no payload in this fork")
		switch {
		case tb.Bellatrix != nil:
			if x, ok := st.(bellatrix.ExecutionTrackingBeaconState); ok {
				if eng, ok := sp.ExecutionEngine.(bellatrix.ExecutionEngine); ok {
					err = bellatrix.ProcessExecutionPayload(ctx, sp, x, &tb.Bellatrix.Message.Body.ExecutionPayload, eng)
				}
			}
		case tb.Capella != nil:
			if x, ok := st.(capella.ExecutionTrackingBeaconState); ok {
				if eng, ok := sp.ExecutionEngine.(capella.ExecutionEngine); ok {
					err = capella.ProcessExecutionPayload(ctx, sp, x, &tb.Capella.Message.Body.ExecutionPayload, eng)
				}
			}
		case tb.Deneb != nil:
			if x, ok := st.(deneb.ExecutionTrackingBeaconState); ok {
				if eng, ok := sp.ExecutionEngine.(deneb.ExecutionEngine); ok {
					err = deneb.ProcessExecutionPayload(ctx, sp, x, &tb.Deneb.Message.Body, eng)
				}
			}
		}
		if err != nil {
			return "err"
		}
	} else if mode == "full" {
		us := chain.WrapState(st)
		if err := common.StateTransition(context.Background(), sp, epc, us, env, true); err != nil {
			return "err"
		}
		post = us.BeaconState
	} else if err := common.PostSlotTransition(context.Background(), sp, epc, st, env, true); err != nil {
		return "err"
	}
	fs, err := flat.From(sp, post)
	if err != nil {
		return "err-dump"
	}
	return "ok " + fs.Abbrev()
}

var _ = beacon.StandardUpgradeableBeaconState{}
