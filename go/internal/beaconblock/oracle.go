package beaconblock

// The signature oracle: for every signature check the consensus specification performs while processing a
// block, decide — with code written here from the specification text, sharing nothing with zrnt's
// ComputeDomain / GetDomain / ComputeSigningRoot / EpochsContext — whether the signature verifies under the
// spec-correct message and keys, using real blsu verification.
//
//	compute_fork_data_root(v, gvr) = hash_tree_root(ForkData(v, gvr))       = sha256(v || 0^28 || gvr)
//	compute_domain(t, v, gvr)      = t || compute_fork_data_root(v, gvr)[:28]
//	get_domain(state, t, epoch)    = compute_domain(t, previous_version if epoch < fork.epoch else current_version, gvr)
//	compute_signing_root(obj, d)   = hash_tree_root(SigningData(htr(obj), d)) = sha256(htr(obj) || d)
//
// hash_tree_root(obj) of the signed objects is taken from the real library (SSZ merkleization is property
// C05's subject). Keys are taken from the PRE-state registry (flat form) by the indices the specification
// prescribes; committees are computed here (compute_shuffled_index, get_seed, compute_committee).
// Operations earlier in the same block cannot change any of these inputs: public keys are immutable,
// validators appended by deposits are not active, exits/slashings set exit epochs beyond the current
// epoch, and the seeds of the previous/current epoch use randao mixes of older epochs.

import (
	"crypto/sha256"
	"encoding/binary"
	"sort"
	"sync"

	blsu "github.com/protolambda/bls12-381-util"
	"github.com/protolambda/zrnt/eth2/beacon/common"
	"github.com/protolambda/ztyp/tree"

	"verifharness/internal/flat"
	"verifharness/internal/flatblock"
)

var (
	domainBeaconProposer = [4]byte{0, 0, 0, 0}
	domainBeaconAttester = [4]byte{1, 0, 0, 0}
	domainRandao         = [4]byte{2, 0, 0, 0}
	domainDeposit        = [4]byte{3, 0, 0, 0}
	domainVoluntaryExit  = [4]byte{4, 0, 0, 0}
	domainSyncCommittee  = [4]byte{7, 0, 0, 0}
	domainBLSChange      = [4]byte{10, 0, 0, 0}
)

func sha(parts ...[]byte) (o [32]byte) {
	h := sha256.New()
	for _, p := range parts {
		h.Write(p)
	}
	copy(o[:], h.Sum(nil))
	return
}

func computeForkDataRoot(version [4]byte, gvr [32]byte) [32]byte {
	var chunk [32]byte
	copy(chunk[:], version[:])
	return sha(chunk[:], gvr[:])
}

func computeDomain(t [4]byte, version [4]byte, gvr [32]byte) (d [32]byte) {
	r := computeForkDataRoot(version, gvr)
	copy(d[:4], t[:])
	copy(d[4:], r[:28])
	return
}

func getDomain(st *flat.State, t [4]byte, epoch uint64) [32]byte {
	v := st.ForkCurrVersion
	if epoch < st.ForkEpoch {
		v = st.ForkPrevVersion
	}
	return computeDomain(t, v, st.GenesisValidatorsRoot)
}

func signingRoot(objRoot [32]byte, domain [32]byte) [32]byte { return sha(objRoot[:], domain[:]) }

// ---- committees (phase0 beacon-chain.md) ----

type specCtx struct {
	spec *common.Spec
	st   *flat.State
}

func (c *specCtx) epochAt(slot uint64) uint64 { return slot / uint64(c.spec.SLOTS_PER_EPOCH) }

func (c *specCtx) currentEpoch() uint64 { return c.epochAt(c.st.Slot) }

func (c *specCtx) activeIndices(epoch uint64) []uint64 {
	var out []uint64
	for i, v := range c.st.Validators {
		if v.ActivationEpoch <= epoch && epoch < v.ExitEpoch {
			out = append(out, uint64(i))
		}
	}
	return out
}

// seed: get_seed; ok=false when the mix index cannot be formed.
func (c *specCtx) seed(epoch uint64, t [4]byte) (s [32]byte, ok bool) {
	n := uint64(c.spec.EPOCHS_PER_HISTORICAL_VECTOR)
	look := uint64(c.spec.MIN_SEED_LOOKAHEAD)
	if n == 0 || epoch+n < epoch || epoch+n < look+1 || uint64(len(c.st.RandaoMixes)) != n {
		return s, false
	}
	mix := c.st.RandaoMixes[(epoch+n-look-1)%n]
	var e [8]byte
	binary.LittleEndian.PutUint64(e[:], epoch)
	return sha(t[:], e[:], mix[:]), true
}

func (c *specCtx) shuffledIndex(index, count uint64, seed [32]byte) uint64 {
	rounds := uint64(c.spec.SHUFFLE_ROUND_COUNT)
	for r := uint64(0); r < rounds; r++ {
		h := sha(seed[:], []byte{byte(r)})
		pivot := binary.LittleEndian.Uint64(h[:8]) % count
		flip := (pivot + count - index) % count
		pos := index
		if flip > pos {
			pos = flip
		}
		var p4 [4]byte
		binary.LittleEndian.PutUint32(p4[:], uint32(pos/256))
		src := sha(seed[:], []byte{byte(r)}, p4[:])
		if (src[(pos%256)/8]>>(pos%8))&1 == 1 {
			index = flip
		}
	}
	return index
}

func (c *specCtx) committeeCountPerSlot(active int) uint64 {
	spe, tcs := uint64(c.spec.SLOTS_PER_EPOCH), uint64(c.spec.TARGET_COMMITTEE_SIZE)
	if spe == 0 || tcs == 0 {
		return 0
	}
	n := uint64(active) / spe / tcs
	if m := uint64(c.spec.MAX_COMMITTEES_PER_SLOT); n > m {
		n = m
	}
	if n < 1 {
		n = 1
	}
	return n
}

// beaconCommittee: get_beacon_committee(state, slot, index); ok=false when it is not defined.
func (c *specCtx) beaconCommittee(slot, index uint64) ([]uint64, bool) {
	epoch := c.epochAt(slot)
	cur := c.currentEpoch()
	// the specification only ever asks for the previous, current and next epoch; older seeds would read
	// randao mixes that were overwritten
	if epoch+1 < cur || epoch > cur+1 {
		return nil, false
	}
	active := c.activeIndices(epoch)
	perSlot := c.committeeCountPerSlot(len(active))
	if perSlot == 0 || index >= perSlot || len(active) == 0 {
		return nil, false
	}
	seed, ok := c.seed(epoch, domainBeaconAttester)
	if !ok {
		return nil, false
	}
	spe := uint64(c.spec.SLOTS_PER_EPOCH)
	i := (slot%spe)*perSlot + index
	count := perSlot * spe
	n := uint64(len(active))
	start, end := n*i/count, n*(i+1)/count
	out := make([]uint64, 0, end-start)
	for k := start; k < end; k++ {
		out = append(out, active[c.shuffledIndex(k, n, seed)])
	}
	return out, true
}

// ---- BLS with a verdict cache ----

type verifier struct {
	mu    sync.Mutex
	cache map[[32]byte]bool
	Calls int
	Hits  int
}

var theVerifier = &verifier{cache: map[[32]byte]bool{}}

func (v *verifier) key(kind byte, pubs [][48]byte, msg [32]byte, sig [96]byte) [32]byte {
	h := sha256.New()
	h.Write([]byte{kind})
	for _, p := range pubs {
		h.Write(p[:])
	}
	h.Write(msg[:])
	h.Write(sig[:])
	var o [32]byte
	copy(o[:], h.Sum(nil))
	return o
}

// verify: kind 0 = Verify / FastAggregateVerify (no keys: false), kind 1 = eth_fast_aggregate_verify
// (no keys and the point-at-infinity signature: true).
func (v *verifier) verify(kind byte, pubs [][48]byte, msg [32]byte, sig [96]byte) bool {
	k := v.key(kind, pubs, msg, sig)
	v.mu.Lock()
	if r, ok := v.cache[k]; ok {
		v.Hits++
		v.mu.Unlock()
		return r
	}
	v.Calls++
	v.mu.Unlock()
	r := func() bool {
		var s blsu.Signature
		if err := s.Deserialize(&sig); err != nil {
			return false
		}
		pks := make([]*blsu.Pubkey, len(pubs))
		for i := range pubs {
			pks[i] = new(blsu.Pubkey)
			if err := pks[i].Deserialize(&pubs[i]); err != nil {
				return false
			}
		}
		if kind == 1 {
			return blsu.Eth2FastAggregateVerify(pks, msg[:], &s)
		}
		if len(pks) == 1 {
			return blsu.Verify(pks[0], msg[:], &s)
		}
		return blsu.FastAggregateVerify(pks, msg[:], &s)
	}()
	v.mu.Lock()
	if len(v.cache) > 1<<18 {
		v.cache = map[[32]byte]bool{}
	}
	v.cache[k] = r
	v.mu.Unlock()
	return r
}

// ---- the oracle ----

func (c *specCtx) pubkey(i uint64) ([48]byte, bool) {
	if i >= uint64(len(c.st.Validators)) {
		return [48]byte{}, false
	}
	return c.st.Validators[i].Pubkey, true
}

func (c *specCtx) pubkeys(ix []uint64) ([][48]byte, bool) {
	out := make([][48]byte, len(ix))
	for j, i := range ix {
		p, ok := c.pubkey(i)
		if !ok {
			return nil, false
		}
		out[j] = p
	}
	return out, true
}

func epochRoot(e uint64) (r [32]byte) {
	// hash_tree_root(uint64) — one chunk, little endian
	binary.LittleEndian.PutUint64(r[:8], e)
	return
}

// ComputeOracle fills every signature Boolean of the block against the pre-state st (which must already be
// at the slot the block is processed in: the specification reads state.fork and the registry at that point).
func ComputeOracle(spec *common.Spec, st *flat.State, t *flatblock.Typed, engine string, postRoot *[32]byte) *flatblock.Oracle {
	c := &specCtx{spec: spec, st: st}
	hf := tree.GetHashFn()
	r := t.Ref()
	o := &flatblock.Oracle{Engine: engine, PostRoot: postRoot}
	o.Shape(r)
	vf := theVerifier
	forkIdx := flat.ForkIndex(st.Fork)

	// verify_block_signature: proposer = state.validators[signed_block.message.proposer_index]
	if pk, ok := c.pubkey(uint64(*r.ProposerIndex)); ok {
		msg := signingRoot(t.MessageRoot(spec), getDomain(st, domainBeaconProposer, c.currentEpoch()))
		o.BlockSig = vf.verify(0, [][48]byte{pk}, msg, *r.Signature)
		// process_randao: epoch = get_current_epoch(state); the key is the one of get_beacon_proposer_index(state),
		// which process_block_header has required to equal block.proposer_index
		rmsg := signingRoot(epochRoot(c.currentEpoch()), getDomain(st, domainRandao, c.currentEpoch()))
		o.Randao = vf.verify(0, [][48]byte{pk}, rmsg, *r.RandaoReveal)
	}
	for i := range *r.ProposerSlashings {
		ps := &(*r.ProposerSlashings)[i]
		// proposer = state.validators[header_1.proposer_index] for BOTH headers
		pk, ok := c.pubkey(uint64(ps.SignedHeader1.Message.ProposerIndex))
		if !ok {
			continue
		}
		for j, sh := range []*common.SignedBeaconBlockHeader{&ps.SignedHeader1, &ps.SignedHeader2} {
			d := getDomain(st, domainBeaconProposer, c.epochAt(uint64(sh.Message.Slot)))
			o.PS[i][j] = vf.verify(0, [][48]byte{pk}, signingRoot(sh.Message.HashTreeRoot(hf), d), sh.Signature)
		}
	}
	indexedOK := func(ix common.CommitteeIndices, dataRoot [32]byte, targetEpoch uint64, sig [96]byte) bool {
		l := make([]uint64, len(ix))
		for i, v := range ix {
			l[i] = uint64(v)
		}
		pks, ok := c.pubkeys(l)
		if !ok || len(pks) == 0 {
			return false
		}
		return vf.verify(0, pks, signingRoot(dataRoot, getDomain(st, domainBeaconAttester, targetEpoch)), sig)
	}
	for i := range *r.AttesterSlashings {
		as := &(*r.AttesterSlashings)[i]
		o.AS[i][0] = indexedOK(as.Attestation1.AttestingIndices, as.Attestation1.Data.HashTreeRoot(hf), uint64(as.Attestation1.Data.Target.Epoch), as.Attestation1.Signature)
		o.AS[i][1] = indexedOK(as.Attestation2.AttestingIndices, as.Attestation2.Data.HashTreeRoot(hf), uint64(as.Attestation2.Data.Target.Epoch), as.Attestation2.Signature)
	}
	for i := range *r.Attestations {
		a := &(*r.Attestations)[i]
		bits, ok := decodeBitlist(a.AggregationBits)
		if !ok {
			continue
		}
		committee, ok := c.beaconCommittee(uint64(a.Data.Slot), uint64(a.Data.Index))
		if !ok || len(committee) != len(bits) {
			continue
		}
		set := map[uint64]bool{}
		for j, m := range committee {
			if bits[j] {
				set[m] = true
			}
		}
		ix := make([]uint64, 0, len(set))
		for m := range set {
			ix = append(ix, m)
		}
		sort.Slice(ix, func(a, b int) bool { return ix[a] < ix[b] })
		o.Att[i].Derived, o.Att[i].Indices = true, ix
		pks, ok := c.pubkeys(ix)
		if !ok || len(pks) == 0 {
			continue
		}
		msg := signingRoot(a.Data.HashTreeRoot(hf), getDomain(st, domainBeaconAttester, uint64(a.Data.Target.Epoch)))
		o.Att[i].OK = vf.verify(0, pks, msg, a.Signature)
	}
	for i := range *r.Deposits {
		d := &(*r.Deposits)[i]
		// compute_domain(DOMAIN_DEPOSIT): fork_version = GENESIS_FORK_VERSION, genesis_validators_root = Root()
		dom := computeDomain(domainDeposit, spec.GENESIS_FORK_VERSION, [32]byte{})
		o.Dep[i] = vf.verify(0, [][48]byte{d.Data.Pubkey}, signingRoot(d.Data.ToMessage().HashTreeRoot(hf), dom), d.Data.Signature)
	}
	for i := range *r.VoluntaryExits {
		e := &(*r.VoluntaryExits)[i]
		pk, ok := c.pubkey(uint64(e.Message.ValidatorIndex))
		if !ok {
			continue
		}
		var dom [32]byte
		if forkIdx >= 4 {
			// [Modified in Deneb:EIP7044] compute_domain(DOMAIN_VOLUNTARY_EXIT, CAPELLA_FORK_VERSION, genesis_validators_root)
			dom = computeDomain(domainVoluntaryExit, spec.CAPELLA_FORK_VERSION, st.GenesisValidatorsRoot)
		} else {
			dom = getDomain(st, domainVoluntaryExit, uint64(e.Message.Epoch))
		}
		o.Exit[i] = vf.verify(0, [][48]byte{pk}, signingRoot(e.Message.HashTreeRoot(hf), dom), e.Signature)
	}
	if r.BLSChanges != nil {
		for i := range *r.BLSChanges {
			ch := &(*r.BLSChanges)[i]
			// compute_domain(DOMAIN_BLS_TO_EXECUTION_CHANGE, genesis_validators_root=state.genesis_validators_root): GENESIS_FORK_VERSION
			dom := computeDomain(domainBLSChange, spec.GENESIS_FORK_VERSION, st.GenesisValidatorsRoot)
			o.BLS[i] = vf.verify(0, [][48]byte{ch.BLSToExecutionChange.FromBLSPubKey},
				signingRoot(ch.BLSToExecutionChange.HashTreeRoot(hf), dom), ch.Signature)
		}
	}
	if r.SyncAggregate != nil && st.CurrentSyncCommittee != nil {
		size := uint64(spec.SYNC_COMMITTEE_SIZE)
		bits := r.SyncAggregate.SyncCommitteeBits
		if uint64(len(bits)) == (size+7)/8 && uint64(len(st.CurrentSyncCommittee.Pubkeys)) == size && st.Slot > 0 {
			var pks [][48]byte
			for j := uint64(0); j < size; j++ {
				if (bits[j/8]>>(j%8))&1 == 1 {
					pks = append(pks, st.CurrentSyncCommittee.Pubkeys[j])
				}
			}
			prev := st.Slot - 1
			sphr := uint64(spec.SLOTS_PER_HISTORICAL_ROOT)
			if sphr > 0 && uint64(len(st.BlockRoots)) == sphr {
				root := st.BlockRoots[prev%sphr]
				dom := getDomain(st, domainSyncCommittee, c.epochAt(prev))
				o.Sync = vf.verify(1, pks, signingRoot(root, dom), r.SyncAggregate.SyncCommitteeSignature)
			}
		}
	}
	return o
}

// decodeBitlist decodes raw SSZ bitlist bytes (delimiter bit = highest set bit of the last byte).
func decodeBitlist(b []byte) ([]bool, bool) {
	if len(b) == 0 || b[len(b)-1] == 0 {
		return nil, false
	}
	last := b[len(b)-1]
	hi := 7
	for (last>>uint(hi))&1 == 0 {
		hi--
	}
	n := 8*(len(b)-1) + hi
	out := make([]bool, n)
	for i := 0; i < n; i++ {
		out[i] = (b[i/8]>>(uint(i)%8))&1 == 1
	}
	return out, true
}
