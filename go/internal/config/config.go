// Package config: harness mode c14 (built-in configurations, fork lookups, envelopes, envelope signatures).
//
// Operation lines (a schedule token S is `spe,v0,…,v6,e1,…,e6`: SLOTS_PER_EPOCH, the seven fork versions as
// 8 hex digits, the six fork epochs altair…fulu):
//
//	fv S slot                     Spec.ForkVersion(slot)
//	fvb Mainnet|Minimal slot      configs.X.ForkVersion(slot)
//	fd S gvr epoch                NewForkDecoder(spec,gvr).ForkDigest(epoch) and the block type BlockAllocator gives it
//	alloc S gvr digest            BlockAllocator(digest)
//	chain S t1 t2 …               kick-started minimal chain (phase0 genesis), ProcessSlots to each target: state
//	                              type and state.fork (previous,current,epoch) at every target
//	env fork seed                 random signed block of that fork -> Envelope -> EnvelopeToSignedBeaconBlock
//	sig S slot gvr gvrSign root vIdx dIdx dGvr penv prop signer pub kind
//	                              BeaconBlockEnvelope.VerifySignature with real BLS
//	const Mainnet|Minimal KEY     field KEY of the decoded struct (reflection)
//	constkeys Mainnet|Minimal     all field names of the decoded struct
//	goconst NAME                  compiled Go-level constant
package config

import (
	"bufio"
	"bytes"
	"context"
	"encoding/binary"
	"encoding/hex"
	"fmt"
	"math/big"
	"math/rand"
	"os"
	"path/filepath"
	"reflect"
	"regexp"
	"sort"
	"strconv"
	"strings"

	blsu "github.com/protolambda/bls12-381-util"
	"github.com/protolambda/zrnt/eth2/beacon"
	"github.com/protolambda/zrnt/eth2/beacon/altair"
	"github.com/protolambda/zrnt/eth2/beacon/bellatrix"
	"github.com/protolambda/zrnt/eth2/beacon/capella"
	"github.com/protolambda/zrnt/eth2/beacon/common"
	"github.com/protolambda/zrnt/eth2/beacon/deneb"
	"github.com/protolambda/zrnt/eth2/beacon/electra"
	"github.com/protolambda/zrnt/eth2/beacon/phase0"
	"github.com/protolambda/zrnt/eth2/configs"
	"github.com/protolambda/ztyp/codec"
	"github.com/protolambda/ztyp/tree"
	"gopkg.in/yaml.v3"

	"verifharness/internal/hreg"
)

func init() { hreg.Register(&hreg.Mode{Name: "c14", Gen: gen, Exec: exec}) }

const maxU = ^uint64(0)

var forkNames = []string{"phase0", "altair", "bellatrix", "capella", "deneb", "electra", "fulu"}

// ---------------------------------------------------------------------------------------------
// schedules

type sched struct {
	spe uint64
	v   [7][4]byte
	e   [6]uint64
}

func (s sched) String() string {
	var p []string
	p = append(p, strconv.FormatUint(s.spe, 10))
	for _, v := range s.v {
		p = append(p, hex.EncodeToString(v[:]))
	}
	for _, e := range s.e {
		p = append(p, strconv.FormatUint(e, 10))
	}
	return strings.Join(p, ",")
}

func (s sched) monotone() bool {
	for i := 1; i < 6; i++ {
		if s.e[i-1] > s.e[i] {
			return false
		}
	}
	return true
}

func parseSched(tok string) (sched, bool) {
	var s sched
	p := strings.Split(tok, ",")
	if len(p) != 14 {
		return s, false
	}
	var err error
	if s.spe, err = strconv.ParseUint(p[0], 10, 64); err != nil {
		return s, false
	}
	for i := 0; i < 7; i++ {
		b, err := hex.DecodeString(p[1+i])
		if err != nil || len(b) != 4 {
			return s, false
		}
		copy(s.v[i][:], b)
	}
	for i := 0; i < 6; i++ {
		if s.e[i], err = strconv.ParseUint(p[8+i], 10, 64); err != nil {
			return s, false
		}
	}
	return s, true
}

// apply writes the schedule into a copy of base.
func (s sched) apply(base *common.Spec) *common.Spec {
	c := *base
	c.SLOTS_PER_EPOCH = common.Slot(s.spe)
	c.GENESIS_FORK_VERSION = s.v[0]
	c.ALTAIR_FORK_VERSION = s.v[1]
	c.BELLATRIX_FORK_VERSION = s.v[2]
	c.CAPELLA_FORK_VERSION = s.v[3]
	c.DENEB_FORK_VERSION = s.v[4]
	c.ELECTRA_FORK_VERSION = s.v[5]
	c.FULU_FORK_VERSION = s.v[6]
	c.ALTAIR_FORK_EPOCH = common.Epoch(s.e[0])
	c.BELLATRIX_FORK_EPOCH = common.Epoch(s.e[1])
	c.CAPELLA_FORK_EPOCH = common.Epoch(s.e[2])
	c.DENEB_FORK_EPOCH = common.Epoch(s.e[3])
	c.ELECTRA_FORK_EPOCH = common.Epoch(s.e[4])
	c.FULU_FORK_EPOCH = common.Epoch(s.e[5])
	return &c
}

// randSched: monotone fork epochs with equal, adjacent and never-activated forks; `shape` is recorded.
func randSched(rng *rand.Rand, st *hreg.Stats, small bool) sched {
	var s sched
	switch rng.Intn(8) {
	case 0:
		s.spe = 1
	case 1:
		s.spe = 32
	case 2:
		s.spe = uint64(2 + rng.Intn(6))
	case 3:
		s.spe = 1 + rng.Uint64()>>uint(rng.Intn(64))
	default:
		s.spe = 8
	}
	if small {
		s.spe = 8
		if rng.Intn(4) == 0 {
			s.spe = 4
		}
	}
	for i := range s.v {
		rng.Read(s.v[i][:])
	}
	clash := "distinct"
	switch rng.Intn(10) {
	case 0: // two forks share a version
		a, b := rng.Intn(7), rng.Intn(7)
		s.v[a] = s.v[b]
		if a != b {
			clash = "two-equal"
		}
	case 1: // mainnet-like: i,0,0,0
		for i := range s.v {
			s.v[i] = [4]byte{byte(i), 0, 0, 0}
		}
		clash = "mainnet-like"
	}
	st.Add("schedule-versions", clash)
	// epochs: start value then increments of kind equal / adjacent / gap / never
	shape := ""
	var cur uint64
	switch rng.Intn(10) {
	case 0:
		cur = 0
		shape = "z"
	case 1:
		cur = 1
		shape = "o"
	default:
		cur = uint64(1 + rng.Intn(6))
		if !small && rng.Intn(3) == 0 {
			cur = rng.Uint64() >> uint(rng.Intn(64))
		}
		shape = "s"
	}
	never := false
	for i := 0; i < 6; i++ {
		if i > 0 {
			switch k := rng.Intn(8); {
			case never:
				shape += "n"
			case k < 2:
				shape += "e" // equal
			case k < 4:
				shape += "a" // adjacent
				if cur < maxU {
					cur++
				}
			case k < 7:
				shape += "g" // gap
				g := uint64(2 + rng.Intn(4))
				if !small && rng.Intn(4) == 0 {
					g = rng.Uint64() >> uint(1+rng.Intn(63))
				}
				if cur > maxU-g {
					cur = maxU
				} else {
					cur += g
				}
			default:
				shape += "n" // never from here on
				never = true
				cur = maxU
			}
		}
		s.e[i] = cur
	}
	st.Add("schedule-shape", shape[:1]+"+"+countKinds(shape[1:]))
	return s
}

func countKinds(s string) string {
	c := map[rune]int{}
	for _, r := range s {
		c[r]++
	}
	out := ""
	for _, r := range "eagn" {
		if c[r] > 0 {
			out += string(r)
		}
	}
	return out
}

func maxInt(a, b int) int {
	if a > b {
		return a
	}
	return b
}

func hx(b []byte) string {
	if len(b) == 0 {
		return "-"
	}
	return hex.EncodeToString(b)
}

func rnd32(rng *rand.Rand) []byte {
	b := make([]byte, 32)
	switch rng.Intn(6) {
	case 0: // zero root
	case 1:
		b[31] = 1
	default:
		rng.Read(b)
	}
	return b
}

// boundarySlots: slots on both sides of every fork boundary (wrapping arithmetic on purpose).
func boundarySlots(s sched) []uint64 {
	var out []uint64
	for _, e := range s.e {
		b := e * s.spe
		out = append(out, b-1, b, b+1, b+s.spe-1, b+s.spe, b-s.spe)
	}
	return out
}

func gen(o hreg.Opts, w *bufio.Writer) error {
	rng := o.Rand()
	st := o.Stats
	line := func(kind string, f string, a ...interface{}) {
		st.Add("op", kind)
		fmt.Fprintf(w, kind+" "+f+"\n", a...)
	}
	// --- constants: every field of the decoded structs, key lists, Go-level constants
	for _, name := range []string{"Mainnet", "Minimal"} {
		for _, k := range structKeys(builtin(name)) {
			line("const", "%s %s", name, k)
		}
		line("const", "%s UPDATE_TIMEOUT", name) // published, not carried by the struct
		line("const", "%s NOT_A_CONSTANT", name)
		line("constkeys", "%s", name)
	}
	for _, k := range goConstNames() {
		line("goconst", "%s", k)
	}
	line("goconst", "NOT_A_CONSTANT")
	// --- built-in schedules
	for _, name := range []string{"Mainnet", "Minimal"} {
		sp := builtin(name)
		spe := uint64(sp.SLOTS_PER_EPOCH)
		for _, e := range []uint64{0, 1, uint64(sp.ALTAIR_FORK_EPOCH), uint64(sp.BELLATRIX_FORK_EPOCH), uint64(sp.CAPELLA_FORK_EPOCH),
			uint64(sp.DENEB_FORK_EPOCH), uint64(sp.ELECTRA_FORK_EPOCH), uint64(sp.FULU_FORK_EPOCH), 300000, 400000} {
			for _, d := range []uint64{0, 1, spe - 1, spe, ^uint64(0)} { // -1
				line("fvb", "%s %d", name, e*spe+d)
			}
		}
		for i := 0; i < 40; i++ {
			line("fvb", "%s %d", name, rng.Uint64()>>uint(rng.Intn(64)))
		}
	}
	// --- fork version / digest / allocator over random monotone schedules
	n := o.Pick(600, 20000)
	for i := 0; i < n; i++ {
		s := randSched(rng, st, false)
		for _, sl := range boundarySlots(s) {
			line("fv", "%s %d", s, sl)
		}
		for j := 0; j < 4; j++ {
			line("fv", "%s %d", s, rng.Uint64()>>uint(rng.Intn(64)))
		}
		gvr := rnd32(rng)
		for k, e := range s.e {
			for _, d := range []uint64{^uint64(0), 0, 1} {
				if k%2 == i%2 || d == 0 {
					line("fd", "%s %s %d", s, hx(gvr), e+d)
				}
			}
		}
		line("fd", "%s %s %d", s, hx(gvr), rng.Uint64()>>uint(rng.Intn(64)))
		// allocator on each fork's own digest and on a foreign one
		sp := s.apply(configs.Minimal)
		var root common.Root
		copy(root[:], gvr)
		f := rng.Intn(7)
		d := common.ComputeForkDigest(sp.ForkVersion(0), root) // any digest of the schedule …
		switch f {
		case 0:
			d = common.ComputeForkDigest(s.v[rng.Intn(7)], root)
		case 1:
			rng.Read(d[:]) // unknown digest
		case 2:
			d = common.ComputeForkDigest(s.v[rng.Intn(7)], common.Root{0xff}) // right version, other chain
		default:
			d = common.ComputeForkDigest(s.v[f], root)
		}
		line("alloc", "%s %s %s", s, hx(gvr), hx(d[:]))
	}
	// zero SLOTS_PER_EPOCH (outside the domain: Go panics, the model says panic) and non-monotone schedules
	for i := 0; i < 6; i++ {
		s := randSched(rng, st, false)
		s.spe = 0
		line("fv", "%s %d", s, rng.Uint64())
		s = randSched(rng, st, false)
		a, b := rng.Intn(6), rng.Intn(6)
		s.e[a], s.e[b] = s.e[b], s.e[a]
		for _, sl := range boundarySlots(s) {
			line("fv", "%s %d", s, sl)
		}
	}
	// --- chains through UpgradeMaybe
	m := o.Pick(40, 600)
	for i := 0; i < m; i++ {
		s := randSched(rng, st, true)
		// keep fork epochs within reach: cap the gaps
		var ts []uint64
		seen := map[uint64]bool{}
		add := func(t uint64) {
			if t >= 1 && t <= 8*16 && !seen[t] {
				seen[t] = true
				ts = append(ts, t)
			}
		}
		for _, e := range s.e {
			if e < 20 {
				b := e * s.spe
				add(b - 1)
				add(b)
				add(b + 1)
			}
		}
		add(uint64(1 + rng.Intn(40)))
		sort.Slice(ts, func(i, j int) bool { return ts[i] < ts[j] })
		if len(ts) == 0 {
			ts = []uint64{3}
		}
		crossed := 0
		for _, e := range s.e {
			if e*s.spe <= ts[len(ts)-1] {
				crossed++
			}
		}
		st.Add("chain-forks-crossed", strconv.Itoa(crossed))
		var tt []string
		for _, t := range ts {
			tt = append(tt, strconv.FormatUint(t, 10))
		}
		line("chain", "%s %s", s, strings.Join(tt, " "))
		if s.e[4] != 0 {
			line("dom", "%s %s %s", s, hx(rnd32(rng)), strings.Join(tt, " "))
		}
		if s.e[0] == 0 || i%4 == 0 {
			// the same walk from a genesis in the fork of epoch 0 (identical to the phase0 genesis if altair > 0)
			st.Add("chain-genesis-fork", strconv.Itoa(func() int {
				k := 0
				for _, e := range s.e {
					if e == 0 {
						k++
					}
				}
				return k
			}()))
			line("chaing", "%s %s", s, strings.Join(tt, " "))
		}
	}
	// later-fork genesis: the first k forks at epoch 0 (k = 1..4), the rest equal / adjacent / apart / never
	for i := 0; i < o.Pick(16, 200); i++ {
		s := randSched(rng, st, true)
		k := 1 + i%4
		cur := uint64(0)
		for j := 0; j < 6; j++ {
			if j >= k {
				switch rng.Intn(4) {
				case 0: // equal to the previous one (but not 0 again)
					if cur == 0 {
						cur = 1
					}
				case 1:
					cur++
				case 2:
					cur += uint64(2 + rng.Intn(3))
				default:
					if j >= 4 || rng.Intn(3) == 0 {
						cur = maxU
					} else {
						cur++
					}
				}
			}
			if cur < s.e[maxInt(j-1, 0)] {
				cur = s.e[maxInt(j-1, 0)]
			}
			s.e[j] = cur
		}
		var tt []string
		seen := map[uint64]bool{}
		var ts []uint64
		for _, e := range s.e {
			if e < 20 {
				for _, t := range []uint64{e*s.spe - 1, e * s.spe, e*s.spe + 1} {
					if t >= 1 && t <= 128 && !seen[t] {
						seen[t] = true
						ts = append(ts, t)
					}
				}
			}
		}
		ts = append(ts, uint64(2+rng.Intn(5)))
		sort.Slice(ts, func(a, b int) bool { return ts[a] < ts[b] })
		last := uint64(0)
		for _, t := range ts {
			if t != last {
				tt = append(tt, strconv.FormatUint(t, 10))
			}
			last = t
		}
		st.Add("chain-genesis-fork", strconv.Itoa(k))
		line("chaing", "%s %s", s, strings.Join(tt, " "))
		line("dom", "%s %s %s", s, hx(rnd32(rng)), strings.Join(tt, " "))
		line("chain", "%s %s", s, strings.Join(tt, " ")) // phase0 genesis on the same schedule: never upgrades
	}
	// --- envelope round trips
	k := o.Pick(60, 1200)
	for i := 0; i < k; i++ {
		line("env", "%s %d", forkNames[i%6], rng.Int63())
	}
	// --- envelope signatures
	q := o.Pick(320, 4000)
	for i := 0; i < q; i++ {
		s := randSched(rng, st, false)
		if s.spe == 0 {
			s.spe = 8
		}
		// a slot inside a random fork's interval (or on a boundary)
		fi := rng.Intn(7)
		var slot uint64
		if fi == 0 {
			slot = 0
			if s.e[0] > 0 {
				slot = (rng.Uint64() % s.e[0]) * s.spe
			}
		} else {
			slot = s.e[fi-1]*s.spe + uint64(rng.Intn(3))
		}
		sp := s.apply(configs.Minimal)
		right := -1
		actual := sp.ForkVersion(common.Slot(slot))
		_ = actual
		gvr := rnd32(rng)
		gvrSign, dGvr := gvr, gvr
		root := rnd32(rng)
		// which fork's version the slot implies, by the simplest possible search (epochs are monotone)
		ep := slot / s.spe
		right = 0
		for j, e := range s.e {
			if e <= ep {
				right = j + 1
			}
		}
		vIdx, dIdx := right, right
		penv := uint64(rng.Intn(4))
		prop := penv
		signer := rng.Intn(3)
		pub := signer
		kind := "good"
		scenario := "valid"
		switch rng.Intn(12) {
		case 0, 1, 2: // signed under another fork's version
			vIdx = rng.Intn(7)
			scenario = "other-version-signed"
		case 3: // digest of another fork
			dIdx = rng.Intn(7)
			scenario = "other-version-digest"
		case 4: // both digest and signature under another (consistent) version: replay from another fork
			vIdx = rng.Intn(7)
			dIdx = vIdx
			scenario = "replay-other-fork"
		case 5: // other chain
			gvrSign = rnd32(rng)
			scenario = "other-gvr-signed"
		case 6:
			gvrSign = rnd32(rng)
			dGvr = gvrSign
			scenario = "replay-other-chain"
		case 7:
			prop = penv + 1
			scenario = "other-proposer"
		case 8:
			pub = (signer + 1) % 3
			scenario = "other-key"
		case 9:
			kind = "garbage"
			scenario = "garbage-sig"
		}
		if scenario != "valid" && vIdx == right && dIdx == right && bytes.Equal(gvrSign, gvr) && bytes.Equal(dGvr, gvr) && prop == penv && pub == signer && kind == "good" {
			scenario = "valid"
		}
		st.Add("sig-scenario", scenario)
		st.Add("sig-fork", forkNames[right])
		line("sig", "%s %d %s %s %s %d %d %s %d %d %d %d %s", s, slot, hx(gvr), hx(gvrSign), hx(root), vIdx, dIdx, hx(dGvr), penv, prop, signer, pub, kind)
	}
	// --- a user's own configuration files: forks at epoch 0, equal epochs, never, custom versions and constants
	for i := 0; i < o.Pick(40, 600); i++ {
		s := randSched(rng, st, true)
		if s.spe == 0 {
			s.spe = 8
		}
		if i%3 == 0 { // the first k forks at genesis
			k := 1 + rng.Intn(6)
			for j := 0; j < k; j++ {
				s.e[j] = 0
			}
		}
		if i%7 == 0 {
			s.spe = uint64(1 + rng.Intn(64))
		}
		zeros := 0
		for _, e := range s.e {
			if e == 0 {
				zeros++
			}
		}
		st.Add("cfgfile-forks-at-genesis", strconv.Itoa(zeros))
		line("cfgfile", "%s %d,%d,%d", s, 1+rng.Intn(60), rng.Intn(100000), 1+rng.Intn(64))
	}
	// --- the public constructors of eth2/configs, customisation of what they return, and the built-ins again
	pick := []string{"mainnet", "minimal"}
	apiLines := 0
	emitAPI := func() {
		combos := [][]string{
			{"mainnet", "mainnet", "mainnet", "mainnet", "mainnet", "mainnet", "mainnet"},
			{"minimal", "minimal", "minimal", "minimal", "minimal", "minimal", "minimal"},
		}
		for i := 0; i < o.Pick(6, 60); i++ {
			c := make([]string, 7)
			for j := range c {
				c[j] = pick[rng.Intn(2)]
			}
			combos = append(combos, c)
		}
		for i, c := range combos {
			legacy := []string{"none", "mainnet", "minimal"}[(i+apiLines)%3]
			mask := uint64(31)
			if i >= 2 {
				mask = uint64(1 + rng.Intn(31))
			}
			st.Add("specapi-legacy", legacy)
			line("specapi", "%s %s %d", strings.Join(c, ","), legacy, mask)
			apiLines++
		}
		line("specapi", "mainnet,mainnet,,mainnet,mainnet,mainnet,mainnet none 1") // a component without a name: refused
	}
	emitAPI()
	for _, name := range []string{"Mainnet", "Minimal"} { // the reflection dump of the built-ins once more
		for _, k := range structKeys(builtin(name)) {
			line("const", "%s %s", name, k)
		}
		line("constkeys", "%s", name)
		line("fvb", "%s %d", name, uint64(builtin(name).SLOTS_PER_EPOCH)*194048)
	}
	emitAPI()
	// malformed lines
	line("fv", "1,2,3 5")
	line("fd", "x y z")
	fmt.Fprintln(w, "nonsense")
	return nil
}

// ---------------------------------------------------------------------------------------------
// constants by reflection

func builtin(name string) *common.Spec {
	switch name {
	case "Mainnet":
		return configs.Mainnet
	case "Minimal":
		return configs.Minimal
	}
	return nil
}

func renderField(v reflect.Value) (string, bool) {
	switch v.Kind() {
	case reflect.Uint64, reflect.Uint8, reflect.Uint32, reflect.Uint16, reflect.Uint:
		return strconv.FormatUint(v.Uint(), 10), true
	case reflect.String:
		return "'" + v.String() + "'", true
	case reflect.Array:
		if v.Type().Elem().Kind() == reflect.Uint8 {
			b := make([]byte, v.Len())
			for i := range b {
				b[i] = byte(v.Index(i).Uint())
			}
			return "0x" + hex.EncodeToString(b), true
		}
		if v.Type().Elem().Kind() == reflect.Uint64 { // uint256: little-endian limbs
			n := new(big.Int)
			for i := v.Len() - 1; i >= 0; i-- {
				n.Lsh(n, 64)
				n.Or(n, new(big.Int).SetUint64(v.Index(i).Uint()))
			}
			return n.String(), true
		}
	}
	return "", false
}

func walkSpec(sp *common.Spec, f func(name string, v reflect.Value)) {
	rv := reflect.ValueOf(sp).Elem()
	for i := 0; i < rv.NumField(); i++ {
		sub := rv.Field(i)
		if sub.Kind() != reflect.Struct {
			continue // ExecutionEngine
		}
		for j := 0; j < sub.NumField(); j++ {
			f(sub.Type().Field(j).Name, sub.Field(j))
		}
	}
}

func structKeys(sp *common.Spec) []string {
	var ks []string
	walkSpec(sp, func(n string, _ reflect.Value) { ks = append(ks, n) })
	sort.Strings(ks)
	return ks
}

func goConstTable() map[string]string {
	u := func(v uint64) string { return strconv.FormatUint(v, 10) }
	d := func(v common.BLSDomainType) string { return "0x" + hex.EncodeToString(v[:]) }
	return map[string]string{
		"FAR_FUTURE_EPOCH":                         u(uint64(common.FAR_FUTURE_EPOCH)),
		"BASE_REWARDS_PER_EPOCH":                   u(common.BASE_REWARDS_PER_EPOCH),
		"DEPOSIT_CONTRACT_TREE_DEPTH":              u(common.DEPOSIT_CONTRACT_TREE_DEPTH),
		"SECONDS_PER_DAY":                          u(common.SECONDS_PER_DAY),
		"GENESIS_SLOT":                             u(uint64(common.GENESIS_SLOT)),
		"GENESIS_EPOCH":                            u(uint64(common.GENESIS_EPOCH)),
		"JUSTIFICATION_BITS_LENGTH":                u(common.JUSTIFICATION_BITS_LENGTH),
		"MAX_EXTRA_DATA_BYTES":                     u(common.MAX_EXTRA_DATA_BYTES),
		"ATTESTATION_SUBNET_COUNT":                 u(common.ATTESTATION_SUBNET_COUNT),
		"TARGET_AGGREGATORS_PER_COMMITTEE":         u(common.TARGET_AGGREGATORS_PER_COMMITTEE),
		"RANDOM_SUBNETS_PER_VALIDATOR":             u(common.RANDOM_SUBNETS_PER_VALIDATOR),
		"EPOCHS_PER_RANDOM_SUBNET_SUBSCRIPTION":    u(common.EPOCHS_PER_RANDOM_SUBNET_SUBSCRIPTION),
		"BLS_WITHDRAWAL_PREFIX":                    u(common.BLS_WITHDRAWAL_PREFIX),
		"ETH1_ADDRESS_WITHDRAWAL_PREFIX":           u(common.ETH1_ADDRESS_WITHDRAWAL_PREFIX),
		"SYNC_COMMITTEE_SUBNET_COUNT":              u(common.SYNC_COMMITTEE_SUBNET_COUNT),
		"TARGET_AGGREGATORS_PER_SYNC_SUBCOMMITTEE": u(common.TARGET_AGGREGATORS_PER_SYNC_SUBCOMMITTEE),
		"BLOB_TX_TYPE":                             u(common.BLOB_TX_TYPE),
		"VERSIONED_HASH_VERSION_KZG":               u(common.VERSIONED_HASH_VERSION_KZG),
		"BYTES_PER_LOGS_BLOOM":                     u(common.BYTES_PER_LOGS_BLOOM),
		"DOMAIN_BEACON_PROPOSER":                   d(common.DOMAIN_BEACON_PROPOSER),
		"DOMAIN_BEACON_ATTESTER":                   d(common.DOMAIN_BEACON_ATTESTER),
		"DOMAIN_RANDAO":                            d(common.DOMAIN_RANDAO),
		"DOMAIN_DEPOSIT":                           d(common.DOMAIN_DEPOSIT),
		"DOMAIN_VOLUNTARY_EXIT":                    d(common.DOMAIN_VOLUNTARY_EXIT),
		"DOMAIN_SELECTION_PROOF":                   d(common.DOMAIN_SELECTION_PROOF),
		"DOMAIN_AGGREGATE_AND_PROOF":               d(common.DOMAIN_AGGREGATE_AND_PROOF),
		"DOMAIN_SYNC_COMMITTEE":                    d(common.DOMAIN_SYNC_COMMITTEE),
		"DOMAIN_SYNC_COMMITTEE_SELECTION_PROOF":    d(common.DOMAIN_SYNC_COMMITTEE_SELECTION_PROOF),
		"DOMAIN_CONTRIBUTION_AND_PROOF":            d(common.DOMAIN_CONTRIBUTION_AND_PROOF),
		"DOMAIN_BLS_TO_EXECUTION_CHANGE":           d(common.DOMAIN_BLS_TO_EXECUTION_CHANGE),
		"TIMELY_SOURCE_FLAG_INDEX":                 u(uint64(altair.TIMELY_SOURCE_FLAG_INDEX)),
		"TIMELY_TARGET_FLAG_INDEX":                 u(uint64(altair.TIMELY_TARGET_FLAG_INDEX)),
		"TIMELY_HEAD_FLAG_INDEX":                   u(uint64(altair.TIMELY_HEAD_FLAG_INDEX)),
		"TIMELY_SOURCE_FLAG":                       u(uint64(altair.TIMELY_SOURCE_FLAG)),
		"TIMELY_TARGET_FLAG":                       u(uint64(altair.TIMELY_TARGET_FLAG)),
		"TIMELY_HEAD_FLAG":                         u(uint64(altair.TIMELY_HEAD_FLAG)),
		"TIMELY_SOURCE_WEIGHT":                     u(uint64(altair.TIMELY_SOURCE_WEIGHT)),
		"TIMELY_TARGET_WEIGHT":                     u(uint64(altair.TIMELY_TARGET_WEIGHT)),
		"TIMELY_HEAD_WEIGHT":                       u(uint64(altair.TIMELY_HEAD_WEIGHT)),
		"SYNC_REWARD_WEIGHT":                       u(uint64(altair.SYNC_REWARD_WEIGHT)),
		"PROPOSER_WEIGHT":                          u(uint64(altair.PROPOSER_WEIGHT)),
		"WEIGHT_DENOMINATOR":                       u(uint64(altair.WEIGHT_DENOMINATOR)),
	}
}

func goConstNames() []string {
	var ks []string
	for k := range goConstTable() {
		ks = append(ks, k)
	}
	sort.Strings(ks)
	return ks
}

// ---------------------------------------------------------------------------------------------
// keys, chains, blocks

func secretKey(i int) *blsu.SecretKey {
	var b [32]byte
	binary.BigEndian.PutUint64(b[24:], uint64(i)+1)
	b[0] = 0x01 // keep well below the group order but not tiny
	b[1] = byte(i * 7)
	var sk blsu.SecretKey
	if err := sk.Deserialize(&b); err != nil {
		panic(err)
	}
	return &sk
}

var pubCache = map[int]common.BLSPubkey{}

func pubkey(i int) common.BLSPubkey {
	if p, ok := pubCache[i]; ok {
		return p
	}
	pk, err := blsu.SkToPk(secretKey(i))
	if err != nil {
		panic(err)
	}
	p := common.BLSPubkey(pk.Serialize())
	pubCache[i] = p
	return p
}

func kickstart(spec *common.Spec, nvals int) (*phase0.BeaconStateView, *common.EpochsContext, error) {
	vals := make([]phase0.KickstartValidatorData, nvals)
	for i := range vals {
		var wc common.Root
		wc[0] = 0
		wc[31] = byte(i)
		vals[i] = phase0.KickstartValidatorData{Pubkey: pubkey(100 + i), WithdrawalCredentials: wc, Balance: spec.MAX_EFFECTIVE_BALANCE}
	}
	return phase0.KickStartState(spec, common.Root{0x42}, 1600000000, vals)
}

func stateKind(s common.BeaconState) string {
	switch s.(type) {
	case *phase0.BeaconStateView:
		return "phase0"
	case *altair.BeaconStateView:
		return "altair"
	case *bellatrix.BeaconStateView:
		return "bellatrix"
	case *capella.BeaconStateView:
		return "capella"
	case *deneb.BeaconStateView:
		return "deneb"
	case *electra.BeaconStateView:
		return "electra"
	}
	return "unknown"
}

// upgradeAtGenesis turns the phase0 genesis into a genesis of the fork active at epoch 0, the way the
// consensus specification's later-fork test genesis does: the real UpgradeToX functions at slot 0, then the
// fork record (version, version, 0).
func upgradeAtGenesis(spec *common.Spec, s sched, st common.BeaconState, epc *common.EpochsContext) (common.BeaconState, error) {
	cur := st
	var err error
	if s.e[0] == 0 {
		var post *altair.BeaconStateView
		if post, err = altair.UpgradeToAltair(spec, epc, cur.(*phase0.BeaconStateView)); err != nil {
			return nil, err
		}
		if err = epc.LoadSyncCommittees(post); err != nil {
			return nil, err
		}
		cur = post
	}
	if s.e[1] == 0 {
		if cur, err = bellatrix.UpgradeToBellatrix(spec, epc, cur.(*altair.BeaconStateView)); err != nil {
			return nil, err
		}
	}
	if s.e[2] == 0 {
		if cur, err = capella.UpgradeToCapella(spec, epc, cur.(*bellatrix.BeaconStateView)); err != nil {
			return nil, err
		}
	}
	if s.e[3] == 0 {
		if cur, err = deneb.UpgradeToDeneb(spec, epc, cur.(*capella.BeaconStateView)); err != nil {
			return nil, err
		}
	}
	v := spec.ForkVersion(0)
	if err := cur.SetFork(common.Fork{PreviousVersion: v, CurrentVersion: v, Epoch: 0}); err != nil {
		return nil, err
	}
	return cur, nil
}

func slotRoot(t uint64) common.Root {
	var r common.Root
	for i := 0; i < 4; i++ {
		binary.LittleEndian.PutUint64(r[8*i:], t)
	}
	return r
}

// runDom walks a chain (genesis in the fork of epoch 0) to each target slot and reports, per target, what the
// STATE says about versions: common.GetDomain(state, DOMAIN_BEACON_PROPOSER, epoch) for the epochs before, at
// and after the state's epoch, and whether an envelope for that slot — signed under the state-derived proposer
// domain, digest from the state's current version — passes BeaconBlockEnvelope.VerifySignature.
func runDom(s sched, gvr common.Root, targets []uint64) string {
	spec := s.apply(configs.Minimal)
	state, epc, err := kickstart(spec, 32)
	if err != nil {
		return "err"
	}
	if s.e[4] == 0 {
		return "bad-op"
	}
	st0, err := upgradeAtGenesis(spec, s, state, epc)
	if err != nil {
		return "err"
	}
	if err := st0.SetGenesisValidatorsRoot(gvr); err != nil {
		return "err"
	}
	up := &beacon.StandardUpgradeableBeaconState{BeaconState: st0}
	var out []string
	for _, t := range targets {
		if err := common.ProcessSlots(context.Background(), spec, epc, up, common.Slot(t)); err != nil {
			out = append(out, "err")
			break
		}
		e := uint64(spec.SlotToEpoch(common.Slot(t)))
		var parts []string
		for _, me := range []uint64{e - 1, e, e + 1} {
			if e == 0 && me == e-1 {
				parts = append(parts, "-")
				continue
			}
			d, err := common.GetDomain(up.BeaconState, common.DOMAIN_BEACON_PROPOSER, common.Epoch(me))
			if err != nil {
				parts = append(parts, "err")
				continue
			}
			parts = append(parts, hex.EncodeToString(d[:]))
		}
		d0, err := common.GetDomain(up.BeaconState, common.DOMAIN_BEACON_PROPOSER, common.Epoch(e))
		f, err2 := up.BeaconState.Fork()
		if err != nil || err2 != nil {
			out = append(out, "err")
			break
		}
		root := slotRoot(t)
		msg := common.ComputeSigningRoot(root, d0)
		env := &common.BeaconBlockEnvelope{
			ForkDigest:        common.ComputeForkDigest(f.CurrentVersion, gvr),
			BeaconBlockHeader: common.BeaconBlockHeader{Slot: common.Slot(t), ProposerIndex: 3},
			BlockRoot:         root,
			Signature:         common.BLSSignature(blsu.Sign(secretKey(0), msg[:]).Serialize()),
		}
		ok := env.VerifySignature(spec, gvr, 3, &common.CachedPubkey{Compressed: pubkey(0)})
		parts = append(parts, hreg.B2S(ok))
		out = append(out, strconv.FormatUint(t, 10)+":"+strings.Join(parts, ","))
	}
	return "ok " + strings.Join(out, " ")
}

func runChain(s sched, targets []uint64, atFork bool) string {
	spec := s.apply(configs.Minimal)
	state, epc, err := kickstart(spec, 32)
	if err != nil {
		return "err"
	}
	var st0 common.BeaconState = state
	if atFork {
		if s.e[4] == 0 {
			return "bad-op" // an Electra genesis cannot be made (no upgrade)
		}
		if st0, err = upgradeAtGenesis(spec, s, state, epc); err != nil {
			return "err"
		}
	}
	up := &beacon.StandardUpgradeableBeaconState{BeaconState: st0}
	var out []string
	for _, t := range targets {
		if err := common.ProcessSlots(context.Background(), spec, epc, up, common.Slot(t)); err != nil {
			out = append(out, "err")
			break
		}
		f, err := up.BeaconState.Fork()
		if err != nil {
			out = append(out, "err")
			break
		}
		slot, _ := up.BeaconState.Slot()
		if uint64(slot) != t {
			out = append(out, "wrong-slot")
			break
		}
		out = append(out, fmt.Sprintf("%s,%s,%s,%d", stateKind(up.BeaconState), hex.EncodeToString(f.PreviousVersion[:]),
			hex.EncodeToString(f.CurrentVersion[:]), uint64(f.Epoch)))
	}
	return "ok " + strings.Join(out, " ")
}

// fill: reflective random filler for SSZ struct types (small lists, valid bitfields).
func fill(rng *rand.Rand, spec *common.Spec, v reflect.Value) {
	t := v.Type()
	switch t.Kind() {
	case reflect.Struct:
		for i := 0; i < v.NumField(); i++ {
			fill(rng, spec, v.Field(i))
		}
	case reflect.Array:
		if t.Elem().Kind() == reflect.Uint8 {
			b := make([]byte, v.Len())
			rng.Read(b)
			reflect.Copy(v, reflect.ValueOf(b))
			return
		}
		for i := 0; i < v.Len(); i++ {
			fill(rng, spec, v.Index(i))
		}
	case reflect.Uint64:
		v.SetUint(rng.Uint64() >> uint(rng.Intn(64)))
	case reflect.Uint8, reflect.Uint16, reflect.Uint32:
		v.SetUint(uint64(rng.Intn(256)))
	case reflect.Bool:
		v.SetBool(rng.Intn(2) == 0)
	case reflect.Ptr:
		v.Set(reflect.New(t.Elem()))
		fill(rng, spec, v.Elem())
	case reflect.Slice:
		if t.Elem().Kind() == reflect.Uint8 {
			var b []byte
			switch t.Name() {
			case "SyncCommitteeBits":
				b = make([]byte, (uint64(spec.SYNC_COMMITTEE_SIZE)+7)/8)
				rng.Read(b)
			case "CommitteeBits": // bitvector MAX_COMMITTEES_PER_SLOT
				b = make([]byte, (uint64(spec.MAX_COMMITTEES_PER_SLOT)+7)/8)
				rng.Read(b)
				if r := uint64(spec.MAX_COMMITTEES_PER_SLOT) % 8; r != 0 {
					b[len(b)-1] &= byte(1<<r) - 1
				}
			case "AttestationBits": // bitlist: n bits then the delimiter bit
				n := rng.Intn(40)
				b = make([]byte, n/8+1)
				rng.Read(b)
				b[n/8] &= byte(1<<uint(n%8)) - 1
				b[n/8] |= 1 << uint(n%8)
			case "ExtraData":
				b = make([]byte, rng.Intn(33))
				rng.Read(b)
			default: // Transaction and other opaque byte lists
				b = make([]byte, rng.Intn(60))
				rng.Read(b)
			}
			v.Set(reflect.ValueOf(b).Convert(t))
			return
		}
		n := rng.Intn(3)
		if strings.Contains(t.Name(), "AttesterSlashings") && n > 1 {
			n = 1
		}
		sl := reflect.MakeSlice(t, n, n)
		for i := 0; i < n; i++ {
			fill(rng, spec, sl.Index(i))
		}
		v.Set(sl)
	}
}

type signedBlock interface {
	common.SpecObj
	common.EnvelopeBuilder
}

func newBlock(fork string) signedBlock {
	switch fork {
	case "phase0":
		return new(phase0.SignedBeaconBlock)
	case "altair":
		return new(altair.SignedBeaconBlock)
	case "bellatrix":
		return new(bellatrix.SignedBeaconBlock)
	case "capella":
		return new(capella.SignedBeaconBlock)
	case "deneb":
		return new(deneb.SignedBeaconBlock)
	case "electra":
		return new(electra.SignedBeaconBlock)
	}
	return nil
}

func ser(spec *common.Spec, o common.SpecObj) ([]byte, error) {
	var buf bytes.Buffer
	if err := o.Serialize(spec, codec.NewEncodingWriter(&buf)); err != nil {
		return nil, err
	}
	return buf.Bytes(), nil
}

func same(b bool) string {
	if b {
		return "same"
	}
	return "DIFFERENT"
}

func runEnv(fork string, seed int64) string {
	rng := rand.New(rand.NewSource(seed))
	spec := configs.Minimal
	if seed%2 == 0 {
		spec = configs.Mainnet
	}
	blk := newBlock(fork)
	if blk == nil {
		return "bad-op"
	}
	fill(rng, spec, reflect.ValueOf(blk).Elem())
	hFn := tree.GetHashFn()
	bytes0, err := ser(spec, blk)
	if err != nil {
		return "filler-invalid"
	}
	// sanity of the filler itself: the value must survive its own SSZ round trip
	chk := newBlock(fork)
	if err := chk.Deserialize(spec, codec.NewDecodingReader(bytes.NewReader(bytes0), uint64(len(bytes0)))); err != nil {
		return "filler-invalid"
	}
	root0 := blk.HashTreeRoot(spec, hFn)
	if chk.HashTreeRoot(spec, hFn) != root0 {
		return "filler-invalid"
	}
	var digest common.ForkDigest
	rng.Read(digest[:])
	env := blk.Envelope(spec, digest)
	back, err := beacon.EnvelopeToSignedBeaconBlock(env)
	if err != nil {
		return "err"
	}
	kind := strings.TrimPrefix(strings.Split(fmt.Sprintf("%T", back), ".")[0], "*")
	bytes1, err := ser(spec, back)
	if err != nil {
		return "err"
	}
	root1 := back.HashTreeRoot(spec, hFn)
	// the pieces of the original, read reflectively
	msg := reflect.ValueOf(blk).Elem().FieldByName("Message")
	sig := reflect.ValueOf(blk).Elem().FieldByName("Signature").Interface().(common.BLSSignature)
	msgRoot := msg.Addr().Interface().(common.SpecObj).HashTreeRoot(spec, hFn)
	body := msg.FieldByName("Body").Addr().Interface().(common.SpecObj)
	bodyRoot := body.HashTreeRoot(spec, hFn)
	hdrOK := env.Slot == common.Slot(msg.FieldByName("Slot").Uint()) &&
		env.ProposerIndex == common.ValidatorIndex(msg.FieldByName("ProposerIndex").Uint()) &&
		env.ParentRoot == msg.FieldByName("ParentRoot").Interface().(common.Root) &&
		env.StateRoot == msg.FieldByName("StateRoot").Interface().(common.Root) &&
		env.BodyRoot == bodyRoot
	bodyOK := env.Body.HashTreeRoot(spec, hFn) == bodyRoot
	return fmt.Sprintf("ok %s root=%s bytes=%s blockroot=%s header=%s body=%s sig=%s digest=%s", kind,
		same(root1 == root0), same(bytes.Equal(bytes0, bytes1)), same(env.BlockRoot == msgRoot), same(hdrOK), same(bodyOK),
		same(env.Signature == sig), same(env.ForkDigest == digest))
}

func runSig(f []string) string {
	s, ok := parseSched(f[1])
	if !ok || s.spe == 0 || !s.monotone() {
		return "bad-op"
	}
	u := func(x string) uint64 {
		v, err := strconv.ParseUint(x, 10, 64)
		if err != nil {
			panic("bad number")
		}
		return v
	}
	r32 := func(x string) (common.Root, bool) {
		var r common.Root
		b, err := hex.DecodeString(x)
		if err != nil || len(b) != 32 {
			return r, false
		}
		copy(r[:], b)
		return r, true
	}
	slot := u(f[2])
	gvr, ok1 := r32(f[3])
	gvrSign, ok2 := r32(f[4])
	root, ok3 := r32(f[5])
	vIdx, dIdx := int(u(f[6])), int(u(f[7]))
	dGvr, ok4 := r32(f[8])
	penv, prop := u(f[9]), u(f[10])
	signer, pub := int(u(f[11])), int(u(f[12]))
	kind := f[13]
	if !(ok1 && ok2 && ok3 && ok4) || vIdx > 6 || dIdx > 6 {
		return "bad-op"
	}
	spec := s.apply(configs.Minimal)
	// the signer signs what the spec says a proposer signs under (version #vIdx, gvrSign)
	dom := common.ComputeDomain(common.DOMAIN_BEACON_PROPOSER, s.v[vIdx], gvrSign)
	msg := common.ComputeSigningRoot(root, dom)
	var sig common.BLSSignature
	switch kind {
	case "good":
		sig = common.BLSSignature(blsu.Sign(secretKey(signer), msg[:]).Serialize())
	default:
		for i := range sig {
			sig[i] = byte(i*31 + 7)
		}
	}
	env := &common.BeaconBlockEnvelope{
		ForkDigest:        common.ComputeForkDigest(s.v[dIdx], dGvr),
		BeaconBlockHeader: common.BeaconBlockHeader{Slot: common.Slot(slot), ProposerIndex: common.ValidatorIndex(penv)},
		BlockRoot:         root,
		Signature:         sig,
	}
	cp := &common.CachedPubkey{Compressed: pubkey(pub)}
	res := env.VerifySignature(spec, gvr, common.ValidatorIndex(prop), cp)
	return "ok " + hreg.B2S(res) + " " + hex.EncodeToString(msg[:])
}

// sentinel constants read back in `specapi` lines: (struct group the value lives in, key)
var sentinels = [][2]string{
	{"Config", "ALTAIR_FORK_EPOCH"}, {"Config", "GENESIS_FORK_VERSION"}, {"Config", "SECONDS_PER_SLOT"},
	{"Phase0Preset", "MAX_COMMITTEES_PER_SLOT"}, {"AltairPreset", "SYNC_COMMITTEE_SIZE"},
	{"BellatrixPreset", "MAX_EXTRA_DATA_BYTES"}, {"CapellaPreset", "MAX_WITHDRAWALS_PER_PAYLOAD"},
	{"DenebPreset", "MAX_BLOB_COMMITMENTS_PER_BLOCK"}, {"ElectraPreset", "PENDING_CONSOLIDATIONS_LIMIT"},
}

func sentinelDump(sp *common.Spec) string {
	var out []string
	for _, k := range sentinels {
		v := "absent"
		walkSpec(sp, func(n string, f reflect.Value) {
			if n == k[1] {
				if s, ok := renderField(f); ok {
					v = s
				}
			}
		})
		out = append(out, v)
	}
	eng := "nil"
	if sp.ExecutionEngine != nil {
		eng = "SET"
	}
	return strings.Join(out, ",") + ",engine=" + eng
}

type dummyEngine struct{}

// runSpecAPI: a spec is obtained through the public constructor configs.SpecOptions.Spec, the caller
// customises ITS spec (fork epochs, versions, preset values, the engine), and then the built-in
// configurations and a newly constructed spec are read again: they must still be the published ones.
// names: config,phase0,altair,bellatrix,capella,deneb,electra ; legacy: name or "none".
func runSpecAPI(names []string, legacy string, mask uint64) string {
	mk := func() (*common.Spec, error) {
		o := &configs.SpecOptions{Config: names[0], Phase0Preset: names[1], AltairPreset: names[2], BellatrixPreset: names[3],
			CapellaPreset: names[4], DenebPreset: names[5], ElectraPreset: names[6]}
		if legacy != "none" {
			o.LegacyConfig, o.LegacyConfigChanged = legacy, true
		}
		return o.Spec()
	}
	s1, err := mk()
	if err != nil {
		return "err"
	}
	s2, err := mk()
	if err != nil {
		return "err"
	}
	// the default options (all mainnet)
	var d configs.SpecOptions
	d.Default()
	s3, err := d.Spec()
	if err != nil {
		return "err"
	}
	distinct := s1 != configs.Mainnet && s1 != configs.Minimal && s2 != configs.Mainnet && s2 != configs.Minimal &&
		s3 != configs.Mainnet && s3 != configs.Minimal && s1 != s2 && s1 != s3 && s2 != s3
	got := sentinelDump(s1)
	// the caller customises its own specs
	for _, sp := range []*common.Spec{s1, s3} {
		if mask&1 != 0 {
			sp.ALTAIR_FORK_EPOCH, sp.BELLATRIX_FORK_EPOCH = 7, 9
		}
		if mask&2 != 0 {
			sp.GENESIS_FORK_VERSION = common.Version{0xde, 0xad, 0xbe, 0xef}
			sp.ALTAIR_FORK_VERSION = common.Version{0xde, 0xad, 0xbe, 0xf0}
		}
		if mask&4 != 0 {
			sp.MAX_COMMITTEES_PER_SLOT, sp.SYNC_COMMITTEE_SIZE, sp.MAX_WITHDRAWALS_PER_PAYLOAD = 3, 9, 5
			sp.MAX_BLOB_COMMITMENTS_PER_BLOCK, sp.PENDING_CONSOLIDATIONS_LIMIT = 7, 11
		}
		if mask&8 != 0 {
			sp.SECONDS_PER_SLOT = 1
			sp.CONFIG_NAME = "customised"
		}
		if mask&16 != 0 {
			sp.ExecutionEngine = dummyEngine{}
		}
	}
	s4, err := mk()
	if err != nil {
		return "err"
	}
	return fmt.Sprintf("ok copies=%s got=%s mainnet=%s minimal=%s rebuilt=%s", map[bool]string{true: "distinct", false: "SHARED"}[distinct],
		got, sentinelDump(configs.Mainnet), sentinelDump(configs.Minimal), sentinelDump(s4))
}

var reYamlLine = regexp.MustCompile(`(?m)^([A-Z0-9_]+):.*$`)

// setYaml replaces the value of KEY in a `KEY: value` text (the key must be present).
func setYaml(text, key, val string) (string, bool) {
	found := false
	out := reYamlLine.ReplaceAllStringFunc(text, func(l string) string {
		if strings.HasPrefix(l, key+":") {
			found = true
			return key + ": " + val
		}
		return l
	})
	return out, found
}

// runCfgFile: a user's own configuration. A config YAML and a phase0 preset YAML are WRITTEN as text (the
// published minimal files with the schedule S, a custom SLOTS_PER_EPOCH and three other constants replaced),
// loaded through configs.SpecOptions{Config: path, Phase0Preset: path, …}.Spec() exactly as a user would, and
// read back: the schedule as loaded, the three constants, and ForkVersion at epochs 0 and 1.
func runCfgFile(s sched, extra [3]uint64) string {
	dir, err := os.MkdirTemp("", "c14cfg-")
	if err != nil {
		return "harness-io"
	}
	defer os.RemoveAll(dir)
	cb, err1 := yaml.Marshal(configs.Minimal.Config)
	pb, err2 := yaml.Marshal(configs.Minimal.Phase0Preset)
	if err1 != nil || err2 != nil {
		return "harness-io"
	}
	ctext, ptext := string(cb), string(pb)
	ok := true
	set := func(text *string, k, v string) {
		t, f := setYaml(*text, k, v)
		*text, ok = t, ok && f
	}
	vkeys := []string{"GENESIS", "ALTAIR", "BELLATRIX", "CAPELLA", "DENEB", "ELECTRA", "FULU"}
	for i, k := range vkeys {
		set(&ctext, k+"_FORK_VERSION", "0x"+hex.EncodeToString(s.v[i][:]))
		if i > 0 {
			set(&ctext, k+"_FORK_EPOCH", strconv.FormatUint(s.e[i-1], 10))
		}
	}
	set(&ctext, "SECONDS_PER_SLOT", strconv.FormatUint(extra[0], 10))
	set(&ctext, "MIN_GENESIS_ACTIVE_VALIDATOR_COUNT", strconv.FormatUint(extra[1], 10))
	set(&ptext, "SLOTS_PER_EPOCH", strconv.FormatUint(s.spe, 10))
	set(&ptext, "MAX_COMMITTEES_PER_SLOT", strconv.FormatUint(extra[2], 10))
	if !ok {
		return "harness-io"
	}
	cpath, ppath := filepath.Join(dir, "config.yaml"), filepath.Join(dir, "phase0.yaml")
	if os.WriteFile(cpath, []byte(ctext), 0o644) != nil || os.WriteFile(ppath, []byte(ptext), 0o644) != nil {
		return "harness-io"
	}
	opts := &configs.SpecOptions{Config: cpath, Phase0Preset: ppath, AltairPreset: "minimal", BellatrixPreset: "minimal",
		CapellaPreset: "minimal", DenebPreset: "minimal", ElectraPreset: "minimal"}
	sp, err := opts.Spec()
	if err != nil {
		return "err"
	}
	got := sched{spe: uint64(sp.SLOTS_PER_EPOCH),
		v: [7][4]byte{sp.GENESIS_FORK_VERSION, sp.ALTAIR_FORK_VERSION, sp.BELLATRIX_FORK_VERSION, sp.CAPELLA_FORK_VERSION, sp.DENEB_FORK_VERSION, sp.ELECTRA_FORK_VERSION, sp.FULU_FORK_VERSION},
		e: [6]uint64{uint64(sp.ALTAIR_FORK_EPOCH), uint64(sp.BELLATRIX_FORK_EPOCH), uint64(sp.CAPELLA_FORK_EPOCH), uint64(sp.DENEB_FORK_EPOCH), uint64(sp.ELECTRA_FORK_EPOCH), uint64(sp.FULU_FORK_EPOCH)}}
	fv0 := sp.ForkVersion(0)
	fv1 := sp.ForkVersion(common.Slot(s.spe)) // first slot of epoch 1 of the WRITTEN configuration
	return fmt.Sprintf("ok %s %d,%d,%d fv0=%s fv1=%s", got, uint64(sp.SECONDS_PER_SLOT), uint64(sp.MIN_GENESIS_ACTIVE_VALIDATOR_COUNT),
		uint64(sp.MAX_COMMITTEES_PER_SLOT), hex.EncodeToString(fv0[:]), hex.EncodeToString(fv1[:]))
}

func exec(o hreg.Opts, sc *bufio.Scanner, w *bufio.Writer) error {
	gc := goConstTable()
	for sc.Scan() {
		f := hreg.Fields(sc.Text())
		if len(f) == 0 {
			fmt.Fprintln(w, "bad-op")
			continue
		}
		res := hreg.Guard(func() string {
			switch {
			case f[0] == "fv" && len(f) == 3:
				s, ok := parseSched(f[1])
				slot, err := strconv.ParseUint(f[2], 10, 64)
				if !ok || err != nil {
					return "bad-op"
				}
				v := s.apply(configs.Minimal).ForkVersion(common.Slot(slot))
				return "ok " + hex.EncodeToString(v[:])
			case f[0] == "fvb" && len(f) == 3:
				sp := builtin(f[1])
				slot, err := strconv.ParseUint(f[2], 10, 64)
				if sp == nil || err != nil {
					return "bad-op"
				}
				v := sp.ForkVersion(common.Slot(slot))
				return "ok " + hex.EncodeToString(v[:])
			case f[0] == "fd" && len(f) == 4:
				s, ok := parseSched(f[1])
				gb, err := hex.DecodeString(f[2])
				epoch, err2 := strconv.ParseUint(f[3], 10, 64)
				if !ok || err != nil || err2 != nil || len(gb) != 32 || !s.monotone() {
					return "bad-op"
				}
				var gvr common.Root
				copy(gvr[:], gb)
				d := beacon.NewForkDecoder(s.apply(configs.Minimal), gvr)
				dig := d.ForkDigest(common.Epoch(epoch))
				alloc, aerr := d.BlockAllocator(dig)
				kind := "err"
				if aerr == nil {
					kind = strings.TrimPrefix(strings.Split(fmt.Sprintf("%T", alloc()), ".")[0], "*")
				}
				return "ok " + hex.EncodeToString(dig[:]) + " " + kind
			case f[0] == "alloc" && len(f) == 4:
				s, ok := parseSched(f[1])
				gb, err := hex.DecodeString(f[2])
				db, err2 := hex.DecodeString(f[3])
				if !ok || err != nil || err2 != nil || len(gb) != 32 || len(db) != 4 {
					return "bad-op"
				}
				var gvr common.Root
				copy(gvr[:], gb)
				var dig common.ForkDigest
				copy(dig[:], db)
				alloc, aerr := beacon.NewForkDecoder(s.apply(configs.Minimal), gvr).BlockAllocator(dig)
				if aerr != nil {
					return "err"
				}
				return "ok " + strings.TrimPrefix(strings.Split(fmt.Sprintf("%T", alloc()), ".")[0], "*")
			case (f[0] == "chain" || f[0] == "chaing") && len(f) >= 3:
				s, ok := parseSched(f[1])
				if !ok || !s.monotone() {
					return "bad-op"
				}
				var ts []uint64
				for _, x := range f[2:] {
					t, err := strconv.ParseUint(x, 10, 64)
					if err != nil {
						return "bad-op"
					}
					ts = append(ts, t)
				}
				return runChain(s, ts, f[0] == "chaing")
			case f[0] == "dom" && len(f) >= 4:
				s, ok := parseSched(f[1])
				gb, err := hex.DecodeString(f[2])
				if !ok || !s.monotone() || err != nil || len(gb) != 32 || s.spe == 0 {
					return "bad-op"
				}
				var gvr common.Root
				copy(gvr[:], gb)
				var ts []uint64
				for _, x := range f[3:] {
					t, err := strconv.ParseUint(x, 10, 64)
					if err != nil {
						return "bad-op"
					}
					ts = append(ts, t)
				}
				return runDom(s, gvr, ts)
			case f[0] == "cfgfile" && len(f) == 3:
				s, ok := parseSched(f[1])
				ex := strings.Split(f[2], ",")
				if !ok || len(ex) != 3 || s.spe == 0 || !s.monotone() {
					return "bad-op"
				}
				var extra [3]uint64
				for i := range extra {
					v, err := strconv.ParseUint(ex[i], 10, 64)
					if err != nil {
						return "bad-op"
					}
					extra[i] = v
				}
				return runCfgFile(s, extra)
			case f[0] == "specapi" && len(f) == 4:
				names := strings.Split(f[1], ",")
				mask, err := strconv.ParseUint(f[3], 10, 64)
				if len(names) != 7 || err != nil {
					return "bad-op"
				}
				return runSpecAPI(names, f[2], mask)
			case f[0] == "env" && len(f) == 3:
				seed, err := strconv.ParseInt(f[2], 10, 64)
				if err != nil {
					return "bad-op"
				}
				return runEnv(f[1], seed)
			case f[0] == "sig" && len(f) == 14:
				return runSig(f)
			case f[0] == "const" && len(f) == 3:
				sp := builtin(f[1])
				if sp == nil {
					return "bad-op"
				}
				out := "absent"
				walkSpec(sp, func(n string, v reflect.Value) {
					if n == f[2] {
						if s, ok := renderField(v); ok {
							out = "ok " + s
						} else {
							out = "unrenderable"
						}
					}
				})
				return out
			case f[0] == "constkeys" && len(f) == 2:
				sp := builtin(f[1])
				if sp == nil {
					return "bad-op"
				}
				return "ok " + strings.Join(structKeys(sp), ",")
			case f[0] == "goconst" && len(f) == 2:
				if v, ok := gc[f[1]]; ok {
					return "ok " + v
				}
				return "absent"
			}
			return "bad-op"
		})
		fmt.Fprintln(w, res)
	}
	return sc.Err()
}
