package committees

// chainmode.go: harness mode `c07chain` — property C07 along REAL chains.
//
// gen   runs chains of the chain generator (real zrnt state transition, real BLS, all five forks, deposits /
//       exits / slashings, sync-committee period boundaries) and writes one line per slot (plus one for
//       genesis). A line names the chain and the step (so that exec can re-create it deterministically) and
//       carries the flat data the specification needs: configuration constants, the registry of the
//       post-state (activation, exit, effective balance, pubkey), its randao mixes, the stored sync
//       committees, and digests of the sync committees stored BEFORE the step.
// exec  re-creates the chain, advances the LIVE (state, epochs context) pair to that step — the context is
//       only ever advanced by the real ProcessSlots/RotateEpochs, never rebuilt or repaired — and prints what
//       the live context answers: every committee of the previous/current/next epoch, the committee counts,
//       the proposer of every slot of the current epoch, the context's current/next sync-committee indices,
//       and digests of the sync-committee pubkeys stored in the state.
// The Lean side answers from the flat data with the literal specification functions (committees, counts,
// proposers; sync committees by the history rule: unchanged inside a period, rotated and re-sampled with
// get_next_sync_committee at a period boundary, both sampled at the altair upgrade / altair genesis).

import (
	"bufio"
	"crypto/sha256"
	"encoding/hex"
	"fmt"
	"strconv"
	"strings"

	"github.com/protolambda/zrnt/eth2/beacon"
	"github.com/protolambda/zrnt/eth2/beacon/common"

	"verifharness/internal/chain"
	"verifharness/internal/hreg"
)

func init() { hreg.Register(&hreg.Mode{Name: "c07chain", Gen: genChain, Exec: execChain}) }

type chainKey struct {
	cfg, bal, gmode, policy string
	n                       int
	seed                    int64
}

func (k chainKey) String() string {
	return fmt.Sprintf("%s %d %s %d %s %s", k.cfg, k.n, k.bal, k.seed, k.gmode, k.policy)
}

type liveChain struct {
	key   chainKey
	c     *chain.Chain
	idx   int // number of NextSlot calls made
	step  *chain.Step
	shock bool
}

func newLive(k chainKey) (*liveChain, error) {
	cfg, err := chain.ConfigByID(k.cfg)
	if err != nil {
		return nil, err
	}
	c, err := chain.NewChainOpts(cfg, chain.GenesisOpts{Validators: k.n, Balances: k.bal, Seed: k.seed, Mode: k.gmode})
	if err != nil {
		return nil, err
	}
	c.Policy = chain.PolicyByName(strings.TrimSuffix(k.policy, "+shock"))
	// the live epochs context is what the real code maintains: no reload of its sync committees from the state
	c.FollowCodeSyncCommittee = true
	return &liveChain{key: k, c: c, shock: strings.HasSuffix(k.policy, "+shock")}, nil
}

// balanceShock ("<policy>+shock" chains): in the middle of every epoch the balances of most validators are moved far
// away from their effective balances — down to 17..31 ETH in odd epochs, up to 40 ETH in even ones — the way a large
// penalty or a top-up deposit moves them. Nothing else is touched: the next epoch transition of the real code then
// changes the effective balances of ACTIVE validators, and the live context has to sample the proposers of the new
// epoch with the new effective balances. Deterministic in (epoch, validator index).
func (l *liveChain) balanceShock(slot common.Slot) error {
	spe := uint64(l.c.Spec.SLOTS_PER_EPOCH)
	if uint64(slot)%spe != spe/2 {
		return nil
	}
	e := uint64(slot) / spe
	bals, err := l.c.State.Balances()
	if err != nil {
		return err
	}
	vals, err := l.c.State.Validators()
	if err != nil {
		return err
	}
	n, err := vals.ValidatorCount()
	if err != nil {
		return err
	}
	for i := uint64(0); i < n; i++ {
		if (i+e)%4 == 0 {
			continue
		}
		b := common.Gwei(40_000_000_000)
		if e%2 == 1 {
			b = common.Gwei(17_000_000_000 + ((i*7+e*5)%15)*1_000_000_000 + (i%7)*100_000_000)
		}
		if err := bals.SetBalance(common.ValidatorIndex(i), b); err != nil {
			return err
		}
	}
	return nil
}

func (l *liveChain) advance() error {
	st, err := l.c.NextSlot(&chain.SlotOpts{NoVerify: true})
	if err != nil {
		return err
	}
	l.idx++
	l.step = st
	if l.shock {
		return l.balanceShock(st.Slot)
	}
	return nil
}

func inner(s common.BeaconState) common.BeaconState {
	if u, ok := s.(*beacon.StandardUpgradeableBeaconState); ok {
		return u.BeaconState
	}
	return s
}

// storedSync returns the pubkeys of the state's current and next sync committee (nil, nil before altair).
func storedSync(s common.BeaconState) (cur, next []common.BLSPubkey, err error) {
	ss, ok := inner(s).(common.SyncCommitteeBeaconState)
	if !ok {
		return nil, nil, nil
	}
	get := func(v *common.SyncCommitteeView, err error) ([]common.BLSPubkey, error) {
		if err != nil {
			return nil, err
		}
		p, err := v.Pubkeys()
		if err != nil {
			return nil, err
		}
		return p.Flatten()
	}
	if cur, err = get(ss.CurrentSyncCommittee()); err != nil {
		return
	}
	next, err = get(ss.NextSyncCommittee())
	return
}

func digestPubs(p []common.BLSPubkey) string {
	h := sha256.New()
	for i := range p {
		h.Write(p[i][:])
	}
	return hex.EncodeToString(h.Sum(nil))
}

func pubsHex(p []common.BLSPubkey) string {
	if len(p) == 0 {
		return "-"
	}
	s := make([]string, len(p))
	for i := range p {
		s[i] = hex.EncodeToString(p[i][:])
	}
	return strings.Join(s, ",")
}

// flatData renders the data part of a line from the post-state (and the state before the step; nil at genesis).
func flatData(spec *common.Spec, pre, post common.BeaconState) (string, error) {
	var sb strings.Builder
	slot, err := post.Slot()
	if err != nil {
		return "", err
	}
	preSlot := "-"
	prevCur, prevNext := "-", "-"
	if pre != nil {
		ps, err := pre.Slot()
		if err != nil {
			return "", err
		}
		preSlot = u(uint64(ps))
		c, n, err := storedSync(pre)
		if err != nil {
			return "", err
		}
		if c != nil {
			prevCur, prevNext = digestPubs(c), digestPubs(n)
		}
	}
	fmt.Fprintf(&sb, "%d %d %d %d %d %d %d %d %d %d %s %d %s %s ", uint64(spec.SLOTS_PER_EPOCH), uint64(spec.TARGET_COMMITTEE_SIZE),
		uint64(spec.MAX_COMMITTEES_PER_SLOT), uint64(spec.SHUFFLE_ROUND_COUNT), uint64(spec.EPOCHS_PER_HISTORICAL_VECTOR),
		uint64(spec.MIN_SEED_LOOKAHEAD), uint64(spec.MAX_EFFECTIVE_BALANCE), uint64(spec.SYNC_COMMITTEE_SIZE),
		uint64(spec.ALTAIR_FORK_EPOCH), uint64(spec.EPOCHS_PER_SYNC_COMMITTEE_PERIOD), preSlot, uint64(slot), prevCur, prevNext)
	mixes, err := post.RandaoMixes()
	if err != nil {
		return "", err
	}
	ephv := uint64(spec.EPOCHS_PER_HISTORICAL_VECTOR)
	if ephv <= 128 {
		for i := uint64(0); i < ephv; i++ {
			m, err := mixes.GetRandomMix(common.Epoch(i))
			if err != nil {
				return "", err
			}
			if i > 0 {
				sb.WriteByte(',')
			}
			sb.WriteString(hex.EncodeToString(m[:]))
		}
	} else {
		// long vectors (mainnet: 65536): only the slots around the current epoch, as index:mix pairs — every seed of
		// the previous/current/next(+1) epoch reads a slot between epoch-8 and epoch+2 for any MIN_SEED_LOOKAHEAD <= 4
		cur := uint64(slot) / uint64(spec.SLOTS_PER_EPOCH)
		for d := uint64(0); d <= 10; d++ {
			i := (cur + ephv + 2 - d) % ephv
			m, err := mixes.GetRandomMix(common.Epoch(i))
			if err != nil {
				return "", err
			}
			if d > 0 {
				sb.WriteByte(',')
			}
			fmt.Fprintf(&sb, "%d:%s", i, hex.EncodeToString(m[:]))
		}
	}
	sb.WriteByte(' ')
	vals, err := post.Validators()
	if err != nil {
		return "", err
	}
	n, err := vals.ValidatorCount()
	if err != nil {
		return "", err
	}
	if n == 0 {
		sb.WriteByte('-')
	}
	for i := uint64(0); i < n; i++ {
		v, err := vals.Validator(common.ValidatorIndex(i))
		if err != nil {
			return "", err
		}
		a, err := v.ActivationEpoch()
		if err != nil {
			return "", err
		}
		e, err := v.ExitEpoch()
		if err != nil {
			return "", err
		}
		b, err := v.EffectiveBalance()
		if err != nil {
			return "", err
		}
		p, err := v.Pubkey()
		if err != nil {
			return "", err
		}
		if i > 0 {
			sb.WriteByte(',')
		}
		fmt.Fprintf(&sb, "%s:%s:%d:%s", epochTok(uint64(a)), epochTok(uint64(e)), uint64(b), hex.EncodeToString(p[:]))
	}
	c, nx, err := storedSync(post)
	if err != nil {
		return "", err
	}
	sb.WriteByte(' ')
	sb.WriteString(pubsHex(c))
	sb.WriteByte(' ')
	sb.WriteString(pubsHex(nx))
	return sb.String(), nil
}

// answer is what the LIVE context and the state say after the step.
func answer(spec *common.Spec, post common.BeaconState, epc *common.EpochsContext) string {
	slot, err := post.Slot()
	if err != nil {
		return "harness-error " + err.Error()
	}
	spe := uint64(spec.SLOTS_PER_EPOCH)
	cur := uint64(slot) / spe
	prev := cur
	if prev > 0 {
		prev--
	}
	next := cur + 1
	cnt := func(e uint64) string {
		return hreg.Guard(func() string {
			c, err := epc.GetCommitteeCountPerSlot(common.Epoch(e))
			if err != nil {
				return "err"
			}
			return u(c)
		})
	}
	prop := func(s uint64) string {
		return hreg.Guard(func() string {
			p, err := epc.GetBeaconProposer(common.Slot(s))
			if err != nil {
				return "err"
			}
			return u(uint64(p))
		})
	}
	ps := make([]string, spe)
	for s := uint64(0); s < spe; s++ {
		ps[s] = prop(cur*spe + s)
	}
	sidx := "nil"
	if epc.CurrentSyncCommittee != nil || epc.NextSyncCommittee != nil {
		one := func(c *common.IndexedSyncCommittee) string {
			if c == nil {
				return "nil"
			}
			return listStr(c.Indices)
		}
		sidx = one(epc.CurrentSyncCommittee) + ";" + one(epc.NextSyncCommittee)
	}
	spk := "nil"
	c, n, err := storedSync(post)
	if err != nil {
		return "harness-error " + err.Error()
	}
	if c != nil {
		spk = digestPubs(c) + "," + digestPubs(n)
	}
	return "ok P=" + epochComms(spec, epc, prev) + " C=" + epochComms(spec, epc, cur) + " N=" + epochComms(spec, epc, next) +
		" cnt=" + cnt(prev) + "," + cnt(cur) + "," + cnt(next) + " props=" + strings.Join(ps, ",") + " sidx=" + sidx + " spk=" + spk
}

// effChange classifies an epoch transition by how many validators active in the new epoch changed effective balance.
func effChange(pre, post common.BeaconState, epoch common.Epoch) string {
	pv, err1 := pre.Validators()
	qv, err2 := post.Validators()
	if err1 != nil || err2 != nil {
		return "unreadable"
	}
	n, _ := pv.ValidatorCount()
	changed := 0
	for i := uint64(0); i < n; i++ {
		a, err1 := pv.Validator(common.ValidatorIndex(i))
		b, err2 := qv.Validator(common.ValidatorIndex(i))
		if err1 != nil || err2 != nil {
			return "unreadable"
		}
		ea, _ := a.EffectiveBalance()
		eb, _ := b.EffectiveBalance()
		act, _ := b.ActivationEpoch()
		ex, _ := b.ExitEpoch()
		if ea != eb && act <= epoch && epoch < ex {
			changed++
		}
	}
	switch {
	case changed == 0:
		return "no active validator changed effective balance"
	case changed < 4:
		return "1-3 active validators changed effective balance"
	default:
		return ">=4 active validators changed effective balance"
	}
}

type chainPlan struct {
	key   chainKey
	slots int
}

func genChain(o hreg.Opts, w *bufio.Writer) error {
	st := o.Stats
	plans := []chainPlan{
		// every fork within four epochs, sync-committee period of two epochs, exits/deposits/slashings all the time
		{chainKey{"fast@1,2,3,4", "mixed", "kickstart", "eventful", 48, 21}, 56},
		// altair from genesis; period boundaries with real rotations; deposits grow the registry
		{chainKey{"fast@0,1,2,3", "mixed", "kickstart", "deposits", 40, 22}, 48},
		// exits shrink the active set
		{chainKey{"fast@2,3,3,5", "rich", "kickstart", "exits", 48, 23}, 56},
		// published minimal preset with forks (sync-committee period 8 epochs)
		{chainKey{"minimal@1,2,3,4", "mixed", "kickstart", "default", 64, 24}, 40},
		// randomised configurations (SLOTS_PER_EPOCH 4/8, committee parameters, sync size/period, vector lengths)
		{chainKey{"rand:" + strconv.FormatInt(100+o.Seed, 10), "mixed", "kickstart", "eventful", 40, 25}, 48},
		{chainKey{"rand:" + strconv.FormatInt(200+o.Seed, 10), "poor", "eth1", "deposits", 32, 26}, 40},
		// altair (and bellatrix) from genesis, forks sharing an epoch, a long phase0 prefix, quiet and sparse chains
		{chainKey{"fast@0,0,1,2", "uniform", "kickstart", "sparse", 32, 27}, 40},
		{chainKey{"fast@1,1,2,2", "mixed", "eth1", "eventful", 40, 28}, 40},
		{chainKey{"fast@3,4,5,6", "poor", "kickstart", "exits", 40, 29}, 64},
		{chainKey{"minimal@0,1,2,3", "mixed", "kickstart", "quiet", 32, 30}, 80},
		{chainKey{"rand:" + strconv.FormatInt(300+o.Seed, 10), "rich", "kickstart", "exits", 48, 31}, 48},
		{chainKey{"rand:" + strconv.FormatInt(400+o.Seed, 10), "mixed", "kickstart", "deposits", 40, 32}, 48},
		{chainKey{"rand:" + strconv.FormatInt(500+o.Seed, 10), "uniform", "eth1", "eventful", 32, 33}, 48},
		{chainKey{"rand:" + strconv.FormatInt(600+o.Seed, 10), "mixed", "kickstart", "default", 64, 34}, 48},
		// small registries whose epoch transitions change the effective balances of many active validators (balance
		// shocks, leaks): the live context must sample the new epoch's proposers with the NEW effective balances
		{chainKey{"fast@1,2,3,4", "mixed", "kickstart", "default+shock", 16, 35}, 56},
		{chainKey{"minimal@1,2,3,4", "poor", "kickstart", "quiet+shock", 24, 36}, 64},
		{chainKey{"fast@0,1,2,3", "mixed", "kickstart", "deposits+shock", 24, 37}, 48},
		{chainKey{"rand:" + strconv.FormatInt(700+o.Seed, 10), "mixed", "kickstart", "eventful+shock", 32, 38}, 48},
		{chainKey{"fast@2,3,4,5", "poor", "kickstart", "leak-recover", 24, 39}, 80},
		{chainKey{"fast@1,2,3,4", "mixed", "kickstart", "nobody", 16, 40}, 48},
		// NON-power-of-two vector lengths (EPOCHS_PER_HISTORICAL_VECTOR 12/24/72/96, SYNC_COMMITTEE_SIZE 12/20/24),
		// TARGET_COMMITTEE_SIZE 3/5/6 vs MAX_COMMITTEES_PER_SLOT 2/4/7, SLOTS_PER_EPOCH 8 or 6; mainnet constants
		{chainKey{"apart:" + strconv.FormatInt(10+o.Seed, 10), "mixed", "kickstart", "deposits", 32, 41}, 48},
		{chainKey{"apart:" + strconv.FormatInt(20+o.Seed, 10), "poor", "kickstart", "earlyexit+shock", 24, 42}, 48},
		{chainKey{"apart:" + strconv.FormatInt(30+o.Seed, 10), "mixed", "eth1", "showcase", 40, 43}, 42},
		{chainKey{"rand2:" + strconv.FormatInt(40+o.Seed, 10), "mixed", "kickstart", "earlyexit", 32, 44}, 48},
		{chainKey{"rand2:" + strconv.FormatInt(50+o.Seed, 10), "rich", "kickstart", "deposits+shock", 24, 45}, 42},
		{chainKey{"mainnetconst@1,2,3,4", "mixed", "kickstart", "showcase", 32, 46}, 40},
	}
	if o.Thorough() {
		pols := []string{"default", "deposits", "eventful", "exits", "sparse", "quiet"}
		bals := []string{"mixed", "uniform", "rich", "poor"}
		for i := 0; i < 30; i++ {
			cfg := "rand:" + strconv.FormatInt(1000+int64(i)+o.Seed*100, 10)
			if i%5 == 0 {
				cfg = []string{"fast@1,2,3,4", "fast@0,0,1,2", "fast@3,4,5,6", "fast@0,1,2,3", "fast@1,1,2,2", "minimal@0,1,2,3"}[i/5]
			}
			plans = append(plans, chainPlan{chainKey{cfg, bals[i%4], []string{"kickstart", "eth1"}[i%2], pols[i%6], 32 + 8*(i%5), int64(300 + i)}, 64})
		}
	}
	for _, p := range plans {
		l, err := newLive(p.key)
		if err != nil {
			st.Add("chain", "genesis-failed")
			fmt.Fprintf(w, "genfail %s\n", p.key)
			continue
		}
		st.Add("chain", "built")
		st.Add("config", strings.FieldsFunc(p.key.cfg, func(r rune) bool { return r == '@' || r == ':' })[0])
		st.Add("SLOTS_PER_EPOCH", u(uint64(l.c.Spec.SLOTS_PER_EPOCH)))
		st.Add("EPOCHS_PER_HISTORICAL_VECTOR", u(uint64(l.c.Spec.EPOCHS_PER_HISTORICAL_VECTOR)))
		st.Add("SYNC_COMMITTEE_SIZE", u(uint64(l.c.Spec.SYNC_COMMITTEE_SIZE)))
		st.Add("TARGET_COMMITTEE_SIZE/MAX_COMMITTEES_PER_SLOT", u(uint64(l.c.Spec.TARGET_COMMITTEE_SIZE))+"/"+u(uint64(l.c.Spec.MAX_COMMITTEES_PER_SLOT)))
		d, err := flatData(l.c.Spec, nil, l.c.State)
		if err != nil {
			return err
		}
		fmt.Fprintf(w, "step %s 0 %s\n", p.key, d)
		st.Add("line", "genesis")
		lastFork := l.c.Fork()
		for k := 1; k <= p.slots; k++ {
			if err := l.advance(); err != nil {
				st.Add("chain", "stopped-early")
				fmt.Fprintf(w, "genfail %s step %d\n", p.key, k)
				break
			}
			s := l.step
			d, err := flatData(l.c.Spec, s.Pre, s.Post)
			if err != nil {
				return err
			}
			fmt.Fprintf(w, "step %s %d %s\n", p.key, k, d)
			spe := uint64(l.c.Spec.SLOTS_PER_EPOCH)
			ep := uint64(s.Slot) / spe
			switch {
			case uint64(s.Slot)%spe == 0 && s.Fork != chain.Phase0 && lastFork == chain.Phase0:
				st.Add("line", "altair upgrade")
			case uint64(s.Slot)%spe == 0 && s.Fork != chain.Phase0 && ep%uint64(l.c.Spec.EPOCHS_PER_SYNC_COMMITTEE_PERIOD) == 0:
				st.Add("line", "sync-committee period boundary")
			case uint64(s.Slot)%spe == 0:
				st.Add("line", "epoch boundary")
			case s.Skipped:
				st.Add("line", "skipped slot")
			default:
				st.Add("line", "block")
			}
			if uint64(s.Slot)%spe == 0 {
				st.Add("epoch transition", effChange(s.Pre, s.Post, common.Epoch(ep)))
			}
			st.Add("fork", s.Fork.String())
			for _, op := range s.Ops {
				k := string(op.Kind)
				if i := strings.IndexAny(k, ":/ "); i > 0 {
					k = k[:i]
				}
				st.Add("block-op", k)
			}
			lastFork = s.Fork
		}
	}
	for _, l := range []string{"step", "step fast@1,2,3,4 48 mixed 21 kickstart eventful 3", "step nosuch@1 8 mixed 1 kickstart default 0 8 4 4 10 64 1 32000000000 32 0 2 - 0 - - 00 - - -", "frob"} {
		st.Add("line", "malformed")
		fmt.Fprintln(w, l)
	}
	return nil
}

func execChain(o hreg.Opts, sc *bufio.Scanner, w *bufio.Writer) error {
	var live *liveChain
	for sc.Scan() {
		f := hreg.Fields(sc.Text())
		res := "bad-op"
		if len(f) > 0 && f[0] == "genfail" {
			res = "genfail"
		}
		if len(f) == 26 && f[0] == "step" {
			n, err1 := strconv.Atoi(f[2])
			seed, err2 := strconv.ParseInt(f[4], 10, 64)
			k, err3 := strconv.Atoi(f[7])
			if _, err := chain.ConfigByID(f[1]); err == nil && err1 == nil && err2 == nil && err3 == nil && k >= 0 && k < 100000 {
				key := chainKey{cfg: f[1], n: n, bal: f[3], seed: seed, gmode: f[5], policy: f[6]}
				res = hreg.Guard(func() string {
					if live == nil || live.key != key || live.idx > k {
						l, err := newLive(key)
						if err != nil {
							live = nil
							return "err-genesis"
						}
						live = l
					}
					for live.idx < k {
						if err := live.advance(); err != nil {
							live = nil
							return "err-step"
						}
					}
					if k == 0 {
						return answer(live.c.Spec, live.c.State, live.c.Epc)
					}
					return answer(live.c.Spec, live.step.Post, live.step.PostEpc)
				})
			}
		}
		fmt.Fprintln(w, res)
	}
	return sc.Err()
}
