// Package committees: beacon committees, proposers, committee counts and sync-committee indices of
// eth2/beacon/common (property C07), asked of a real EpochsContext built over synthetic phase0/altair
// BeaconState views. Every op line carries the whole flat state (registry, randao salt, configuration).
package committees

import (
	"bufio"
	"bytes"
	"crypto/sha256"
	"encoding/binary"
	"encoding/hex"
	"errors"
	"fmt"
	"math/rand"
	"strconv"
	"strings"

	"github.com/protolambda/zrnt/eth2/beacon/altair"
	"github.com/protolambda/zrnt/eth2/beacon/common"
	"github.com/protolambda/zrnt/eth2/beacon/phase0"
	"github.com/protolambda/zrnt/eth2/configs"
	"github.com/protolambda/ztyp/codec"
	"github.com/protolambda/ztyp/view"

	"verifharness/internal/hreg"
)

func init() { hreg.Register(&hreg.Mode{Name: "committees", Gen: gen, Exec: exec}) }

const far = ^uint64(0)

type val struct{ act, exit, eff uint64 }

type input struct {
	fork                                    string
	spe, tcs, mcs, src, ephv, msl, meb, scs uint64
	slot                                    uint64
	salt                                    [32]byte
	vals                                    []val
	base                                    string // "minimal" or "mainnet": where the untouched constants come from
}

func epochTok(e uint64) string {
	if e == far {
		return "f"
	}
	return strconv.FormatUint(e, 10)
}

func (in *input) line(op string) string {
	var sb strings.Builder
	fmt.Fprintf(&sb, "%s %s %d %d %d %d %d %d %d %d %d %s ", op, in.fork, in.spe, in.tcs, in.mcs, in.src, in.ephv, in.msl, in.meb, in.scs,
		in.slot, hex.EncodeToString(in.salt[:]))
	if len(in.vals) == 0 {
		sb.WriteString("-")
	}
	for i, v := range in.vals {
		if i > 0 {
			sb.WriteByte(',')
		}
		sb.WriteString(epochTok(v.act))
		sb.WriteByte(':')
		sb.WriteString(epochTok(v.exit))
		sb.WriteByte(':')
		sb.WriteString(strconv.FormatUint(v.eff, 10))
	}
	return sb.String()
}

func parseEpoch(s string) (uint64, bool) {
	if s == "f" {
		return far, true
	}
	v, err := strconv.ParseUint(s, 10, 64)
	return v, err == nil
}

func parse(f []string) (*input, bool) {
	if len(f) != 13 {
		return nil, false
	}
	in := &input{fork: f[1]}
	if in.fork != "phase0" && in.fork != "altair" {
		return nil, false
	}
	dst := []*uint64{&in.spe, &in.tcs, &in.mcs, &in.src, &in.ephv, &in.msl, &in.meb, &in.scs, &in.slot}
	for i, d := range dst {
		v, err := strconv.ParseUint(f[2+i], 10, 64)
		if err != nil {
			return nil, false
		}
		*d = v
	}
	if in.spe == 0 || in.tcs == 0 || in.ephv == 0 || in.src > 255 || in.msl >= in.ephv {
		return nil, false
	}
	sb, err := hex.DecodeString(f[11])
	if err != nil || len(sb) != 32 {
		return nil, false
	}
	copy(in.salt[:], sb)
	if f[12] != "-" {
		for _, t := range strings.Split(f[12], ",") {
			p := strings.Split(t, ":")
			if len(p) != 3 {
				return nil, false
			}
			a, ok1 := parseEpoch(p[0])
			e, ok2 := parseEpoch(p[1])
			b, err := strconv.ParseUint(p[2], 10, 64)
			if !ok1 || !ok2 || err != nil {
				return nil, false
			}
			in.vals = append(in.vals, val{a, e, b})
		}
	}
	return in, true
}

// spec returns the configuration of the line: the published mainnet constants when the line carries
// exactly them (EPOCHS_PER_HISTORICAL_VECTOR = 65536), otherwise minimal with the carried constants patched in.
func (in *input) spec() *common.Spec {
	var s common.Spec
	if in.ephv == uint64(configs.Mainnet.EPOCHS_PER_HISTORICAL_VECTOR) {
		s = *configs.Mainnet
	} else {
		s = *configs.Minimal
	}
	s.SLOTS_PER_EPOCH = common.Slot(in.spe)
	s.TARGET_COMMITTEE_SIZE = view.Uint64View(in.tcs)
	s.MAX_COMMITTEES_PER_SLOT = view.Uint64View(in.mcs)
	s.SHUFFLE_ROUND_COUNT = view.Uint8View(in.src)
	s.EPOCHS_PER_HISTORICAL_VECTOR = common.Epoch(in.ephv)
	s.MIN_SEED_LOOKAHEAD = common.Epoch(in.msl)
	s.MAX_EFFECTIVE_BALANCE = common.Gwei(in.meb)
	s.SYNC_COMMITTEE_SIZE = view.Uint64View(in.scs)
	return &s
}

func mixOf(salt [32]byte, i uint64) (r common.Root) {
	var buf [40]byte
	copy(buf[:32], salt[:])
	binary.LittleEndian.PutUint64(buf[32:], i)
	return sha256.Sum256(buf[:])
}

func pubOf(i uint64) (p common.BLSPubkey) {
	for k := range p {
		p[k] = 0x77
	}
	binary.LittleEndian.PutUint64(p[0:8], i+1)
	return
}

// state builds the real tree-view state (struct form -> SSZ -> view).
func (in *input) state(spec *common.Spec) (common.BeaconState, error) {
	vals := make(phase0.ValidatorRegistry, len(in.vals))
	bals := make(phase0.Balances, len(in.vals))
	for i, v := range in.vals {
		vals[i] = &phase0.Validator{Pubkey: pubOf(uint64(i)), EffectiveBalance: common.Gwei(v.eff),
			ActivationEligibilityEpoch: common.Epoch(v.act), ActivationEpoch: common.Epoch(v.act),
			ExitEpoch: common.Epoch(v.exit), WithdrawableEpoch: common.Epoch(v.exit)}
		bals[i] = common.Gwei(v.eff)
	}
	mixes := make(phase0.RandaoMixes, in.ephv)
	for i := range mixes {
		mixes[i] = mixOf(in.salt, uint64(i))
	}
	roots := func() phase0.HistoricalBatchRoots {
		return make(phase0.HistoricalBatchRoots, spec.SLOTS_PER_HISTORICAL_ROOT)
	}
	slash := make(phase0.SlashingsHistory, spec.EPOCHS_PER_SLASHINGS_VECTOR)
	var buf bytes.Buffer
	dec := func() *codec.DecodingReader {
		return codec.NewDecodingReader(bytes.NewReader(buf.Bytes()), uint64(buf.Len()))
	}
	switch in.fork {
	case "phase0":
		r := &phase0.BeaconState{Slot: common.Slot(in.slot), BlockRoots: roots(), StateRoots: roots(), Validators: vals, Balances: bals,
			RandaoMixes: mixes, Slashings: slash}
		if err := r.Serialize(spec, codec.NewEncodingWriter(&buf)); err != nil {
			return nil, err
		}
		return phase0.AsBeaconStateView(phase0.BeaconStateType(spec).Deserialize(dec()))
	case "altair":
		sc := func() common.SyncCommittee {
			c := common.SyncCommittee{Pubkeys: make(common.SyncCommitteePubkeys, in.scs)}
			for k := range c.Pubkeys {
				if len(in.vals) > 0 {
					c.Pubkeys[k] = pubOf(uint64(k) % uint64(len(in.vals)))
				}
			}
			return c
		}
		r := &altair.BeaconState{Slot: common.Slot(in.slot), BlockRoots: roots(), StateRoots: roots(), Validators: vals, Balances: bals,
			RandaoMixes: mixes, Slashings: slash,
			PreviousEpochParticipation: make(altair.ParticipationRegistry, len(in.vals)),
			CurrentEpochParticipation:  make(altair.ParticipationRegistry, len(in.vals)),
			InactivityScores:           make(altair.InactivityScores, len(in.vals)),
			CurrentSyncCommittee:       sc(), NextSyncCommittee: sc()}
		if err := r.Serialize(spec, codec.NewEncodingWriter(&buf)); err != nil {
			return nil, err
		}
		return altair.AsBeaconStateView(altair.BeaconStateType(spec).Deserialize(dec()))
	}
	return nil, errors.New("unknown fork")
}

func u(v uint64) string { return strconv.FormatUint(v, 10) }

func hexDecode(s string) ([]byte, error) { return hex.DecodeString(s) }
func hexEncode(b []byte) string          { return hex.EncodeToString(b) }

func listStr(l []common.ValidatorIndex) string {
	if len(l) == 0 {
		return "-"
	}
	p := make([]string, len(l))
	for i, v := range l {
		p[i] = u(uint64(v))
	}
	return strings.Join(p, ",")
}

// epochComms asks GetBeaconCommittee for index 0,1,… of every slot of the epoch until the first refusal and
// checks that every later index below MAX_COMMITTEES_PER_SLOT+1 is refused too.
func epochComms(spec *common.Spec, epc *common.EpochsContext, epoch uint64) string {
	var slots []string
	for s := uint64(0); s < uint64(spec.SLOTS_PER_EPOCH); s++ {
		slot := common.Slot(epoch*uint64(spec.SLOTS_PER_EPOCH) + s)
		var cs []string
		stopped := false
		for i := uint64(0); i <= uint64(spec.MAX_COMMITTEES_PER_SLOT); i++ {
			c, err := epc.GetBeaconCommittee(slot, common.CommitteeIndex(i))
			if err != nil {
				stopped = true
				continue
			}
			if stopped {
				cs = append(cs, "GAP") // an index answered after a refused one: never expected
			}
			cs = append(cs, listStr(c))
		}
		if len(cs) == 0 {
			slots = append(slots, "none")
		} else {
			slots = append(slots, strings.Join(cs, "/"))
		}
	}
	if len(slots) == 0 {
		return "-"
	}
	return strings.Join(slots, ";")
}

func resList(l []common.ValidatorIndex, err error) string {
	if err != nil {
		return "err"
	}
	return listStr(l)
}

func run(op string, in *input) string {
	spec := in.spec()
	state, err := in.state(spec)
	if err != nil {
		return "harness-error " + err.Error()
	}
	epc, err := common.NewEpochsContext(spec, state)
	if err != nil {
		return "err"
	}
	cur := in.slot / in.spe
	prev := cur
	if prev > 0 {
		prev--
	}
	next := cur + 1
	switch op {
	case "comms":
		curStart := common.Slot(cur * in.spe)
		cnt, _ := epc.GetCommitteeCountPerSlot(common.Epoch(cur))
		p1 := resList(epc.GetBeaconCommittee(curStart, common.CommitteeIndex(cnt)))
		p2 := resList(epc.GetBeaconCommittee(curStart, common.CommitteeIndex(in.mcs)))
		p3 := resList(epc.GetBeaconCommittee(common.Slot((cur+2)*in.spe), 0))
		return "ok P=" + epochComms(spec, epc, prev) + " C=" + epochComms(spec, epc, cur) + " N=" + epochComms(spec, epc, next) +
			" probes=" + p1 + "," + p2 + "," + p3
	case "counts":
		one := func(e uint64) string {
			return hreg.Guard(func() string {
				c, err := epc.GetCommitteeCountPerSlot(common.Epoch(e))
				if err != nil {
					return "err"
				}
				return u(c)
			})
		}
		return "ok " + one(prev) + " " + one(cur) + " " + one(next) + " far=" + one(cur+2)
	case "props":
		one := func(slot uint64) string {
			return hreg.Guard(func() string {
				p, err := epc.GetBeaconProposer(common.Slot(slot))
				if err != nil {
					return "err"
				}
				return u(uint64(p))
			})
		}
		ps := make([]string, in.spe)
		for s := uint64(0); s < in.spe; s++ {
			ps[s] = one(cur*in.spe + s)
		}
		return "ok " + strings.Join(ps, ",") + " out=" + one(next*in.spe) + "," + one((cur+2)*in.spe+1)
	case "sync":
		l, err := common.ComputeSyncCommitteeIndices(spec, state, epc.NextEpoch.Epoch, epc.NextEpoch.ActiveIndices)
		if err != nil {
			return "err"
		}
		return "ok " + listStr(l)
	}
	return "bad-op"
}

func exec(o hreg.Opts, sc *bufio.Scanner, w *bufio.Writer) error {
	for sc.Scan() {
		f := hreg.Fields(sc.Text())
		res := "bad-op"
		if len(f) > 0 && (f[0] == "comms" || f[0] == "counts" || f[0] == "props" || f[0] == "sync") {
			if in, ok := parse(f); ok {
				res = hreg.Guard(func() string { return run(f[0], in) })
			}
		}
		if len(f) > 0 && (f[0] == "cpi" || f[0] == "csi") {
			res = hreg.Guard(func() string {
				if r, ok := runDirect(f); ok {
					return r
				}
				return "bad-op"
			})
		}
		fmt.Fprintln(w, res)
	}
	return sc.Err()
}

// ---------------------------------------------------------------------------------------------

func gen(o hreg.Opts, w *bufio.Writer) error {
	rng := o.Rand()
	st := o.Stats
	nStates := o.Pick(300, 3000)
	pickU := func(l ...uint64) uint64 { return l[rng.Intn(len(l))] }
	for k := 0; k < nStates; k++ {
		in := &input{}
		rng.Read(in.salt[:])
		preset := "custom"
		switch {
		case k%10 == 0:
			preset = "minimal"
			m := configs.Minimal
			in.spe, in.tcs, in.mcs, in.src = uint64(m.SLOTS_PER_EPOCH), uint64(m.TARGET_COMMITTEE_SIZE), uint64(m.MAX_COMMITTEES_PER_SLOT), uint64(m.SHUFFLE_ROUND_COUNT)
			in.ephv, in.msl, in.meb, in.scs = uint64(m.EPOCHS_PER_HISTORICAL_VECTOR), uint64(m.MIN_SEED_LOOKAHEAD), uint64(m.MAX_EFFECTIVE_BALANCE), uint64(m.SYNC_COMMITTEE_SIZE)
		case k%40 == 7:
			preset = "mainnet"
			m := configs.Mainnet
			in.spe, in.tcs, in.mcs, in.src = uint64(m.SLOTS_PER_EPOCH), uint64(m.TARGET_COMMITTEE_SIZE), uint64(m.MAX_COMMITTEES_PER_SLOT), uint64(m.SHUFFLE_ROUND_COUNT)
			in.ephv, in.msl, in.meb, in.scs = uint64(m.EPOCHS_PER_HISTORICAL_VECTOR), uint64(m.MIN_SEED_LOOKAHEAD), uint64(m.MAX_EFFECTIVE_BALANCE), uint64(m.SYNC_COMMITTEE_SIZE)
		default:
			in.spe, in.tcs, in.mcs, in.src = pickU(4, 8), pickU(2, 4), pickU(2, 4, 64), pickU(10, 10, 10, 90)
			// EPOCHS_PER_HISTORICAL_VECTOR: powers of two and NOT powers of two (the seed's mix index is computed modulo
			// the vector length; with epoch + length - lookahead - 1 a wrapped subtraction only shows for the latter)
			in.ephv, in.msl, in.meb, in.scs = pickU(16, 64, 13, 24, 72, 96, 1022), pickU(1, 1, 2), pickU(32000000000, 32000000000, 2048000000000), pickU(8, 16, 32)
		}
		st.Add("preset", preset)
		st.Add("shuffle-rounds", u(in.src))
		// registry size: biased to small, with the sizes at which the committee count changes
		var n int
		maxN := 600
		if in.src == 90 {
			maxN = 96 // the spec side evaluates compute_shuffled_index at every position: keep 90-round registries small
		}
		if preset == "mainnet" {
			maxN = 72
		}
		switch rng.Intn(8) {
		case 0:
			n = rng.Intn(12)
		case 1:
			unit := int(in.spe * in.tcs)
			n = unit*(1+rng.Intn(5)) + rng.Intn(3) - 1
		case 2:
			n = int(in.spe*in.tcs*in.mcs) + rng.Intn(5) - 2
		case 3, 4:
			n = 1 + rng.Intn(64)
		default:
			n = 1 + rng.Intn(maxN)
		}
		if n > maxN {
			n = maxN
		}
		if n < 0 {
			n = 0
		}
		// slot
		var epoch uint64
		switch rng.Intn(7) {
		case 0:
			epoch = 0
		case 1:
			epoch = 1
		case 6:
			epoch = 2 + uint64(rng.Intn(2))
		case 2:
			epoch = uint64(1) << uint(10+rng.Intn(40))
		default:
			epoch = uint64(2 + rng.Intn(300))
		}
		in.slot = epoch*in.spe + uint64(rng.Intn(int(in.spe)))
		// activation / exit pattern
		pattern := []string{"all-active", "all-active", "all-active", "random", "random", "random", "random", "few-active", "none-active", "next-only", "churny", "churny"}[rng.Intn(12)]
		if n == 0 {
			pattern = "empty-registry"
		}
		st.Add("activity", pattern)
		balMode := []string{"max", "mixed", "mixed", "mixed", "low", "zero"}[rng.Intn(6)]
		// the balance-weighted sampling loops run ~1/p candidates per accepted one and the spec side evaluates
		// compute_shuffled_index for each: keep the (rare) very-low-balance registries cheap
		if balMode == "zero" && (in.src != 10 || n > 64 || k%4 != 0) {
			balMode = "low"
		}
		if balMode == "low" && (in.src != 10 || in.meb > 32000000000) {
			balMode = "mixed"
		}
		if balMode == "zero" || balMode == "low" {
			in.scs = 8
		}
		st.Add("balances", balMode)
		near := func() uint64 {
			d := uint64(rng.Intn(4))
			if rng.Intn(2) == 0 {
				if epoch >= d {
					return epoch - d
				}
				return 0
			}
			return epoch + d
		}
		for i := 0; i < n; i++ {
			var v val
			switch pattern {
			case "all-active":
				v.act, v.exit = 0, far
			case "random":
				v.act = []uint64{0, near(), near(), far}[rng.Intn(4)]
				v.exit = []uint64{far, far, near(), near(), epoch + 1 + uint64(rng.Intn(3))}[rng.Intn(5)]
			case "few-active":
				if rng.Intn(10) == 0 {
					v.act, v.exit = 0, far
				} else {
					v.act, v.exit = far, far
				}
			case "none-active":
				if rng.Intn(2) == 0 {
					v.act, v.exit = far, far
				} else {
					v.act, v.exit = 0, epoch // exited exactly now
				}
			case "next-only":
				v.act, v.exit = epoch+1, far
			case "churny":
				v.act = near()
				v.exit = v.act + uint64(rng.Intn(4))
			}
			inc := uint64(1000000000)
			switch balMode {
			case "max":
				v.eff = in.meb
			case "mixed":
				v.eff = []uint64{in.meb, in.meb, in.meb - inc, inc * uint64(rng.Intn(int(in.meb/inc)+1)), 0, inc, 16 * inc}[rng.Intn(7)]
			case "low":
				v.eff = inc * uint64(rng.Intn(3))
			case "zero":
				v.eff = 0
			}
			in.vals = append(in.vals, v)
		}
		// keep the balance-weighted sampling loops affordable for the Lean side (which evaluates compute_shuffled_index
		// for every candidate): expected candidates = members / acceptance probability; when the estimate is too high
		// first shrink the sync committee, then lift the lowest balances of the sampled epoch's active validators
		accept := func(e uint64) float64 {
			sum, cnt := 0.0, 0
			for _, v := range in.vals {
				if v.act <= e && e < v.exit {
					q := float64(v.eff)*255/float64(in.meb) + 1
					if q > 256 {
						q = 256
					}
					sum += q / 256
					cnt++
				}
			}
			if cnt == 0 {
				return 1
			}
			return sum / float64(cnt)
		}
		cost := func() float64 {
			per := float64(2*in.src+1) * 2
			return float64(in.scs)/accept(epoch+1)*per + float64(in.spe)/accept(epoch)*per
		}
		if cost() > 200000 {
			in.scs = 8
		}
		for lift := in.meb / 4; cost() > 200000 && lift <= in.meb; lift *= 2 {
			for i := range in.vals {
				if in.vals[i].eff < lift {
					in.vals[i].eff = lift
				}
			}
			st.Add("balances", "lifted (sampling cost)")
		}
		nAct := 0
		for _, v := range in.vals {
			if v.act <= epoch && epoch < v.exit {
				nAct++
			}
		}
		switch {
		case nAct == 0:
			st.Add("active-now", "0")
		case nAct < 8:
			st.Add("active-now", "1-7")
		case nAct < 64:
			st.Add("active-now", "8-63")
		case nAct < 256:
			st.Add("active-now", "64-255")
		default:
			st.Add("active-now", ">=256")
		}
		cps := uint64(nAct) / in.spe / in.tcs
		switch {
		case cps == 0:
			st.Add("committees-per-slot", "floor 1")
		case cps > in.mcs:
			st.Add("committees-per-slot", "capped at MAX")
		default:
			st.Add("committees-per-slot", "in between")
		}
		if in.ephv&(in.ephv-1) == 0 {
			st.Add("EPOCHS_PER_HISTORICAL_VECTOR", "power of two")
		} else if epoch <= in.msl+1 {
			st.Add("EPOCHS_PER_HISTORICAL_VECTOR", "not a power of two, epoch <= MIN_SEED_LOOKAHEAD+1")
		} else {
			st.Add("EPOCHS_PER_HISTORICAL_VECTOR", "not a power of two, later epoch")
		}
		if epoch == 0 {
			st.Add("epoch", "genesis")
		} else if epoch > 1<<20 {
			st.Add("epoch", "huge")
		} else {
			st.Add("epoch", "ordinary")
		}
		in.fork = []string{"phase0", "altair"}[k%2]
		st.Add("fork", in.fork)
		for _, op := range []string{"comms", "counts", "props"} {
			st.Add("op", op)
			fmt.Fprintln(w, in.line(op))
		}
		in.fork = "altair"
		st.Add("op", "sync")
		fmt.Fprintln(w, in.line("sync"))
	}
	// direct calls of the two sampling functions under rare / impossible acceptance (cutoff.go)
	genDirect(rng, func(kind, line string) {
		st.Add("op", strings.Fields(line)[0])
		st.Add("direct", kind)
		f := hreg.Fields(line)
		if r, ok := runDirect(f); ok && f[0] == "cpi" {
			if r == "err" {
				st.Add("ComputeProposerIndex on the real code", "gave up after 32000 candidates (error returned)")
			} else {
				st.Add("ComputeProposerIndex on the real code", "returned an index")
			}
		}
		fmt.Fprintln(w, line)
	})
	// malformed lines
	good := (&input{fork: "phase0", spe: 8, tcs: 4, mcs: 4, src: 10, ephv: 64, msl: 1, meb: 32000000000, scs: 32, slot: 9,
		vals: []val{{0, far, 32000000000}}}).line("comms")
	for _, l := range []string{"", "comms", "frob " + good[6:], strings.Replace(good, "phase0", "phase9", 1), strings.Replace(good, " 8 4 4 10 ", " 0 4 4 10 ", 1),
		strings.Replace(good, " 8 4 4 10 ", " 8 0 4 10 ", 1), strings.Replace(good, " 8 4 4 10 ", " 8 4 4 300 ", 1), good + " extra",
		strings.Replace(good, "0:f:32000000000", "0:f", 1), strings.Replace(good, "0:f:32000000000", "x:f:1", 1)} {
		st.Add("op", "malformed")
		fmt.Fprintln(w, l)
	}
	return nil
}

var _ = rand.Int
