package committees

// cutoff.go: ops `cpi` / `csi` of mode `committees` — ComputeProposerIndex and ComputeSyncCommitteeIndices
// called directly, under hash functions and effective balances that make acceptance rare or impossible, so
// that the 1000 x 32 candidate cut-off of ComputeProposerIndex is reached on the real code (it must return
// an error: no panic, no endless loop) and the sync-committee loop is driven far beyond 32 000 candidates.
//
//	cpi <hash mode> <the 12 state tokens of the other ops> <seed>     -> ok <index> | err
//	csi <hash mode> <the 12 state tokens>                             -> ok <indices> | err
//
// hash mode (zrnt lets the user install the hash function: hashing.Hash / hashing.GetHashFn are variables;
// the theorems hold for every hash function): with d = sha256(x),
//
//	0: d          1: every zero byte of d becomes 1 (a validator with effective balance 0 is never accepted)
//	2: a zero byte d[i] stays zero only if d[(i+1) mod 32] < 8, else becomes 1 (accepted once in ~8192 candidates)
//	3: every byte gets its top bit set (only effective balances >= ~MAX/2 can be accepted)

import (
	"crypto/sha256"
	"math/rand"
	"strconv"

	"github.com/protolambda/zrnt/eth2/beacon/common"
	"github.com/protolambda/zrnt/eth2/util/hashing"
)

func hashMode(m int) hashing.HashFn {
	return func(in []byte) [32]byte {
		d := sha256.Sum256(in)
		o := d
		switch m {
		case 1:
			for i := range o {
				if d[i] == 0 {
					o[i] = 1
				}
			}
		case 2:
			for i := range o {
				if d[i] == 0 && d[(i+1)%32] >= 8 {
					o[i] = 1
				}
			}
		case 3:
			for i := range o {
				o[i] = d[i] | 0x80
			}
		}
		return o
	}
}

// withHash runs f with zrnt's hash function replaced (restored afterwards, also on panic).
func withHash(m int, f func() string) string {
	oldH, oldG := hashing.Hash, hashing.GetHashFn
	defer func() { hashing.Hash, hashing.GetHashFn = oldH, oldG }()
	h := hashMode(m)
	hashing.Hash = h
	hashing.GetHashFn = func() hashing.HashFn { return h }
	return f()
}

func runDirect(f []string) (string, bool) {
	want := map[string]int{"cpi": 15, "csi": 14}[f[0]]
	if want == 0 || len(f) != want {
		return "", false
	}
	m, err := strconv.Atoi(f[1])
	if err != nil || m < 0 || m > 3 {
		return "", false
	}
	in, ok := parse(append([]string{f[0]}, f[2:14]...))
	if !ok {
		return "", false
	}
	var seed common.Root
	if f[0] == "cpi" {
		s, ok := parseSeed32(f[14])
		if !ok {
			return "", false
		}
		seed = s
	}
	spec := in.spec()
	state, err := in.state(spec)
	if err != nil {
		return "harness-error " + err.Error(), true
	}
	vals, err := state.Validators()
	if err != nil {
		return "harness-error " + err.Error(), true
	}
	bounded, err := common.LoadBoundedIndices(vals)
	if err != nil {
		return "harness-error " + err.Error(), true
	}
	epoch := common.Epoch(in.slot / in.spe)
	return withHash(m, func() string {
		if f[0] == "cpi" {
			p, err := common.ComputeProposerIndex(spec, vals, common.ActiveIndices(bounded, epoch), seed)
			if err != nil {
				return "err"
			}
			return "ok " + u(uint64(p))
		}
		l, err := common.ComputeSyncCommitteeIndices(spec, state, epoch+1, common.ActiveIndices(bounded, epoch+1))
		if err != nil {
			return "err"
		}
		return "ok " + listStr(l)
	}), true
}

func parseSeed32(s string) (r common.Root, ok bool) {
	b, err := hexDecode(s)
	if err != nil || len(b) != 32 {
		return r, false
	}
	copy(r[:], b)
	return r, true
}

// genDirect writes the cpi / csi lines. classify runs the real code on a line for the statistics only.
func genDirect(rng *rand.Rand, emit func(kind, line string)) {
	inc := uint64(1000000000)
	mk := func(n int, src, scs uint64, eff func(i int) uint64) *input {
		in := &input{fork: "phase0", spe: 4, tcs: 2, mcs: 4, src: src, ephv: 16, msl: 1, meb: 32 * inc, scs: scs, slot: uint64(4 * (2 + rng.Intn(50)))}
		rng.Read(in.salt[:])
		for i := 0; i < n; i++ {
			in.vals = append(in.vals, val{0, far, eff(i)})
		}
		return in
	}
	seedHex := func() string {
		var s [32]byte
		rng.Read(s[:])
		return hexEncode(s[:])
	}
	directSeed := func(kind, op string, mode int, in *input, seed string) {
		l := in.line(op)
		l = op + " " + strconv.Itoa(mode) + l[len(op):]
		if op == "cpi" {
			l += " " + seed
		}
		emit(kind, l)
	}
	direct := func(kind, op string, mode int, in *input) { directSeed(kind, op, mode, in, seedHex()) }
	zero := func(int) uint64 { return 0 }
	for _, n := range []int{1, 5, 33} {
		// never accepted: the cut-off is reached
		direct("cpi never-accepted (all balances 0, no zero byte)", "cpi", 1, mk(n, uint64(1+n%2), 8, zero))
		// one validator at MAX among zeros: accepted as soon as the permutation reaches it (within n candidates)
		direct("cpi one max among zeros", "cpi", 1, mk(n, 2, 8, func(i int) uint64 {
			if i == n/2 {
				return 32 * inc
			}
			return 0
		}))
		direct("cpi tiny balances, no zero byte", "cpi", 1, mk(n, 1, 8, func(i int) uint64 { return uint64(i%3) * inc / 1000 }))
	}
	// boundary of the cut-off: seeds (found by search, hash mode 2, all balances 0 so that acceptance depends on the
	// random byte alone) whose first zero byte is candidate 31968 / 31977 (last block of 32 before the cut-off: the
	// real code must still return it) and candidate 32029 / 32031 (first block after it: the real code gives up,
	// the specification's loop returns it — the stated divergence, a KNOWN-FINDING of every run)
	for i, sd := range []string{"0727b9af485936db326daf7db4d683360baec03e7cb74c23a8705cd5e89b908e", "147d4c220a8a6412742a0fc12b5507ee3eb07ba17782f69e0813e10f1f4fb45e"} {
		directSeed("cpi first acceptance in the last block before the cut-off", "cpi", 2, mk(3+4*i, 1, 8, zero), sd)
	}
	for i, sd := range []string{"966b3747af9b9f402a7770a8273ff6ae9b971539865aca2b93288b99c11e5011", "8e0d3c2c65b41dc6acb08509dbc8ccc08aae5c2a6c700ff38a35fe94da3ab4fc"} {
		directSeed("cpi first acceptance just after the cut-off (spec returns, code gives up)", "cpi", 2, mk(2+5*i, 1, 8, zero), sd)
	}
	for k := 0; k < 10; k++ {
		// accepted once in ~8192 candidates: deep into the 1000 x 32 loop, sometimes beyond it
		direct("cpi rare acceptance (~1/8192)", "cpi", 2, mk(1+rng.Intn(40), 1, 8, zero))
	}
	for k := 0; k < 4; k++ {
		direct("cpi top-bit bytes, one max among tiny", "cpi", 3, mk(2+rng.Intn(60), 2, 8, func(i int) uint64 {
			if i == 1 {
				return 32 * inc
			}
			return inc
		}))
		direct("cpi plain sha256", "cpi", 0, mk(1+rng.Intn(60), 10, 8, func(i int) uint64 { return inc * uint64(rng.Intn(33)) }))
	}
	for k := 0; k < 4; k++ {
		// the sync-committee loop has no cut-off: 2..4 members at ~8192 candidates each
		direct("csi rare acceptance (~1/8192), beyond 32000 candidates possible", "csi", 2, mk(1+rng.Intn(20), 1, uint64(2+k%3), zero))
		direct("csi top-bit bytes, two max among tiny", "csi", 3, mk(3+rng.Intn(40), 2, 8, func(i int) uint64 {
			if i == 0 || i == 2 {
				return 32 * inc
			}
			return inc
		}))
	}
	direct("csi plain sha256, zero balances", "csi", 0, mk(7, 1, 4, zero))
}
