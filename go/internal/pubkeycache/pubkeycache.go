// Package pubkeycache drives common.PubkeyCache (property C16) over trees of handles.
//
// Operation lines (mode c16, stateful; `reset` starts a new sequence with slot 0 = EmptyPubkeyCache()):
//
//	add <src> <index> <key> <dst>   h := slot[src].AddValidator(index, keys[key]); on success slot[dst] = h
//	                                -> ok same | ok new | err | diverged | panic | nohandle
//	init <dst> <k,k,...|->           slot[dst] = NewPubkeyCache(registry with these keys)   -> ok | bad-op (duplicate keys)
//	pub <h> <index>                 -> ok <key> | none | nohandle
//	idx <h> <key>                   -> ok <index> | none | nohandle
//	dump                            every lookup (indices 0..13, keys 0..11) on every live slot + aliasing of slots
//
// Keys cross the boundary as small ids; on the Go side id k is the compressed BLS12-381 public key of
// secret key k+1 (a valid curve point, derived with bls12-381-util as zrnt's own code does).
//
// Non-termination is an observable outcome: every AddValidator call runs under a watchdog. A call that does
// not return is reported as `diverged`; the worker process that contains the runaway goroutine is then
// discarded (it exits) and a fresh worker re-establishes the state of the current sequence. That is why
// Exec runs the real work in a child process of the same binary.
package pubkeycache

import (
	"bufio"
	"fmt"
	"os"
	"os/exec"
	"runtime"
	"strconv"
	"strings"
	"time"

	blsu "github.com/protolambda/bls12-381-util"
	"github.com/protolambda/zrnt/eth2/beacon/common"
	"github.com/protolambda/ztyp/tree"

	"verifharness/internal/hreg"
)

func init() { hreg.Register(&hreg.Mode{Name: "c16", Gen: gen, Exec: execMode}) }

const (
	nSlots   = 6
	nKeys    = 12
	dumpIdx  = 14
	childEnv = "VERIF_C16_CHILD"
	skipEnv  = "VERIF_C16_SKIP"
	divEnv   = "VERIF_C16_DIVERGED"
)

// ------------------------------------------------------------------------------------------------
// keys

var keyTab []common.BLSPubkey
var keyID map[common.BLSPubkey]int

func keys() []common.BLSPubkey {
	if keyTab != nil {
		return keyTab
	}
	keyID = map[common.BLSPubkey]int{}
	for i := 0; i < nKeys; i++ {
		var raw [32]byte
		raw[31] = byte(i + 1)
		raw[30] = byte(7 * i)
		var sk blsu.SecretKey
		if err := sk.Deserialize(&raw); err != nil {
			hreg.Fatalf("c16: secret key %d: %v", i, err)
		}
		pk, err := blsu.SkToPk(&sk)
		if err != nil {
			hreg.Fatalf("c16: SkToPk %d: %v", i, err)
		}
		p := common.BLSPubkey(pk.Serialize())
		keyTab = append(keyTab, p)
		keyID[p] = i
	}
	return keyTab
}

// ------------------------------------------------------------------------------------------------
// a minimal validator registry for NewPubkeyCache

type regVal struct {
	common.Validator
	pub common.BLSPubkey
}

func (v regVal) Pubkey() (common.BLSPubkey, error) { return v.pub, nil }

type registry []common.BLSPubkey

func (r registry) ValidatorCount() (uint64, error) { return uint64(len(r)), nil }
func (r registry) Validator(i common.ValidatorIndex) (common.Validator, error) {
	if uint64(i) >= uint64(len(r)) {
		return nil, fmt.Errorf("out of range")
	}
	return regVal{pub: r[i]}, nil
}
func (r registry) Iter() (next func() (val common.Validator, ok bool, err error)) {
	i := 0
	return func() (common.Validator, bool, error) {
		if i >= len(r) {
			return nil, false, nil
		}
		i++
		return regVal{pub: r[i-1]}, true, nil
	}
}
func (r registry) IsValidIndex(i common.ValidatorIndex) (bool, error) {
	return uint64(i) < uint64(len(r)), nil
}
func (r registry) HashTreeRoot(fn tree.HashFn) common.Root { return common.Root{} }

// ------------------------------------------------------------------------------------------------
// executing operation lines on the real cache

type world struct {
	slot [nSlots]*common.PubkeyCache
}

func newWorld() *world {
	w := &world{}
	w.slot[0] = common.EmptyPubkeyCache()
	return w
}

func num(s string) (uint64, bool) {
	v, err := strconv.ParseUint(s, 10, 64)
	return v, err == nil
}

func slotNo(s string) (int, bool) {
	v, ok := num(s)
	if !ok || v >= nSlots {
		return 0, false
	}
	return int(v), true
}

func keyNo(s string) (int, bool) {
	v, ok := num(s)
	if !ok || v >= nKeys {
		return 0, false
	}
	return int(v), true
}

func pubStr(c *common.PubkeyCache, i uint64) string {
	p, ok := c.Pubkey(common.ValidatorIndex(i))
	if !ok {
		return "none"
	}
	if p == nil {
		return "nilptr"
	}
	id, known := keyID[p.Compressed]
	if !known {
		return "unknownkey"
	}
	if _, err := p.Pubkey(); err != nil { // decompress: the cached key must be a valid point
		return "badpoint"
	}
	return "ok " + strconv.Itoa(id)
}

func idxStr(c *common.PubkeyCache, k int) string {
	i, ok := c.ValidatorIndex(keys()[k])
	if !ok {
		return "none"
	}
	return "ok " + strconv.FormatUint(uint64(i), 10)
}

func short(s string) string {
	if s == "none" {
		return "-"
	}
	return strings.TrimPrefix(s, "ok ")
}

func (w *world) dump() string {
	var sb strings.Builder
	for s := 0; s < nSlots; s++ {
		c := w.slot[s]
		if c == nil {
			continue
		}
		rep := s
		for t := 0; t < s; t++ {
			if w.slot[t] == c {
				rep = t
				break
			}
		}
		fmt.Fprintf(&sb, "%d=%d[", s, rep)
		for i := uint64(0); i < dumpIdx; i++ {
			if i > 0 {
				sb.WriteByte(',')
			}
			sb.WriteString(short(pubStr(c, i)))
		}
		sb.WriteByte(';')
		for k := 0; k < nKeys; k++ {
			if k > 0 {
				sb.WriteByte(',')
			}
			sb.WriteString(short(idxStr(c, k)))
		}
		sb.WriteString("] ")
	}
	return strings.TrimSpace(sb.String())
}

type addResult struct {
	h   *common.PubkeyCache
	err error
	pan bool
}

// guardedAdd runs AddValidator under a watchdog. diverged=true means the call did not return: the calling
// goroutine is still running and this process must be discarded.
func guardedAdd(c *common.PubkeyCache, index uint64, pub common.BLSPubkey, beforeWait func()) (res addResult, diverged bool) {
	done := make(chan addResult, 1)
	var m0 runtime.MemStats
	go func() {
		defer func() {
			if r := recover(); r != nil {
				done <- addResult{pan: true}
			}
		}()
		h, err := c.AddValidator(common.ValidatorIndex(index), pub)
		done <- addResult{h: h, err: err}
	}()
	// fast path: a terminating call takes microseconds
	select {
	case r := <-done:
		return r, false
	case <-time.After(40 * time.Millisecond):
	}
	beforeWait()
	runtime.ReadMemStats(&m0)
	start := time.Now()
	for {
		select {
		case r := <-done:
			return r, false
		case <-time.After(30 * time.Millisecond):
		}
		var m runtime.MemStats
		runtime.ReadMemStats(&m)
		// A terminating AddValidator allocates at most a few cache levels. Thousands of
		// allocations during one call (nothing else runs in this worker) mean runaway recursion;
		// a silent stall for 20 s means a loop.
		if m.Mallocs-m0.Mallocs > 3000 || time.Since(start) > 20*time.Second {
			return addResult{}, true
		}
	}
}

// step executes one line. skipAdd: the line is an `add` known to diverge (replay after a restart): no call.
func (w *world) step(line string, skipAdd bool, flush func()) (out string, diverged bool) {
	f := hreg.Fields(line)
	if len(f) == 0 {
		return "bad-op", false
	}
	switch f[0] {
	case "add":
		if len(f) != 5 {
			return "bad-op", false
		}
		src, ok1 := slotNo(f[1])
		index, ok2 := num(f[2])
		k, ok3 := keyNo(f[3])
		dst, ok4 := slotNo(f[4])
		if !(ok1 && ok2 && ok3 && ok4) {
			return "bad-op", false
		}
		c := w.slot[src]
		if c == nil {
			return "nohandle", false
		}
		if skipAdd {
			return "diverged", false
		}
		r, div := guardedAdd(c, index, keys()[k], flush)
		if div {
			return "diverged", true
		}
		if r.pan {
			return "panic", false
		}
		if r.err != nil {
			return "err", false
		}
		if r.h == nil {
			return "nilhandle", false
		}
		w.slot[dst] = r.h
		if r.h == c {
			return "ok same", false
		}
		return "ok new", false
	case "init":
		if len(f) != 3 {
			return "bad-op", false
		}
		dst, ok := slotNo(f[1])
		if !ok {
			return "bad-op", false
		}
		var reg registry
		seen := map[int]bool{}
		if f[2] != "-" {
			for _, t := range strings.Split(f[2], ",") {
				k, ok := keyNo(t)
				if !ok || seen[k] {
					return "bad-op", false
				}
				seen[k] = true
				reg = append(reg, keys()[k])
			}
		}
		return hreg.Guard(func() string {
			c, err := common.NewPubkeyCache(reg)
			if err != nil {
				return "err"
			}
			w.slot[dst] = c
			return "ok"
		}), false
	case "pub":
		if len(f) != 3 {
			return "bad-op", false
		}
		h, ok1 := slotNo(f[1])
		i, ok2 := num(f[2])
		if !(ok1 && ok2) {
			return "bad-op", false
		}
		if w.slot[h] == nil {
			return "nohandle", false
		}
		return hreg.Guard(func() string { return pubStr(w.slot[h], i) }), false
	case "idx":
		if len(f) != 3 {
			return "bad-op", false
		}
		h, ok1 := slotNo(f[1])
		k, ok2 := keyNo(f[2])
		if !(ok1 && ok2) {
			return "bad-op", false
		}
		if w.slot[h] == nil {
			return "nohandle", false
		}
		return hreg.Guard(func() string { return idxStr(w.slot[h], k) }), false
	case "dump":
		if len(f) != 1 {
			return "bad-op", false
		}
		return hreg.Guard(func() string { return "dump " + w.dump() }), false
	}
	return "bad-op", false
}

// ------------------------------------------------------------------------------------------------
// Exec: supervisor + worker

func execMode(o hreg.Opts, sc *bufio.Scanner, w *bufio.Writer) error {
	if os.Getenv(childEnv) != "" {
		return worker(sc, w)
	}
	return supervisor(sc, w)
}

// worker answers the lines from index skip on. Lines before skip are replayed silently from the last
// `reset` (adds listed as diverged are not called again). On a diverging call it writes `diverged`,
// flushes and exits with status 3 (the runaway goroutine dies with the process).
func worker(sc *bufio.Scanner, w *bufio.Writer) error {
	keys()
	skip, _ := strconv.Atoi(os.Getenv(skipEnv))
	div := map[int]bool{}
	for _, t := range strings.Split(os.Getenv(divEnv), ",") {
		if n, err := strconv.Atoi(t); err == nil {
			div[n] = true
		}
	}
	var lines []string
	for sc.Scan() {
		lines = append(lines, sc.Text())
	}
	if err := sc.Err(); err != nil {
		return err
	}
	start := 0
	for i := 0; i < skip && i < len(lines); i++ {
		if strings.TrimSpace(lines[i]) == "reset" {
			start = i + 1
		}
	}
	wd := newWorld()
	for i := start; i < len(lines); i++ {
		l := strings.TrimSpace(lines[i])
		if l == "reset" {
			wd = newWorld()
			if i >= skip {
				fmt.Fprintln(w, "reset")
			}
			continue
		}
		out, diverged := wd.step(l, div[i], func() { w.Flush() })
		if i >= skip {
			fmt.Fprintln(w, out)
		}
		if diverged {
			w.Flush()
			os.Exit(3)
		}
	}
	return nil
}

func supervisor(sc *bufio.Scanner, w *bufio.Writer) error {
	dir, err := os.MkdirTemp("", "c16exec")
	if err != nil {
		return err
	}
	defer os.RemoveAll(dir)
	inP, outP := dir+"/ops.txt", dir+"/out.txt"
	inF, err := os.Create(inP)
	if err != nil {
		return err
	}
	bw := bufio.NewWriter(inF)
	total := 0
	for sc.Scan() {
		bw.WriteString(sc.Text())
		bw.WriteByte('\n')
		total++
	}
	if err := sc.Err(); err != nil {
		return err
	}
	bw.Flush()
	inF.Close()
	self, err := os.Executable()
	if err != nil {
		return err
	}
	done := 0
	var diverged []string
	for restarts := 0; done < total; restarts++ {
		if restarts > 120 {
			for ; done < total; done++ {
				fmt.Fprintln(w, "aborted-too-many-divergences")
			}
			break
		}
		cmd := exec.Command(self, "exec", "c16", "-in", inP, "-out", outP)
		cmd.Env = append(os.Environ(), childEnv+"=1", skipEnv+"="+strconv.Itoa(done), divEnv+"="+strings.Join(diverged, ","))
		cmd.Stderr = nil
		runErr := cmd.Run()
		code := 0
		if runErr != nil {
			if ee, ok := runErr.(*exec.ExitError); ok {
				code = ee.ExitCode()
			} else {
				return runErr
			}
		}
		got := 0
		if f, err := os.Open(outP); err == nil {
			s := hreg.NewScanner(f)
			for s.Scan() {
				fmt.Fprintln(w, s.Text())
				got++
			}
			f.Close()
		}
		done += got
		switch {
		case code == 0:
			if done < total {
				return fmt.Errorf("c16 worker answered %d of %d lines", done, total)
			}
		case code == 3:
			// last answered line diverged
			diverged = append(diverged, strconv.Itoa(done-1))
		default:
			// the worker died (e.g. fatal stack overflow) while executing line `done`
			if done < total {
				fmt.Fprintln(w, "diverged")
				diverged = append(diverged, strconv.Itoa(done))
				done++
			}
		}
	}
	return nil
}

// ------------------------------------------------------------------------------------------------
// generator

// shadow: what each handle should contain (used only to aim the generator at the interesting branches)
type shadow struct {
	hists [][]int
	slot  [nSlots]int
}

func newShadow() *shadow {
	s := &shadow{hists: [][]int{{}}}
	for i := range s.slot {
		s.slot[i] = -1
	}
	s.slot[0] = 0
	return s
}

func indexOf(h []int, k int) int {
	for i, x := range h {
		if x == k {
			return i
		}
	}
	return -1
}

// add applies the intended semantics and returns a label of the branch taken.
func (s *shadow) add(src, index, key, dst int) string {
	hid := s.slot[src]
	if hid < 0 {
		return "nohandle"
	}
	H := s.hists[hid]
	at := indexOf(H, key)
	switch {
	case index < len(H) && H[index] == key:
		s.slot[dst] = hid
		return "noop"
	case index > len(H):
		if at >= 0 {
			return "gap+keyknown"
		}
		return "gap"
	case at >= 0 && at < index:
		return "key-earlier"
	case index == len(H) && at < 0:
		s.hists[hid] = append(H, key)
		s.slot[dst] = hid
		return "append"
	default:
		nh := append(append([]int{}, H[:index]...), key)
		s.hists = append(s.hists, nh)
		s.slot[dst] = len(s.hists) - 1
		if at > index {
			return "fork-key-later"
		}
		return "fork-index"
	}
}

func gen(o hreg.Opts, w *bufio.Writer) error {
	rng := o.Rand()
	st := o.Stats
	emit := func(s string) { fmt.Fprintln(w, s) }
	var sh *shadow
	begin := func() {
		emit("reset")
		sh = newShadow()
	}
	add := func(src, index, key, dst int) {
		br := sh.add(src, index, key, dst)
		st.Add("add-branch", br)
		emit(fmt.Sprintf("add %d %d %d %d", src, index, key, dst))
		emit("dump")
	}
	// 1. the histories named in the property text / DESIGN.md section 8
	begin() // sibling-only entry must not be reported; AddValidator(5, key the parent has at 6)
	for i := 0; i < 7; i++ {
		add(0, i, i, 0)
	}
	add(0, 5, 9, 1) // fork at 5
	add(1, 5, 6, 2) // key 6 sits at parent index 6
	add(0, 7, 10, 0)
	add(1, 6, 10, 1)
	add(1, 7, 11, 1)
	emit("idx 1 10")
	emit("idx 1 6")
	emit("pub 1 6")
	begin() // parent grows after the fork: the child must not see the new entries
	add(0, 0, 0, 0)
	add(0, 1, 1, 0)
	add(0, 1, 2, 1)
	add(0, 2, 3, 0)
	add(0, 3, 4, 0)
	emit("idx 1 3")
	emit("idx 1 4")
	emit("pub 1 2")
	add(1, 2, 4, 1)
	add(1, 3, 3, 1)
	add(1, 1, 1, 2)
	begin() // gap, known pair, key known at an earlier index, key known later
	add(0, 1, 0, 0)
	add(0, 0, 0, 0)
	add(0, 0, 0, 1)
	add(0, 1, 0, 1)
	add(0, 1, 1, 0)
	add(0, 2, 2, 0)
	add(0, 0, 2, 3)
	add(3, 1, 0, 3)
	add(0, 5, 5, 4)
	begin()
	emit("init 0 0,1,2,3")
	emit("dump")
	add(0, 4, 4, 0)
	add(0, 2, 4, 1)
	add(1, 3, 2, 1)
	emit("init 2 -")
	emit("init 3 1,1")
	add(2, 0, 5, 2)
	// malformed lines
	begin()
	for _, l := range []string{"add", "add 0 0 0", "add 9 0 0 0", "add 0 0 12 0", "add 0 x 0 0", "pub 0", "idx 0 99", "frob 1 2", "dump 1", "add 3 0 0 0", "pub 4 0", "idx 5 0", "add 0 18446744073709551615 0 0", "add 0 18446744073709551616 0 0", "pub 0 18446744073709551615"} {
		emit(l)
		st.Add("op", "malformed")
	}
	// 2. bounded-exhaustive short sequences over 2 slots x 3 indices x 3 keys
	depth := o.Pick(2, 3)
	var rec func(prefix [][4]int)
	rec = func(prefix [][4]int) {
		if len(prefix) > 0 {
			begin()
			for _, p := range prefix {
				add(p[0], p[1], p[2], p[3])
			}
			st.Add("seq-kind", "exhaustive")
		}
		if len(prefix) == depth {
			return
		}
		for src := 0; src < 2; src++ {
			for idx := 0; idx < 3; idx++ {
				for k := 0; k < 3; k++ {
					for dst := 0; dst < 2; dst++ {
						rec(append(append([][4]int{}, prefix...), [4]int{src, idx, k, dst}))
					}
				}
			}
		}
	}
	rec(nil)
	// 3. random trees of handles
	n := o.Pick(12000, 300000)
	for s := 0; s < n; s++ {
		begin()
		st.Add("seq-kind", "random")
		nIdx := 3 + rng.Intn(10)  // indices in play: <= 12
		nK := 3 + rng.Intn(nKeys-2) // keys in play: <= 12
		if nK > nKeys {
			nK = nKeys
		}
		if rng.Intn(8) == 0 {
			m := rng.Intn(5)
			perm := rng.Perm(nK)
			var ks []string
			for i := 0; i < m && i < len(perm); i++ {
				ks = append(ks, strconv.Itoa(perm[i]))
				sh.hists[0] = append(sh.hists[0], perm[i])
			}
			l := "-"
			if len(ks) > 0 {
				l = strings.Join(ks, ",")
			}
			emit("init 0 " + l)
			st.Add("op", "init")
		}
		ops := 4 + rng.Intn(o.Pick(22, 22))
		for i := 0; i < ops; i++ {
			// pick a live slot
			var live []int
			for t := 0; t < nSlots; t++ {
				if sh.slot[t] >= 0 {
					live = append(live, t)
				}
			}
			src := live[rng.Intn(len(live))]
			if rng.Intn(40) == 0 {
				src = rng.Intn(nSlots)
			}
			H := []int{}
			if sh.slot[src] >= 0 {
				H = sh.hists[sh.slot[src]]
			}
			fresh := func() int { // a key not in H if there is one
				for t := 0; t < 6; t++ {
					k := rng.Intn(nK)
					if indexOf(H, k) < 0 {
						return k
					}
				}
				return rng.Intn(nK)
			}
			var index, key int
			switch c := rng.Intn(20); {
			case c < 9: // extend
				index, key = len(H), fresh()
			case c < 11 && len(H) > 0: // known pair
				index = rng.Intn(len(H))
				key = H[index]
			case c < 14 && len(H) > 0: // conflicting key at a known index
				index, key = rng.Intn(len(H)), fresh()
			case c < 16 && len(H) > 0: // a key of this history at another index
				index, key = rng.Intn(len(H)+1), H[rng.Intn(len(H))]
			case c < 17: // gap
				index, key = len(H)+1+rng.Intn(2), rng.Intn(nK)
			default:
				index, key = rng.Intn(nIdx), rng.Intn(nK)
			}
			if index >= 13 {
				index = rng.Intn(13)
			}
			dst := src
			if rng.Intn(3) == 0 {
				dst = rng.Intn(nSlots)
			}
			add(src, index, key, dst)
			st.Add("op", "add")
			if rng.Intn(10) == 0 {
				emit(fmt.Sprintf("pub %d %d", rng.Intn(nSlots), rng.Intn(14)))
				emit(fmt.Sprintf("idx %d %d", rng.Intn(nSlots), rng.Intn(nKeys)))
				st.Add("op", "lookup")
			}
		}
		st.Add("handles", strconv.Itoa(len(sh.hists)))
		mx := 0
		for _, h := range sh.hists {
			if len(h) > mx {
				mx = len(h)
			}
		}
		st.Add("longest-history", strconv.Itoa(mx))
	}
	return nil
}
