// go2lean: translator for a deliberately tiny subset of Go (functions over uint64/bool with
// :=, assignment, if/else, `for cond {}`, return, reads of *Spec fields, calls to other translated
// functions) into total Lean 4 functions over UInt64.
//
// Semantics (also printed in the generated file's header):
//   - Go uint64 +,-,* and bit operations are Lean UInt64 wrapping operations;
//   - `/` and `%` go through Res.udiv / Res.umod, which yield Res.panic on a zero divisor;
//   - shifts go through Res.shl / Res.shr (a count >= 64 gives 0, as in Go for unsigned counts);
//   - `return x, <non-nil error>` is Res.err, `return x, nil` is Res.ok x;
//   - `for cond { body }` becomes a structurally recursive function over a fuel argument which
//     returns Res.outOfFuel when the fuel is exhausted.
//
// Anything outside the subset is a fatal translator error (exit status 2): never a silent skip.
package main

import (
	"encoding/json"
	"fmt"
	"go/ast"
	"go/parser"
	"go/token"
	"os"
	"path/filepath"
	"sort"
	"strings"
)

type FuncSpec struct {
	File string `json:"file"`
	Recv string `json:"recv"` // receiver type name without '*', or ""
	Name string `json:"name"`
	Lean string `json:"lean"` // Lean name
}

type RecordSpec struct {
	Lean   string            `json:"lean"`   // Lean structure name
	Fields map[string]string `json:"fields"` // accessor method -> "UInt64" | "Bool"
	Preds  map[string]string `json:"preds"`  // free function taking the record -> field name (Bool)
}

type Config struct {
	Namespace string            `json:"namespace"`
	Uint64    []string          `json:"uint64_types"` // named types whose underlying type is uint64
	Consts    map[string]string `json:"consts"`       // Go constant -> Lean literal
	IntConsts map[string]string `json:"int_consts"`   // Go constants of signed/duration type -> Lean Int literal
	VersionF  []string          `json:"version_fields"`
	// Records: Go interface/struct types read only through accessor methods (`x, err := v.M()`), modelled as a
	// Lean structure of plain fields; accessor errors (a malformed tree) are outside the model: the
	// `if err != nil {…}` that follows an accessor call is dropped (recorded in the trusted base)
	Records map[string]RecordSpec `json:"records"`
	Funcs     []FuncSpec        `json:"funcs"`
}

var cfg Config
var u64 = map[string]bool{}
var fset = token.NewFileSet()
var specFields = map[string]bool{}
var leanName = map[string]string{} // key recv+"."+name or name
var impure = map[string]bool{}     // lean name -> returns Res
var needsFuel = map[string]bool{}
var aux []string // auxiliary loop definitions for the current function
var deps = map[string][]string{} // lean name -> lean names it calls (definitions are emitted callee first)
var stubs = map[string]string{} // lean name -> stub definition with the signature of the last good translation

// translateError aborts the translation of ONE function (recovered in main): the function is then
// absent from the generated file and reported as failed in <out>.status.json, so only the properties
// whose theorems mention it lose their obligation.
type translateError struct{ msg string }

func fatal(pos token.Pos, f string, a ...interface{}) {
	panic(translateError{fmt.Sprintf("%s: %s", fset.Position(pos), fmt.Sprintf(f, a...))})
}

var reserved = map[string]bool{"in": true, "at": true, "from": true, "end": true, "fun": true, "let": true, "do": true, "then": true, "else": true, "if": true, "open": true, "def": true, "theorem": true, "by": true, "have": true, "show": true, "max": true, "min": true, "out": true}

func id(s string) string {
	if reserved[s] {
		return s + "'"
	}
	return s
}

type fnCtx struct {
	name    string
	params  []string // lean param names in order (excluding spec / fuel)
	ptypes  map[string]string
	hasSpec bool
	specVar string
	funVars map[string]bool // function-typed params (Int -> UInt64)
	retBool bool
	retErr  bool // has an `error` result
	retVal  bool // has a non-error result
	retTy   string
	loops   int
	locals  []string // declared locals in order
	recVars map[string]string // parameter name -> record type
	boolLoc map[string]bool   // locals of type Bool
	errRec  bool              // `err` currently holds the error of a record accessor
	tmp     int
	monadic bool
}

func (c *fnCtx) isLocal(n string) bool {
	for _, l := range c.locals {
		if l == n {
			return true
		}
	}
	return false
}

func (c *fnCtx) isBoolExpr(e ast.Expr) bool {
	switch x := e.(type) {
	case *ast.ParenExpr:
		return c.isBoolExpr(x.X)
	case *ast.Ident:
		return x.Name == "true" || x.Name == "false" || c.boolLoc[x.Name]
	case *ast.UnaryExpr:
		return x.Op == token.NOT
	case *ast.BinaryExpr:
		switch x.Op {
		case token.LAND, token.LOR, token.LSS, token.GTR, token.LEQ, token.GEQ, token.EQL, token.NEQ:
			return true
		}
	case *ast.CallExpr:
		if fn, ok := x.Fun.(*ast.Ident); ok {
			for _, r := range cfg.Records {
				if _, ok := r.Preds[fn.Name]; ok {
					return true
				}
			}
		}
	}
	return false
}

// recAccessor recognises `v.M()` on a record parameter; returns the Lean expression and the field type
func (c *fnCtx) recAccessor(e ast.Expr) (string, string, bool) {
	call, ok := e.(*ast.CallExpr)
	if !ok || len(call.Args) != 0 {
		return "", "", false
	}
	sel, ok := call.Fun.(*ast.SelectorExpr)
	if !ok {
		return "", "", false
	}
	b, ok := sel.X.(*ast.Ident)
	if !ok || c.recVars[b.Name] == "" {
		return "", "", false
	}
	ty, ok := cfg.Records[c.recVars[b.Name]].Fields[sel.Sel.Name]
	if !ok {
		fatal(e.Pos(), "record accessor %s not in the whitelist", sel.Sel.Name)
	}
	return id(b.Name) + "." + sel.Sel.Name, ty, true
}

func isErrNotNil(e ast.Expr) bool {
	b, ok := e.(*ast.BinaryExpr)
	if !ok || b.Op != token.NEQ {
		return false
	}
	i, ok := b.X.(*ast.Ident)
	return ok && i.Name == "err" && isNil(b.Y)
}

func (c *fnCtx) fresh() string { c.tmp++; return fmt.Sprintf("t%d'", c.tmp) }

// expression translation; binds collects `let t ← …` lines that must precede the use.
func (c *fnCtx) expr(e ast.Expr, binds *[]string, intMode bool) string {
	switch x := e.(type) {
	case *ast.ParenExpr:
		return "(" + c.expr(x.X, binds, intMode) + ")"
	case *ast.BasicLit:
		if x.Kind != token.INT {
			fatal(x.Pos(), "unsupported literal %s", x.Value)
		}
		return x.Value
	case *ast.Ident:
		if v, ok := cfg.Consts[x.Name]; ok {
			return v
		}
		if v, ok := cfg.IntConsts[x.Name]; ok {
			return v
		}
		if x.Name == "true" || x.Name == "false" {
			return x.Name
		}
		return id(x.Name)
	case *ast.SelectorExpr:
		if b, ok := x.X.(*ast.Ident); ok && c.hasSpec && b.Name == c.specVar {
			specFields[x.Sel.Name] = true
			return "spec." + x.Sel.Name
		}
		// package-qualified constant from the whitelist's const table, e.g. common.ATTESTATION_SUBNET_COUNT
		if b, ok := x.X.(*ast.Ident); ok && c.ptypes[b.Name] == "" && !c.isLocal(b.Name) {
			if v, ok := cfg.Consts[x.Sel.Name]; ok {
				return v
			}
		}
		fatal(x.Pos(), "unsupported selector")
	case *ast.UnaryExpr:
		in := c.expr(x.X, binds, intMode)
		switch x.Op {
		case token.XOR:
			return "(~~~ " + in + ")"
		case token.SUB:
			if intMode {
				return "(- " + in + ")"
			}
			return "(0 - " + in + ")"
		case token.NOT:
			return "(! " + in + ")"
		}
		fatal(x.Pos(), "unsupported unary op %s", x.Op)
	case *ast.BinaryExpr:
		switch x.Op {
		case token.LAND, token.LOR:
			// Go short-circuits; a division on the right side would need guarding, so the
			// right side must be bind-free.
			l := c.expr(x.X, binds, intMode)
			var rb []string
			r := c.expr(x.Y, &rb, intMode)
			if len(rb) > 0 {
				fatal(x.Pos(), "division/impure call on the right of a short-circuit operator")
			}
			if x.Op == token.LAND {
				return "(" + l + " && " + r + ")"
			}
			return "(" + l + " || " + r + ")"
		}
		l := c.expr(x.X, binds, intMode)
		r := c.expr(x.Y, binds, intMode)
		switch x.Op {
		case token.ADD:
			return "(" + l + " + " + r + ")"
		case token.SUB:
			return "(" + l + " - " + r + ")"
		case token.MUL:
			return "(" + l + " * " + r + ")"
		case token.QUO, token.REM:
			t := c.fresh()
			fn := "Res.udiv"
			if x.Op == token.REM {
				fn = "Res.umod"
			}
			*binds = append(*binds, fmt.Sprintf("let %s ← %s %s %s", t, fn, l, r))
			c.monadic = true
			return t
		case token.AND:
			return "(" + l + " &&& " + r + ")"
		case token.OR:
			return "(" + l + " ||| " + r + ")"
		case token.XOR:
			return "(" + l + " ^^^ " + r + ")"
		case token.SHL:
			return "(Res.shl " + l + " " + r + ")"
		case token.SHR:
			return "(Res.shr " + l + " " + r + ")"
		case token.LSS:
			return "(decide (" + l + " < " + r + "))"
		case token.GTR:
			return "(decide (" + l + " > " + r + "))"
		case token.LEQ:
			return "(decide (" + l + " ≤ " + r + "))"
		case token.GEQ:
			return "(decide (" + l + " ≥ " + r + "))"
		case token.EQL:
			return "(" + l + " == " + r + ")"
		case token.NEQ:
			return "(" + l + " != " + r + ")"
		}
		fatal(x.Pos(), "unsupported binary op %s", x.Op)
	case *ast.CallExpr:
		// conversion to a uint64-like named type: identity
		if fn, ok := x.Fun.(*ast.Ident); ok && len(x.Args) == 1 && (u64[fn.Name] || fn.Name == "uint64") {
			return c.expr(x.Args[0], binds, intMode)
		}
		// package-qualified conversion to a uint64-like named type, e.g. common.CommitteeIndex(x): identity
		if fn, ok := x.Fun.(*ast.SelectorExpr); ok && len(x.Args) == 1 && u64[fn.Sel.Name] {
			if b, ok := fn.X.(*ast.Ident); ok && c.ptypes[b.Name] == "" && !c.isLocal(b.Name) {
				return c.expr(x.Args[0], binds, intMode)
			}
		}
		// Go 1.21 builtins min/max on two unsigned operands
		if fn, ok := x.Fun.(*ast.Ident); ok && (fn.Name == "min" || fn.Name == "max") && len(x.Args) == 2 && !intMode && leanName[fn.Name] == "" {
			l := c.expr(x.Args[0], binds, intMode)
			r := c.expr(x.Args[1], binds, intMode)
			if fn.Name == "min" {
				return "(if " + l + " ≤ " + r + " then " + l + " else " + r + ")"
			}
			return "(if " + l + " ≥ " + r + " then " + l + " else " + r + ")"
		}
		// predicate on a record parameter, e.g. HasEth1WithdrawalCredential(validator)
		if fn, ok := x.Fun.(*ast.Ident); ok && len(x.Args) == 1 {
			if a, ok := x.Args[0].(*ast.Ident); ok && c.recVars[a.Name] != "" {
				if f, ok := cfg.Records[c.recVars[a.Name]].Preds[fn.Name]; ok {
					return id(a.Name) + "." + f
				}
			}
		}
		// call of a function-typed parameter
		if fn, ok := x.Fun.(*ast.Ident); ok && c.funVars[fn.Name] {
			if len(x.Args) != 1 {
				fatal(x.Pos(), "function parameter call with %d args", len(x.Args))
			}
			return "(" + id(fn.Name) + " " + c.expr(x.Args[0], binds, true) + ")"
		}
		var callee string
		var args []string
		switch fn := x.Fun.(type) {
		case *ast.Ident:
			ln, ok := leanName[fn.Name]
			if !ok {
				fatal(x.Pos(), "call of untranslated function %s", fn.Name)
			}
			callee = ln
			for _, a := range x.Args {
				if b, ok := a.(*ast.Ident); ok && c.hasSpec && b.Name == c.specVar {
					args = append(args, "spec")
					continue
				}
				args = append(args, c.expr(a, binds, intMode))
			}
		case *ast.SelectorExpr:
			b, ok := fn.X.(*ast.Ident)
			if ok && c.hasSpec && b.Name == c.specVar {
				ln, ok := leanName["Spec."+fn.Sel.Name]
				if !ok {
					fatal(x.Pos(), "call of untranslated method Spec.%s", fn.Sel.Name)
				}
				callee = ln
				args = append(args, "spec")
				for _, a := range x.Args {
					args = append(args, c.expr(a, binds, intMode))
				}
			} else if ok && leanName[b.Name+"."+fn.Sel.Name] != "" && c.ptypes[b.Name] == "" {
				// package-qualified function, e.g. math.MaxU64
				callee = leanName[b.Name+"."+fn.Sel.Name]
				for _, a := range x.Args {
					args = append(args, c.expr(a, binds, intMode))
				}
			} else {
				// method on a uint64-like value: recvType.Method
				recv := c.expr(fn.X, binds, intMode)
				found := ""
				for k, v := range leanName {
					if strings.HasSuffix(k, "."+fn.Sel.Name) && !strings.HasPrefix(k, "Spec.") {
						found = v
					}
				}
				if found == "" {
					fatal(x.Pos(), "call of untranslated method %s", fn.Sel.Name)
				}
				callee = found
				args = append(args, recv)
				for _, a := range x.Args {
					args = append(args, c.expr(a, binds, intMode))
				}
			}
		default:
			fatal(x.Pos(), "unsupported call")
		}
		deps[c.name] = append(deps[c.name], callee)
		call := callee
		if needsFuel[callee] {
			call += " fuel"
			c.useFuel()
		}
		call += " " + strings.Join(args, " ")
		if impure[callee] {
			t := c.fresh()
			*binds = append(*binds, fmt.Sprintf("let %s ← %s", t, call))
			c.monadic = true
			return t
		}
		return "(" + call + ")"
	}
	fatal(e.Pos(), "unsupported expression %T", e)
	return ""
}

func (c *fnCtx) useFuel() { needsFuel[c.name] = true }

func isErrExpr(e ast.Expr) bool {
	call, ok := e.(*ast.CallExpr)
	if !ok {
		return false
	}
	if s, ok := call.Fun.(*ast.SelectorExpr); ok {
		if b, ok := s.X.(*ast.Ident); ok {
			return (b.Name == "fmt" && s.Sel.Name == "Errorf") || (b.Name == "errors" && s.Sel.Name == "New")
		}
	}
	return false
}

func isNil(e ast.Expr) bool { i, ok := e.(*ast.Ident); return ok && i.Name == "nil" }

func assigned(stmts []ast.Stmt, set map[string]bool, order *[]string) {
	add := func(n string) {
		if !set[n] {
			set[n] = true
			*order = append(*order, n)
		}
	}
	for _, s := range stmts {
		switch x := s.(type) {
		case *ast.AssignStmt:
			if x.Tok == token.DEFINE {
				continue // a fresh local in the inner scope is not visible outside
			}
			for _, l := range x.Lhs {
				add(l.(*ast.Ident).Name)
			}
		case *ast.IncDecStmt:
			add(x.X.(*ast.Ident).Name)
		case *ast.IfStmt:
			assigned(x.Body.List, set, order)
			if x.Else != nil {
				switch el := x.Else.(type) {
				case *ast.BlockStmt:
					assigned(el.List, set, order)
				case *ast.IfStmt:
					assigned([]ast.Stmt{el}, set, order)
				}
			}
		case *ast.ForStmt:
			assigned(x.Body.List, set, order)
		}
	}
}

func endsInReturn(stmts []ast.Stmt) bool {
	if len(stmts) == 0 {
		return false
	}
	switch x := stmts[len(stmts)-1].(type) {
	case *ast.ReturnStmt:
		return true
	case *ast.IfStmt:
		if x.Else == nil {
			return false
		}
		var elseStmts []ast.Stmt
		switch el := x.Else.(type) {
		case *ast.BlockStmt:
			elseStmts = el.List
		case *ast.IfStmt:
			elseStmts = []ast.Stmt{el}
		}
		return endsInReturn(x.Body.List) && endsInReturn(elseStmts)
	}
	return false
}

func tuple(vs []string) string {
	if len(vs) == 1 {
		return id(vs[0])
	}
	var q []string
	for _, v := range vs {
		q = append(q, id(v))
	}
	return "(" + strings.Join(q, ", ") + ")"
}

func tupleTy(n int) string {
	if n == 1 {
		return "UInt64"
	}
	return "(" + strings.Repeat("UInt64 × ", n-1) + "UInt64)"
}

// stmts translates a statement list into lines of a `do` block. tail is what to emit when control
// falls off the end (e.g. "pure (x, y)" inside a branch or loop body); "" means falling off is an error.
func (c *fnCtx) stmts(list []ast.Stmt, ind string, tail string, scope []string) []string {
	var out []string
	emit := func(s string) { out = append(out, ind+s) }
	for i, s := range list {
		switch x := s.(type) {
		case *ast.AssignStmt:
			if len(x.Lhs) == 2 && len(x.Rhs) == 1 {
				// x, err := v.Accessor()
				if acc, ty, ok := c.recAccessor(x.Rhs[0]); ok {
					if e, ok := x.Lhs[1].(*ast.Ident); !ok || (e.Name != "err" && e.Name != "_") {
						fatal(x.Pos(), "second result of a record accessor must be err")
					}
					name := x.Lhs[0].(*ast.Ident).Name
					c.errRec = true
					if ty == "Bool" {
						c.boolLoc[name] = true
					} else if x.Tok == token.DEFINE {
						scope = append(scope, name)
					}
					emit(fmt.Sprintf("let %s : %s := %s", id(name), ty, acc))
					continue
				}
			}
			if len(x.Lhs) != 1 || len(x.Rhs) != 1 {
				fatal(x.Pos(), "multi-assignment unsupported")
			}
			name := x.Lhs[0].(*ast.Ident).Name
			if (x.Tok == token.DEFINE || x.Tok == token.ASSIGN) && c.isBoolExpr(x.Rhs[0]) {
				var b []string
				rhs := c.expr(x.Rhs[0], &b, false)
				for _, l := range b {
					emit(l)
				}
				c.boolLoc[name] = true
				emit(fmt.Sprintf("let %s : Bool := %s", id(name), rhs))
				continue
			}
			var b []string
			var rhs string
			switch x.Tok {
			case token.DEFINE, token.ASSIGN:
				rhs = c.expr(x.Rhs[0], &b, false)
				if x.Tok == token.DEFINE {
					scope = append(scope, name)
				}
			default:
				ops := map[token.Token]token.Token{token.ADD_ASSIGN: token.ADD, token.SUB_ASSIGN: token.SUB, token.MUL_ASSIGN: token.MUL, token.QUO_ASSIGN: token.QUO, token.REM_ASSIGN: token.REM, token.OR_ASSIGN: token.OR, token.AND_ASSIGN: token.AND, token.XOR_ASSIGN: token.XOR, token.SHL_ASSIGN: token.SHL, token.SHR_ASSIGN: token.SHR}
				op, ok := ops[x.Tok]
				if !ok {
					fatal(x.Pos(), "unsupported assignment op %s", x.Tok)
				}
				rhs = c.expr(&ast.BinaryExpr{X: x.Lhs[0], Op: op, Y: x.Rhs[0], OpPos: x.Pos()}, &b, false)
			}
			for _, l := range b {
				emit(l)
			}
			emit(fmt.Sprintf("let %s : UInt64 := %s", id(name), rhs))
		case *ast.IncDecStmt:
			name := x.X.(*ast.Ident).Name
			op := "+"
			if x.Tok == token.DEC {
				op = "-"
			}
			emit(fmt.Sprintf("let %s : UInt64 := (%s %s 1)", id(name), id(name), op))
		case *ast.ReturnStmt:
			var b []string
			var r string
			switch {
			case c.retErr && c.retVal:
				if len(x.Results) != 2 {
					fatal(x.Pos(), "return arity")
				}
				if isNil(x.Results[1]) {
					r = "pure " + c.expr(x.Results[0], &b, false)
				} else if isErrExpr(x.Results[1]) {
					r = "Res.err"
				} else {
					fatal(x.Pos(), "unsupported error result")
				}
			case c.retErr:
				if isNil(x.Results[0]) {
					r = "pure ()"
				} else if isErrExpr(x.Results[0]) {
					r = "Res.err"
				} else if call, ok := x.Results[0].(*ast.CallExpr); ok {
					// `return f(…)` where f is a translated function with an error-only result
					fn, ok := call.Fun.(*ast.Ident)
					ln, ok2 := "", false
					if ok {
						ln, ok2 = leanName[fn.Name]
					}
					if !ok || !ok2 {
						fatal(x.Pos(), "unsupported error result")
					}
					var args []string
					for _, a := range call.Args {
						if id0, ok := a.(*ast.Ident); ok && c.hasSpec && id0.Name == c.specVar {
							args = append(args, "spec")
							continue
						}
						args = append(args, c.expr(a, &b, false))
					}
					deps[c.name] = append(deps[c.name], ln)
					r = ln
					if needsFuel[ln] {
						r += " fuel"
						c.useFuel()
					}
					r += " " + strings.Join(args, " ")
				} else {
					fatal(x.Pos(), "unsupported error result")
				}
			default:
				r = c.expr(x.Results[0], &b, false)
				if c.monadic || len(b) > 0 {
					r = "pure " + r
				}
			}
			for _, l := range b {
				emit(l)
			}
			emit(r)
			if i != len(list)-1 {
				fatal(x.Pos(), "code after return")
			}
			return out
		case *ast.IfStmt:
			if x.Init == nil && isErrNotNil(x.Cond) {
				// error of a record accessor: outside the model (see RecordSpec); the else branch, if any, stays
				if !c.errRec {
					fatal(x.Pos(), "`err != nil` without a preceding record accessor")
				}
				var elseStmts []ast.Stmt
				if x.Else != nil {
					switch el := x.Else.(type) {
					case *ast.BlockStmt:
						elseStmts = el.List
					case *ast.IfStmt:
						elseStmts = []ast.Stmt{el}
					}
				}
				cont := append(append([]ast.Stmt{}, elseStmts...), list[i+1:]...)
				if len(cont) == 0 {
					fatal(x.Pos(), "control falls off the end")
				}
				return append(out, c.stmts(cont, ind, tail, scope)...)
			}
			if x.Init != nil {
				out = append(out, c.stmts([]ast.Stmt{x.Init}, ind, "\x00", scope)...)
				if as, ok := x.Init.(*ast.AssignStmt); ok && as.Tok == token.DEFINE {
					scope = append(scope, as.Lhs[0].(*ast.Ident).Name)
				}
			}
			var b []string
			cond := c.expr(x.Cond, &b, false)
			for _, l := range b {
				emit(l)
			}
			var elseStmts []ast.Stmt
			if x.Else != nil {
				switch el := x.Else.(type) {
				case *ast.BlockStmt:
					elseStmts = el.List
				case *ast.IfStmt:
					elseStmts = []ast.Stmt{el}
				}
			}
			rest := list[i+1:]
			if endsInReturn(x.Body.List) {
				// then-branch leaves the function; the else branch is `else-stmts ; rest`
				emit("if " + cond + " then do")
				out = append(out, c.stmts(x.Body.List, ind+"  ", "", scope)...)
				emit("else do")
				cont := append(append([]ast.Stmt{}, elseStmts...), rest...)
				if len(cont) == 0 {
					if tail == "" {
						fatal(x.Pos(), "control falls off the end")
					}
					out = append(out, ind+"  "+tail)
				} else {
					out = append(out, c.stmts(cont, ind+"  ", tail, scope)...)
				}
				return out
			}
			if endsInReturn(elseStmts) {
				fatal(x.Pos(), "else returns but then does not: unsupported shape")
			}
			// neither branch returns: merge the assigned variables
			set := map[string]bool{}
			var vs []string
			assigned(x.Body.List, set, &vs)
			assigned(elseStmts, set, &vs)
			if len(vs) == 0 {
				fatal(x.Pos(), "if without effect")
			}
			c.monadic = true
			emit(fmt.Sprintf("let %s ← (if %s then do", tuple(vs), cond))
			out = append(out, c.stmts(x.Body.List, ind+"    ", "pure "+tuple(vs), scope)...)
			emit("  else do")
			if len(elseStmts) == 0 {
				emit("    pure " + tuple(vs))
			} else {
				out = append(out, c.stmts(elseStmts, ind+"    ", "pure "+tuple(vs), scope)...)
			}
			emit("  : Res " + tupleTy(len(vs)) + ")")
		case *ast.RangeStmt:
			// `for _, v := range []T{e1, …, en} { body }` is unrolled: v := e1; body; …; v := en; body
			lit, ok := x.X.(*ast.CompositeLit)
			val, ok2 := x.Value.(*ast.Ident)
			if key, isId := x.Key.(*ast.Ident); !ok || !ok2 || x.Tok != token.DEFINE || !isId || key.Name != "_" {
				fatal(x.Pos(), "only `for _, v := range []T{…}` is supported")
			}
			var unrolled []ast.Stmt
			// Go evaluates every element of the literal before the first iteration
			var elts []ast.Expr
			for k, e := range lit.Elts {
				tmp := ast.NewIdent(fmt.Sprintf("rangeElt%d_%d", c.loops, k))
				unrolled = append(unrolled, &ast.AssignStmt{Lhs: []ast.Expr{tmp}, Tok: token.DEFINE, TokPos: x.Pos(), Rhs: []ast.Expr{e}})
				elts = append(elts, tmp)
			}
			c.loops++
			for _, e := range elts {
				unrolled = append(unrolled, &ast.AssignStmt{Lhs: []ast.Expr{val}, Tok: token.DEFINE, TokPos: x.Pos(), Rhs: []ast.Expr{e}})
				for _, bs := range x.Body.List {
					if br, ok := bs.(*ast.BranchStmt); ok {
						fatal(br.Pos(), "break/continue in an unrolled range loop")
					}
					unrolled = append(unrolled, bs)
				}
			}
			cont := append(unrolled, list[i+1:]...)
			return append(out, c.stmts(cont, ind, tail, scope)...)
		case *ast.ForStmt:
			if x.Init != nil || x.Post != nil || x.Cond == nil {
				fatal(x.Pos(), "only `for cond {}` is supported")
			}
			set := map[string]bool{}
			var vs []string
			assigned(x.Body.List, set, &vs)
			c.loops++
			c.useFuel()
			c.monadic = true
			lname := fmt.Sprintf("%s.loop%d", c.name, c.loops)
			// free variables: everything in scope that is not a loop variable
			var free []string
			for _, v := range scope {
				if !set[v] {
					free = append(free, v)
				}
			}
			var sig []string
			if c.hasSpec {
				sig = append(sig, "(spec : Spec)")
			}
			for _, v := range free {
				sig = append(sig, "("+id(v)+" : UInt64)")
			}
			var vsig []string
			for _, v := range vs {
				vsig = append(vsig, "("+id(v)+" : UInt64)")
			}
			var b []string
			cond := c.expr(x.Cond, &b, false)
			if len(b) > 0 {
				fatal(x.Pos(), "impure loop condition")
			}
			var callArgs []string
			if c.hasSpec {
				callArgs = append(callArgs, "spec")
			}
			for _, v := range free {
				callArgs = append(callArgs, id(v))
			}
			recCall := lname + " " + strings.Join(append(append([]string{}, callArgs...), "fuel"), " ")
			for _, v := range vs {
				recCall += " " + id(v)
			}
			var d []string
			d = append(d, fmt.Sprintf("def %s %s (fuel : Nat) %s : Res %s :=", lname, strings.Join(sig, " "), strings.Join(vsig, " "), tupleTy(len(vs))))
			d = append(d, "  match fuel with")
			d = append(d, "  | 0 => Res.outOfFuel")
			d = append(d, "  | fuel + 1 =>")
			d = append(d, "    if "+cond+" then do")
			d = append(d, c.stmts(x.Body.List, "      ", recCall, scope)...)
			d = append(d, "    else pure "+tuple(vs))
			aux = append(aux, strings.Join(d, "\n"))
			emit(fmt.Sprintf("let %s ← %s", tuple(vs), recCall))
		default:
			fatal(s.Pos(), "unsupported statement %T", s)
		}
	}
	if tail == "\x00" {
		return out
	}
	if tail != "" {
		out = append(out, ind+tail)
	} else {
		fatal(list[len(list)-1].End(), "control falls off the end")
	}
	return out
}

func typeName(e ast.Expr) string {
	switch x := e.(type) {
	case *ast.Ident:
		return x.Name
	case *ast.StarExpr:
		return typeName(x.X)
	case *ast.SelectorExpr:
		return x.Sel.Name
	case *ast.FuncType:
		return "func"
	}
	return "?"
}

func leanTy(goTy string, pos token.Pos) string {
	switch {
	case goTy == "uint64" || u64[goTy]:
		return "UInt64"
	case goTy == "bool":
		return "Bool"
	case goTy == "Version":
		return "Version"
	}
	fatal(pos, "unsupported type %s", goTy)
	return ""
}

func translate(repo string, fs FuncSpec) string {
	path := filepath.Join(repo, fs.File)
	f, err := parser.ParseFile(fset, path, nil, 0)
	if err != nil {
		panic(translateError{err.Error()})
	}
	var fd *ast.FuncDecl
	for _, d := range f.Decls {
		if g, ok := d.(*ast.FuncDecl); ok && g.Name.Name == fs.Name {
			recv := ""
			if g.Recv != nil {
				recv = typeName(g.Recv.List[0].Type)
			}
			if recv == fs.Recv {
				fd = g
			}
		}
	}
	if fd == nil {
		panic(translateError{fmt.Sprintf("function %s.%s not found in %s", fs.Recv, fs.Name, fs.File)})
	}
	c := &fnCtx{name: fs.Lean, ptypes: map[string]string{}, funVars: map[string]bool{}, recVars: map[string]string{}, boolLoc: map[string]bool{}}
	var sig []string
	addParam := func(name, ty string, pos token.Pos) {
		if ty == "Spec" {
			c.hasSpec = true
			c.specVar = name
			return
		}
		if r, ok := cfg.Records[ty]; ok {
			c.recVars[name] = ty
			c.ptypes[name] = ty
			sig = append(sig, "("+id(name)+" : "+r.Lean+")")
			return
		}
		if ty == "func" {
			c.funVars[name] = true
			c.params = append(c.params, name)
			sig = append(sig, "("+id(name)+" : Int → UInt64)")
			return
		}
		c.params = append(c.params, name)
		c.ptypes[name] = ty
		sig = append(sig, "("+id(name)+" : "+leanTy(ty, pos)+")")
	}
	if fd.Recv != nil {
		r := fd.Recv.List[0]
		n := "_recv"
		if len(r.Names) > 0 {
			n = r.Names[0].Name
		}
		addParam(n, typeName(r.Type), r.Pos())
	}
	for _, p := range fd.Type.Params.List {
		for _, n := range p.Names {
			addParam(n.Name, typeName(p.Type), p.Pos())
		}
	}
	if fd.Type.Results == nil {
		fatal(fd.Pos(), "no result")
	}
	for _, r := range fd.Type.Results.List {
		t := typeName(r.Type)
		if t == "error" {
			c.retErr = true
		} else {
			c.retVal = true
			c.retTy = leanTy(t, r.Pos())
		}
	}
	if c.retErr {
		c.monadic = true
	}
	if !c.retVal {
		c.retTy = "Unit"
	}
	aux = nil
	// first pass to find out whether the function is monadic (division, loops, impure calls)
	scope := []string{}
	for _, p := range c.params {
		if !c.funVars[p] {
			scope = append(scope, p)
		}
	}
	save := *c
	_ = c.stmts(fd.Body.List, "  ", "", scope)
	mon := c.monadic
	fuelNeeded := needsFuel[c.name]
	*c = save
	c.boolLoc = map[string]bool{}
	c.errRec = false
	c.monadic = mon
	aux = nil
	body := c.stmts(fd.Body.List, "  ", "", scope)
	impure[c.name] = c.monadic
	var sb strings.Builder
	for _, a := range aux {
		sb.WriteString(a + "\n\n")
	}
	pre := []string{}
	if c.hasSpec {
		pre = append(pre, "(spec : Spec)")
	}
	if fuelNeeded {
		pre = append(pre, "(fuel : Nat)")
	}
	ret := c.retTy
	if c.monadic {
		ret = "Res " + ret
	}
	fmt.Fprintf(&sb, "/-- translated from `%s` %s%s -/\n", fs.File, map[bool]string{true: fs.Recv + ".", false: ""}[fs.Recv != ""], fs.Name)
	// stub with the same signature: used on a later run if this function stops being translatable, so that
	// everything that depends on it still compiles (its own obligations are reported broken via status.json)
	stubBody := map[bool]string{true: "Res.panic", false: map[string]string{"UInt64": "0", "Bool": "false", "Version": "0", "Unit": "()"}[c.retTy]}[c.monadic]
	stubs[fs.Lean] = fmt.Sprintf("/-- STUB: `%s` %s could not be translated on this run (see GoFuns.lean.status.json) -/\ndef %s %s : %s := %s\n",
		fs.File, fs.Name, fs.Lean, strings.Join(append(append([]string{}, pre...), sig...), " "), ret, stubBody)
	fmt.Fprintf(&sb, "def %s %s : %s :=", fs.Lean, strings.Join(append(pre, sig...), " "), ret)
	if c.monadic {
		sb.WriteString(" do\n")
	} else {
		sb.WriteString("\n")
	}
	// a pure function: the body lines are `let x : UInt64 := e` / `if … then do … else do …` / expr
	if !c.monadic {
		for i := range body {
			body[i] = strings.ReplaceAll(strings.ReplaceAll(body[i], " then do", " then"), "else do", "else")
		}
	}
	sb.WriteString(strings.Join(body, "\n") + "\n")
	return sb.String()
}

func main() {
	if len(os.Args) != 4 {
		fmt.Fprintln(os.Stderr, "usage: go2lean <repo> <funcs.json> <out.lean>")
		os.Exit(2)
	}
	raw, err := os.ReadFile(os.Args[2])
	if err != nil {
		fmt.Fprintln(os.Stderr, err)
		os.Exit(2)
	}
	if err := json.Unmarshal(raw, &cfg); err != nil {
		fmt.Fprintln(os.Stderr, err)
		os.Exit(2)
	}
	for _, t := range cfg.Uint64 {
		u64[t] = true
	}
	for _, f := range cfg.Funcs {
		key := f.Name
		if f.Recv != "" {
			key = f.Recv + "." + f.Name
		}
		leanName[key] = f.Lean
		// package-qualified alias (math.MaxU64): package name = directory name
		leanName[filepath.Base(filepath.Dir(f.File))+"."+f.Name] = f.Lean
	}
	var defs []string
	defByName := map[string]string{}
	status := map[string]string{}
	oldStubs := map[string]string{}
	if b, err := os.ReadFile(os.Args[3] + ".stubs.json"); err == nil {
		json.Unmarshal(b, &oldStubs)
	}
	for _, f := range cfg.Funcs {
		func() {
			defer func() {
				if r := recover(); r != nil {
					te, ok := r.(translateError)
					if !ok {
						panic(r)
					}
					status[f.Lean] = te.msg
					fmt.Fprintf(os.Stderr, "go2lean: %s NOT translated: %s\n", f.Lean, te.msg)
					// callers of this function must fail as well, not reference a missing definition
					if st, ok := oldStubs[f.Lean]; ok {
						// keep dependents compiling: same signature, body replaced by a default
						defs = append(defs, st)
						stubs[f.Lean] = st
						impure[f.Lean] = strings.Contains(st, ": Res ")
						needsFuel[f.Lean] = strings.Contains(st, "(fuel : Nat)")
						return
					}
					for k, v := range leanName {
						if v == f.Lean {
							delete(leanName, k)
						}
					}
					defs = append(defs, fmt.Sprintf("-- %s: not translated (%s)\n", f.Lean, te.msg))
				}
			}()
			d := translate(os.Args[1], f)
			status[f.Lean] = "ok"
			defByName[f.Lean] = d
			defs = append(defs, "\x00"+f.Lean)
		}()
	}
	// emit callee before caller whatever the order of funcs.json (a rewrite may introduce a call to a
	// function that is listed later)
	{
		var ordered []string
		emitted := map[string]bool{}
		var visit func(name string, stack map[string]bool)
		visit = func(name string, stack map[string]bool) {
			if emitted[name] || stack[name] {
				return
			}
			stack[name] = true
			for _, d := range deps[name] {
				if _, ok := defByName[d]; ok {
					visit(d, stack)
				}
			}
			emitted[name] = true
			ordered = append(ordered, defByName[name])
		}
		var out []string
		for _, d := range defs {
			if strings.HasPrefix(d, "\x00") {
				visit(d[1:], map[string]bool{})
				out = append(out, ordered...)
				ordered = nil
			} else {
				out = append(out, d)
			}
		}
		defs = out
	}
	if sj, err := json.MarshalIndent(status, "", " "); err == nil {
		os.WriteFile(os.Args[3]+".status.json", sj, 0o644)
	}
	if sj, err := json.MarshalIndent(stubs, "", " "); err == nil {
		if old, err := os.ReadFile(os.Args[3] + ".stubs.json"); err != nil || string(old) != string(sj) {
			os.WriteFile(os.Args[3]+".stubs.json", sj, 0o644)
		}
	}
	var fields []string
	for f := range specFields {
		fields = append(fields, f)
	}
	sort.Strings(fields)
	isVer := map[string]bool{}
	for _, v := range cfg.VersionF {
		isVer[v] = true
	}
	var sb strings.Builder
	sb.WriteString("/- GENERATED by /verif/go/cmd/go2lean from /repo's current source. Do not edit.\n")
	sb.WriteString("   Semantics: Go uint64 ops are UInt64 wrapping ops; `/`,`%` by zero are Res.panic; shifts by ≥ 64 give 0;\n")
	sb.WriteString("   a non-nil error result is Res.err; `for` loops are fuelled (Res.outOfFuel when exhausted). -/\n")
	sb.WriteString("import Zrnt.Prelude.Res\nset_option linter.unusedVariables false\n\nnamespace " + cfg.Namespace + "\nopen Zrnt\n\n")
	sb.WriteString("abbrev Version := UInt32\n\n")
	sb.WriteString("/-- the `*Spec` fields read by the translated functions -/\nstructure Spec where\n")
	for _, f := range fields {
		ty := "UInt64"
		if isVer[f] {
			ty = "Version"
		}
		fmt.Fprintf(&sb, "  %s : %s\n", f, ty)
	}
	sb.WriteString("  deriving Repr, Inhabited\n\n")
	{
		var rn []string
		for n := range cfg.Records {
			rn = append(rn, n)
		}
		sort.Strings(rn)
		for _, n := range rn {
			r := cfg.Records[n]
			fmt.Fprintf(&sb, "/-- what the translated functions read of a `%s` (accessor results; accessor errors are outside the model) -/\nstructure %s where\n", n, r.Lean)
			var fn []string
			for f := range r.Fields {
				fn = append(fn, f)
			}
			sort.Strings(fn)
			for _, f := range fn {
				fmt.Fprintf(&sb, "  %s : %s\n", f, r.Fields[f])
			}
			var pn []string
			for _, f := range r.Preds {
				pn = append(pn, f)
			}
			sort.Strings(pn)
			for _, f := range pn {
				fmt.Fprintf(&sb, "  %s : Bool\n", f)
			}
			sb.WriteString("  deriving Repr, Inhabited\n\n")
		}
	}
	sb.WriteString(strings.Join(defs, "\n"))
	sb.WriteString("\nend " + cfg.Namespace + "\n")
	out := sb.String()
	if old, err := os.ReadFile(os.Args[3]); err == nil && string(old) == out {
		return // unchanged: keep mtime so lake stays incremental
	}
	if err := os.WriteFile(os.Args[3], []byte(out), 0o644); err != nil {
		fmt.Fprintln(os.Stderr, err)
		os.Exit(2)
	}
}
