package main

// One blank import per component; each registers its modes in init().
import (
	_ "verifharness/internal/accessors"
	_ "verifharness/internal/beaconblock"
	_ "verifharness/internal/beaconepoch"
	_ "verifharness/internal/c19"
	_ "verifharness/internal/chain"
	_ "verifharness/internal/config"
	_ "verifharness/internal/ctxcheck"
	_ "verifharness/internal/faults"
	_ "verifharness/internal/fc"
	_ "verifharness/internal/genesischeck"
	_ "verifharness/internal/gossip"
	_ "verifharness/internal/pool"
	_ "verifharness/internal/pubkeycache"
	_ "verifharness/internal/shuffle"
	_ "verifharness/internal/committees"
	_ "verifharness/internal/ssz"
)
