package main

// One blank import per component; each registers its modes in init().
import (
	_ "verifharness/internal/c19"
	_ "verifharness/internal/pubkeycache"
	_ "verifharness/internal/shuffle"
)
