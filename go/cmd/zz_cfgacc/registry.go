package main

import (
	_ "verifharness/internal/accessors"
	_ "verifharness/internal/config"
)
