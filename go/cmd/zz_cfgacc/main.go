// harness: drives the real zrnt code in-process.
//
//	harness gen  <mode> -seed N -tier quick|thorough -out ops.txt [-stats stats.json]
//	harness exec <mode> -in ops.txt -out go.txt
package main

import (
	"bufio"
	"flag"
	"fmt"
	"os"
	"strings"

	"verifharness/internal/hreg"
)

func main() {
	if len(os.Args) < 3 {
		fmt.Fprintln(os.Stderr, "usage: harness gen|exec <mode> [flags]; modes: "+strings.Join(hreg.Names(), " "))
		os.Exit(2)
	}
	cmd, mode := os.Args[1], os.Args[2]
	fs := flag.NewFlagSet(cmd, flag.ExitOnError)
	seed := fs.Int64("seed", 1, "PRNG seed")
	tier := fs.String("tier", "quick", "quick|thorough")
	in := fs.String("in", "", "operation lines (exec)")
	out := fs.String("out", "", "output file")
	stats := fs.String("stats", "", "input-distribution statistics (gen)")
	fs.Parse(os.Args[3:])
	m := hreg.Get(mode)
	if m == nil {
		hreg.Fatalf("unknown mode %q; modes: %s", mode, strings.Join(hreg.Names(), " "))
	}
	o := hreg.Opts{Seed: *seed, Tier: *tier, Stats: hreg.NewStats()}
	of, err := os.Create(*out)
	if err != nil {
		hreg.Fatalf("%v", err)
	}
	w := bufio.NewWriterSize(of, 1<<20)
	switch cmd {
	case "gen":
		if err := m.Gen(o, w); err != nil {
			hreg.Fatalf("gen: %v", err)
		}
		if *stats != "" {
			if err := o.Stats.Write(*stats); err != nil {
				hreg.Fatalf("%v", err)
			}
		}
	case "exec":
		f, err := os.Open(*in)
		if err != nil {
			hreg.Fatalf("%v", err)
		}
		if err := m.Exec(o, hreg.NewScanner(f), w); err != nil {
			hreg.Fatalf("exec: %v", err)
		}
	default:
		hreg.Fatalf("unknown command %q", cmd)
	}
	if err := w.Flush(); err != nil {
		hreg.Fatalf("%v", err)
	}
	of.Close()
}
