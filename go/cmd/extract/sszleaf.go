// sszleaf.go: recognisers for the bespoke bodies of leaf types (byte arrays, integer aliases, bitfields in
// fixed arrays), for preludes that only (re)allocate the receiver, and for a few arithmetic shapes.
package main

import (
	"fmt"
	"go/ast"
	"go/token"
	"strconv"
	"strings"
)

// arrayLen: the receiver type is `[N]byte` / `[N]Root`; returns N (constant-folded) and the element type name.
func (c *sszCtx) arrayLen(t *sszType) (uint64, string, bool) {
	at, ok := t.spec.Type.(*ast.ArrayType)
	if !ok || at.Len == nil {
		return 0, "", false
	}
	n, ok := c.constVal(at.Len, 0)
	if !ok {
		return 0, "", false
	}
	return n, sszExprStr(at.Elt), true
}

// constVal folds an integer constant expression (literals, package constants, + - * / << >> %).
func (c *sszCtx) constVal(e ast.Expr, depth int) (uint64, bool) {
	if depth > 30 {
		return 0, false
	}
	switch e := e.(type) {
	case *ast.ParenExpr:
		return c.constVal(e.X, depth+1)
	case *ast.BasicLit:
		if e.Kind == token.INT {
			n, err := strconv.ParseUint(e.Value, 0, 64)
			return n, err == nil
		}
	case *ast.Ident:
		if v, ok := c.pkg.consts[e.Name]; ok {
			return c.constVal(v, depth+1)
		}
	case *ast.SelectorExpr:
		if x, ok := e.X.(*ast.Ident); ok {
			if p := c.pkgs[x.Name]; p != nil {
				if v, ok := p.consts[e.Sel.Name]; ok {
					return (&sszCtx{c.pkgs, p}).constVal(v, depth+1)
				}
			}
			if x.Name == "codec" && e.Sel.Name == "OFFSET_SIZE" {
				return 4, true
			}
		}
	case *ast.CallExpr:
		if len(e.Args) == 1 {
			if id, ok := e.Fun.(*ast.Ident); ok && (id.Name == "uint64" || id.Name == "int" || id.Name == "uint8") {
				return c.constVal(e.Args[0], depth+1)
			}
		}
	case *ast.BinaryExpr:
		a, ok1 := c.constVal(e.X, depth+1)
		b, ok2 := c.constVal(e.Y, depth+1)
		if ok1 && ok2 {
			switch e.Op {
			case token.ADD:
				return a + b, true
			case token.SUB:
				return a - b, a >= b
			case token.MUL:
				return a * b, true
			case token.QUO:
				if b != 0 {
					return a / b, true
				}
			case token.REM:
				if b != 0 {
					return a % b, true
				}
			case token.SHL:
				return a << b, b < 64
			case token.SHR:
				return a >> b, true
			}
		}
	}
	return 0, false
}

func isIdent(e ast.Expr, name string) bool {
	id, ok := e.(*ast.Ident)
	return ok && id.Name == name
}

// recvSlice: `p[:]`, `p[lo:hi]` of the receiver -> (lo, hi, ok); hi == -1 means "to the end"
func (c *sszCtx) recvSlice(e ast.Expr, recv string) (int64, int64, bool) {
	se, ok := e.(*ast.SliceExpr)
	if !ok || !isIdent(se.X, recv) {
		return 0, 0, false
	}
	lo, hi := int64(0), int64(-1)
	if se.Low != nil {
		v, ok := c.constVal(se.Low, 0)
		if !ok {
			return 0, 0, false
		}
		lo = int64(v)
	}
	if se.High != nil {
		v, ok := c.constVal(se.High, 0)
		if !ok {
			return 0, 0, false
		}
		hi = int64(v)
	}
	return lo, hi, true
}

// isNilGuard: `if recv == nil { return <error> }`
func isNilGuard(s ast.Stmt, recv string) bool {
	is, ok := s.(*ast.IfStmt)
	if !ok || is.Init != nil || is.Else != nil || len(is.Body.List) != 1 {
		return false
	}
	be, ok := is.Cond.(*ast.BinaryExpr)
	if !ok || be.Op != token.EQL || !isIdent(be.X, recv) || !isIdent(be.Y, "nil") {
		return false
	}
	_, ok = is.Body.List[0].(*ast.ReturnStmt)
	return ok
}

// isAllocPrelude: a statement that only (re)allocates or re-slices the receiver, or aliases it as a slice:
// `*recv = make(..)`, `*recv = (*recv)[:n]`, `if len(*recv) != n { … such assignments … }`, `roots := recv[:]`.
func isAllocPrelude(s ast.Stmt, recv string) bool {
	switch s := s.(type) {
	case *ast.AssignStmt:
		if len(s.Lhs) == 1 && len(s.Rhs) == 1 {
			if st, ok := s.Lhs[0].(*ast.StarExpr); ok && isIdent(st.X, recv) {
				return true
			}
			if s.Tok == token.DEFINE {
				if se, ok := s.Rhs[0].(*ast.SliceExpr); ok && isIdent(se.X, recv) && se.Low == nil && se.High == nil {
					return true
				}
			}
		}
	case *ast.IfStmt:
		if s.Init != nil {
			return false
		}
		for _, b := range s.Body.List {
			if !isAllocPrelude(b, recv) {
				return false
			}
		}
		if s.Else != nil {
			eb, ok := s.Else.(*ast.BlockStmt)
			if !ok {
				return isAllocPrelude(s.Else, recv)
			}
			for _, b := range eb.List {
				if !isAllocPrelude(b, recv) {
					return false
				}
			}
		}
		return true
	}
	return false
}

// isNilDefaultRoot: `if recv == nil { return XType(spec).New().HashTreeRoot(hFn) }` (the root of the default view)
func isNilDefaultRoot(s ast.Stmt, recv string) bool {
	is, ok := s.(*ast.IfStmt)
	if !ok || is.Init != nil || is.Else != nil || len(is.Body.List) != 1 {
		return false
	}
	be, ok := is.Cond.(*ast.BinaryExpr)
	if !ok || be.Op != token.EQL || !isIdent(be.X, recv) || !isIdent(be.Y, "nil") {
		return false
	}
	r, ok := is.Body.List[0].(*ast.ReturnStmt)
	if !ok || len(r.Results) != 1 {
		return false
	}
	return strings.Contains(sszExprStr(r.Results[0]), ".New().HashTreeRoot(")
}

// stripPreludes removes leading statements that do not contribute to the SSZ meaning of the body.
func stripPreludes(stmts []ast.Stmt, recv string) []ast.Stmt {
	for len(stmts) > 1 && (isNilGuard(stmts[0], recv) || isAllocPrelude(stmts[0], recv) || isNilDefaultRoot(stmts[0], recv)) {
		stmts = stmts[1:]
	}
	return stmts
}

// conversion `T(x)` / `(*T)(x)` -> (type name, inner expression)
func conversion(e ast.Expr) (string, ast.Expr, bool) {
	call, ok := e.(*ast.CallExpr)
	if !ok || len(call.Args) != 1 {
		return "", nil, false
	}
	f := call.Fun
	if p, ok := f.(*ast.ParenExpr); ok {
		f = p.X
	}
	if s, ok := f.(*ast.StarExpr); ok {
		f = s.X
	}
	switch f := f.(type) {
	case *ast.Ident:
		return f.Name, call.Args[0], true
	case *ast.SelectorExpr:
		return f.Sel.Name, call.Args[0], true
	}
	return "", nil, false
}

var basicViewWidth = map[string]int{"Uint8View": 1, "Uint16View": 2, "Uint32View": 4, "Uint64View": 8, "BoolView": 1}

// ---- hash trees written by hand ---------------------------------------------------------------------------

type htEnv struct {
	c    *sszCtx
	recv string
	n    uint64
	vars map[string]string
}

func (h *htEnv) leafFromCopy(call *ast.CallExpr) (dst string, ht string, ok bool) {
	if len(call.Args) != 2 || !isIdent(call.Fun, "copy") {
		return "", "", false
	}
	// source: slice of the receiver
	lo, hi, ok := h.c.recvSlice(call.Args[1], h.recv)
	if !ok {
		return "", "", false
	}
	if hi < 0 {
		hi = int64(h.n)
	}
	// destination: x[:], x[:k], x[0:k] with k = hi - lo
	ds, ok := call.Args[0].(*ast.SliceExpr)
	if !ok {
		return "", "", false
	}
	if ds.Low != nil {
		if v, ok := h.c.constVal(ds.Low, 0); !ok || v != 0 {
			return "", "", false
		}
	}
	if ds.High != nil {
		if v, ok := h.c.constVal(ds.High, 0); !ok || int64(v) != hi-lo {
			return "", "", false
		}
	}
	return sszExprStr(ds.X), fmt.Sprintf("(.leaf %d %d)", lo, hi), hi-lo <= 32 && hi > lo
}

func (h *htEnv) expr(e ast.Expr) (string, bool) {
	switch e := e.(type) {
	case *ast.ParenExpr:
		return h.expr(e.X)
	case *ast.Ident:
		v, ok := h.vars[e.Name]
		return v, ok
	case *ast.IndexExpr:
		v, ok := h.vars[sszExprStr(e)]
		return v, ok
	case *ast.CompositeLit:
		ts := sszExprStr(e.Type)
		if ts == "Root" || ts == "tree.Root" || ts == "common.Root" {
			if len(e.Elts) == 0 {
				return ".zero", true
			}
			// Root{0: recv[0]} for a one-byte array
			if len(e.Elts) == 1 && h.n == 1 {
				if kv, ok := e.Elts[0].(*ast.KeyValueExpr); ok && sszExprStr(kv.Key) == "0" && sszExprStr(kv.Value) == h.recv+"[0]" {
					return "(.leaf 0 1)", true
				}
			}
		}
	case *ast.CallExpr:
		if isIdent(e.Fun, "hFn") && len(e.Args) == 2 {
			a, ok1 := h.expr(e.Args[0])
			b, ok2 := h.expr(e.Args[1])
			if ok1 && ok2 {
				return fmt.Sprintf("(.node %s %s)", a, b), true
			}
		}
		// Root(recv) for a 32-byte array
		if tn, inner, ok := conversion(e); ok && (tn == "Root") && isIdent(inner, h.recv) && h.n == 32 {
			return "(.leaf 0 32)", true
		}
	}
	return "", false
}

// htrTree recognises a hand-written merkleization of the n-byte array receiver.
func (c *sszCtx) htrTree(t *sszType, m *sszMethod) (string, bool) {
	n, elt, ok := c.arrayLen(t)
	if !ok || elt != "byte" {
		return "", false
	}
	h := &htEnv{c: c, recv: m.recv, n: n, vars: map[string]string{}}
	named := ""
	if r := m.decl.Type.Results; r != nil && len(r.List) == 1 && len(r.List[0].Names) == 1 {
		named = r.List[0].Names[0].Name
		h.vars[named] = ".zero"
	}
	for _, s := range m.decl.Body.List {
		switch s := s.(type) {
		case *ast.DeclStmt:
			gd, ok := s.Decl.(*ast.GenDecl)
			if !ok || gd.Tok != token.VAR {
				return "", false
			}
			for _, sp := range gd.Specs {
				vs := sp.(*ast.ValueSpec)
				if len(vs.Values) != 0 {
					return "", false
				}
				for _, nm := range vs.Names {
					h.vars[nm.Name] = ".zero"
				}
			}
		case *ast.ExprStmt:
			call, ok := s.X.(*ast.CallExpr)
			if !ok {
				return "", false
			}
			dst, leaf, ok := h.leafFromCopy(call)
			if !ok {
				return "", false
			}
			h.vars[dst] = leaf
		case *ast.AssignStmt:
			if len(s.Lhs) != 1 || len(s.Rhs) != 1 || s.Tok != token.DEFINE {
				return "", false
			}
			v, ok := h.expr(s.Rhs[0])
			if !ok {
				return "", false
			}
			h.vars[sszExprStr(s.Lhs[0])] = v
		case *ast.ForStmt:
			// for i := 0; i < K; i++ { copy(arr[i][:], recv[i<<5:(i+1)<<5]) }
			cond, ok := s.Cond.(*ast.BinaryExpr)
			if !ok || cond.Op != token.LSS || len(s.Body.List) != 1 {
				return "", false
			}
			k, ok := c.constVal(cond.Y, 0)
			if !ok || k > 64 {
				return "", false
			}
			es, ok := s.Body.List[0].(*ast.ExprStmt)
			if !ok {
				return "", false
			}
			call, ok := es.X.(*ast.CallExpr)
			if !ok || !isIdent(call.Fun, "copy") || len(call.Args) != 2 {
				return "", false
			}
			iv := sszExprStr(cond.X)
			want := fmt.Sprintf("copy(ARR[%s][:], %s[%s<<5:(%s+1)<<5])", iv, m.recv, iv, iv)
			got := sszExprStr(call)
			ds, ok := call.Args[0].(*ast.SliceExpr)
			if !ok {
				return "", false
			}
			ie, ok := ds.X.(*ast.IndexExpr)
			if !ok {
				return "", false
			}
			arr := sszExprStr(ie.X)
			if strings.ReplaceAll(strings.Replace(want, "ARR", arr, 1), " ", "") != strings.ReplaceAll(got, " ", "") {
				return "", false
			}
			for i := uint64(0); i < k; i++ {
				h.vars[fmt.Sprintf("%s[%d]", arr, i)] = fmt.Sprintf("(.leaf %d %d)", 32*i, 32*i+32)
			}
		case *ast.ReturnStmt:
			if len(s.Results) == 0 && named != "" {
				return fmt.Sprintf("(.htrTree %d %s)", n, h.vars[named]), true
			}
			if len(s.Results) != 1 {
				return "", false
			}
			v, ok := h.expr(s.Results[0])
			if !ok {
				return "", false
			}
			return fmt.Sprintf("(.htrTree %d %s)", n, v), true
		default:
			return "", false
		}
	}
	return "", false
}

// ---- arithmetic with XType.TypeByteLength() -------------------------------------------------------------------

func (c *sszCtx) aexpr(e ast.Expr, specNames map[string]bool, depth int) (string, bool) {
	if depth > 20 {
		return "", false
	}
	if l, ok := c.lexpr(e, specNames, 0); ok {
		return "(.l " + l + ")", true
	}
	switch e := e.(type) {
	case *ast.ParenExpr:
		return c.aexpr(e.X, specNames, depth+1)
	case *ast.CallExpr:
		if len(e.Args) == 0 {
			if sel, ok := e.Fun.(*ast.SelectorExpr); ok && sel.Sel.Name == "TypeByteLength" {
				if n, ok := c.viewRefName(sel.X); ok {
					return fmt.Sprintf("(.sizeOf n!%q)", n), true
				}
			}
		}
		if len(e.Args) == 1 {
			if id, ok := e.Fun.(*ast.Ident); ok && id.Name == "uint64" {
				return c.aexpr(e.Args[0], specNames, depth+1)
			}
		}
	case *ast.SelectorExpr:
		// XType.Size: the byte length field of ztyp's complex type definitions
		if e.Sel.Name == "Size" {
			if n, ok := c.viewRefName(e.X); ok {
				return fmt.Sprintf("(.sizeOf n!%q)", n), true
			}
		}
	case *ast.BinaryExpr:
		a, ok1 := c.aexpr(e.X, specNames, depth+1)
		b, ok2 := c.aexpr(e.Y, specNames, depth+1)
		if ok1 && ok2 {
			switch e.Op {
			case token.MUL:
				return fmt.Sprintf("(.mul %s %s)", a, b), true
			case token.ADD:
				return fmt.Sprintf("(.add %s %s)", a, b), true
			}
		}
	}
	return "", false
}

// ---- the bespoke bodies ---------------------------------------------------------------------------------------

func (c *sszCtx) bespoke(t *sszType, name string) (string, bool) {
	m := t.methods[name]
	if m.decl.Body == nil {
		return "", false
	}
	spec := sszSpecParamNames(m.decl)
	stmts := stripPreludes(m.decl.Body.List, m.recv)
	n, elt, isArr := c.arrayLen(t)
	byteArr := isArr && elt == "byte"
	retExpr := func() ast.Expr {
		if len(stmts) == 1 {
			if r, ok := stmts[0].(*ast.ReturnStmt); ok && len(r.Results) == 1 {
				return r.Results[0]
			}
		}
		return nil
	}
	switch name {
	case "Deserialize":
		// _, err := dr.Read(recv[:]); return err
		if byteArr && len(stmts) == 2 {
			if as, ok := stmts[0].(*ast.AssignStmt); ok && len(as.Rhs) == 1 {
				if call, ok := as.Rhs[0].(*ast.CallExpr); ok && sszExprStr(call.Fun) == "dr.Read" && len(call.Args) == 1 {
					if lo, hi, ok := c.recvSlice(call.Args[0], m.recv); ok && lo == 0 && hi < 0 {
						if r, ok := stmts[1].(*ast.ReturnStmt); ok && len(r.Results) == 1 && isIdent(r.Results[0], "err") {
							return fmt.Sprintf("(.raw n!\"ReadAll\" %d 0)", n), true
						}
					}
				}
			}
		}
		// bitvector in a byte array with a check of the padding bits of the last byte
		if byteArr {
			if s, ok := c.padChecked(stmts, m.recv, n); ok {
				return s, true
			}
		}
		if e := retExpr(); e != nil {
			if call, ok := e.(*ast.CallExpr); ok {
				if sel, ok := call.Fun.(*ast.SelectorExpr); ok && sel.Sel.Name == "Deserialize" && len(call.Args) == 1 && isIdent(call.Args[0], "dr") {
					if tn, inner, ok := conversion(sel.X); ok && isIdent(inner, m.recv) {
						if w, ok := basicViewWidth[tn]; ok {
							return fmt.Sprintf("(.basic n!\"ViewDeserialize\" %d)", w), true
						}
					}
				}
			}
		}
	case "Serialize":
		if e := retExpr(); e != nil {
			if call, ok := e.(*ast.CallExpr); ok && len(call.Args) == 1 {
				switch sszExprStr(call.Fun) {
				case "w.Write":
					if lo, hi, ok := c.recvSlice(call.Args[0], m.recv); ok && byteArr && lo == 0 && hi < 0 {
						return fmt.Sprintf("(.raw n!\"Write\" %d 0)", n), true
					}
				case "w.WriteByte":
					if byteArr && n == 1 && sszExprStr(call.Args[0]) == m.recv+"[0]" {
						return "(.raw n!\"Write\" 1 0)", true
					}
					if tn, inner, ok := conversion(call.Args[0]); ok && tn == "uint8" && isIdent(inner, m.recv) {
						return "(.basic n!\"WriteUint\" 1)", true
					}
				case "w.WriteUint64":
					if tn, inner, ok := conversion(call.Args[0]); ok && tn == "uint64" && isIdent(inner, m.recv) {
						return "(.basic n!\"WriteUint\" 8)", true
					}
				}
			}
		}
	case "HashTreeRoot":
		if e := retExpr(); e != nil {
			if call, ok := e.(*ast.CallExpr); ok {
				if sel, ok := call.Fun.(*ast.SelectorExpr); ok && sel.Sel.Name == "HashTreeRoot" && len(call.Args) == 1 {
					if tn, inner, ok := conversion(sel.X); ok && isIdent(inner, m.recv) {
						if w, ok := basicViewWidth[tn]; ok {
							return fmt.Sprintf("(.basic n!\"ViewHashTreeRoot\" %d)", w), true
						}
					}
				}
			}
		}
		if byteArr {
			if s, ok := c.htrTree(t, m); ok {
				return s, true
			}
		}
	case "ByteLength", "FixedLength":
		// for _, v := range recv { out += v.ByteLength(spec) + codec.OFFSET_SIZE }; return
		if name == "ByteLength" && len(stmts) == 2 {
			if rs, ok := stmts[0].(*ast.RangeStmt); ok && isIdent(rs.X, m.recv) && len(rs.Body.List) == 1 {
				body := strings.ReplaceAll(sszExprStr(rs.Body.List[0]), " ", "")
				v := sszExprStr(rs.Value)
				sp := ""
				for k := range spec {
					sp = k
				}
				if body == fmt.Sprintf("out+=%s.ByteLength(%s)+codec.OFFSET_SIZE", v, sp) {
					if r, ok := stmts[1].(*ast.ReturnStmt); ok && len(r.Results) == 0 {
						return ".sumOffsets", true
					}
				}
			}
		}
		if e := retExpr(); e != nil {
			// k*OFFSET_SIZE + recv.A.ByteLength(spec) + recv.B.ByteLength(spec)
			if name == "ByteLength" {
				if s, ok := c.fieldSum(e, m.recv); ok {
					return s, true
				}
			}
			if a, ok := c.aexpr(e, spec, 0); ok {
				return "(.constA " + a + ")", true
			}
		}
	}
	return "", false
}

func flattenAdd(e ast.Expr, out *[]ast.Expr) {
	if p, ok := e.(*ast.ParenExpr); ok {
		flattenAdd(p.X, out)
		return
	}
	if b, ok := e.(*ast.BinaryExpr); ok && b.Op == token.ADD {
		flattenAdd(b.X, out)
		flattenAdd(b.Y, out)
		return
	}
	*out = append(*out, e)
}

func (c *sszCtx) fieldSum(e ast.Expr, recv string) (string, bool) {
	var terms []ast.Expr
	flattenAdd(e, &terms)
	var k uint64
	var args []string
	for _, t := range terms {
		if call, ok := t.(*ast.CallExpr); ok {
			if sel, ok := call.Fun.(*ast.SelectorExpr); ok && sel.Sel.Name == "ByteLength" {
				if f, ok := sszFieldArg(sel.X, recv); ok {
					args = append(args, f)
					continue
				}
			}
		}
		v, ok := c.constVal(t, 0)
		if !ok || v%4 != 0 {
			return "", false
		}
		k += v / 4
	}
	if len(args) == 0 {
		return "", false
	}
	return fmt.Sprintf("(.fieldSum %d %s)", k, sszLeanStrList(args)), true
}

// padChecked: read the whole array, refuse when `last byte >> k != 0`.
func (c *sszCtx) padChecked(stmts []ast.Stmt, recv string, n uint64) (string, bool) {
	src := ""
	for _, s := range stmts {
		src += strings.ReplaceAll(sszExprStr(s), " ", "") + ";"
	}
	read := false
	last := ""
	if n == 1 && strings.Contains(src, "v,err:=dr.ReadByte();") && strings.Contains(src, recv+"[0]=v;") {
		read, last = true, "v"
	}
	if strings.Contains(src, "_,err:=dr.Read("+recv+"[:]);err!=nil{returnerr}") {
		read = true
	}
	if !read {
		return "", false
	}
	// find the check `X >> K != 0`
	var k uint64
	found := false
	for _, s := range stmts {
		is, ok := s.(*ast.IfStmt)
		if !ok || is.Init != nil {
			continue
		}
		be, ok := is.Cond.(*ast.BinaryExpr)
		if !ok || be.Op != token.NEQ || sszExprStr(be.Y) != "0" {
			continue
		}
		sh, ok := be.X.(*ast.BinaryExpr)
		if !ok || sh.Op != token.SHR {
			continue
		}
		x := sszExprStr(sh.X)
		if last == "" {
			// recv[N-1]
			ie, ok := sh.X.(*ast.IndexExpr)
			if !ok || !isIdent(ie.X, recv) {
				continue
			}
			idx, ok := c.constVal(ie.Index, 0)
			if !ok || idx != n-1 {
				continue
			}
		} else if x != last {
			continue
		}
		sv, ok := c.constVal(sh.Y, 0)
		if !ok {
			continue
		}
		if len(is.Body.List) != 1 {
			continue
		}
		if _, ok := is.Body.List[0].(*ast.ReturnStmt); !ok {
			continue
		}
		k, found = sv, true
	}
	if !found {
		return "", false
	}
	// last statement returns nil
	r, ok := stmts[len(stmts)-1].(*ast.ReturnStmt)
	if !ok || len(r.Results) != 1 || !isIdent(r.Results[0], "nil") {
		return "", false
	}
	return fmt.Sprintf("(.raw n!\"ReadPadChecked\" %d %d)", n, k), true
}
