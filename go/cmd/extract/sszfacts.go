// sszfacts.go: facts for properties C04/C05 (tie R-fact).
//
// For every Go type of eth2/beacon/{common,phase0,altair,bellatrix,capella,deneb,electra} that has the SSZ
// method set (Deserialize, Serialize, ByteLength, FixedLength, HashTreeRoot) it emits
//
//	lean/Zrnt/Gen/SszFacts.lean           the declaration (struct fields with json/yaml tags, or the underlying
//	                                      type), a descriptor of each of the five method bodies recognised from the
//	                                      closed set of shapes the code base uses (anything else is `opaque`, counted
//	                                      and listed), every view type definition (`XType`), one `decide` obligation per type
//	go/internal/ssz/registry_gen.go       the type registry of the differential harness (same list, so no exported
//	                                      type can be missing from the correspondence run)
//
// The extractor works on the AST only (go/parser); it fails loudly on a type whose view type it cannot name.
package main

import (
	"bytes"
	"fmt"
	"go/ast"
	"go/parser"
	"go/printer"
	"go/token"
	"os"
	"path/filepath"
	"sort"
	"strconv"
	"strings"
)

func init() { register("sszfacts", runSszFacts) }

var sszPkgs = []string{"common", "phase0", "altair", "bellatrix", "capella", "deneb", "electra"}

var sszMethodNames = []string{"Deserialize", "Serialize", "ByteLength", "FixedLength", "HashTreeRoot"}

// view type of a Go type when it is not `<Name>Type` in the same package
var sszViewExceptions = map[string]string{
	"common.SignedBLSToExecutionChanges": "common.BlockSignedBLSToExecutionChangesType",
	"common.BLSDomain":                   "common.BLSDomainTreeType",
	"common.BLSDomainType":               "common.BLSDomainTypeTreeType",
	"phase0.Attestations":                "phase0.BlockAttestationsType",
	"phase0.AttesterSlashings":           "phase0.BlockAttesterSlashingsType",
	"phase0.Balances":                    "phase0.RegistryBalancesType",
	"phase0.Deposits":                    "phase0.BlockDepositsType",
	"phase0.HistoricalBatchRoots":        "phase0.BatchRootsType",
	"phase0.ProposerSlashings":           "phase0.BlockProposerSlashingsType",
	"phase0.SlashingsHistory":            "phase0.SlashingsType",
	"phase0.ValidatorRegistry":           "phase0.ValidatorsRegistryType",
	"phase0.VoluntaryExits":              "phase0.BlockVoluntaryExitsType",
	"electra.Attestations":               "electra.BlockAttestationsType",
	"electra.AttesterSlashings":          "electra.BlockAttesterSlashingsType",
}

// Go types that have the SSZ method set but no tree-view type definition in the code base
var sszNoView = map[string]bool{
	"common.AttnetBits": true, "common.SyncnetBits": true, "common.CommitteeIndices": true, "common.Deltas": true,
	"common.GweiList": true, "common.Eth2Data": true, "common.MetaData": true, "common.Status": true,
	"common.Goodbye": true, "common.Ping": true, "common.Pong": true, "common.SeqNr": true,
	"common.DepositIndex": true, "common.NetworkMessageDomain": true,
	"phase0.AggregateAndProof": true, "phase0.SignedAggregateAndProof": true, "phase0.RegistryIndices": true,
	"electra.AggregateAndProof": true, "electra.SignedAggregateAndProof": true,
	"bellatrix.BeaconBlockBodyShallow": true, "capella.BeaconBlockBodyShallow": true,
	"deneb.BeaconBlockBodyShallow": true, "electra.BeaconBlockBodyShallow": true,
}

// unexported adapters that have the method set but are not SSZ types of their own
var sszSkipped = map[string]bool{"common.specObj": true}

type sszMethod struct {
	decl    *ast.FuncDecl
	specful bool
	recv    string // receiver variable name
}

type sszType struct {
	pkg, name string
	spec      *ast.TypeSpec
	methods   map[string]*sszMethod
}

func (t *sszType) key() string { return t.pkg + "." + t.name }

type sszViewDef struct {
	pkg, name string
	specful   bool     // func XType(spec) vs var/const XType
	specParam string   // name of the spec parameter
	expr      ast.Expr // defining expression
}

type sszPackage struct {
	name   string
	types  map[string]*sszType
	views  map[string]*sszViewDef
	consts map[string]ast.Expr
	decls  map[string]bool // declared type names
	// methods of the preset/spec structs that return a view type: `func (c *Phase0Preset) CommitteeIndices() ListTypeDef`
	specMethods map[string]*sszViewDef
}

var sszFset = token.NewFileSet()

func sszExprStr(e ast.Node) string {
	var b bytes.Buffer
	printer.Fprint(&b, sszFset, e)
	return strings.Join(strings.Fields(b.String()), " ")
}

func sszRecvName(fd *ast.FuncDecl) (typ string, varName string) {
	if fd.Recv == nil || len(fd.Recv.List) != 1 {
		return "", ""
	}
	f := fd.Recv.List[0]
	e := f.Type
	if s, ok := e.(*ast.StarExpr); ok {
		e = s.X
	}
	id, ok := e.(*ast.Ident)
	if !ok {
		return "", ""
	}
	if len(f.Names) == 1 {
		varName = f.Names[0].Name
	}
	return id.Name, varName
}

func sszLoad(repo string) (map[string]*sszPackage, error) {
	out := map[string]*sszPackage{}
	for _, p := range sszPkgs {
		dir := filepath.Join(repo, "eth2", "beacon", p)
		ents, err := os.ReadDir(dir)
		if err != nil {
			return nil, err
		}
		pk := &sszPackage{name: p, types: map[string]*sszType{}, views: map[string]*sszViewDef{}, consts: map[string]ast.Expr{}, decls: map[string]bool{}, specMethods: map[string]*sszViewDef{}}
		out[p] = pk
		var files []*ast.File
		for _, e := range ents {
			n := e.Name()
			if !strings.HasSuffix(n, ".go") || strings.HasSuffix(n, "_test.go") {
				continue
			}
			src, err := os.ReadFile(filepath.Join(dir, n))
			if err != nil {
				return nil, err
			}
			if bytes.HasPrefix(src, []byte("//go:build")) {
				continue // verification hooks and other tagged files are not part of the default build
			}
			f, err := parser.ParseFile(sszFset, filepath.Join(dir, n), src, parser.ParseComments)
			if err != nil {
				return nil, err
			}
			files = append(files, f)
		}
		specs := map[string]*ast.TypeSpec{}
		methods := map[string]map[string]*sszMethod{}
		for _, f := range files {
			for _, d := range f.Decls {
				switch d := d.(type) {
				case *ast.GenDecl:
					for _, s := range d.Specs {
						switch s := s.(type) {
						case *ast.TypeSpec:
							specs[s.Name.Name] = s
							pk.decls[s.Name.Name] = true
						case *ast.ValueSpec:
							for i, nm := range s.Names {
								if i < len(s.Values) {
									if strings.HasSuffix(nm.Name, "Type") {
										pk.views[nm.Name] = &sszViewDef{pkg: p, name: nm.Name, expr: s.Values[i]}
									} else if d.Tok == token.CONST {
										pk.consts[nm.Name] = s.Values[i]
									}
								}
							}
						}
					}
				case *ast.FuncDecl:
					if d.Recv == nil {
						if strings.HasSuffix(d.Name.Name, "Type") && d.Type.Params != nil && len(d.Type.Params.List) == 1 &&
							d.Body != nil && len(d.Body.List) == 1 {
							if r, ok := d.Body.List[0].(*ast.ReturnStmt); ok && len(r.Results) == 1 {
								par := ""
								if len(d.Type.Params.List[0].Names) == 1 {
									par = d.Type.Params.List[0].Names[0].Name
								}
								pk.views[d.Name.Name] = &sszViewDef{pkg: p, name: d.Name.Name, specful: true, specParam: par, expr: r.Results[0]}
							}
						}
						continue
					}
					if tn, rv := sszRecvName(d); (strings.HasSuffix(tn, "Preset") || tn == "Spec" || tn == "Config") && rv != "" &&
						d.Type.Params != nil && len(d.Type.Params.List) == 0 && d.Body != nil && len(d.Body.List) == 1 {
						if r, ok := d.Body.List[0].(*ast.ReturnStmt); ok && len(r.Results) == 1 {
							pk.specMethods[d.Name.Name] = &sszViewDef{pkg: p, name: d.Name.Name, specful: true, specParam: rv, expr: r.Results[0]}
						}
					}
					isM := false
					for _, m := range sszMethodNames {
						if d.Name.Name == m {
							isM = true
						}
					}
					if !isM {
						continue
					}
					tn, rv := sszRecvName(d)
					if tn == "" {
						continue
					}
					if methods[tn] == nil {
						methods[tn] = map[string]*sszMethod{}
					}
					want := 1
					if d.Name.Name == "ByteLength" || d.Name.Name == "FixedLength" {
						want = 0
					}
					np := 0
					for _, f := range d.Type.Params.List {
						if len(f.Names) == 0 {
							np++
						} else {
							np += len(f.Names)
						}
					}
					methods[tn][d.Name.Name] = &sszMethod{decl: d, specful: np == want+1, recv: rv}
				}
			}
		}
		for tn, ms := range methods {
			if len(ms) != len(sszMethodNames) {
				continue
			}
			if sszSkipped[p+"."+tn] {
				continue
			}
			if specs[tn] == nil {
				return nil, fmt.Errorf("type %s.%s has SSZ methods but no type declaration was found", p, tn)
			}
			pk.types[tn] = &sszType{pkg: p, name: tn, spec: specs[tn], methods: ms}
		}
	}
	return out, nil
}

func sszSortedTypes(pkgs map[string]*sszPackage) []*sszType {
	var out []*sszType
	for _, p := range sszPkgs {
		var names []string
		for n := range pkgs[p].types {
			names = append(names, n)
		}
		sort.Strings(names)
		for _, n := range names {
			out = append(out, pkgs[p].types[n])
		}
	}
	return out
}

// viewOf returns "pkg.Name" of the view type definition of t, or "" when the type has none.
func sszViewOf(pkgs map[string]*sszPackage, t *sszType) (string, error) {
	if v, ok := sszViewExceptions[t.key()]; ok {
		parts := strings.SplitN(v, ".", 2)
		if pkgs[parts[0]] == nil || pkgs[parts[0]].views[parts[1]] == nil {
			return "", fmt.Errorf("view type %s named for %s does not exist", v, t.key())
		}
		return v, nil
	}
	if pkgs[t.pkg].views[t.name+"Type"] != nil {
		return t.pkg + "." + t.name + "Type", nil
	}
	if sszNoView[t.key()] {
		return "", nil
	}
	return "", fmt.Errorf("no view type known for SSZ type %s (add it to sszViewExceptions or sszNoView)", t.key())
}

// specful: the methods take a *Spec parameter. A type that mixes both signatures satisfies neither
// common.SpecObj nor common.SSZObj; that is reported as a fact (the per-type obligation fails and the
// harness answers `no-ssz-interface`), not as an extractor error.
func (t *sszType) specful() (bool, error) {
	n := 0
	for _, m := range t.methods {
		if m.specful {
			n++
		}
	}
	return 2*n >= len(t.methods), nil
}

func (t *sszType) mixedSignatures() bool {
	n := 0
	for _, m := range t.methods {
		if m.specful {
			n++
		}
	}
	return n != 0 && n != len(t.methods)
}

func runSszFacts(repo, outDir string) error {
	pkgs, err := sszLoad(repo)
	if err != nil {
		return err
	}
	types := sszSortedTypes(pkgs)
	if len(types) < 100 {
		return fmt.Errorf("only %d SSZ types found; the package layout changed", len(types))
	}
	// ---- harness registry
	var g strings.Builder
	g.WriteString("// Code generated by /verif/go/cmd/extract (sszfacts) from /repo; DO NOT EDIT.\n\npackage ssz\n\nimport (\n")
	g.WriteString("\t\"github.com/protolambda/ztyp/view\"\n\n")
	for _, p := range sszPkgs {
		fmt.Fprintf(&g, "\t\"github.com/protolambda/zrnt/eth2/beacon/%s\"\n", p)
	}
	g.WriteString(")\n\n// Registry lists every Go type with the SSZ method set (generated from the same list as Zrnt.Gen.SszFacts).\nvar Registry = []Entry{\n")
	for _, t := range types {
		v, err := sszViewOf(pkgs, t)
		if err != nil {
			return err
		}
		sf, err := t.specful()
		if err != nil {
			return err
		}
		viewFn := "nil"
		if v != "" {
			parts := strings.SplitN(v, ".", 2)
			vd := pkgs[parts[0]].views[parts[1]]
			if vd.specful {
				viewFn = fmt.Sprintf("func(spec *common.Spec) view.TypeDef { return %s(spec) }", v)
			} else {
				viewFn = fmt.Sprintf("func(spec *common.Spec) view.TypeDef { return %s }", v)
			}
		}
		fmt.Fprintf(&g, "\t{Name: %s, Specful: %v, New: func() interface{} { return new(%s) }, View: %s},\n",
			strconv.Quote(t.key()), sf, t.key(), viewFn)
	}
	g.WriteString("}\n")
	regPath := filepath.Join(outDir, "..", "..", "..", "go", "internal", "ssz", "registry_gen.go")
	if err := writeIfChanged(filepath.Clean(regPath), g.String()); err != nil {
		return err
	}
	// ---- Lean facts
	lean, stats, err := sszLeanFacts(pkgs, types)
	if err != nil {
		return err
	}
	if err := writeIfChanged(filepath.Join(outDir, "SszFacts.lean"), lean); err != nil {
		return err
	}
	fmt.Printf("sszfacts: %d types, %s\n", len(types), stats)
	return nil
}
