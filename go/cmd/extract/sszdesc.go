// sszdesc.go: method-body and view-type descriptors of sszfacts (see sszfacts.go).
package main

import (
	"fmt"
	"go/ast"
	"go/token"
	"reflect"
	"sort"
	"strconv"
	"strings"
)

type sszCtx struct {
	pkgs map[string]*sszPackage
	pkg  *sszPackage
}

// ---- length expressions ---------------------------------------------------------------------------------

// lexpr renders a Go expression as a Lean `LExpr`; ok=false when it is not constant arithmetic over spec constants.
func (c *sszCtx) lexpr(e ast.Expr, specNames map[string]bool, depth int) (string, bool) {
	if depth > 20 {
		return "", false
	}
	switch e := e.(type) {
	case *ast.ParenExpr:
		return c.lexpr(e.X, specNames, depth+1)
	case *ast.BasicLit:
		if e.Kind == token.INT {
			n, err := strconv.ParseUint(e.Value, 0, 64)
			if err == nil {
				return fmt.Sprintf("(.lit %d)", n), true
			}
		}
	case *ast.CallExpr:
		// XType.Length() of a vector view type defined as VectorType(elem, L): L
		if sel, ok := e.Fun.(*ast.SelectorExpr); ok && sel.Sel.Name == "Length" && len(e.Args) == 0 {
			if n, ok := c.viewRefName(sel.X); ok {
				parts := strings.SplitN(n, ".", 2)
				if len(parts) == 2 && c.pkgs[parts[0]] != nil {
					if vd := c.pkgs[parts[0]].views[parts[1]]; vd != nil && !vd.specful {
						if call, ok := vd.expr.(*ast.CallExpr); ok && len(call.Args) == 2 && strings.Contains(sszExprStr(call.Fun), "VectorType") {
							return (&sszCtx{c.pkgs, c.pkgs[parts[0]]}).lexpr(call.Args[1], nil, depth+1)
						}
					}
				}
			}
		}
		// conversions uint64(x), Uint64View(x) …
		if len(e.Args) == 1 {
			if id, ok := e.Fun.(*ast.Ident); ok && (id.Name == "uint64" || id.Name == "int" || id.Name == "Uint64View") {
				return c.lexpr(e.Args[0], specNames, depth+1)
			}
		}
	case *ast.SelectorExpr:
		if x, ok := e.X.(*ast.Ident); ok {
			if specNames[x.Name] {
				return fmt.Sprintf("(.const n!%q)", e.Sel.Name), true
			}
			if p := c.pkgs[x.Name]; p != nil {
				if v, ok := p.consts[e.Sel.Name]; ok {
					return (&sszCtx{c.pkgs, p}).lexpr(v, nil, depth+1)
				}
			}
		}
	case *ast.Ident:
		if v, ok := c.pkg.consts[e.Name]; ok {
			return c.lexpr(v, nil, depth+1)
		}
	case *ast.BinaryExpr:
		a, ok1 := c.lexpr(e.X, specNames, depth+1)
		b, ok2 := c.lexpr(e.Y, specNames, depth+1)
		if ok1 && ok2 {
			switch e.Op {
			case token.MUL:
				return fmt.Sprintf("(.mul %s %s)", a, b), true
			case token.ADD:
				return fmt.Sprintf("(.add %s %s)", a, b), true
			case token.QUO:
				return fmt.Sprintf("(.div %s %s)", a, b), true
			}
		}
	}
	return "", false
}

func sszOptLexpr(s string, ok bool) string {
	if ok {
		return "(some " + s + ")"
	}
	return "none"
}

// viewRefName: `XType`, `pkg.XType`, `XType(spec)`, `pkg.XType(spec)` -> qualified name
func (c *sszCtx) viewRefName(e ast.Expr) (string, bool) {
	switch e := e.(type) {
	case *ast.Ident:
		if c.pkg.views[e.Name] != nil {
			return c.pkg.name + "." + e.Name, true
		}
		return e.Name, true // dot-imported ztyp builtin
	case *ast.SelectorExpr:
		if x, ok := e.X.(*ast.Ident); ok {
			return x.Name + "." + e.Sel.Name, true
		}
	case *ast.CallExpr:
		if len(e.Args) == 1 {
			if _, isId := e.Args[0].(*ast.Ident); isId {
				return c.viewRefName(e.Fun)
			}
		}
	}
	return "", false
}

// sizeE: a size argument of a codec call
func (c *sszCtx) sizeE(e ast.Expr, specNames map[string]bool) string {
	if call, ok := e.(*ast.CallExpr); ok && len(call.Args) == 0 {
		if sel, ok := call.Fun.(*ast.SelectorExpr); ok && sel.Sel.Name == "TypeByteLength" {
			if n, ok := c.viewRefName(sel.X); ok {
				return fmt.Sprintf("(.typeByteLength n!%q)", n)
			}
		}
	}
	if sel, ok := e.(*ast.SelectorExpr); ok && sel.Sel.Name == "Size" {
		if n, ok := c.viewRefName(sel.X); ok && strings.HasSuffix(n, "Type") {
			return fmt.Sprintf("(.typeByteLength n!%q)", n)
		}
	}
	if s, ok := c.lexpr(e, specNames, 0); ok && strings.HasPrefix(s, "(.lit ") {
		return "(.lit " + strings.TrimSuffix(strings.TrimPrefix(s, "(.lit "), ")") + ")"
	}
	return fmt.Sprintf("(.other %q)", sszExprStr(e))
}

// ---- method bodies ----------------------------------------------------------------------------------------

func sszSpecParamNames(fd *ast.FuncDecl) map[string]bool {
	out := map[string]bool{}
	for _, f := range fd.Type.Params.List {
		if st, ok := f.Type.(*ast.StarExpr); ok {
			isSpec := false
			switch t := st.X.(type) {
			case *ast.Ident:
				isSpec = t.Name == "Spec"
			case *ast.SelectorExpr:
				isSpec = t.Sel.Name == "Spec"
			}
			if isSpec {
				for _, n := range f.Names {
					out[n.Name] = true
				}
			}
		}
	}
	return out
}

// sszFieldArg: `&x.F`, `x.F`, `spec.Wrap(&x.F)` -> F
func sszFieldArg(e ast.Expr, recv string) (string, bool) {
	if call, ok := e.(*ast.CallExpr); ok && len(call.Args) == 1 {
		if sel, ok := call.Fun.(*ast.SelectorExpr); ok && sel.Sel.Name == "Wrap" {
			return sszFieldArg(call.Args[0], recv)
		}
	}
	// conversions to ztyp view types: (*BoolView)(&x.F), (BoolView)(x.F), Uint64View(x.F)
	if tn, inner, ok := conversion(e); ok && strings.HasSuffix(tn, "View") {
		return sszFieldArg(inner, recv)
	}
	if u, ok := e.(*ast.UnaryExpr); ok && u.Op == token.AND {
		e = u.X
	}
	if sel, ok := e.(*ast.SelectorExpr); ok {
		if x, ok := sel.X.(*ast.Ident); ok && x.Name == recv {
			return sel.Sel.Name, true
		}
	}
	return "", false
}

func sszLeanStrList(xs []string) string {
	q := make([]string, len(xs))
	for i, x := range xs {
		q[i] = "n!" + strconv.Quote(x)
	}
	return "[" + strings.Join(q, ", ") + "]"
}

func sszOpaque(why string) string { return fmt.Sprintf("(.opaque %q)", why) }

// sszSingleReturn: the body is `return <expr>`, optionally preceded by `x := uint64(len(recv))`
func sszSingleReturn(fd *ast.FuncDecl, recv string) (ast.Expr, map[string]bool, bool) {
	lenVars := map[string]bool{}
	if fd.Body == nil {
		return nil, nil, false
	}
	stmts := stripPreludes(fd.Body.List, recv)
	for len(stmts) > 1 {
		as, ok := stmts[0].(*ast.AssignStmt)
		if !ok || as.Tok != token.DEFINE || len(as.Lhs) != 1 || len(as.Rhs) != 1 {
			return nil, nil, false
		}
		if !sszIsLenExpr(as.Rhs[0], nil) {
			return nil, nil, false
		}
		lenVars[as.Lhs[0].(*ast.Ident).Name] = true
		stmts = stmts[1:]
	}
	if len(stmts) != 1 {
		return nil, nil, false
	}
	r, ok := stmts[0].(*ast.ReturnStmt)
	if !ok || len(r.Results) != 1 {
		return nil, nil, false
	}
	return r.Results[0], lenVars, true
}

// sszIsLenExpr: uint64(len(x)) or a variable bound to it
func sszIsLenExpr(e ast.Expr, lenVars map[string]bool) bool {
	if id, ok := e.(*ast.Ident); ok {
		return lenVars[id.Name]
	}
	call, ok := e.(*ast.CallExpr)
	if !ok || len(call.Args) != 1 {
		return false
	}
	if id, ok := call.Fun.(*ast.Ident); ok && id.Name == "uint64" {
		if inner, ok := call.Args[0].(*ast.CallExpr); ok {
			if f, ok := inner.Fun.(*ast.Ident); ok && f.Name == "len" {
				return true
			}
		}
	}
	return false
}

func (c *sszCtx) method(t *sszType, name string) string {
	d := c.methodCore(t, name)
	if strings.HasPrefix(d, "(.opaque") {
		if s, ok := c.bespoke(t, name); ok {
			return s
		}
	}
	return d
}

func (c *sszCtx) methodCore(t *sszType, name string) string {
	m := t.methods[name]
	fd := m.decl
	spec := sszSpecParamNames(fd)
	ret, lenVars, ok := sszSingleReturn(fd, m.recv)
	if !ok {
		return sszOpaque("body is not a single return statement")
	}
	// calls
	if call, ok := ret.(*ast.CallExpr); ok {
		if sel, ok := call.Fun.(*ast.SelectorExpr); ok {
			fn := sel.Sel.Name
			switch fn {
			case "Container", "FixedLenContainer", "ContainerLength", "HashTreeRoot":
				if fn == "HashTreeRoot" && name != "HashTreeRoot" {
					break
				}
				var args []string
				for _, a := range call.Args {
					f, ok := sszFieldArg(a, m.recv)
					if !ok {
						return sszOpaque(fn + " over something that is not a field of the receiver: " + sszExprStr(a))
					}
					args = append(args, f)
				}
				return fmt.Sprintf("(.fields n!%q %s)", fn, sszLeanStrList(args))
			case "List", "Vector":
				if len(call.Args) == 3 {
					size := c.sizeE(call.Args[1], spec)
					if strings.HasPrefix(size, "(.other") {
						return sszOpaque(fn + " with an element size that is neither a literal nor XType.TypeByteLength(): " + sszExprStr(call.Args[1]))
					}
					if fn == "Vector" {
						if name == "Serialize" && sszIsLenExpr(call.Args[2], lenVars) {
							return fmt.Sprintf("(.vector n!%q (some %s) none)", fn, size) // as many as the slice holds
						}
						l, ok := c.lexpr(call.Args[2], spec, 0)
						if !ok {
							return sszOpaque("Vector with a length that is not constant arithmetic: " + sszExprStr(call.Args[2]))
						}
						return fmt.Sprintf("(.vector n!%q (some %s) (some %s))", fn, size, l)
					}
					if name == "Serialize" {
						if !sszIsLenExpr(call.Args[2], lenVars) {
							return sszOpaque("w.List with a length that is not len(receiver)")
						}
						return fmt.Sprintf("(.list n!%q (some %s) none)", fn, size)
					}
					l, ok := c.lexpr(call.Args[2], spec, 0)
					if !ok {
						return sszOpaque("List with a limit that is not constant arithmetic: " + sszExprStr(call.Args[2]))
					}
					return fmt.Sprintf("(.list n!%q (some %s) (some %s))", fn, size, l)
				}
			case "ComplexListHTR", "Uint64ListHTR", "Uint8ListHTR":
				if len(call.Args) == 3 && sszIsLenExpr(call.Args[1], lenVars) {
					l, ok := c.lexpr(call.Args[2], spec, 0)
					return fmt.Sprintf("(.list n!%q none %s)", fn, sszOptLexpr(l, ok))
				}
			case "ComplexVectorHTR", "Uint64VectorHTR":
				if len(call.Args) == 2 {
					if sszIsLenExpr(call.Args[1], lenVars) {
						return fmt.Sprintf("(.vector n!%q none none)", fn) // length = len(receiver)
					}
					l, ok := c.lexpr(call.Args[1], spec, 0)
					if !ok {
						return sszOpaque(fn + " with a length that is not constant arithmetic: " + sszExprStr(call.Args[1]))
					}
					return fmt.Sprintf("(.vector n!%q none (some %s))", fn, l)
				}
			case "ChunksHTR":
				// hFn.ChunksHTR(func(i) Root { return recv[i] }, len, len): a vector of roots
				if len(call.Args) == 3 && sszIsLenExpr(call.Args[1], lenVars) && sszIsLenExpr(call.Args[2], lenVars) {
					return `(.vector n!"ChunksHTR" none none)`
				}
			case "ReadRoots":
				if len(call.Args) == 3 {
					if l, ok := c.lexpr(call.Args[2], spec, 0); ok {
						return fmt.Sprintf("(.vector n!\"ReadRoots\" (some (.lit 32)) (some %s))", l)
					}
				}
			case "ReadRootsLimited":
				if len(call.Args) == 3 {
					if l, ok := c.lexpr(call.Args[2], spec, 0); ok {
						return fmt.Sprintf("(.list n!\"ReadRootsLimited\" (some (.lit 32)) (some %s))", l)
					}
				}
			case "WriteRoots":
				if len(call.Args) == 2 && name == "Serialize" {
					return `(.list n!"WriteRoots" (some (.lit 32)) none)`
				}
			case "BitList", "BitVector", "ByteList", "ReadBitList":
				if name == "Deserialize" && len(call.Args) >= 2 {
					l, ok := c.lexpr(call.Args[len(call.Args)-1], spec, 0)
					return fmt.Sprintf("(.bits n!%q %s)", fn, sszOptLexpr(l, ok))
				}
				if name == "Serialize" && len(call.Args) == 1 {
					return fmt.Sprintf("(.bits n!%q none)", fn)
				}
			case "Write":
				if name == "Serialize" && len(call.Args) == 1 {
					return `(.bits n!"Write" none)`
				}
			case "BitListHTR", "ByteListHTR":
				if len(call.Args) == 2 {
					l, ok := c.lexpr(call.Args[1], spec, 0)
					return fmt.Sprintf("(.bits n!%q %s)", fn, sszOptLexpr(l, ok))
				}
			case "BitVectorHTR":
				if len(call.Args) == 1 {
					return `(.bits n!"BitVectorHTR" none)`
				}
			case "TypeByteLength":
				if len(call.Args) == 0 {
					if n, ok := c.viewRefName(sel.X); ok {
						return fmt.Sprintf("(.typeByteLength n!%q)", n)
					}
				}
			}
		}
		if sszIsLenExpr(ret, lenVars) && name == "ByteLength" {
			return ".len"
		}
	}
	// constant arithmetic
	if l, ok := c.lexpr(ret, spec, 0); ok && (name == "ByteLength" || name == "FixedLength") {
		return "(.const " + l + ")"
	}
	// size * len(a)
	if b, ok := ret.(*ast.BinaryExpr); ok && b.Op == token.MUL && name == "ByteLength" {
		if sszIsLenExpr(b.X, lenVars) {
			return "(.lenTimes " + c.sizeE(b.Y, spec) + ")"
		}
		if sszIsLenExpr(b.Y, lenVars) {
			return "(.lenTimes " + c.sizeE(b.X, spec) + ")"
		}
	}
	return sszOpaque("unrecognised: " + sszExprStr(ret))
}

// ---- declarations ------------------------------------------------------------------------------------------

func (c *sszCtx) goTypeName(e ast.Expr) string {
	switch e := e.(type) {
	case *ast.Ident:
		if c.pkg.decls[e.Name] {
			return c.pkg.name + "." + e.Name
		}
		return e.Name
	case *ast.SelectorExpr:
		if x, ok := e.X.(*ast.Ident); ok {
			return x.Name + "." + e.Sel.Name
		}
	}
	return sszExprStr(e)
}

func (c *sszCtx) decl(t *sszType) (string, error) {
	st, ok := t.spec.Type.(*ast.StructType)
	if !ok {
		return fmt.Sprintf("(.named %q)", sszExprStr(t.spec.Type)), nil
	}
	var fs []string
	for _, f := range st.Fields.List {
		tag := ""
		if f.Tag != nil {
			tag, _ = strconv.Unquote(f.Tag.Value)
		}
		st := reflect.StructTag(tag)
		js := strings.Split(st.Get("json"), ",")[0]
		ys := strings.Split(st.Get("yaml"), ",")[0]
		if len(f.Names) == 0 {
			return "", fmt.Errorf("%s: embedded field in an SSZ struct", t.key())
		}
		for _, n := range f.Names {
			fs = append(fs, fmt.Sprintf("⟨n!%q, n!%q, n!%q, n!%q⟩", n.Name, c.goTypeName(f.Type), js, ys))
		}
	}
	return "(.struct [" + strings.Join(fs, ", ") + "])", nil
}

// ---- view type expressions -----------------------------------------------------------------------------------

func (c *sszCtx) vexpr(e ast.Expr, specNames map[string]bool) string {
	// spec.Method(): a view type defined as a method of a preset struct (e.g. Phase0Preset.CommitteeIndices)
	if call, ok := e.(*ast.CallExpr); ok && len(call.Args) == 0 {
		if sel, ok := call.Fun.(*ast.SelectorExpr); ok {
			if x, ok := sel.X.(*ast.Ident); ok && specNames[x.Name] {
				if m := c.pkgs["common"].specMethods[sel.Sel.Name]; m != nil {
					return (&sszCtx{c.pkgs, c.pkgs["common"]}).vexpr(m.expr, map[string]bool{m.specParam: true})
				}
			}
		}
	}
	if call, ok := e.(*ast.CallExpr); ok {
		fn := ""
		switch f := call.Fun.(type) {
		case *ast.Ident:
			fn = f.Name
		case *ast.SelectorExpr:
			if x, ok := f.X.(*ast.Ident); ok && x.Name == "view" {
				fn = f.Sel.Name
			}
		}
		switch fn {
		case "ContainerType":
			if len(call.Args) == 2 {
				if cl, ok := call.Args[1].(*ast.CompositeLit); ok {
					var fs []string
					for _, el := range cl.Elts {
						fl, ok := el.(*ast.CompositeLit)
						if !ok || len(fl.Elts) != 2 {
							return fmt.Sprintf("(.other %q)", sszExprStr(e))
						}
						nameLit, ok := fl.Elts[0].(*ast.BasicLit)
						if !ok {
							return fmt.Sprintf("(.other %q)", sszExprStr(e))
						}
						fs = append(fs, fmt.Sprintf("(n!%s, %s)", nameLit.Value, c.vexpr(fl.Elts[1], specNames)))
					}
					return "(.container [" + strings.Join(fs, ", ") + "])"
				}
			}
		case "ListType", "ComplexListType", "BasicListType", "VectorType", "ComplexVectorType", "BasicVectorType":
			if len(call.Args) == 2 {
				if l, ok := c.lexpr(call.Args[1], specNames, 0); ok {
					kind := ".list"
					if strings.Contains(fn, "Vector") {
						kind = ".vector"
					}
					return fmt.Sprintf("(%s n!%q %s %s)", kind, fn, c.vexpr(call.Args[0], specNames), l)
				}
			}
		case "BitListType", "BitVectorType":
			if len(call.Args) == 1 {
				if l, ok := c.lexpr(call.Args[0], specNames, 0); ok {
					if fn == "BitListType" {
						return "(.bitlist " + l + ")"
					}
					return "(.bitvector " + l + ")"
				}
			}
		case "SmallByteVecMeta":
			if len(call.Args) == 1 {
				if l, ok := c.lexpr(call.Args[0], specNames, 0); ok && strings.HasPrefix(l, "(.lit ") {
					return "(.smallBytes " + strings.TrimSuffix(strings.TrimPrefix(l, "(.lit "), ")") + ")"
				}
			}
		}
	}
	if n, ok := c.viewRefName(e); ok {
		return fmt.Sprintf("(.ref n!%q)", n)
	}
	return fmt.Sprintf("(.other %q)", sszExprStr(e))
}

func sszLeanIdent(s string) string {
	return strings.NewReplacer(".", "_", "-", "_").Replace(s)
}

func sszLeanFacts(pkgs map[string]*sszPackage, types []*sszType) (string, string, error) {
	var b strings.Builder
	b.WriteString("import Zrnt.Schema.KnownDeviations\n/-! GENERATED by /verif/go/cmd/extract (sszfacts) from /repo — do not edit.\n\n")
	b.WriteString("Every Go type with the SSZ method set: declaration, descriptors of the five method bodies, view type.\n")
	b.WriteString("Data only (this module always compiles; the model driver reads it). The per-row obligations are in\nZrnt.Gen.SszCodec (four encoding methods, C04), Zrnt.Gen.SszRoot (HashTreeRoot, C05), Zrnt.Gen.SszTags (json/yaml tags, C04). -/\n")
	b.WriteString("namespace Zrnt.Gen.SszFacts\nopen Zrnt.Schema Zrnt.Schema.Facts\n\n")
	// views
	var viewNames []string
	for _, p := range sszPkgs {
		var ns []string
		for n := range pkgs[p].views {
			ns = append(ns, n)
		}
		sort.Strings(ns)
		for _, n := range ns {
			vd := pkgs[p].views[n]
			c := &sszCtx{pkgs, pkgs[p]}
			specNames := map[string]bool{}
			if vd.specParam != "" {
				specNames[vd.specParam] = true
			}
			id := "V_" + sszLeanIdent(p+"."+n)
			fmt.Fprintf(&b, "def %s : ViewDef := ⟨n!%q, %s⟩\n", id, p+"."+n, c.vexpr(vd.expr, specNames))
			viewNames = append(viewNames, id)
		}
	}
	b.WriteString("\ndef views : List ViewDef := [\n  " + strings.Join(viewNames, ",\n  ") + "]\n\n")
	// owners
	var owners []string
	for _, t := range types {
		v, err := sszViewOf(pkgs, t)
		if err != nil {
			return "", "", err
		}
		if v != "" {
			owners = append(owners, fmt.Sprintf("(n!%q, n!%q)", v, t.key()))
		}
	}
	b.WriteString("/-- view type definition ↦ the Go type whose tree-view type it is -/\ndef owners : Owners := [\n  " + strings.Join(owners, ",\n  ") + "]\n\n")
	// types
	nOpaque, nMethods := 0, 0
	var opaqueList []string
	var ids []string
	for _, t := range types {
		c := &sszCtx{pkgs, pkgs[t.pkg]}
		d, err := c.decl(t)
		if err != nil {
			return "", "", err
		}
		v, _ := sszViewOf(pkgs, t)
		sf, _ := t.specful()
		vs := "none"
		if v != "" {
			vs = fmt.Sprintf("(some n!%q)", v)
		}
		id := "T_" + sszLeanIdent(t.key())
		ids = append(ids, id)
		fmt.Fprintf(&b, "def %s : GoType := {\n  name := n!%q, specful := %v, mixedSignatures := %v,\n  decl := %s,\n", id, t.key(), sf, t.mixedSignatures(), d)
		for _, m := range sszMethodNames {
			desc := c.method(t, m)
			nMethods++
			if strings.HasPrefix(desc, "(.opaque") {
				nOpaque++
				opaqueList = append(opaqueList, t.key()+"."+m)
			}
			field := strings.ToLower(m[:1]) + m[1:]
			fmt.Fprintf(&b, "  %s := %s,\n", field, desc)
		}
		fmt.Fprintf(&b, "  view := %s }\n\n", vs)
	}
	b.WriteString("def types : List GoType := [\n  " + strings.Join(ids, ",\n  ") + "]\n\n")
	b.WriteString("def typeNames : List Name := types.map (·.name)\n\n")
	fmt.Fprintf(&b, "/-- method bodies outside the recognised shapes (%d of %d): covered by the correspondence run only -/\n", nOpaque, nMethods)
	b.WriteString("def opaqueMethods : List String := [\n")
	for i, o := range opaqueList {
		sep := ","
		if i == len(opaqueList)-1 {
			sep = ""
		}
		fmt.Fprintf(&b, "  %q%s\n", o, sep)
	}
	b.WriteString("]\n\n")
	b.WriteString("\nend Zrnt.Gen.SszFacts\n")
	return b.String(), fmt.Sprintf("%d method bodies, %d opaque; %d view type definitions", nMethods, nOpaque, len(viewNames)), nil
}
