// statefacts.go: facts for property C15 -> lean/Zrnt/Gen/StateFacts.lean
//
// For every struct type that embeds *ContainerView in eth2/beacon/{common,phase0,altair,bellatrix,capella,
// deneb,electra} (the beacon state view of each fork and the typed sub-views: CheckpointView, ForkView,
// BeaconBlockHeaderView, Eth1DataView, ValidatorView, ExecutionPayloadHeaderView, SyncCommitteeView, …):
//
//   - the ContainerType field list it is a view of (`<Name>Type` var or func in the same package): names, type
//     expressions, order;
//   - the iota constant block its methods index with (names and values), if any;
//   - for every method: each positional access `recv.Get(i)`, `recv.Set(i, v)`, `recv.Fields[i]`,
//     `values[i]` (after `values := recv.FieldValues()`), with the index expression, its numeric value,
//     and the wrapper applied to a Get (`common.AsSlot(…)`) / the value expression handed to a Set.
//
// Identifiers declared in the current package are qualified with the package name so that expressions
// mean the same in every fork's table. Unresolvable indices are a hard error.
package main

import (
	"fmt"
	"go/ast"
	"go/token"
	"math/big"
	"os"
	"path/filepath"
	"sort"
	"strings"
)

func init() { register("statefacts", runStateFacts) }

var statePkgs = []string{"common", "phase0", "altair", "bellatrix", "capella", "deneb", "electra"}

type sfAccess struct {
	kind    string // get | set | fields | values
	idxExpr string
	idx     int
	wrap    string // wrapper of a get / value expression of a set
}

type sfMethod struct {
	name string
	acc  []sfAccess
}

type sfView struct {
	pkg, name, container, file string
	fields                     []pair // name, type expr
	consts                     []pair // name, value
	methods                    []sfMethod
}

type sfPkg struct {
	name    string
	files   []*ast.File
	names   map[string]bool   // package-level identifiers
	consts  map[string]int    // integer constants (iota blocks and plain)
	blocks  [][]pair          // iota const blocks in source order (name, value)
	ctypes  map[string][]pair // `<X>Type` -> fields
	cnames  map[string]string // `<X>Type` -> container name string
	ctorder []string
}

func loadStatePkg(repo, name string) (*sfPkg, error) {
	dir := filepath.Join(repo, "eth2/beacon", name)
	ents, err := os.ReadDir(dir)
	if err != nil {
		return nil, err
	}
	p := &sfPkg{name: name, names: map[string]bool{}, consts: map[string]int{}, ctypes: map[string][]pair{}, cnames: map[string]string{}}
	for _, e := range ents {
		if !strings.HasSuffix(e.Name(), ".go") || strings.HasSuffix(e.Name(), "_test.go") {
			continue
		}
		f, err := parseGo(filepath.Join(dir, e.Name()))
		if err != nil {
			return nil, err
		}
		p.files = append(p.files, f)
		for _, d := range f.Decls {
			switch x := d.(type) {
			case *ast.FuncDecl:
				if x.Recv == nil {
					p.names[x.Name.Name] = true
				}
			case *ast.GenDecl:
				for _, s := range x.Specs {
					switch y := s.(type) {
					case *ast.TypeSpec:
						p.names[y.Name.Name] = true
					case *ast.ValueSpec:
						for _, n := range y.Names {
							p.names[n.Name] = true
						}
					}
				}
			}
		}
	}
	return p, nil
}

// qual prints an expression with package-level identifiers of the current package qualified.
func (p *sfPkg) qual(e ast.Expr) string {
	switch x := e.(type) {
	case *ast.Ident:
		if p.names[x.Name] {
			return p.name + "." + x.Name
		}
		return x.Name
	case *ast.SelectorExpr:
		if id, ok := x.X.(*ast.Ident); ok && !p.names[id.Name] {
			return id.Name + "." + x.Sel.Name // package-qualified or local.field
		}
		return p.qual(x.X) + "." + x.Sel.Name
	case *ast.CallExpr:
		var as []string
		for _, a := range x.Args {
			as = append(as, p.qual(a))
		}
		return p.qual(x.Fun) + "(" + strings.Join(as, ", ") + ")"
	case *ast.StarExpr:
		return "*" + p.qual(x.X)
	case *ast.UnaryExpr:
		return x.Op.String() + p.qual(x.X)
	case *ast.ParenExpr:
		return "(" + p.qual(x.X) + ")"
	case *ast.BasicLit:
		return x.Value
	}
	return exprStr(e)
}

func (p *sfPkg) collect() error {
	for _, f := range p.files {
		for _, d := range f.Decls {
			switch x := d.(type) {
			case *ast.GenDecl:
				if x.Tok == token.CONST {
					var block []pair
					isIota := false
					var last ast.Expr
					for i, s := range x.Specs {
						vs := s.(*ast.ValueSpec)
						var val ast.Expr
						if len(vs.Values) > 0 {
							val = vs.Values[0]
							last = val
						} else {
							val = last
						}
						if val == nil || len(vs.Names) != 1 {
							continue
						}
						var ce *constEnv
						if id, ok := val.(*ast.Ident); ok && id.Name == "iota" {
							isIota = true
						}
						// only plain integer / iota expressions matter here
						n, err := ce.evalNoEnv(val, int64(i))
						if err != nil {
							continue
						}
						p.consts[vs.Names[0].Name] = n
						block = append(block, pair{vs.Names[0].Name, fmt.Sprint(n)})
					}
					if isIota && len(block) > 0 {
						p.blocks = append(p.blocks, block)
					}
				}
				if x.Tok == token.VAR {
					for _, s := range x.Specs {
						vs := s.(*ast.ValueSpec)
						if len(vs.Names) == 1 && len(vs.Values) == 1 {
							if err := p.containerDef(vs.Names[0].Name, vs.Values[0]); err != nil {
								return err
							}
						}
					}
				}
			case *ast.FuncDecl:
				if x.Recv == nil && x.Body != nil && len(x.Body.List) == 1 {
					if r, ok := x.Body.List[0].(*ast.ReturnStmt); ok && len(r.Results) == 1 {
						if err := p.containerDef(x.Name.Name, r.Results[0]); err != nil {
							return err
						}
					}
				}
			}
		}
	}
	return nil
}

func (ce *constEnv) evalNoEnv(e ast.Expr, iota int64) (int, error) {
	c := &constEnv{vals: map[string]*big.Int{}}
	v, err := c.eval(e, iota)
	if err != nil {
		return 0, err
	}
	if !v.IsInt64() || v.Int64() < 0 || v.Int64() > 1<<20 {
		return 0, fmt.Errorf("out of range")
	}
	return int(v.Int64()), nil
}

// containerDef records `name = ContainerType("X", []FieldDef{{"f", T}, …})`.
func (p *sfPkg) containerDef(name string, e ast.Expr) error {
	call, ok := e.(*ast.CallExpr)
	if !ok || exprStr(call.Fun) != "ContainerType" || len(call.Args) != 2 {
		return nil
	}
	lit, ok := call.Args[1].(*ast.CompositeLit)
	if !ok {
		return fmt.Errorf("%s.%s: ContainerType with a non-literal field list", p.name, name)
	}
	var fs []pair
	for _, el := range lit.Elts {
		fl, ok := el.(*ast.CompositeLit)
		if !ok || len(fl.Elts) != 2 {
			return fmt.Errorf("%s.%s: unrecognised FieldDef %s", p.name, name, exprStr(el))
		}
		bl, ok := fl.Elts[0].(*ast.BasicLit)
		if !ok || bl.Kind != token.STRING {
			return fmt.Errorf("%s.%s: FieldDef name is not a string literal", p.name, name)
		}
		fs = append(fs, pair{strings.Trim(bl.Value, "\""), p.qual(fl.Elts[1])})
	}
	if _, dup := p.ctypes[name]; dup {
		return fmt.Errorf("%s.%s: container type defined twice", p.name, name)
	}
	p.ctypes[name] = fs
	p.cnames[name] = strings.Trim(exprStr(call.Args[0]), "\"")
	p.ctorder = append(p.ctorder, name)
	return nil
}

func embedsContainerView(ts *ast.TypeSpec) bool {
	st, ok := ts.Type.(*ast.StructType)
	if !ok {
		return false
	}
	for _, f := range st.Fields.List {
		if len(f.Names) == 0 && exprStr(f.Type) == "*ContainerView" {
			return true
		}
	}
	return false
}

// methodAccesses finds the positional accesses of one method.
func (p *sfPkg) methodAccesses(fd *ast.FuncDecl) ([]sfAccess, error) {
	recv := ""
	if len(fd.Recv.List[0].Names) > 0 {
		recv = fd.Recv.List[0].Names[0].Name
	}
	if recv == "" || fd.Body == nil {
		return nil, nil
	}
	who := p.name + "." + exprStr(fd.Recv.List[0].Type) + "." + fd.Name.Name
	params := map[string]string{}
	for _, pl := range fd.Type.Params.List {
		for _, n := range pl.Names {
			params[n.Name] = p.qual(pl.Type)
		}
	}
	// local definitions `x := expr` / `x, err := expr` (first assignment wins)
	defs := map[string]ast.Expr{}
	valuesVar := ""
	ast.Inspect(fd.Body, func(n ast.Node) bool {
		if a, ok := n.(*ast.AssignStmt); ok && a.Tok == token.DEFINE && len(a.Rhs) == 1 {
			if id, ok := a.Lhs[0].(*ast.Ident); ok {
				if _, dup := defs[id.Name]; !dup {
					defs[id.Name] = a.Rhs[0]
				}
				if c, ok := a.Rhs[0].(*ast.CallExpr); ok && exprStr(c.Fun) == recv+".FieldValues" {
					valuesVar = id.Name
				}
			}
		}
		return true
	})
	isRecv := func(e ast.Expr) bool {
		s := exprStr(e)
		return s == recv || s == recv+".ContainerView"
	}
	resolve := func(e ast.Expr) (int, error) {
		switch x := e.(type) {
		case *ast.BasicLit:
			var n int
			if _, err := fmt.Sscan(x.Value, &n); err != nil {
				return 0, fmt.Errorf("%s: index literal %s", who, x.Value)
			}
			return n, nil
		case *ast.Ident:
			if v, ok := p.consts[x.Name]; ok {
				return v, nil
			}
		}
		return 0, fmt.Errorf("%s: index expression %s is neither a literal nor a package constant", who, exprStr(e))
	}
	var out []sfAccess
	var ferr error
	var stack []ast.Node
	ast.Inspect(fd.Body, func(n ast.Node) bool {
		if n == nil {
			stack = stack[:len(stack)-1]
			return true
		}
		stack = append(stack, n)
		switch x := n.(type) {
		case *ast.CallExpr:
			sel, ok := x.Fun.(*ast.SelectorExpr)
			if !ok || !isRecv(sel.X) {
				return true
			}
			switch sel.Sel.Name {
			case "Get":
				if len(x.Args) != 1 {
					return true
				}
				idx, err := resolve(x.Args[0])
				if err != nil {
					ferr = err
					return false
				}
				wrap := "raw"
				if len(stack) >= 2 {
					switch par := stack[len(stack)-2].(type) {
					case *ast.CallExpr: // F(recv.Get(i))
						if len(par.Args) == 1 && par.Args[0] == ast.Expr(x) {
							wrap = p.qual(par.Fun)
						}
					case *ast.AssignStmt: // v, err := recv.Get(i) ; … F(v, err)
						if len(par.Lhs) == 2 {
							v := exprStr(par.Lhs[0])
							wrap = "raw"
							ast.Inspect(fd.Body, func(m ast.Node) bool {
								if c, ok := m.(*ast.CallExpr); ok && len(c.Args) == 2 && exprStr(c.Args[0]) == v && exprStr(c.Args[1]) == "err" {
									wrap = p.qual(c.Fun)
								}
								return true
							})
						}
					}
				}
				out = append(out, sfAccess{"get", exprStr(x.Args[0]), idx, wrap})
			case "Set":
				if len(x.Args) != 2 {
					return true
				}
				idx, err := resolve(x.Args[0])
				if err != nil {
					ferr = err
					return false
				}
				out = append(out, sfAccess{"set", exprStr(x.Args[0]), idx, p.valueShape(x.Args[1], defs, params)})
			}
		case *ast.IndexExpr:
			if sel, ok := x.X.(*ast.SelectorExpr); ok && isRecv(sel.X) && sel.Sel.Name == "Fields" {
				idx, err := resolve(x.Index)
				if err != nil {
					ferr = err
					return false
				}
				out = append(out, sfAccess{"fields", exprStr(x.Index), idx, ""})
			}
			if id, ok := x.X.(*ast.Ident); ok && valuesVar != "" && id.Name == valuesVar {
				idx, err := resolve(x.Index)
				if err != nil {
					ferr = err
					return false
				}
				wrap := "raw"
				if len(stack) >= 2 {
					if par, ok := stack[len(stack)-2].(*ast.CallExpr); ok && len(par.Args) >= 1 && par.Args[0] == ast.Expr(x) {
						wrap = p.qual(par.Fun)
					}
				}
				out = append(out, sfAccess{"values", exprStr(x.Index), idx, wrap})
			}
		}
		return true
	})
	return out, ferr
}

// valueShape describes the value handed to a Set: conversions and `.View()` calls are kept, locals are
// resolved one level, parameters are replaced by `param:<type>`.
func (p *sfPkg) valueShape(e ast.Expr, defs map[string]ast.Expr, params map[string]string) string {
	switch x := e.(type) {
	case *ast.Ident:
		if t, ok := params[x.Name]; ok {
			return "param:" + t
		}
		if d, ok := defs[x.Name]; ok {
			return p.valueShape(d, map[string]ast.Expr{}, params)
		}
		return p.qual(x)
	case *ast.UnaryExpr:
		if x.Op == token.AND {
			return "&" + p.valueShape(x.X, defs, params)
		}
	case *ast.CallExpr:
		// T(x) conversion or x.View() / f(x)
		if sel, ok := x.Fun.(*ast.SelectorExpr); ok && sel.Sel.Name == "View" {
			return p.valueShape(sel.X, defs, params) + ".View()"
		}
		if len(x.Args) == 1 {
			return p.qual(x.Fun) + "(" + p.valueShape(x.Args[0], defs, params) + ")"
		}
		var as []string
		for _, a := range x.Args {
			as = append(as, p.valueShape(a, defs, params))
		}
		return p.qual(x.Fun) + "(" + strings.Join(as, ", ") + ")"
	case *ast.ParenExpr:
		return "(" + p.valueShape(x.X, defs, params) + ")"
	}
	return p.qual(e)
}

func runStateFacts(repo, outDir string) error {
	var views []*sfView
	pkgs := map[string]*sfPkg{}
	for _, name := range statePkgs {
		p, err := loadStatePkg(repo, name)
		if err != nil {
			return err
		}
		if err := p.collect(); err != nil {
			return err
		}
		pkgs[name] = p
		byName := map[string]*sfView{}
		var order []string
		for _, f := range p.files {
			for _, d := range f.Decls {
				g, ok := d.(*ast.GenDecl)
				if !ok || g.Tok != token.TYPE {
					continue
				}
				for _, s := range g.Specs {
					ts := s.(*ast.TypeSpec)
					if embedsContainerView(ts) {
						v := &sfView{pkg: name, name: ts.Name.Name, file: filepath.Base(cfgFset.Position(ts.Pos()).Filename)}
						base := strings.TrimSuffix(ts.Name.Name, "View")
						if fs, ok := p.ctypes[base+"Type"]; ok {
							v.container = p.cnames[base+"Type"]
							v.fields = fs
						}
						byName[ts.Name.Name] = v
						order = append(order, ts.Name.Name)
					}
				}
			}
		}
		for _, f := range p.files {
			for _, d := range f.Decls {
				fd, ok := d.(*ast.FuncDecl)
				if !ok || fd.Recv == nil {
					continue
				}
				rt := strings.TrimPrefix(exprStr(fd.Recv.List[0].Type), "*")
				v, ok := byName[rt]
				if !ok {
					continue
				}
				acc, err := p.methodAccesses(fd)
				if err != nil {
					return err
				}
				v.methods = append(v.methods, sfMethod{fd.Name.Name, acc})
			}
		}
		sort.Strings(order)
		for _, n := range order {
			v := byName[n]
			sort.Slice(v.methods, func(i, j int) bool { return v.methods[i].name < v.methods[j].name })
			// the iota block this view indexes with: the block containing the constants its methods use
			used := map[string]bool{}
			for _, m := range v.methods {
				for _, a := range m.acc {
					if _, isConst := p.consts[a.idxExpr]; isConst {
						used[a.idxExpr] = true
					}
				}
			}
			for _, b := range p.blocks {
				hit := false
				for _, c := range b {
					if used[c.a] {
						hit = true
					}
				}
				if hit {
					if v.consts != nil {
						return fmt.Errorf("%s.%s indexes with constants of two different iota blocks", name, n)
					}
					v.consts = b
				}
			}
			views = append(views, v)
		}
	}
	var sb strings.Builder
	sb.WriteString("/- GENERATED by /verif/go/cmd/extract (statefacts.go) from /repo's current source. Do not edit.\n")
	sb.WriteString("   Container views of eth2/beacon: field lists, index constants, positional accesses of every method. -/\n")
	sb.WriteString("set_option maxRecDepth 100000\n\nnamespace Zrnt.Gen.StateFacts\n\n")
	sb.WriteString("structure Access where\n  kind : String\n  indexExpr : String\n  index : Nat\n  wrap : String\n  deriving Repr, DecidableEq\n\n")
	sb.WriteString("structure Method where\n  name : String\n  accesses : List Access\n  deriving Repr, DecidableEq\n\n")
	sb.WriteString("structure View where\n  pkg : String\n  name : String\n  container : String\n  fields : List (String × String)\n  consts : List (String × Nat)\n  methods : List Method\n  deriving Repr, DecidableEq\n\n")
	nm, na, opaque := 0, 0, 0
	var names []string
	for _, v := range views {
		id := v.pkg + "_" + v.name
		names = append(names, id)
		if v.container == "" {
			opaque++
		}
		fmt.Fprintf(&sb, "/-- `%s.%s` (%s) -/\ndef %s : View := {\n  pkg := %s, name := %s, container := %s,\n  fields := [", v.pkg, v.name, v.file, id, leanStr(v.pkg), leanStr(v.name), leanStr(v.container))
		for i, f := range v.fields {
			if i > 0 {
				sb.WriteString(",")
			}
			fmt.Fprintf(&sb, "\n    (%s, %s)", leanStr(f.a), leanStr(f.b))
		}
		sb.WriteString("],\n  consts := [")
		for i, c := range v.consts {
			if i > 0 {
				sb.WriteString(", ")
			}
			fmt.Fprintf(&sb, "(%s, %s)", leanStr(c.a), c.b)
		}
		sb.WriteString("],\n  methods := [")
		first := true
		for _, m := range v.methods {
			if len(m.acc) == 0 {
				continue
			}
			nm++
			if !first {
				sb.WriteString(",")
			}
			first = false
			fmt.Fprintf(&sb, "\n    { name := %s, accesses := [", leanStr(m.name))
			for i, a := range m.acc {
				na++
				if i > 0 {
					sb.WriteString(", ")
				}
				fmt.Fprintf(&sb, "⟨%s, %s, %d, %s⟩", leanStr(a.kind), leanStr(a.idxExpr), a.idx, leanStr(a.wrap))
			}
			sb.WriteString("] }")
		}
		sb.WriteString("] }\n\n")
	}
	sb.WriteString("def views : List View := [" + strings.Join(names, ", ") + "]\n\n")
	// every method name of every view, including those without positional accesses (for completeness checks)
	sb.WriteString("/-- all methods declared on each view type (with or without positional accesses) -/\ndef allMethods : List (String × String × List String) := [")
	for i, v := range views {
		if i > 0 {
			sb.WriteString(",")
		}
		var ms []string
		for _, m := range v.methods {
			ms = append(ms, leanStr(m.name))
		}
		fmt.Fprintf(&sb, "\n  (%s, %s, [%s])", leanStr(v.pkg), leanStr(v.name), strings.Join(ms, ", "))
	}
	sb.WriteString("]\n\nend Zrnt.Gen.StateFacts\n")
	fmt.Printf("statefacts: %d container views (%d without a recognised ContainerType = opaque), %d accessing methods, %d positional accesses\n", len(views), opaque, nm, na)
	return writeIfChanged(filepath.Join(outDir, "StateFacts.lean"), sb.String())
}
