// lockfacts: lock / field-access / call-graph facts of the components documented as shared (C17).
//
// For ProtoForkChoice, PubkeyCache, CachedPubkey and every pool struct of eth2/pool (role "shared"), and for
// the implementation types reached through interface fields (ProtoArray, ProtoVoteStore; role "impl"), per method:
//
//   - the critical sections on the receiver's own lock (mode, how released, acquired while already held?),
//     found by an abstract interpretation of the statement tree that tracks the lock state along every path
//     and FAILS when two paths join in different lock states;
//   - every access `recv.field` with read/write, depth of the write (0 whole field, 1 content, 2 through an
//     element or a derived local) and the lock state at that point;
//   - every call `recv.m(..)` (via self), `recv.<field of own type>.m(..)` (via parent), `fresh.m(..)` where
//     `fresh := &T{..}` (via fresh) and `recv.<interface field>.m(..)` (via impl) with the lock state;
//   - every returned alias of receiver memory (whole reference field, element, address).
//
// The analysis is syntactic (go/ast only): `recv.x` is resolved against the struct declaration and the method
// set declared in the package directory. Shapes outside what is understood make the extractor fail (exit 1).
// Closure (transitive accesses, reachability under the lock, purity of impl methods) is NOT computed here:
// it is computed in Lean (Zrnt/Conc/LockCheck.lean) over these direct facts.
//
// Output: <outDir>/LockFacts.lean (data only), <outDir>/LockFactsOk.lean (one `decide` obligation per
// shared method + lift), <outDir>/LockFacts.json (same facts + source lines, for the replay driver).
package main

import (
	"encoding/json"
	"fmt"
	"go/ast"
	"go/parser"
	"go/token"
	"os"
	"path/filepath"
	"sort"
	"strings"
)

func init() { register("lockfacts", runLockFacts) }

type lfTarget struct {
	dir   string            // package directory relative to repo
	name  string            // struct type name ("" = discover all structs with a mutex / named *Pool)
	role  string            // shared | impl
	impls map[string]string // interface-typed field -> "dir:Type" of the implementation analysed for it
}

var lfTargets = []lfTarget{
	{dir: "eth2/forkchoice", name: "ProtoForkChoice", role: "shared", impls: map[string]string{
		"protoArray": "eth2/forkchoice/proto:ProtoArray", "voteStore": "eth2/forkchoice/proto:ProtoVoteStore"}},
	{dir: "eth2/beacon/common", name: "PubkeyCache", role: "shared"},
	{dir: "eth2/beacon/common", name: "CachedPubkey", role: "shared"},
	{dir: "eth2/pool", name: "", role: "shared"},
	{dir: "eth2/forkchoice/proto", name: "ProtoArray", role: "impl"},
	{dir: "eth2/forkchoice/proto", name: "ProtoVoteStore", role: "impl"},
}

type lfField struct {
	Name       string `json:"name"`
	Kind       string `json:"kind"` // value ptr slice map iface func lock
	ElemShared bool   `json:"elem_shared"`
	ElemKind   string `json:"elem_kind"` // kind of the slice element / map value ("" when not a slice or map)
	SelfType   bool   `json:"self_type"` // pointer to the same struct type (parent link)
	Line       int    `json:"line"`
}
type lfAccess struct {
	Field int    `json:"field"` // index in fields; -1 = receiver state reached through a call result
	Write bool   `json:"write"`
	Depth int    `json:"depth"`
	Held  string `json:"held"` // n r w
	Line  int    `json:"line"`
}
type lfCall struct {
	Via    string `json:"via"`   // self parent fresh impl
	Field  int    `json:"field"` // for parent/impl: the field the call goes through, else -1
	Type   int    `json:"type"`  // index of the target type in the table
	Callee int    `json:"callee"`
	Name   string `json:"name"`
	Held   string `json:"held"`
	Ret    bool   `json:"ret"` // the call is a result expression of a return statement
	Line   int    `json:"line"`
}
type lfSection struct {
	Mode    string `json:"mode"`    // r w
	Release string `json:"release"` // deferred explicit leak
	Nested  bool   `json:"nested"`  // acquired while the same lock was already held by this call
	Line    int    `json:"line"`
}
type lfHandout struct {
	Kind   string `json:"kind"` // whole elem addr
	Field  int    `json:"field"`
	Escape bool   `json:"escape"` // not returned, but used by the method itself after the lock was released
	Line   int    `json:"line"`
}
type lfMethod struct {
	Name     string      `json:"name"`
	Exported bool        `json:"exported"`
	Sections []lfSection `json:"sections"`
	Acc      []lfAccess  `json:"acc"`
	Calls    []lfCall    `json:"calls"`
	Handouts []lfHandout `json:"handouts"`
	File     string      `json:"file"`
	Line     int         `json:"line"`
	EndLine  int         `json:"end_line"`
}
type lfType struct {
	Name      string     `json:"name"`
	Pkg       string     `json:"pkg"`
	Role      string     `json:"role"`
	Lock      string     `json:"lock"` // none mutex rw
	LockField string     `json:"lock_field"`
	Fields    []lfField  `json:"fields"`
	Methods   []lfMethod `json:"methods"`
	Ctors     []string   `json:"ctors"`
}

// ---- package loading -----------------------------------------------------------------------------------

type lfPkg struct {
	fset  *token.FileSet
	files map[string]*ast.File
	types map[string]*ast.TypeSpec
	funcs []*ast.FuncDecl
	fname map[*ast.FuncDecl]string
}

func lfLoad(repo, dir string) (*lfPkg, error) {
	p := &lfPkg{fset: token.NewFileSet(), files: map[string]*ast.File{}, types: map[string]*ast.TypeSpec{}, fname: map[*ast.FuncDecl]string{}}
	ents, err := os.ReadDir(filepath.Join(repo, dir))
	if err != nil {
		return nil, err
	}
	for _, e := range ents {
		n := e.Name()
		if e.IsDir() || !strings.HasSuffix(n, ".go") || strings.HasSuffix(n, "_test.go") {
			continue
		}
		src, err := os.ReadFile(filepath.Join(repo, dir, n))
		if err != nil {
			return nil, err
		}
		// files behind the `verif` build tag are add-only read-only exports for the harness; not part of the component
		if strings.HasPrefix(string(src), "//go:build verif") {
			continue
		}
		f, err := parser.ParseFile(p.fset, filepath.Join(dir, n), src, parser.SkipObjectResolution)
		if err != nil {
			return nil, err
		}
		p.files[n] = f
		for _, d := range f.Decls {
			switch d := d.(type) {
			case *ast.GenDecl:
				for _, s := range d.Specs {
					if ts, ok := s.(*ast.TypeSpec); ok {
						p.types[ts.Name.Name] = ts
					}
				}
			case *ast.FuncDecl:
				p.funcs = append(p.funcs, d)
				p.fname[d] = filepath.Join(dir, n)
			}
		}
	}
	return p, nil
}

func recvTypeName(fd *ast.FuncDecl) (typ string, recv string, ptr bool) {
	if fd.Recv == nil || len(fd.Recv.List) != 1 {
		return "", "", false
	}
	t := fd.Recv.List[0].Type
	if s, ok := t.(*ast.StarExpr); ok {
		t, ptr = s.X, true
	}
	id, ok := t.(*ast.Ident)
	if !ok {
		return "", "", false
	}
	if len(fd.Recv.List[0].Names) == 1 {
		recv = fd.Recv.List[0].Names[0].Name
	}
	return id.Name, recv, ptr
}

func isSyncType(e ast.Expr, name string) bool {
	s, ok := e.(*ast.SelectorExpr)
	if !ok {
		return false
	}
	x, ok := s.X.(*ast.Ident)
	return ok && x.Name == "sync" && s.Sel.Name == name
}

// kindOf classifies a field type expression, resolving named types declared in the same package.
func (p *lfPkg) kindOf(e ast.Expr, depth int) string {
	switch t := e.(type) {
	case *ast.StarExpr:
		return "ptr"
	case *ast.ArrayType:
		if t.Len == nil {
			return "slice"
		}
		return "value"
	case *ast.MapType:
		return "map"
	case *ast.InterfaceType:
		return "iface"
	case *ast.FuncType:
		return "func"
	case *ast.ChanType:
		return "chan"
	case *ast.StructType:
		return "value"
	case *ast.Ident:
		if ts, ok := p.types[t.Name]; ok && depth < 8 {
			return p.kindOf(ts.Type, depth+1)
		}
		return "value" // builtin or dot-imported / aliased value type
	case *ast.SelectorExpr:
		return "value" // type of another package: treated as a value unless listed in impls (checked by caller)
	}
	return "?"
}

func (p *lfPkg) underlying(e ast.Expr) ast.Expr {
	for i := 0; i < 8; i++ {
		id, ok := e.(*ast.Ident)
		if !ok {
			return e
		}
		ts, ok := p.types[id.Name]
		if !ok {
			return e
		}
		e = ts.Type
	}
	return e
}

// ---- per-method abstract interpretation ----------------------------------------------------------------

type lfState struct {
	held     string // n r w
	deferred bool
	sec      int // index of the open section, -1
	dead     bool
}

type lfAn struct {
	pkg       *lfPkg
	t         *lfType
	tIndex    int
	all       []*lfType
	typeIdx   map[string]int // "dir:Type" -> index
	impls     map[string]string
	dir       string
	recv      string
	m         *lfMethod
	methods   map[string]int // method name -> index (this type)
	fieldIdx  map[string]int
	derived   map[string]int         // local -> field index it was derived from (-1 unknown receiver state)
	taint     map[string][]lfHandout // local -> aliases of receiver memory it holds
	taintHeld map[string]string      // lock state when the local received its aliases
	fresh     map[string]bool        // locals bound to &T{..}
	shared    map[string]bool        // names of shared types
	closure   int
	err       error
}

func (a *lfAn) failf(n ast.Node, format string, args ...interface{}) {
	if a.err == nil {
		pos := a.pkg.fset.Position(n.Pos())
		a.err = fmt.Errorf("%s:%d: %s.%s: %s", pos.Filename, pos.Line, a.t.Name, a.m.Name, fmt.Sprintf(format, args...))
	}
}
func (a *lfAn) line(n ast.Node) int { return a.pkg.fset.Position(n.Pos()).Line }

func (a *lfAn) isRecv(e ast.Expr) bool {
	id, ok := e.(*ast.Ident)
	return ok && a.recv != "" && id.Name == a.recv
}

func (a *lfAn) mentionsRecv(n ast.Node) bool {
	found := false
	ast.Inspect(n, func(x ast.Node) bool {
		if id, ok := x.(*ast.Ident); ok && id.Name == a.recv && a.recv != "" {
			found = true
		}
		return !found
	})
	return found
}

// lockOp recognises recv.<lockField>.Lock() / recv.Lock() (embedded) etc. Returns "" when e is no lock call.
func (a *lfAn) lockOp(call *ast.CallExpr) string {
	sel, ok := call.Fun.(*ast.SelectorExpr)
	if !ok {
		return ""
	}
	name := sel.Sel.Name
	isLockName := name == "Lock" || name == "Unlock" || name == "RLock" || name == "RUnlock" || name == "TryLock" || name == "TryRLock" || name == "RLocker"
	if a.t.Lock == "none" {
		return ""
	}
	onLock := false
	if a.t.LockField == "" { // embedded
		if a.isRecv(sel.X) {
			if _, own := a.methods[name]; !own && isLockName {
				onLock = true
			}
		}
		if s2, ok := sel.X.(*ast.SelectorExpr); ok && a.isRecv(s2.X) && (s2.Sel.Name == "Mutex" || s2.Sel.Name == "RWMutex") {
			onLock = true
		}
	} else if s2, ok := sel.X.(*ast.SelectorExpr); ok && a.isRecv(s2.X) && s2.Sel.Name == a.t.LockField {
		onLock = true
	}
	if !onLock {
		return ""
	}
	if !isLockName || name == "TryLock" || name == "TryRLock" || name == "RLocker" {
		a.failf(call, "unsupported operation %s on the lock", name)
		return ""
	}
	if len(call.Args) != 0 {
		a.failf(call, "lock operation with arguments")
	}
	return name
}

func (a *lfAn) doLock(op string, n ast.Node, st *lfState, deferredCall bool) {
	switch op {
	case "Lock", "RLock":
		if deferredCall {
			a.failf(n, "deferred acquire")
			return
		}
		if op == "RLock" && a.t.Lock != "rw" {
			a.failf(n, "RLock on a plain mutex")
			return
		}
		mode := "w"
		if op == "RLock" {
			mode = "r"
		}
		a.m.Sections = append(a.m.Sections, lfSection{Mode: mode, Release: "leak", Nested: st.held != "n", Line: a.line(n)})
		st.sec = len(a.m.Sections) - 1
		st.held = mode
		st.deferred = false
	case "Unlock", "RUnlock":
		want := "w"
		if op == "RUnlock" {
			want = "r"
		}
		if st.held != want || st.sec < 0 {
			a.failf(n, "%s while lock state is %q", op, st.held)
			return
		}
		if deferredCall {
			if st.deferred {
				a.failf(n, "second deferred release")
			}
			st.deferred = true
			a.m.Sections[st.sec].Release = "deferred"
			return
		}
		if st.deferred {
			a.failf(n, "explicit release after a deferred one")
			return
		}
		if a.m.Sections[st.sec].Release != "deferred" {
			a.m.Sections[st.sec].Release = "explicit"
		}
		st.held = "n"
		st.sec = -1
	}
}

func (a *lfAn) access(field int, write bool, depth int, st *lfState, n ast.Node) {
	a.m.Acc = append(a.m.Acc, lfAccess{Field: field, Write: write, Depth: depth, Held: st.held, Line: a.line(n)})
}

// rootOf walks down selector/index/star/paren/slice chains. Returns (field index, depth, ok) when the chain
// is rooted at recv.<field>, or (derived field, 2, ok) when rooted at a derived local.
func (a *lfAn) rootOf(e ast.Expr) (field int, depth int, kind string) {
	depth = 0
	for {
		switch x := e.(type) {
		case *ast.ParenExpr:
			e = x.X
			continue
		case *ast.StarExpr:
			e = x.X
			depth++
			continue
		case *ast.IndexExpr:
			e = x.X
			depth++
			continue
		case *ast.SliceExpr:
			e = x.X
			continue
		case *ast.SelectorExpr:
			if a.isRecv(x.X) {
				if fi, ok := a.fieldIdx[x.Sel.Name]; ok {
					return fi, depth, "field"
				}
				return -1, depth, "nonfield"
			}
			e = x.X
			depth++
			continue
		case *ast.Ident:
			if a.isRecv(x) {
				return -1, depth, "recv"
			}
			if f, ok := a.derived[x.Name]; ok {
				return f, 2, "derived"
			}
			return -1, depth, "local"
		default:
			return -1, depth, "other"
		}
	}
}

// expr records the reads / calls / lock operations inside an expression evaluated in state st.
func (a *lfAn) expr(e ast.Expr, st *lfState) {
	if e == nil || a.err != nil {
		return
	}
	switch x := e.(type) {
	case *ast.FuncLit:
		if a.mentionsRecv(x) && a.t.Role == "shared" {
			a.failf(x, "closure referring to the receiver")
			return
		}
		// the body is analysed in place, as if called where it is defined, in the current lock state
		// (over-approximates the writes of impl methods; closures of shared methods cannot touch the receiver)
		a.closure++
		inner := a.block(x.Body.List, *st)
		_ = inner
		a.closure--
		return
	case *ast.CallExpr:
		a.call(x, st)
		return
	case *ast.SelectorExpr:
		if a.isRecv(x.X) {
			if fi, ok := a.fieldIdx[x.Sel.Name]; ok {
				if a.t.Fields[fi].Kind != "lock" {
					a.access(fi, false, 0, st, x)
				}
				return
			}
			if _, ok := a.methods[x.Sel.Name]; ok {
				a.failf(x, "method value %s taken", x.Sel.Name)
				return
			}
			a.failf(x, "recv.%s is neither a declared field nor a method of %s", x.Sel.Name, a.t.Name)
			return
		}
		a.expr(x.X, st)
		return
	case *ast.UnaryExpr:
		a.expr(x.X, st)
		return
	case *ast.BinaryExpr:
		a.expr(x.X, st)
		a.expr(x.Y, st)
	case *ast.ParenExpr:
		a.expr(x.X, st)
	case *ast.StarExpr:
		a.expr(x.X, st)
	case *ast.IndexExpr:
		a.expr(x.X, st)
		a.expr(x.Index, st)
	case *ast.SliceExpr:
		a.expr(x.X, st)
		a.expr(x.Low, st)
		a.expr(x.High, st)
		a.expr(x.Max, st)
	case *ast.TypeAssertExpr:
		a.expr(x.X, st)
	case *ast.KeyValueExpr:
		a.expr(x.Value, st)
	case *ast.CompositeLit:
		for _, el := range x.Elts {
			a.expr(el, st)
		}
	case *ast.Ident:
		// an alias of guarded memory obtained inside a critical section and used after the lock was released
		// escapes the section: an unsynchronised hand-out to the method's own later code
		if hs := a.taint[x.Name]; len(hs) > 0 && st.held == "n" && a.taintHeld[x.Name] != "n" && a.taintHeld[x.Name] != "" {
			for _, h := range hs {
				h.Line = a.line(x)
				h.Escape = true
				a.m.Handouts = append(a.m.Handouts, h)
			}
		}
	case *ast.BasicLit:
	case *ast.ArrayType, *ast.MapType, *ast.FuncType, *ast.InterfaceType, *ast.StructType, *ast.ChanType:
	default:
		a.failf(e, "unsupported expression %T", e)
	}
}

func (a *lfAn) call(c *ast.CallExpr, st *lfState) {
	if op := a.lockOp(c); op != "" {
		a.doLock(op, c, st, false)
		return
	}
	if a.err != nil {
		return
	}
	// builtins that write through their first argument
	if id, ok := c.Fun.(*ast.Ident); ok && (id.Name == "delete" || id.Name == "clear" || id.Name == "copy") && len(c.Args) > 0 {
		f, d, kind := a.rootOf(c.Args[0])
		if kind == "field" || kind == "derived" {
			a.access(f, true, d+1, st, c)
			for _, arg := range c.Args[1:] {
				a.expr(arg, st)
			}
			// index expressions inside the first argument
			a.subIndexReads(c.Args[0], st)
			return
		}
	}
	if sel, ok := c.Fun.(*ast.SelectorExpr); ok {
		// recv.m(...)
		if a.isRecv(sel.X) {
			if mi, ok := a.methods[sel.Sel.Name]; ok {
				a.m.Calls = append(a.m.Calls, lfCall{Via: "self", Field: -1, Type: a.tIndex, Callee: mi, Name: sel.Sel.Name, Held: st.held, Line: a.line(c)})
				for _, arg := range c.Args {
					a.expr(arg, st)
				}
				return
			}
			if fi, ok := a.fieldIdx[sel.Sel.Name]; ok && a.t.Fields[fi].Kind == "func" {
				a.access(fi, false, 0, st, sel)
				for _, arg := range c.Args {
					a.expr(arg, st)
				}
				return
			}
			a.failf(c, "call of recv.%s which is not a method declared on %s in this package", sel.Sel.Name, a.t.Name)
			return
		}
		// recv.field.m(...)
		if s2, ok := sel.X.(*ast.SelectorExpr); ok && a.isRecv(s2.X) {
			if fi, ok := a.fieldIdx[s2.Sel.Name]; ok {
				fld := a.t.Fields[fi]
				if impl, ok := a.impls[fld.Name]; ok {
					ti, ok := a.typeIdx[impl]
					if !ok {
						a.failf(c, "implementation %s not in the table", impl)
						return
					}
					mi := -1
					for i, mm := range a.all[ti].Methods {
						if mm.Name == sel.Sel.Name {
							mi = i
						}
					}
					if mi < 0 {
						a.failf(c, "%s has no method %s", impl, sel.Sel.Name)
						return
					}
					a.access(fi, false, 0, st, s2)
					a.m.Calls = append(a.m.Calls, lfCall{Via: "impl", Field: fi, Type: ti, Callee: mi, Name: sel.Sel.Name, Held: st.held, Line: a.line(c)})
					for _, arg := range c.Args {
						a.expr(arg, st)
					}
					return
				}
				if fld.SelfType {
					mi, ok := a.methods[sel.Sel.Name]
					if !ok {
						a.failf(c, "recv.%s.%s: unknown method", fld.Name, sel.Sel.Name)
						return
					}
					a.access(fi, false, 0, st, s2)
					a.m.Calls = append(a.m.Calls, lfCall{Via: "parent", Field: fi, Type: a.tIndex, Callee: mi, Name: sel.Sel.Name, Held: st.held, Line: a.line(c)})
					for _, arg := range c.Args {
						a.expr(arg, st)
					}
					return
				}
				if fld.Kind == "iface" && a.t.Role == "impl" {
					// a callback interface of an implementation type (ProtoArray.sink): user code called while the
					// wrapper's lock is held; it is outside the table (a sink calling back into the wrapper is the
					// caller's responsibility) — recorded as a read of the field
					a.access(fi, false, 0, st, s2)
					for _, arg := range c.Args {
						a.expr(arg, st)
					}
					return
				}
				if fld.Kind == "iface" {
					a.failf(c, "call through interface field %s without a configured implementation", fld.Name)
					return
				}
				// method of a value held in a field (spec, Compressed, ...): a read of the field; the callee is
				// outside the table. Allowed only for fields that no method writes (checked after all methods are in).
				a.access(fi, false, 0, st, s2)
				a.m.Acc[len(a.m.Acc)-1].Depth = 9 // marks "opaque method call on this field"
				for _, arg := range c.Args {
					a.expr(arg, st)
				}
				return
			}
		}
		// fresh.m(...)
		if id, ok := sel.X.(*ast.Ident); ok && a.fresh[id.Name] {
			mi, ok := a.methods[sel.Sel.Name]
			if !ok {
				a.failf(c, "%s.%s: unknown method on fresh object", id.Name, sel.Sel.Name)
				return
			}
			a.m.Calls = append(a.m.Calls, lfCall{Via: "fresh", Field: -1, Type: a.tIndex, Callee: mi, Name: sel.Sel.Name, Held: st.held, Line: a.line(c)})
			for _, arg := range c.Args {
				a.expr(arg, st)
			}
			return
		}
	}
	// receiver passed to some function: we cannot see what it does with it
	for _, arg := range c.Args {
		if a.isRecv(arg) {
			a.failf(c, "receiver passed as an argument")
			return
		}
	}
	a.expr(c.Fun, st)
	for _, arg := range c.Args {
		a.expr(arg, st)
	}
}

// subIndexReads records reads in index sub-expressions of an lvalue chain (recv.f[recv.g] = ...).
func (a *lfAn) subIndexReads(e ast.Expr, st *lfState) {
	for {
		switch x := e.(type) {
		case *ast.ParenExpr:
			e = x.X
		case *ast.StarExpr:
			e = x.X
		case *ast.IndexExpr:
			a.expr(x.Index, st)
			e = x.X
		case *ast.SliceExpr:
			a.expr(x.Low, st)
			a.expr(x.High, st)
			e = x.X
		case *ast.SelectorExpr:
			if a.isRecv(x.X) {
				return
			}
			e = x.X
		default:
			return
		}
	}
}

// aliasesOf: the aliases of receiver memory the expression denotes (what would be handed out if it were
// returned). Direct forms only: recv.f (reference kinds), recv.f[i], recv.f[a:b], &recv.f.., a tainted local,
// and append(..)/composite literals containing such values. A selector on a local drops the taint.
func (a *lfAn) aliasesOf(e ast.Expr) []lfHandout {
	switch x := e.(type) {
	case *ast.ParenExpr:
		return a.aliasesOf(x.X)
	case *ast.Ident:
		return a.taint[x.Name]
	case *ast.UnaryExpr:
		if x.Op == token.AND {
			if cl, ok := x.X.(*ast.CompositeLit); ok {
				return a.aliasesOf(cl)
			}
			f, _, kind := a.rootOf(x.X)
			if kind == "field" {
				return []lfHandout{{Kind: "addr", Field: f, Line: a.line(e)}}
			}
		}
	case *ast.SelectorExpr:
		if a.isRecv(x.X) {
			if fi, ok := a.fieldIdx[x.Sel.Name]; ok {
				switch a.t.Fields[fi].Kind {
				case "ptr", "slice", "map", "iface":
					return []lfHandout{{Kind: "whole", Field: fi, Line: a.line(e)}}
				}
			}
		}
	case *ast.SliceExpr:
		if s, ok := x.X.(*ast.SelectorExpr); ok && a.isRecv(s.X) {
			if fi, ok := a.fieldIdx[s.Sel.Name]; ok {
				return []lfHandout{{Kind: "whole", Field: fi, Line: a.line(e)}}
			}
		}
		return a.aliasesOf(x.X)
	case *ast.IndexExpr:
		if s, ok := x.X.(*ast.SelectorExpr); ok && a.isRecv(s.X) {
			if fi, ok := a.fieldIdx[s.Sel.Name]; ok {
				return []lfHandout{{Kind: "elem", Field: fi, Line: a.line(e)}}
			}
		}
		return a.aliasesOf(x.X) // an element of a tainted local collection
	case *ast.CompositeLit:
		var out []lfHandout
		for _, el := range x.Elts {
			if kv, ok := el.(*ast.KeyValueExpr); ok {
				out = append(out, a.aliasesOf(kv.Value)...)
			} else {
				out = append(out, a.aliasesOf(el)...)
			}
		}
		return out
	case *ast.CallExpr:
		if id, ok := x.Fun.(*ast.Ident); ok && id.Name == "append" {
			var out []lfHandout
			for _, arg := range x.Args {
				out = append(out, a.aliasesOf(arg)...)
			}
			return out
		}
	}
	return nil
}

func dedupHandouts(hs []lfHandout) []lfHandout {
	seen := map[[2]interface{}]bool{}
	var out []lfHandout
	for _, h := range hs {
		k := [2]interface{}{h.Kind, h.Field}
		if !seen[k] {
			seen[k] = true
			out = append(out, h)
		}
	}
	return out
}

func (a *lfAn) assign(lhs []ast.Expr, rhs []ast.Expr, tok token.Token, st *lfState, n ast.Node) {
	for _, r := range rhs {
		a.expr(r, st)
	}
	for i, l := range lhs {
		if id, ok := l.(*ast.Ident); ok {
			if a.isRecv(id) {
				a.failf(n, "assignment to the receiver variable")
				return
			}
			// local (re)binding: track derivation, aliasing, freshness
			var r ast.Expr
			if len(rhs) == len(lhs) {
				r = rhs[i]
			} else if len(rhs) == 1 {
				r = rhs[0]
			}
			if id.Name == "_" || r == nil {
				continue
			}
			delete(a.fresh, id.Name)
			if a.isFreshLit(r) {
				a.fresh[id.Name] = true
			}
			if a.mentionsRecv(r) || a.mentionsDerived(r) {
				f := a.firstField(r)
				if old, ok := a.derived[id.Name]; ok && old != f && tok != token.DEFINE {
					f = -1
				}
				a.derived[id.Name] = f
			} else if tok == token.DEFINE {
				delete(a.derived, id.Name)
			}
			if hs := dedupHandouts(a.aliasesOf(r)); len(hs) > 0 && (i == 0 || len(rhs) == len(lhs)) {
				a.taint[id.Name] = hs
				if old, ok := a.taintHeld[id.Name]; !ok || old == "n" || tok == token.DEFINE {
					a.taintHeld[id.Name] = st.held
				}
			} else if tok == token.DEFINE || tok == token.ASSIGN {
				delete(a.taint, id.Name)
				delete(a.taintHeld, id.Name)
			}
			continue
		}
		f, d, kind := a.rootOf(l)
		switch kind {
		case "field":
			if a.t.Fields[f].Kind == "lock" {
				a.failf(n, "the lock itself is assigned")
				return
			}
			a.access(f, true, d, st, l)
			a.subIndexReads(l, st)
			if tok != token.ASSIGN && tok != token.DEFINE { // += etc. also read
				a.access(f, false, d, st, l)
			}
		case "derived":
			a.access(f, true, 2, st, l)
			a.subIndexReads(l, st)
		case "local":
			a.subIndexReads(l, st)
		case "nonfield":
			a.failf(n, "assignment to recv.<non-field>")
		case "recv":
			a.failf(n, "assignment through the receiver itself")
		default:
			a.failf(n, "unsupported assignment target %T", l)
		}
	}
}

func (a *lfAn) isFreshLit(e ast.Expr) bool {
	if u, ok := e.(*ast.UnaryExpr); ok && u.Op == token.AND {
		e = u.X
	}
	cl, ok := e.(*ast.CompositeLit)
	if !ok {
		return false
	}
	id, ok := cl.Type.(*ast.Ident)
	return ok && id.Name == a.t.Name
}

func (a *lfAn) mentionsDerived(n ast.Node) bool {
	found := false
	ast.Inspect(n, func(x ast.Node) bool {
		if id, ok := x.(*ast.Ident); ok {
			if _, ok := a.derived[id.Name]; ok {
				found = true
			}
		}
		return !found
	})
	return found
}

func (a *lfAn) firstField(n ast.Node) int {
	res := -1
	done := false
	ast.Inspect(n, func(x ast.Node) bool {
		if done {
			return false
		}
		if s, ok := x.(*ast.SelectorExpr); ok && a.isRecv(s.X) {
			if fi, ok := a.fieldIdx[s.Sel.Name]; ok {
				res, done = fi, true
				return false
			}
		}
		if id, ok := x.(*ast.Ident); ok {
			if f, ok := a.derived[id.Name]; ok {
				res, done = f, true
				return false
			}
		}
		return true
	})
	return res
}

func joinStates(a *lfAn, n ast.Node, ss ...lfState) lfState {
	var live []lfState
	for _, s := range ss {
		if !s.dead {
			live = append(live, s)
		}
	}
	if len(live) == 0 {
		return lfState{held: "n", sec: -1, dead: true}
	}
	for _, s := range live[1:] {
		if s.held != live[0].held || s.deferred != live[0].deferred || s.sec != live[0].sec {
			a.failf(n, "paths join in different lock states (%s/%v vs %s/%v)", live[0].held, live[0].deferred, s.held, s.deferred)
		}
	}
	return live[0]
}

func (a *lfAn) atExit(st *lfState, n ast.Node) {
	if st.held != "n" && !st.deferred && st.sec >= 0 {
		a.m.Sections[st.sec].Release = "leak"
	}
	st.dead = true
}

func (a *lfAn) block(list []ast.Stmt, st lfState) lfState {
	for _, s := range list {
		if st.dead || a.err != nil {
			break
		}
		st = a.stmt(s, st)
	}
	return st
}

func (a *lfAn) stmt(s ast.Stmt, st lfState) lfState {
	if a.err != nil {
		return st
	}
	switch x := s.(type) {
	case nil:
	case *ast.EmptyStmt:
	case *ast.ExprStmt:
		a.expr(x.X, &st)
		if c, ok := x.X.(*ast.CallExpr); ok {
			if id, ok := c.Fun.(*ast.Ident); ok && id.Name == "panic" {
				st.dead = true
			}
		}
	case *ast.AssignStmt:
		a.assign(x.Lhs, x.Rhs, x.Tok, &st, x)
	case *ast.IncDecStmt:
		a.assign([]ast.Expr{x.X}, nil, token.ADD_ASSIGN, &st, x)
	case *ast.DeclStmt:
		gd, ok := x.Decl.(*ast.GenDecl)
		if !ok {
			a.failf(x, "unsupported declaration")
			break
		}
		for _, sp := range gd.Specs {
			if vs, ok := sp.(*ast.ValueSpec); ok {
				var lhs []ast.Expr
				for _, nm := range vs.Names {
					lhs = append(lhs, nm)
				}
				if len(vs.Values) > 0 {
					a.assign(lhs, vs.Values, token.DEFINE, &st, x)
				}
			}
		}
	case *ast.DeferStmt:
		if op := a.lockOp(x.Call); op != "" {
			a.doLock(op, x, &st, true)
		} else if a.mentionsRecv(x.Call) {
			a.failf(x, "deferred call referring to the receiver")
		}
	case *ast.GoStmt:
		if a.mentionsRecv(x.Call) {
			a.failf(x, "go statement referring to the receiver")
		}
	case *ast.ReturnStmt:
		if a.closure > 0 {
			for _, r := range x.Results {
				a.expr(r, &st)
			}
			st.dead = true
			break
		}
		for _, r := range x.Results {
			before := len(a.m.Calls)
			a.expr(r, &st)
			if _, isCall := r.(*ast.CallExpr); isCall && len(a.m.Calls) > before && a.m.Calls[before].Via == "self" {
				a.m.Calls[before].Ret = true
			}
			for _, h := range a.aliasesOf(r) {
				h.Line = a.line(r)
				h.Escape = false
				a.m.Handouts = append(a.m.Handouts, h)
			}
		}
		a.atExit(&st, x)
	case *ast.BlockStmt:
		st = a.block(x.List, st)
	case *ast.IfStmt:
		st = a.stmt(x.Init, st)
		a.expr(x.Cond, &st)
		thenS := a.block(x.Body.List, st)
		elseS := st
		if x.Else != nil {
			elseS = a.stmt(x.Else, st)
		}
		st = joinStates(a, x, thenS, elseS)
	case *ast.ForStmt:
		st = a.stmt(x.Init, st)
		a.expr(x.Cond, &st)
		body := a.block(x.Body.List, st)
		if !body.dead {
			body = a.stmt(x.Post, body)
		}
		st = joinStates(a, x, st, body)
		st.dead = false
	case *ast.RangeStmt:
		a.expr(x.X, &st)
		f, _, kind := a.rootOf(x.X)
		for _, kv := range []ast.Expr{x.Key, x.Value} {
			if id, ok := kv.(*ast.Ident); ok && id.Name != "_" {
				delete(a.taint, id.Name)
				delete(a.taintHeld, id.Name)
				delete(a.derived, id.Name)
				if kind == "field" || kind == "derived" {
					a.derived[id.Name] = f
					if kind == "field" && kv == x.Value {
						a.taint[id.Name] = []lfHandout{{Kind: "elem", Field: f, Line: a.line(x)}}
						a.taintHeld[id.Name] = st.held
					}
				}
				if kind == "local" || kind == "derived" {
					// ranging over a tainted local collection: the element carries the collection's aliases
					if rid, ok := x.X.(*ast.Ident); ok && kv == x.Value && len(a.taint[rid.Name]) > 0 {
						a.taint[id.Name] = a.taint[rid.Name]
						a.taintHeld[id.Name] = a.taintHeld[rid.Name]
					}
				}
			} else if kv != nil && !ok {
				a.failf(x, "range into a non-identifier")
			}
		}
		body := a.block(x.Body.List, st)
		st = joinStates(a, x, st, body)
		st.dead = false
	case *ast.SwitchStmt:
		st = a.stmt(x.Init, st)
		a.expr(x.Tag, &st)
		st = a.clauses(x.Body, st, x)
	case *ast.TypeSwitchStmt:
		st = a.stmt(x.Init, st)
		st = a.stmt(x.Assign, st)
		st = a.clauses(x.Body, st, x)
	case *ast.BranchStmt:
		// break/continue keep the lock state of the loop entry as long as the body is lock-balanced, which
		// the loop join checks; goto is not understood
		if x.Tok == token.GOTO || x.Tok == token.FALLTHROUGH {
			a.failf(x, "goto/fallthrough")
		}
		if st.sec >= 0 && a.m.Sections[st.sec].Release == "explicit" {
			a.failf(x, "break/continue inside an explicitly released section")
		}
	case *ast.LabeledStmt:
		st = a.stmt(x.Stmt, st)
	case *ast.SendStmt:
		a.expr(x.Chan, &st)
		a.expr(x.Value, &st)
	case *ast.SelectStmt:
		if a.mentionsRecv(x) {
			a.failf(x, "select referring to the receiver")
		}
	default:
		a.failf(s, "unsupported statement %T", s)
	}
	return st
}

func (a *lfAn) clauses(body *ast.BlockStmt, st lfState, n ast.Node) lfState {
	outs := []lfState{}
	hasDefault := false
	for _, c := range body.List {
		cc, ok := c.(*ast.CaseClause)
		if !ok {
			a.failf(c, "unsupported clause")
			continue
		}
		if cc.List == nil {
			hasDefault = true
		}
		for _, e := range cc.List {
			a.expr(e, &st)
		}
		outs = append(outs, a.block(cc.Body, st))
	}
	if !hasDefault {
		outs = append(outs, st)
	}
	return joinStates(a, n, outs...)
}

// ---- driver --------------------------------------------------------------------------------------------

func runLockFacts(repo, outDir string) error {
	pkgs := map[string]*lfPkg{}
	load := func(dir string) (*lfPkg, error) {
		if p, ok := pkgs[dir]; ok {
			return p, nil
		}
		p, err := lfLoad(repo, dir)
		if err == nil {
			pkgs[dir] = p
		}
		return p, err
	}
	type job struct {
		tgt lfTarget
		ts  *ast.TypeSpec
		pkg *lfPkg
	}
	var jobs []job
	for _, tg := range lfTargets {
		p, err := load(tg.dir)
		if err != nil {
			return err
		}
		if tg.name != "" {
			ts, ok := p.types[tg.name]
			if !ok {
				return fmt.Errorf("type %s not found in %s", tg.name, tg.dir)
			}
			jobs = append(jobs, job{tg, ts, p})
			continue
		}
		var names []string
		for n, ts := range p.types {
			stt, ok := ts.Type.(*ast.StructType)
			if !ok {
				continue
			}
			hasLock := false
			for _, f := range stt.Fields.List {
				if isSyncType(f.Type, "Mutex") || isSyncType(f.Type, "RWMutex") {
					hasLock = true
				}
			}
			if hasLock || strings.HasSuffix(n, "Pool") {
				names = append(names, n)
			}
		}
		sort.Strings(names)
		if len(names) == 0 {
			return fmt.Errorf("no shared struct found in %s", tg.dir)
		}
		for _, n := range names {
			t2 := tg
			t2.name = n
			jobs = append(jobs, job{t2, p.types[n], p})
		}
	}
	shared := map[string]bool{}
	typeIdx := map[string]int{}
	var all []*lfType
	for i, j := range jobs {
		if j.tgt.role == "shared" {
			shared[j.tgt.name] = true
		}
		typeIdx[j.tgt.dir+":"+j.tgt.name] = i
	}
	// pass 1: fields, lock, method names
	fds := make([][]*ast.FuncDecl, len(jobs))
	for i, j := range jobs {
		stt, ok := j.ts.Type.(*ast.StructType)
		if !ok {
			return fmt.Errorf("%s is not a struct", j.tgt.name)
		}
		t := &lfType{Name: j.tgt.name, Pkg: j.tgt.dir, Role: j.tgt.role, Lock: "none"}
		for _, f := range stt.Fields.List {
			isMu, isRW := isSyncType(f.Type, "Mutex"), isSyncType(f.Type, "RWMutex")
			if star, ok := f.Type.(*ast.StarExpr); ok && (isSyncType(star.X, "Mutex") || isSyncType(star.X, "RWMutex")) {
				return fmt.Errorf("%s: lock held by pointer is not understood", t.Name)
			}
			if isMu || isRW {
				if t.Lock != "none" {
					return fmt.Errorf("%s: more than one lock", t.Name)
				}
				t.Lock = map[bool]string{true: "rw", false: "mutex"}[isRW]
				if len(f.Names) == 0 {
					t.LockField = ""
					t.Fields = append(t.Fields, lfField{Name: map[bool]string{true: "RWMutex", false: "Mutex"}[isRW], Kind: "lock", Line: j.pkg.fset.Position(f.Pos()).Line})
				} else {
					if len(f.Names) != 1 {
						return fmt.Errorf("%s: several locks in one declaration", t.Name)
					}
					t.LockField = f.Names[0].Name
					t.Fields = append(t.Fields, lfField{Name: f.Names[0].Name, Kind: "lock", Line: j.pkg.fset.Position(f.Pos()).Line})
				}
				continue
			}
			if len(f.Names) == 0 {
				return fmt.Errorf("%s: embedded non-lock field is not understood", t.Name)
			}
			kind := j.pkg.kindOf(f.Type, 0)
			if kind == "?" || kind == "chan" {
				return fmt.Errorf("%s: field type %T not understood", t.Name, f.Type)
			}
			elemShared, selfType := false, false
			var inner ast.Expr = f.Type
			if ar, ok := inner.(*ast.ArrayType); ok {
				inner = ar.Elt
			}
			if mp, ok := inner.(*ast.MapType); ok {
				inner = mp.Value
			}
			if st, ok := inner.(*ast.StarExpr); ok {
				if id, ok := st.X.(*ast.Ident); ok {
					if id.Name == t.Name && inner == f.Type {
						selfType = true
					} else if shared[id.Name] {
						elemShared = true
					}
				}
			}
			elemKind := "value"
			if ar, ok := j.pkg.underlying(f.Type).(*ast.ArrayType); ok {
				elemKind = j.pkg.kindOf(ar.Elt, 0)
			} else if mp, ok := j.pkg.underlying(f.Type).(*ast.MapType); ok {
				elemKind = j.pkg.kindOf(mp.Value, 0)
			}
			for _, nm := range f.Names {
				k := kind
				if _, ok := j.tgt.impls[nm.Name]; ok {
					k = "iface"
				}
				t.Fields = append(t.Fields, lfField{Name: nm.Name, Kind: k, ElemKind: elemKind, ElemShared: elemShared, SelfType: selfType, Line: j.pkg.fset.Position(nm.Pos()).Line})
			}
		}
		for _, fd := range j.pkg.funcs {
			tn, _, _ := recvTypeName(fd)
			if tn == t.Name {
				fds[i] = append(fds[i], fd)
				t.Methods = append(t.Methods, lfMethod{Name: fd.Name.Name, Exported: fd.Name.IsExported()})
			} else if fd.Recv == nil && fd.Body != nil {
				isCtor := false
				ast.Inspect(fd.Body, func(n ast.Node) bool {
					if cl, ok := n.(*ast.CompositeLit); ok {
						if id, ok := cl.Type.(*ast.Ident); ok && id.Name == t.Name {
							isCtor = true
						}
					}
					return true
				})
				if isCtor {
					t.Ctors = append(t.Ctors, fd.Name.Name)
				}
			}
		}
		sort.Strings(t.Ctors)
		all = append(all, t)
	}
	// pass 2: method bodies
	for i, j := range jobs {
		t := all[i]
		methods := map[string]int{}
		for mi, m := range t.Methods {
			if _, dup := methods[m.Name]; dup {
				return fmt.Errorf("%s: duplicate method %s", t.Name, m.Name)
			}
			methods[m.Name] = mi
		}
		fieldIdx := map[string]int{}
		for fi, f := range t.Fields {
			fieldIdx[f.Name] = fi
		}
		for mi, fd := range fds[i] {
			_, recv, ptr := recvTypeName(fd)
			m := &t.Methods[mi]
			m.File = j.pkg.fname[fd]
			m.Line = j.pkg.fset.Position(fd.Pos()).Line
			m.EndLine = j.pkg.fset.Position(fd.End()).Line
			m.Sections, m.Acc, m.Calls, m.Handouts = []lfSection{}, []lfAccess{}, []lfCall{}, []lfHandout{}
			a := &lfAn{pkg: j.pkg, t: t, tIndex: i, all: all, typeIdx: typeIdx, impls: j.tgt.impls, dir: j.tgt.dir, recv: recv, m: m,
				methods: methods, fieldIdx: fieldIdx, derived: map[string]int{}, taint: map[string][]lfHandout{}, taintHeld: map[string]string{}, fresh: map[string]bool{}, shared: shared}
			if fd.Body == nil {
				return fmt.Errorf("%s.%s has no body", t.Name, m.Name)
			}
			if !ptr && t.Lock != "none" {
				return fmt.Errorf("%s.%s: value receiver on a type with a lock (copies the lock)", t.Name, m.Name)
			}
			st := a.block(fd.Body.List, lfState{held: "n", sec: -1})
			if a.err == nil && !st.dead {
				a.atExit(&st, fd.Body)
			}
			if a.err != nil {
				return a.err
			}
		}
	}
	// opaque method calls on fields (Depth 9) are only admissible on fields nobody writes; and impl coverage
	for _, t := range all {
		written := map[int]bool{}
		for _, m := range t.Methods {
			for _, ac := range m.Acc {
				if ac.Write {
					written[ac.Field] = true
				}
			}
		}
		for mi := range t.Methods {
			m := &t.Methods[mi]
			for ai := range m.Acc {
				if m.Acc[ai].Depth == 9 {
					f := t.Fields[m.Acc[ai].Field]
					if written[m.Acc[ai].Field] && (f.Kind == "ptr" || f.Kind == "map" || f.Kind == "slice" || f.Kind == "iface") {
						return fmt.Errorf("%s.%s line %d: method call on mutable reference field %s whose implementation is not in the table",
							t.Name, m.Name, m.Acc[ai].Line, f.Name)
					}
					m.Acc[ai].Depth = 0
				}
			}
		}
	}
	nShared, nMeth := 0, 0
	for _, t := range all {
		if t.Role == "shared" {
			nShared++
			nMeth += len(t.Methods)
		}
	}
	fmt.Printf("lockfacts: %d shared types, %d methods, %d impl types; opaque: 0 (unrecognised shapes fail the extractor)\n", nShared, nMeth, len(all)-nShared)

	if err := writeIfChanged(filepath.Join(outDir, "LockFacts.lean"), lfLean(all)); err != nil {
		return err
	}
	if err := writeIfChanged(filepath.Join(outDir, "LockFactsOk.lean"), lfLeanOk(all)); err != nil {
		return err
	}
	js, _ := json.MarshalIndent(all, "", " ")
	return writeIfChanged(filepath.Join(outDir, "LockFacts.json"), string(js)+"\n")
}

// ---- Lean emission -------------------------------------------------------------------------------------

func lfBool(b bool) string {
	if b {
		return "true"
	}
	return "false"
}

func lfIdent(s string) string {
	return strings.Map(func(r rune) rune {
		if r >= 'a' && r <= 'z' || r >= 'A' && r <= 'Z' || r >= '0' && r <= '9' || r == '_' {
			return r
		}
		return '_'
	}, s)
}

func lfLean(all []*lfType) string {
	var b strings.Builder
	b.WriteString("/- GENERATED by /verif/go/cmd/extract (lockfacts.go) from /repo's current source. Do not edit.\n")
	b.WriteString("   Direct lock / access / call facts per method; closure and the discipline predicates live in\n")
	b.WriteString("   Zrnt/Conc/LockCheck.lean. Field and method references are indices into `fields` / `methods`. -/\n")
	b.WriteString("import Zrnt.Conc.LockTypes\n\nnamespace Zrnt.Gen.LockFacts\nopen Zrnt.Conc\n\n")
	for _, t := range all {
		fmt.Fprintf(&b, "/-- `%s.%s` (%s) -/\ndef %s : TypeFacts where\n", t.Pkg, t.Name, t.Role, lfIdent(t.Name))
		fmt.Fprintf(&b, "  name := %q\n  role := .%s\n  lock := .%s\n", t.Name, t.Role, map[string]string{"none": "none", "mutex": "mutex", "rw": "rw"}[t.Lock])
		b.WriteString("  fields := [\n")
		for i, f := range t.Fields {
			fmt.Fprintf(&b, "    { name := %q, kind := .%s, elemKind := .%s, elemShared := %s }%s\n", f.Name, lfKind(f.Kind), lfKind(map[bool]string{true: "value", false: f.ElemKind}[f.ElemKind == "" || f.ElemKind == "?" || f.ElemKind == "chan"]), lfBool(f.ElemShared), sep(i, len(t.Fields)))
		}
		b.WriteString("  ]\n  methods := [\n")
		for i, m := range t.Methods {
			fmt.Fprintf(&b, "    { name := %q, exported := %s,\n", m.Name, lfBool(m.Exported))
			b.WriteString("      sections := [")
			for k, s := range m.Sections {
				fmt.Fprintf(&b, "{ mode := .%s, release := .%s, nested := %s, line := %d }%s", s.Mode, s.Release, lfBool(s.Nested), s.Line, sepi(k, len(m.Sections)))
			}
			b.WriteString("],\n      acc := [")
			for k, ac := range m.Acc {
				fmt.Fprintf(&b, "{ field := %s, write := %s, depth := %d, held := .%s, line := %d }%s", lfOpt(ac.Field), lfBool(ac.Write), ac.Depth, ac.Held, ac.Line, sepi(k, len(m.Acc)))
			}
			b.WriteString("],\n      calls := [")
			for k, c := range m.Calls {
				fmt.Fprintf(&b, "{ via := .%s, field := %s, type := %d, callee := %d, held := .%s, ret := %s, line := %d }%s", lfVia(c.Via), lfOpt(c.Field), c.Type, c.Callee, c.Held, lfBool(c.Ret), c.Line, sepi(k, len(m.Calls)))
			}
			b.WriteString("],\n      handouts := [")
			for k, h := range m.Handouts {
				fmt.Fprintf(&b, "{ kind := .%s, field := %d, escape := %s, line := %d }%s", h.Kind, h.Field, lfBool(h.Escape), h.Line, sepi(k, len(m.Handouts)))
			}
			fmt.Fprintf(&b, "] }%s\n", sep(i, len(t.Methods)))
		}
		b.WriteString("  ]\n\n")
	}
	b.WriteString("/-- every analysed type; `Call.type` indexes this list -/\ndef all : List TypeFacts := [")
	for i, t := range all {
		b.WriteString(lfIdent(t.Name) + sepi(i, len(all)))
	}
	b.WriteString("]\n\nend Zrnt.Gen.LockFacts\n")
	return b.String()
}

func lfKind(k string) string {
	if k == "func" {
		return "fn"
	}
	return k
}

func lfVia(v string) string {
	if v == "self" {
		return "own"
	}
	return v
}

func lfOpt(i int) string {
	if i < 0 {
		return "none"
	}
	return fmt.Sprintf("some %d", i)
}
func sep(i, n int) string {
	if i+1 < n {
		return ","
	}
	return ""
}
func sepi(i, n int) string {
	if i+1 < n {
		return ", "
	}
	return ""
}

func lfLeanOk(all []*lfType) string {
	var b strings.Builder
	b.WriteString("/- GENERATED by /verif/go/cmd/extract (lockfacts.go). Do not edit.\n")
	b.WriteString("   One kernel-checked obligation per method of every shared type: the five discipline predicates of\n")
	b.WriteString("   Zrnt/Conc/LockCheck.lean hold of the regenerated row. A row that fails names the type and method. -/\n")
	b.WriteString("import Zrnt.Gen.LockFacts\nimport Zrnt.Conc.LockCheck\n\nnamespace Zrnt.Gen.LockFactsOk\nopen Zrnt.Conc Zrnt.Gen.LockFacts\n\n")
	var names []string
	for ti, t := range all {
		if t.Role != "shared" {
			continue
		}
		for mi, m := range t.Methods {
			n := fmt.Sprintf("ok_%s_%s", lfIdent(t.Name), lfIdent(m.Name))
			fmt.Fprintf(&b, "theorem %s : methodOk all %d %d = true := by decide\n", n, ti, mi)
			names = append(names, fmt.Sprintf("(%d, %d)", ti, mi))
		}
	}
	b.WriteString("\n/-- the (type, method) index pairs of all shared methods, in table order -/\ndef rows : List (Nat × Nat) := [")
	b.WriteString(strings.Join(names, ", "))
	b.WriteString("]\n\n/-- `rows` is exactly the enumeration of the shared methods of the table (nothing skipped) -/\n")
	b.WriteString("theorem rows_complete : rows = sharedRows all := by decide\n\n")
	b.WriteString("/-- lift: every shared method satisfies the discipline -/\ntheorem all_ok : ∀ r ∈ rows, methodOk all r.1 r.2 = true := by\n  intro r hr\n  simp only [rows, List.mem_cons, List.mem_nil_iff, or_false] at hr\n  rcases hr with ")
	var pats []string
	for range names {
		pats = append(pats, "rfl")
	}
	b.WriteString(strings.Join(pats, " | "))
	b.WriteString("\n")
	i := 0
	for _, t := range all {
		if t.Role != "shared" {
			continue
		}
		for _, m := range t.Methods {
			_ = i
			fmt.Fprintf(&b, "  · exact ok_%s_%s\n", lfIdent(t.Name), lfIdent(m.Name))
			i++
		}
	}
	b.WriteString("\nend Zrnt.Gen.LockFactsOk\n")
	return b.String()
}
