// extract: go/ast fact extractors (tie R-fact). Reads /repo's current source and writes Lean tables
// under lean/Zrnt/Gen/. Each table lives in its own file of this package and registers itself in `tables`.
//
//	extract <repo> <lean/Zrnt/Gen dir> [table ...]
//
// Prints one line per table on stdout: `TABLE <name> ok` or `TABLE <name> FAIL <message>`; the check
// driver charges a failed table only to the properties that depend on it.
//
// A table writer must (1) fail loudly (non-zero exit) on source shapes it does not understand rather
// than skip them silently, (2) only rewrite its output file when the content changed.
package main

import (
	"fmt"
	"os"
	"path/filepath"
	"strings"
)

type table struct {
	name string
	run  func(repo, outDir string) error
}

var tables []table

func register(name string, run func(repo, outDir string) error) {
	tables = append(tables, table{name, run})
}

// writeIfChanged keeps mtimes stable so lake stays incremental.
func writeIfChanged(path string, content string) error {
	if old, err := os.ReadFile(path); err == nil && string(old) == content {
		return nil
	}
	if err := os.MkdirAll(filepath.Dir(path), 0o755); err != nil {
		return err
	}
	return os.WriteFile(path, []byte(content), 0o644)
}

// runTable converts a panic inside a table writer into an error for that table only.
func runTable(t table, repo, outDir string) (err error) {
	defer func() {
		if r := recover(); r != nil {
			err = fmt.Errorf("panic: %v", r)
		}
	}()
	return t.run(repo, outDir)
}

func main() {
	if len(os.Args) < 3 {
		fmt.Fprintln(os.Stderr, "usage: extract <repo> <outdir> [table ...]")
		os.Exit(2)
	}
	want := map[string]bool{}
	for _, a := range os.Args[3:] {
		want[a] = true
	}
	for _, t := range tables {
		if len(want) > 0 && !want[t.name] {
			continue
		}
		err := runTable(t, os.Args[1], os.Args[2])
		if err != nil {
			fmt.Fprintf(os.Stderr, "extract %s: %v\n", t.name, err)
			fmt.Printf("TABLE %s FAIL %s\n", t.name, strings.ReplaceAll(err.Error(), "\n", " "))
		} else {
			fmt.Printf("TABLE %s ok\n", t.name)
		}
	}
}
