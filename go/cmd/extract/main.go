// extract: go/ast fact extractors (tie R-fact). Reads /repo's current source and writes Lean tables
// under lean/Zrnt/Gen/. Each table lives in its own file of this package and registers itself in `tables`.
//
//	extract <repo> <lean/Zrnt/Gen dir>
//
// A table writer must (1) fail loudly (non-zero exit) on source shapes it does not understand rather
// than skip them silently, (2) only rewrite its output file when the content changed.
package main

import (
	"fmt"
	"os"
	"path/filepath"
)

type table struct {
	name string
	run  func(repo, outDir string) error
}

var tables []table

func register(name string, run func(repo, outDir string) error) {
	tables = append(tables, table{name, run})
}

// writeIfChanged keeps mtimes stable so lake stays incremental.
func writeIfChanged(path string, content string) error {
	if old, err := os.ReadFile(path); err == nil && string(old) == content {
		return nil
	}
	if err := os.MkdirAll(filepath.Dir(path), 0o755); err != nil {
		return err
	}
	return os.WriteFile(path, []byte(content), 0o644)
}

func main() {
	if len(os.Args) != 3 {
		fmt.Fprintln(os.Stderr, "usage: extract <repo> <outdir>")
		os.Exit(2)
	}
	failed := false
	for _, t := range tables {
		if err := t.run(os.Args[1], os.Args[2]); err != nil {
			fmt.Fprintf(os.Stderr, "extract %s: %v\n", t.name, err)
			failed = true
		}
	}
	if failed {
		os.Exit(1)
	}
}
