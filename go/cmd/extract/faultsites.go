package main

// faultsites (property C18): every context poll, every `err != nil` guard and every execution-engine
// call in the state-transition packages, with the *shape* of what the code does with the outcome.
// Output: lean/Zrnt/Gen/FaultSites.lean (tables of rows; the theorems in Proofs/Properties/C18.lean
// are ∀-statements over these tables, closed by `decide`).

import (
	"fmt"
	"go/ast"
	"go/parser"
	"go/token"
	"os"
	"path/filepath"
	"regexp"
	"sort"
	"strings"
)

func init() { register("faultsites", faultSites) }

var faultDirs = []string{
	"eth2/beacon", "eth2/beacon/common", "eth2/beacon/phase0", "eth2/beacon/altair",
	"eth2/beacon/bellatrix", "eth2/beacon/capella", "eth2/beacon/deneb",
}

var engineCallRe = regexp.MustCompile(`(NotifyNewPayload|IsValidBlockHash|IsValidVersionedHashes)$`)

func fsIsNil(e ast.Expr) bool { i, ok := e.(*ast.Ident); return ok && i.Name == "nil" }

// errLike: the expression can carry a non-nil error: an identifier other than nil, or a call
// (fmt.Errorf, errors.New, a wrapper), or a composite (&SomeError{…}).
func fsErrLike(e ast.Expr) bool {
	switch x := e.(type) {
	case *ast.Ident:
		return x.Name != "nil"
	case *ast.CallExpr, *ast.UnaryExpr, *ast.CompositeLit, *ast.SelectorExpr:
		return true
	}
	return false
}

// lastReturnsError: the block's last statement is a return whose LAST result carries the failure:
// it mentions the guard variable `v` (returned as is or wrapped), or it is a freshly constructed
// error (a call such as fmt.Errorf / errors.New, or a composite literal). Returning some OTHER
// variable (e.g. an outer `err` that is nil at this point) does not count.
func lastReturnsError(b *ast.BlockStmt, v string) bool {
	if b == nil || len(b.List) == 0 {
		return false
	}
	r, ok := b.List[len(b.List)-1].(*ast.ReturnStmt)
	if !ok || len(r.Results) == 0 {
		return false
	}
	last := r.Results[len(r.Results)-1]
	switch x := last.(type) {
	case *ast.Ident:
		return x.Name == v
	case *ast.CallExpr, *ast.UnaryExpr, *ast.CompositeLit:
		return true
	}
	return false
}

// condIsErrNotNil matches `<ident> != nil` where the identifier's name contains "err" (err, syncErr, err2 …).
func condIsErrNotNil(c ast.Expr) (string, bool) {
	b, ok := c.(*ast.BinaryExpr)
	if !ok || b.Op != token.NEQ || !fsIsNil(b.Y) {
		return "", false
	}
	id, ok := b.X.(*ast.Ident)
	if !ok || !strings.Contains(strings.ToLower(id.Name), "err") {
		return "", false
	}
	return id.Name, true
}

func isCtxErrCall(e ast.Expr) bool {
	c, ok := e.(*ast.CallExpr)
	if !ok {
		return false
	}
	s, ok := c.Fun.(*ast.SelectorExpr)
	if !ok || s.Sel.Name != "Err" {
		return false
	}
	id, ok := s.X.(*ast.Ident)
	return ok && (id.Name == "ctx" || strings.HasSuffix(strings.ToLower(id.Name), "ctx"))
}

func fsCalleeName(c *ast.CallExpr) string {
	switch f := c.Fun.(type) {
	case *ast.SelectorExpr:
		return f.Sel.Name
	case *ast.Ident:
		return f.Name
	}
	return ""
}

type pollRow struct {
	file, fn string
	line     int
	shapeOk  bool
}
type guardRow struct {
	file, fn   string
	line       int
	propagates bool
}
type engineRow struct {
	file, fn, callee string
	line             int
	shape            string // guardForward | guardError | directReturn | other
	setHeaderAfter   bool   // for guardError: SetLatestExecutionPayloadHeader occurs only after the guard
}

func fsStr(s string) string { return "\"" + strings.ReplaceAll(s, "\"", "\\\"") + "\"" }
func fsBool(b bool) string {
	if b {
		return "true"
	}
	return "false"
}

func faultSites(repo, outDir string) error {
	fset := token.NewFileSet()
	var polls []pollRow
	var guards []guardRow
	var engines []engineRow
	var heads []string // "file:func" of functions whose FIRST statement is a context poll of the checked shape
	pollSeen := map[token.Pos]bool{}
	for _, d := range faultDirs {
		ents, err := os.ReadDir(filepath.Join(repo, d))
		if err != nil {
			return err
		}
		for _, e := range ents {
			if e.IsDir() || !strings.HasSuffix(e.Name(), ".go") || strings.HasSuffix(e.Name(), "_test.go") {
				continue
			}
			rel := filepath.Join(d, e.Name())
			f, err := parser.ParseFile(fset, filepath.Join(repo, rel), nil, 0)
			if err != nil {
				return err
			}
			for _, decl := range f.Decls {
				fd, ok := decl.(*ast.FuncDecl)
				if !ok || fd.Body == nil {
					continue
				}
				hasCtx := false
				for _, p := range fd.Type.Params.List {
					if s, ok := p.Type.(*ast.SelectorExpr); ok && s.Sel.Name == "Context" {
						hasCtx = true
					}
				}
				fn := fd.Name.Name
				if fd.Recv != nil && len(fd.Recv.List) > 0 {
					fn = fsTypeString(fd.Recv.List[0].Type) + "." + fn
				}
				if hasCtx && len(fd.Body.List) > 0 {
					if ifs, ok := fd.Body.List[0].(*ast.IfStmt); ok {
						if as, ok := ifs.Init.(*ast.AssignStmt); ok && len(as.Rhs) == 1 && isCtxErrCall(as.Rhs[0]) {
							if v, ok := condIsErrNotNil(ifs.Cond); ok && lastReturnsError(ifs.Body, v) {
								heads = append(heads, filepath.Base(d)+"."+fn)
							}
						}
					}
				}
				// statement-level scan with knowledge of the enclosing statement list (for ordering)
				var scanBlock func(list []ast.Stmt)
				scanBlock = func(list []ast.Stmt) {
					for idx, st := range list {
						ifs, ok := st.(*ast.IfStmt)
						if !ok {
							continue
						}
						// (1) poll: `if err := ctx.Err(); err != nil { return …err }`
						if as, ok := ifs.Init.(*ast.AssignStmt); ok && len(as.Rhs) == 1 && isCtxErrCall(as.Rhs[0]) {
							v, condOk := condIsErrNotNil(ifs.Cond)
							pollSeen[as.Rhs[0].Pos()] = true
							polls = append(polls, pollRow{rel, fn, fset.Position(ifs.Pos()).Line, condOk && lastReturnsError(ifs.Body, v)})
						}
						// (3) engine call in the init of an if: `if ok, err := eng.X(…); err != nil {…} else if !ok {…}`
						if as, ok := ifs.Init.(*ast.AssignStmt); ok && len(as.Rhs) == 1 {
							if c, ok := as.Rhs[0].(*ast.CallExpr); ok && engineCallRe.MatchString(fsCalleeName(c)) {
								row := engineRow{file: rel, fn: fn, callee: fsCalleeName(c), line: fset.Position(ifs.Pos()).Line, shape: "other"}
								v, condOk := condIsErrNotNil(ifs.Cond)
								errBranch := condOk && lastReturnsError(ifs.Body, v)
								var elseIf *ast.IfStmt
								if ifs.Else != nil {
									elseIf, _ = ifs.Else.(*ast.IfStmt)
								}
								notOk := false
								if elseIf != nil {
									if u, ok := elseIf.Cond.(*ast.UnaryExpr); ok && u.Op == token.NOT {
										notOk = true
									}
								}
								if errBranch && notOk && elseIf != nil && len(elseIf.Body.List) > 0 {
									if r, ok := elseIf.Body.List[len(elseIf.Body.List)-1].(*ast.ReturnStmt); ok {
										switch {
										case len(r.Results) == 2 && fsIsFalse(r.Results[0]) && fsIsNil(r.Results[1]):
											row.shape = "guardForward" // (false, nil): the verdict is forwarded to the caller
										case len(r.Results) == 1 && fsErrLike(r.Results[0]):
											row.shape = "guardError" // invalid ⇒ error
										}
									}
								}
								if row.shape == "guardError" {
									row.setHeaderAfter = true
									for j, other := range list {
										if fsContainsCall(other, "SetLatestExecutionPayloadHeader") && j <= idx {
											row.setHeaderAfter = false
										}
									}
								}
								engines = append(engines, row)
							}
						}
					}
				}
				ast.Inspect(fd.Body, func(n ast.Node) bool {
					switch x := n.(type) {
					case *ast.BlockStmt:
						scanBlock(x.List)
					case *ast.CaseClause:
						scanBlock(x.Body)
					case *ast.IfStmt:
						// (2) guards: any `if … err != nil {…}` in a function that takes a context
						if hasCtx {
							if v, ok := condIsErrNotNil(x.Cond); ok {
								guards = append(guards, guardRow{rel, fn, fset.Position(x.Pos()).Line, lastReturnsError(x.Body, v)})
							}
						}
					case *ast.ReturnStmt:
						// (3b) `return eng.X(…)`
						if len(x.Results) == 1 {
							if c, ok := x.Results[0].(*ast.CallExpr); ok && engineCallRe.MatchString(fsCalleeName(c)) {
								engines = append(engines, engineRow{file: rel, fn: fn, callee: fsCalleeName(c), line: fset.Position(x.Pos()).Line, shape: "directReturn"})
							}
						}
					case *ast.CallExpr:
						// a poll that is not the init of an if statement has an unknown shape
						if isCtxErrCall(x) && !pollSeen[x.Pos()] {
							pollSeen[x.Pos()] = true
							polls = append(polls, pollRow{rel, fn, fset.Position(x.Pos()).Line, false})
						}
					}
					return true
				})
			}
		}
	}
	// engine calls that matched neither shape (e.g. result assigned and ignored) are found by a final sweep
	// over call expressions: done above for if-init and return; everything else:
	// (kept simple: count all engine-named calls and compare)
	sort.Slice(polls, func(i, j int) bool { return polls[i].file+fmt.Sprint(1e6+polls[i].line) < polls[j].file+fmt.Sprint(1e6+polls[j].line) })
	sort.Slice(guards, func(i, j int) bool {
		return guards[i].file+fmt.Sprint(1e6+guards[i].line) < guards[j].file+fmt.Sprint(1e6+guards[j].line)
	})
	sort.Slice(engines, func(i, j int) bool {
		return engines[i].file+fmt.Sprint(1e6+engines[i].line) < engines[j].file+fmt.Sprint(1e6+engines[j].line)
	})
	total, err := countEngineCalls(repo)
	if err != nil {
		return err
	}
	var sb strings.Builder
	sb.WriteString("/- GENERATED by /verif/go/cmd/extract (faultsites) from /repo's current source. Do not edit. -/\n")
	sb.WriteString("namespace Zrnt.Gen.FaultSites\n\n")
	sb.WriteString("/-- a context poll `ctx.Err()`; shapeOk = it is `if err := ctx.Err(); err != nil { …; return …, <error> }` -/\n")
	sb.WriteString("structure Poll where\n  file : String\n  fn : String\n  line : Nat\n  shapeOk : Bool\n  deriving Repr, DecidableEq\n\n")
	sb.WriteString("/-- an `if err != nil` guard in a function taking a context; propagates = its body ends in `return …, <error>` -/\n")
	sb.WriteString("structure Guard where\n  file : String\n  fn : String\n  line : Nat\n  propagates : Bool\n  deriving Repr, DecidableEq\n\n")
	sb.WriteString("inductive EngineShape where\n  | guardForward | guardError | directReturn | other\n  deriving Repr, DecidableEq\n\n")
	sb.WriteString("/-- a call of an execution-engine method (or of VerifyAndNotifyNewPayload) -/\n")
	sb.WriteString("structure EngineCall where\n  file : String\n  fn : String\n  callee : String\n  line : Nat\n  shape : EngineShape\n  setHeaderAfter : Bool\n  deriving Repr, DecidableEq\n\n")
	sb.WriteString("def polls : List Poll := [\n")
	for i, p := range polls {
		fmt.Fprintf(&sb, "  ⟨%s, %s, %d, %s⟩%s\n", fsStr(p.file), fsStr(p.fn), p.line, fsBool(p.shapeOk), fsComma(i, len(polls)))
	}
	sb.WriteString("]\n\ndef guards : List Guard := [\n")
	for i, g := range guards {
		fmt.Fprintf(&sb, "  ⟨%s, %s, %d, %s⟩%s\n", fsStr(g.file), fsStr(g.fn), g.line, fsBool(g.propagates), fsComma(i, len(guards)))
	}
	sb.WriteString("]\n\ndef engineCalls : List EngineCall := [\n")
	for i, e := range engines {
		fmt.Fprintf(&sb, "  ⟨%s, %s, %s, %d, .%s, %s⟩%s\n", fsStr(e.file), fsStr(e.fn), fsStr(e.callee), e.line, e.shape, fsBool(e.setHeaderAfter), fsComma(i, len(engines)))
	}
	sb.WriteString("]\n\n/-- functions (package.func) whose first statement is a context poll of the checked shape -/\ndef headPolls : List String := [\n")
	sort.Strings(heads)
	for i, h := range heads {
		fmt.Fprintf(&sb, "  %s%s\n", fsStr(h), fsComma(i, len(heads)))
	}
	fmt.Fprintf(&sb, "]\n\n/-- number of engine-method call expressions found by an independent sweep (must equal engineCalls.length) -/\ndef engineCallExprs : Nat := %d\n", total)
	steps, err := payloadSteps(repo)
	if err != nil {
		return err
	}
	sb.WriteString("\n/-- the call of ProcessExecutionPayload in a fork's `ProcessBlock`: `guards` are the callee names of the calls in the\n    conditions of every enclosing `if`/`else if` other than the call's own `if err := …; err != nil` (empty = the payload\n    step runs unconditionally); calls = how many such calls the function contains -/\n")
	sb.WriteString("structure PayloadStep where\n  pkg : String\n  calls : Nat\n  guards : List String\n  deriving Repr, DecidableEq\n\n")
	sb.WriteString("def payloadSteps : List PayloadStep := [\n")
	for i, st := range steps {
		var gs []string
		for _, g := range st.guards {
			gs = append(gs, fsStr(g))
		}
		fmt.Fprintf(&sb, "  ⟨%s, %d, [%s]⟩%s\n", fsStr(st.pkg), st.calls, strings.Join(gs, ", "), fsComma(i, len(steps)))
	}
	sb.WriteString("]\n")
	sb.WriteString("\nend Zrnt.Gen.FaultSites\n")
	return writeIfChanged(filepath.Join(outDir, "FaultSites.lean"), sb.String())
}

func fsComma(i, n int) string {
	if i+1 < n {
		return ","
	}
	return ""
}

func fsIsFalse(e ast.Expr) bool { i, ok := e.(*ast.Ident); return ok && i.Name == "false" }

func fsContainsCall(n ast.Node, name string) bool {
	found := false
	ast.Inspect(n, func(x ast.Node) bool {
		if c, ok := x.(*ast.CallExpr); ok && fsCalleeName(c) == name {
			found = true
		}
		return !found
	})
	return found
}

func fsTypeString(e ast.Expr) string {
	switch x := e.(type) {
	case *ast.Ident:
		return x.Name
	case *ast.StarExpr:
		return fsTypeString(x.X)
	case *ast.SelectorExpr:
		return x.Sel.Name
	case *ast.IndexExpr:
		return fsTypeString(x.X)
	}
	return "?"
}

// countEngineCalls counts every call expression of an engine-named method in the fork packages,
// whatever its syntactic position, so that a call in an unrecognised position cannot go unnoticed.
func countEngineCalls(repo string) (int, error) {
	fset := token.NewFileSet()
	n := 0
	for _, d := range faultDirs {
		ents, err := os.ReadDir(filepath.Join(repo, d))
		if err != nil {
			return 0, err
		}
		for _, e := range ents {
			if e.IsDir() || !strings.HasSuffix(e.Name(), ".go") || strings.HasSuffix(e.Name(), "_test.go") {
				continue
			}
			f, err := parser.ParseFile(fset, filepath.Join(repo, d, e.Name()), nil, 0)
			if err != nil {
				return 0, err
			}
			ast.Inspect(f, func(x ast.Node) bool {
				if c, ok := x.(*ast.CallExpr); ok && engineCallRe.MatchString(fsCalleeName(c)) {
					n++
				}
				return true
			})
		}
	}
	return n, nil
}


type payloadStepRow struct {
	pkg    string
	calls  int
	guards []string
}

// payloadSteps: for bellatrix, capella and deneb, where `(*BeaconStateView).ProcessBlock` calls ProcessExecutionPayload and
// under which conditions (the specification: bellatrix only `if is_execution_enabled`, from capella on unconditionally).
func payloadSteps(repo string) ([]payloadStepRow, error) {
	var out []payloadStepRow
	for _, pkg := range []string{"bellatrix", "capella", "deneb"} {
		path := filepath.Join(repo, "eth2/beacon", pkg, "transition.go")
		fset := token.NewFileSet()
		f, err := parser.ParseFile(fset, path, nil, 0)
		if err != nil {
			return nil, err
		}
		row := payloadStepRow{pkg: pkg}
		for _, d := range f.Decls {
			fd, ok := d.(*ast.FuncDecl)
			if !ok || fd.Name.Name != "ProcessBlock" || fd.Recv == nil || fd.Body == nil {
				continue
			}
			// walk with the stack of enclosing if-conditions
			initDefined := map[string]bool{}
			var walk func(n ast.Node, conds []ast.Expr)
			walkBlock := func(b *ast.BlockStmt, conds []ast.Expr) {
				for _, st := range b.List {
					walk(st, conds)
				}
			}
			walk = func(n ast.Node, conds []ast.Expr) {
				switch x := n.(type) {
				case *ast.IfStmt:
					own := false
					if as, ok := x.Init.(*ast.AssignStmt); ok && len(as.Rhs) == 1 {
						if c, ok := as.Rhs[0].(*ast.CallExpr); ok && fsCalleeName(c) == "ProcessExecutionPayload" {
							own = true
							row.calls++
							for _, cnd := range conds {
								ast.Inspect(cnd, func(y ast.Node) bool {
									if cc, ok := y.(*ast.CallExpr); ok {
										row.guards = append(row.guards, fsCalleeName(cc))
									}
									return true
								})
								if _, isCall := cnd.(*ast.CallExpr); !isCall && !fsContainsAnyCall(cnd) {
									// a plain result variable of an enclosing `if v, err := Call(…)` is that call's verdict
									if id, ok := cnd.(*ast.Ident); ok && initDefined[id.Name] {
										continue
									}
									row.guards = append(row.guards, "<condition without call>")
								}
							}
						}
					}
					inner := conds
					if !own {
						// the condition of this if (including what its init statement computes) guards both branches
						c := ast.Expr(x.Cond)
						if as, ok := x.Init.(*ast.AssignStmt); ok && len(as.Rhs) == 1 {
							if call, ok := as.Rhs[0].(*ast.CallExpr); ok {
								c = call
								for _, l := range as.Lhs {
									if id, ok := l.(*ast.Ident); ok {
										initDefined[id.Name] = true
									}
								}
							}
						}
						inner = append(append([]ast.Expr{}, conds...), c)
					}
					walkBlock(x.Body, inner)
					if x.Else != nil {
						switch el := x.Else.(type) {
						case *ast.BlockStmt:
							walkBlock(el, inner)
						case *ast.IfStmt:
							walk(el, inner)
						}
					}
				case *ast.BlockStmt:
					walkBlock(x, conds)
				case *ast.ForStmt:
					walkBlock(x.Body, append(append([]ast.Expr{}, conds...), ast.NewIdent("loop")))
				case *ast.RangeStmt:
					walkBlock(x.Body, append(append([]ast.Expr{}, conds...), ast.NewIdent("loop")))
				case *ast.ExprStmt, *ast.AssignStmt, *ast.ReturnStmt:
					// a call in any other position than `if err := ProcessExecutionPayload(…); err != nil` is an unknown shape
					if fsContainsCall(x, "ProcessExecutionPayload") {
						row.calls++
						row.guards = append(row.guards, "<unknown call shape>")
					}
				}
			}
			walkBlock(fd.Body, nil)
		}
		out = append(out, row)
	}
	return out, nil
}

func fsContainsAnyCall(n ast.Node) bool {
	found := false
	ast.Inspect(n, func(x ast.Node) bool {
		if _, ok := x.(*ast.CallExpr); ok {
			found = true
		}
		return !found
	})
	return found
}
