// configs.go: facts for property C14 -> lean/Zrnt/Gen/Configs.lean
//
//	(a) every constant of the YAML presets/configs that eth2/configs embeds (//go:embed directives are
//	    followed, so a re-pointed embed is seen), parsed textually as `KEY: value` lines;
//	(b) Go-level constants: SCREAMING_CASE const decls of eth2/beacon/common and
//	    eth2/beacon/altair/participation.go (evaluated by a small constant folder incl. iota) and the
//	    `var DOMAIN_x = BLSDomainType{..}` literals;
//	(c) the fork chains of eth2/beacon/fork.go (ForkDigest if-chain, NewForkDecoder literal, BlockAllocator
//	    switch, UpgradeMaybe if-sequence, EnvelopeToSignedBeaconBlock type switch), each fork's
//	    `Envelope`/`Header` method and the `common.Fork{..}` literal of each UpgradeToX.
//
// Shapes that are not recognised are a hard error (the table would otherwise silently lose a row).
package main

import (
	"bytes"
	"fmt"
	"go/ast"
	"go/parser"
	"go/printer"
	"go/token"
	"math/big"
	"os"
	"path/filepath"
	"regexp"
	"sort"
	"strings"
)

func init() { register("configs", runConfigs) }

var cfgFset = token.NewFileSet()

func leanStr(s string) string {
	var sb strings.Builder
	sb.WriteByte('"')
	for _, r := range s {
		switch r {
		case '"':
			sb.WriteString("\\\"")
		case '\\':
			sb.WriteString("\\\\")
		case '\n':
			sb.WriteString("\\n")
		case '\t':
			sb.WriteString("\\t")
		default:
			sb.WriteRune(r)
		}
	}
	sb.WriteByte('"')
	return sb.String()
}

func exprStr(e ast.Node) string {
	var b bytes.Buffer
	printer.Fprint(&b, cfgFset, e)
	return strings.Join(strings.Fields(b.String()), " ")
}

func parseGo(path string) (*ast.File, error) {
	return parser.ParseFile(cfgFset, path, nil, parser.ParseComments)
}

// ---------------------------------------------------------------------------------------------
// (a) YAML

var reKey = regexp.MustCompile(`^([A-Za-z_][A-Za-z0-9_]*):\s*(.*)$`)
var reNum = regexp.MustCompile(`^[0-9]+$`)
var reHex = regexp.MustCompile(`^0[xX][0-9a-fA-F]*$`)

type kv struct{ k, v string } // v is a Lean `Val` term

func yamlVal(raw string) string {
	if reNum.MatchString(raw) {
		n := new(big.Int)
		n.SetString(raw, 10)
		return ".num " + n.String()
	}
	if reHex.MatchString(raw) {
		return ".hex " + leanStr(strings.ToLower(raw[2:]))
	}
	return ".str " + leanStr(raw)
}

func parseYAML(path string) ([]kv, error) {
	raw, err := os.ReadFile(path)
	if err != nil {
		return nil, err
	}
	var out []kv
	seen := map[string]bool{}
	for i, line := range strings.Split(string(raw), "\n") {
		l := strings.TrimRight(line, " \t\r")
		// strip comments: `#` at line start or preceded by whitespace
		if j := strings.Index(l, "#"); j >= 0 {
			for j >= 0 {
				if j == 0 || l[j-1] == ' ' || l[j-1] == '\t' {
					l = strings.TrimRight(l[:j], " \t")
					break
				}
				k := strings.Index(l[j+1:], "#")
				if k < 0 {
					break
				}
				j = j + 1 + k
			}
		}
		if strings.TrimSpace(l) == "" {
			continue
		}
		m := reKey.FindStringSubmatch(l)
		if m == nil {
			return nil, fmt.Errorf("%s:%d: not a `KEY: value` line: %q", path, i+1, line)
		}
		v := strings.TrimSpace(m[2])
		if len(v) >= 2 && (v[0] == '\'' && v[len(v)-1] == '\'' || v[0] == '"' && v[len(v)-1] == '"') {
			v = v[1 : len(v)-1]
			if seen[m[1]] {
				return nil, fmt.Errorf("%s:%d: duplicate key %s", path, i+1, m[1])
			}
			seen[m[1]] = true
			out = append(out, kv{m[1], ".str " + leanStr(v)})
			continue
		}
		if v == "" {
			return nil, fmt.Errorf("%s:%d: empty value for %s", path, i+1, m[1])
		}
		if seen[m[1]] {
			return nil, fmt.Errorf("%s:%d: duplicate key %s", path, i+1, m[1])
		}
		seen[m[1]] = true
		out = append(out, kv{m[1], yamlVal(v)})
	}
	return out, nil
}

type embedRow struct{ specVar, field, typ, file string }

// embeds follows `//go:embed <path>` + `var x []byte` and `var Mainnet = &common.Spec{Field: mustYAML[common.T](x), ..}`.
func embeds(repo string) ([]embedRow, error) {
	dir := filepath.Join(repo, "eth2/configs")
	ents, err := os.ReadDir(dir)
	if err != nil {
		return nil, err
	}
	embedOf := map[string]string{}
	var rows []embedRow
	var files []*ast.File
	for _, e := range ents {
		if !strings.HasSuffix(e.Name(), ".go") || strings.HasSuffix(e.Name(), "_test.go") {
			continue
		}
		f, err := parseGo(filepath.Join(dir, e.Name()))
		if err != nil {
			return nil, err
		}
		files = append(files, f)
		for _, d := range f.Decls {
			g, ok := d.(*ast.GenDecl)
			if !ok || g.Tok != token.VAR || g.Doc == nil {
				continue
			}
			for _, c := range g.Doc.List {
				if strings.HasPrefix(c.Text, "//go:embed ") {
					p := strings.TrimSpace(strings.TrimPrefix(c.Text, "//go:embed "))
					for _, s := range g.Specs {
						vs := s.(*ast.ValueSpec)
						if len(vs.Names) != 1 {
							return nil, fmt.Errorf("embed with %d names", len(vs.Names))
						}
						embedOf[vs.Names[0].Name] = p
					}
				}
			}
		}
	}
	for _, f := range files {
		for _, d := range f.Decls {
			g, ok := d.(*ast.GenDecl)
			if !ok || g.Tok != token.VAR {
				continue
			}
			for _, s := range g.Specs {
				vs := s.(*ast.ValueSpec)
				if len(vs.Values) != 1 {
					continue
				}
				u, ok := vs.Values[0].(*ast.UnaryExpr)
				if !ok || u.Op != token.AND {
					continue
				}
				cl, ok := u.X.(*ast.CompositeLit)
				if !ok || exprStr(cl.Type) != "common.Spec" {
					continue
				}
				for _, el := range cl.Elts {
					kvx, ok := el.(*ast.KeyValueExpr)
					if !ok {
						return nil, fmt.Errorf("%s: positional element in common.Spec literal", vs.Names[0].Name)
					}
					field := exprStr(kvx.Key)
					if id, ok := kvx.Value.(*ast.Ident); ok && id.Name == "nil" {
						continue
					}
					call, ok := kvx.Value.(*ast.CallExpr)
					if !ok || len(call.Args) != 1 {
						return nil, fmt.Errorf("%s.%s: unrecognised initialiser %s", vs.Names[0].Name, field, exprStr(kvx.Value))
					}
					ix, ok := call.Fun.(*ast.IndexExpr)
					if !ok || exprStr(ix.X) != "mustYAML" {
						return nil, fmt.Errorf("%s.%s: unrecognised initialiser %s", vs.Names[0].Name, field, exprStr(kvx.Value))
					}
					arg := exprStr(call.Args[0])
					p, ok := embedOf[arg]
					if !ok {
						return nil, fmt.Errorf("%s.%s: %s is not an embedded file", vs.Names[0].Name, field, arg)
					}
					rows = append(rows, embedRow{vs.Names[0].Name, field, strings.TrimPrefix(exprStr(ix.Index), "common."), p})
				}
			}
		}
	}
	if len(rows) == 0 {
		return nil, fmt.Errorf("no `&common.Spec{...}` literal found in eth2/configs")
	}
	return rows, nil
}

// ---------------------------------------------------------------------------------------------
// (b) Go-level constants

var reScream = regexp.MustCompile(`^[A-Z][A-Z0-9_]*[A-Z0-9]$`)

type constEnv struct {
	vals map[string]*big.Int
}

var two64 = new(big.Int).Lsh(big.NewInt(1), 64)

func (ce *constEnv) eval(e ast.Expr, iota int64) (*big.Int, error) {
	switch x := e.(type) {
	case *ast.ParenExpr:
		return ce.eval(x.X, iota)
	case *ast.BasicLit:
		if x.Kind != token.INT {
			return nil, fmt.Errorf("non-integer literal %s", x.Value)
		}
		n := new(big.Int)
		if _, ok := n.SetString(strings.ReplaceAll(x.Value, "_", ""), 0); !ok {
			return nil, fmt.Errorf("bad literal %s", x.Value)
		}
		return n, nil
	case *ast.Ident:
		if x.Name == "iota" {
			return big.NewInt(iota), nil
		}
		if v, ok := ce.vals[x.Name]; ok {
			return v, nil
		}
		return nil, fmt.Errorf("unknown identifier %s", x.Name)
	case *ast.UnaryExpr:
		v, err := ce.eval(x.X, iota)
		if err != nil {
			return nil, err
		}
		switch x.Op {
		case token.XOR: // ^x on an unsigned 64-bit operand (the only use in scope: ^uint64(0))
			return new(big.Int).Sub(new(big.Int).Sub(two64, big.NewInt(1)), v), nil
		case token.SUB:
			return new(big.Int).Neg(v), nil
		}
		return nil, fmt.Errorf("unary %s", x.Op)
	case *ast.BinaryExpr:
		a, err := ce.eval(x.X, iota)
		if err != nil {
			return nil, err
		}
		b, err := ce.eval(x.Y, iota)
		if err != nil {
			return nil, err
		}
		switch x.Op {
		case token.ADD:
			return new(big.Int).Add(a, b), nil
		case token.SUB:
			return new(big.Int).Sub(a, b), nil
		case token.MUL:
			return new(big.Int).Mul(a, b), nil
		case token.QUO:
			if b.Sign() == 0 {
				return nil, fmt.Errorf("division by zero")
			}
			return new(big.Int).Quo(a, b), nil
		case token.SHL:
			return new(big.Int).Lsh(a, uint(b.Uint64())), nil
		case token.SHR:
			return new(big.Int).Rsh(a, uint(b.Uint64())), nil
		case token.OR:
			return new(big.Int).Or(a, b), nil
		case token.AND:
			return new(big.Int).And(a, b), nil
		}
		return nil, fmt.Errorf("binary %s", x.Op)
	case *ast.CallExpr: // conversion T(x)
		if len(x.Args) == 1 {
			return ce.eval(x.Args[0], iota)
		}
	}
	return nil, fmt.Errorf("unsupported constant expression %s", exprStr(e))
}

func goConsts(repo string) ([]kv, []string, error) {
	var paths []string
	cdir := filepath.Join(repo, "eth2/beacon/common")
	ents, err := os.ReadDir(cdir)
	if err != nil {
		return nil, nil, err
	}
	for _, e := range ents {
		if strings.HasSuffix(e.Name(), ".go") && !strings.HasSuffix(e.Name(), "_test.go") {
			paths = append(paths, filepath.Join(cdir, e.Name()))
		}
	}
	paths = append(paths, filepath.Join(repo, "eth2/beacon/altair/participation.go"))
	sort.Strings(paths)
	ce := &constEnv{vals: map[string]*big.Int{}}
	var out []kv
	var skipped []string
	seen := map[string]bool{}
	add := func(name, v string) error {
		if seen[name] {
			return fmt.Errorf("constant %s declared twice in scope", name)
		}
		seen[name] = true
		out = append(out, kv{name, v})
		return nil
	}
	// constants.go first: other files refer to it
	sort.SliceStable(paths, func(i, j int) bool {
		return strings.HasSuffix(paths[i], "constants.go") && !strings.HasSuffix(paths[j], "constants.go")
	})
	for _, p := range paths {
		f, err := parseGo(p)
		if err != nil {
			return nil, nil, err
		}
		for _, d := range f.Decls {
			g, ok := d.(*ast.GenDecl)
			if !ok {
				continue
			}
			switch g.Tok {
			case token.CONST:
				var last []ast.Expr
				for i, s := range g.Specs {
					vs := s.(*ast.ValueSpec)
					vals := vs.Values
					if len(vals) == 0 {
						vals = last // implicit repetition
					} else {
						last = vals
					}
					for j, n := range vs.Names {
						if !reScream.MatchString(n.Name) {
							continue
						}
						if j >= len(vals) {
							return nil, nil, fmt.Errorf("%s: const %s without value", p, n.Name)
						}
						v, err := ce.eval(vals[j], int64(i))
						if err != nil {
							// not an integer constant (type alias constants like `const VersionType = Bytes4Type`, durations…)
							skipped = append(skipped, n.Name)
							continue
						}
						if v.Sign() < 0 || v.Cmp(two64) >= 0 {
							return nil, nil, fmt.Errorf("%s: const %s = %s outside uint64", p, n.Name, v)
						}
						ce.vals[n.Name] = v
						if err := add(n.Name, ".num "+v.String()); err != nil {
							return nil, nil, err
						}
					}
				}
			case token.VAR:
				for _, s := range g.Specs {
					vs := s.(*ast.ValueSpec)
					for j, n := range vs.Names {
						if !strings.HasPrefix(n.Name, "DOMAIN_") || j >= len(vs.Values) {
							continue
						}
						cl, ok := vs.Values[j].(*ast.CompositeLit)
						if !ok || exprStr(cl.Type) != "BLSDomainType" || len(cl.Elts) != 4 {
							return nil, nil, fmt.Errorf("%s: %s is not a 4-byte BLSDomainType literal", p, n.Name)
						}
						hx := ""
						for _, el := range cl.Elts {
							v, err := ce.eval(el, 0)
							if err != nil || v.Sign() < 0 || v.Cmp(big.NewInt(256)) >= 0 {
								return nil, nil, fmt.Errorf("%s: %s has a non-byte element", p, n.Name)
							}
							hx += fmt.Sprintf("%02x", v.Uint64())
						}
						if err := add(n.Name, ".hex "+leanStr(hx)); err != nil {
							return nil, nil, err
						}
					}
				}
			}
		}
	}
	sort.Slice(out, func(i, j int) bool { return out[i].k < out[j].k })
	sort.Strings(skipped)
	return out, skipped, nil
}

// ---------------------------------------------------------------------------------------------
// (c) fork chains

func findFunc(f *ast.File, recv, name string) *ast.FuncDecl {
	for _, d := range f.Decls {
		fd, ok := d.(*ast.FuncDecl)
		if !ok || fd.Name.Name != name {
			continue
		}
		r := ""
		if fd.Recv != nil {
			r = exprStr(fd.Recv.List[0].Type)
		}
		if r == recv {
			return fd
		}
	}
	return nil
}

type pair struct{ a, b string }

func pairsLean(name, doc string, ps []pair) string {
	var sb strings.Builder
	fmt.Fprintf(&sb, "/-- %s -/\ndef %s : List (String × String) := [", doc, name)
	for i, p := range ps {
		if i > 0 {
			sb.WriteString(",")
		}
		fmt.Fprintf(&sb, "\n  (%s, %s)", leanStr(p.a), leanStr(p.b))
	}
	sb.WriteString("]\n\n")
	return sb.String()
}

// ifChain recognises `if V < X { return A } else if V < Y { return B } … else { return Z }`.
func ifChain(body *ast.BlockStmt, who string) ([]pair, string, error) {
	if len(body.List) != 1 {
		return nil, "", fmt.Errorf("%s: expected a single if-chain statement, found %d statements", who, len(body.List))
	}
	var rows []pair
	var cur ast.Stmt = body.List[0]
	for {
		is, ok := cur.(*ast.IfStmt)
		if !ok || is.Init != nil {
			return nil, "", fmt.Errorf("%s: not an if-chain", who)
		}
		be, ok := is.Cond.(*ast.BinaryExpr)
		if !ok || be.Op != token.LSS || exprStr(be.X) != "epoch" {
			return nil, "", fmt.Errorf("%s: condition %s is not `epoch < <field>`", who, exprStr(is.Cond))
		}
		ret, err := singleReturn(is.Body, who)
		if err != nil {
			return nil, "", err
		}
		rows = append(rows, pair{exprStr(be.Y), ret})
		switch el := is.Else.(type) {
		case *ast.IfStmt:
			cur = el
		case *ast.BlockStmt:
			def, err := singleReturn(el, who)
			if err != nil {
				return nil, "", err
			}
			return rows, def, nil
		default:
			return nil, "", fmt.Errorf("%s: chain without final else", who)
		}
	}
}

func singleReturn(b *ast.BlockStmt, who string) (string, error) {
	if len(b.List) != 1 {
		return "", fmt.Errorf("%s: branch with %d statements", who, len(b.List))
	}
	r, ok := b.List[0].(*ast.ReturnStmt)
	if !ok || len(r.Results) != 1 {
		return "", fmt.Errorf("%s: branch is not a single-value return", who)
	}
	return exprStr(r.Results[0]), nil
}

func compositeFields(cl *ast.CompositeLit, who string) ([]pair, error) {
	var out []pair
	for _, el := range cl.Elts {
		k, ok := el.(*ast.KeyValueExpr)
		if !ok {
			return nil, fmt.Errorf("%s: positional composite literal", who)
		}
		if inner, ok := k.Value.(*ast.CompositeLit); ok {
			sub, err := compositeFields(inner, who)
			if err != nil {
				return nil, err
			}
			out = append(out, pair{exprStr(k.Key) + ":type", exprStr(inner.Type)})
			for _, s := range sub {
				out = append(out, pair{exprStr(k.Key) + "." + s.a, s.b})
			}
			continue
		}
		out = append(out, pair{exprStr(k.Key), exprStr(k.Value)})
	}
	return out, nil
}

func forkTables(repo string) (string, map[string]int, error) {
	counts := map[string]int{}
	var sb strings.Builder
	f, err := parseGo(filepath.Join(repo, "eth2/beacon/fork.go"))
	if err != nil {
		return "", nil, err
	}
	// ForkDigest
	fd := findFunc(f, "*ForkDecoder", "ForkDigest")
	if fd == nil {
		return "", nil, fmt.Errorf("ForkDecoder.ForkDigest not found")
	}
	rows, def, err := ifChain(fd.Body, "ForkDecoder.ForkDigest")
	if err != nil {
		return "", nil, err
	}
	counts["forkDigestChain"] = len(rows) + 1
	sb.WriteString(pairsLean("forkDigestChain", "`ForkDecoder.ForkDigest`: (`epoch <` this field, returned expression) in source order", rows))
	fmt.Fprintf(&sb, "/-- the final `else` of `ForkDecoder.ForkDigest` -/\ndef forkDigestDefault : String := %s\n\n", leanStr(def))

	// NewForkDecoder
	nd := findFunc(f, "", "NewForkDecoder")
	if nd == nil || len(nd.Body.List) != 1 {
		return "", nil, fmt.Errorf("NewForkDecoder not found / not a single return")
	}
	ret, ok := nd.Body.List[0].(*ast.ReturnStmt)
	if !ok || len(ret.Results) != 1 {
		return "", nil, fmt.Errorf("NewForkDecoder: not a single return")
	}
	u, ok := ret.Results[0].(*ast.UnaryExpr)
	if !ok {
		return "", nil, fmt.Errorf("NewForkDecoder: unexpected result")
	}
	cl, ok := u.X.(*ast.CompositeLit)
	if !ok {
		return "", nil, fmt.Errorf("NewForkDecoder: unexpected result")
	}
	dfs, err := compositeFields(cl, "NewForkDecoder")
	if err != nil {
		return "", nil, err
	}
	counts["newForkDecoder"] = len(dfs)
	sb.WriteString(pairsLean("newForkDecoder", "`NewForkDecoder`: decoder field ↦ initialiser", dfs))

	// BlockAllocator
	ba := findFunc(f, "*ForkDecoder", "BlockAllocator")
	if ba == nil || len(ba.Body.List) != 1 {
		return "", nil, fmt.Errorf("BlockAllocator not found / not a single switch")
	}
	sw, ok := ba.Body.List[0].(*ast.SwitchStmt)
	if !ok || exprStr(sw.Tag) != "digest" {
		return "", nil, fmt.Errorf("BlockAllocator: not `switch digest`")
	}
	var arows []pair
	adef := ""
	for _, c := range sw.Body.List {
		cc := c.(*ast.CaseClause)
		if len(cc.Body) != 1 {
			return "", nil, fmt.Errorf("BlockAllocator: case with %d statements", len(cc.Body))
		}
		r, ok := cc.Body[0].(*ast.ReturnStmt)
		if !ok || len(r.Results) != 2 {
			return "", nil, fmt.Errorf("BlockAllocator: case is not a two-value return")
		}
		if cc.List == nil {
			if exprStr(r.Results[0]) != "nil" {
				return "", nil, fmt.Errorf("BlockAllocator: default returns a non-nil allocator")
			}
			adef = "error"
			continue
		}
		if len(cc.List) != 1 {
			return "", nil, fmt.Errorf("BlockAllocator: case with several values")
		}
		if exprStr(r.Results[1]) != "nil" {
			return "", nil, fmt.Errorf("BlockAllocator: case %s returns an error", exprStr(cc.List[0]))
		}
		fl, ok := r.Results[0].(*ast.FuncLit)
		if !ok || len(fl.Body.List) != 1 {
			return "", nil, fmt.Errorf("BlockAllocator: case %s does not return a func literal", exprStr(cc.List[0]))
		}
		rr, ok := fl.Body.List[0].(*ast.ReturnStmt)
		if !ok || len(rr.Results) != 1 {
			return "", nil, fmt.Errorf("BlockAllocator: allocator body")
		}
		call, ok := rr.Results[0].(*ast.CallExpr)
		if !ok || exprStr(call.Fun) != "new" || len(call.Args) != 1 {
			return "", nil, fmt.Errorf("BlockAllocator: allocator is not new(T)")
		}
		arows = append(arows, pair{exprStr(cc.List[0]), exprStr(call.Args[0])})
	}
	if adef != "error" {
		return "", nil, fmt.Errorf("BlockAllocator: no erroring default case")
	}
	counts["blockAllocator"] = len(arows)
	sb.WriteString(pairsLean("blockAllocator", "`ForkDecoder.BlockAllocator`: case expression ↦ allocated type, in source order (default: error)", arows))

	// UpgradeMaybe
	um := findFunc(f, "*StandardUpgradeableBeaconState", "UpgradeMaybe")
	if um == nil {
		return "", nil, fmt.Errorf("UpgradeMaybe not found")
	}
	var urows []string
	nIf := 0
	for i, st := range um.Body.List {
		is, ok := st.(*ast.IfStmt)
		if !ok {
			if i == 0 || i == len(um.Body.List)-1 { // `slot, err := s.BeaconState.Slot()` and `return nil`
				continue
			}
			return "", nil, fmt.Errorf("UpgradeMaybe: unexpected statement %s", exprStr(st))
		}
		if i == 1 && is.Init == nil && exprStr(is.Cond) == "err != nil" {
			continue
		}
		nIf++
		as, ok := is.Init.(*ast.AssignStmt)
		if !ok || len(as.Rhs) != 1 || is.Else != nil {
			return "", nil, fmt.Errorf("UpgradeMaybe: if #%d has no type-assertion init / has an else", nIf)
		}
		ta, ok := as.Rhs[0].(*ast.TypeAssertExpr)
		if !ok || exprStr(ta.X) != "s.BeaconState" {
			return "", nil, fmt.Errorf("UpgradeMaybe: if #%d does not assert on s.BeaconState", nIf)
		}
		be, ok := is.Cond.(*ast.BinaryExpr)
		if !ok || be.Op != token.LAND || exprStr(be.X) != "ok" {
			return "", nil, fmt.Errorf("UpgradeMaybe: if #%d condition %s", nIf, exprStr(is.Cond))
		}
		eq, ok := be.Y.(*ast.BinaryExpr)
		if !ok || eq.Op != token.EQL || exprStr(eq.X) != "slot" {
			return "", nil, fmt.Errorf("UpgradeMaybe: if #%d condition %s", nIf, exprStr(is.Cond))
		}
		// body: post, err := pkg.UpgradeToX(spec, epc, tpre) ; … ; s.BeaconState = post
		upg, assigned := "", false
		for _, bs := range is.Body.List {
			if a, ok := bs.(*ast.AssignStmt); ok {
				if len(a.Lhs) == 2 && exprStr(a.Lhs[0]) == "post" {
					if c, ok := a.Rhs[0].(*ast.CallExpr); ok {
						upg = exprStr(c.Fun) + "(" + joinExprs(c.Args) + ")"
					}
				}
				if len(a.Lhs) == 1 && exprStr(a.Lhs[0]) == "s.BeaconState" && exprStr(a.Rhs[0]) == "post" {
					assigned = true
				}
			}
		}
		if upg == "" || !assigned {
			return "", nil, fmt.Errorf("UpgradeMaybe: if #%d body not recognised", nIf)
		}
		urows = append(urows, fmt.Sprintf("(%s, %s, %s)", leanStr(exprStr(ta.Type)), leanStr(exprStr(eq.Y)), leanStr(upg)))
	}
	counts["upgradeChain"] = len(urows)
	sb.WriteString("/-- `UpgradeMaybe`: sequential `if`s in source order: (asserted pre-state type, `slot ==` this, upgrade call) -/\n")
	sb.WriteString("def upgradeChain : List (String × String × String) := [\n  " + strings.Join(urows, ",\n  ") + "]\n\n")

	// EnvelopeToSignedBeaconBlock
	ev := findFunc(f, "", "EnvelopeToSignedBeaconBlock")
	if ev == nil || len(ev.Body.List) != 1 {
		return "", nil, fmt.Errorf("EnvelopeToSignedBeaconBlock not found / not a single switch")
	}
	ts, ok := ev.Body.List[0].(*ast.TypeSwitchStmt)
	if !ok {
		return "", nil, fmt.Errorf("EnvelopeToSignedBeaconBlock: not a type switch")
	}
	var erows []string
	for _, c := range ts.Body.List {
		cc := c.(*ast.CaseClause)
		if cc.List == nil {
			continue
		}
		if len(cc.List) != 1 || len(cc.Body) != 1 {
			return "", nil, fmt.Errorf("EnvelopeToSignedBeaconBlock: case shape")
		}
		r, ok := cc.Body[0].(*ast.ReturnStmt)
		if !ok || len(r.Results) != 2 || exprStr(r.Results[1]) != "nil" {
			return "", nil, fmt.Errorf("EnvelopeToSignedBeaconBlock: case %s return shape", exprStr(cc.List[0]))
		}
		u, ok := r.Results[0].(*ast.UnaryExpr)
		if !ok {
			return "", nil, fmt.Errorf("EnvelopeToSignedBeaconBlock: case %s result", exprStr(cc.List[0]))
		}
		cl, ok := u.X.(*ast.CompositeLit)
		if !ok {
			return "", nil, fmt.Errorf("EnvelopeToSignedBeaconBlock: case %s result", exprStr(cc.List[0]))
		}
		fs, err := compositeFields(cl, "EnvelopeToSignedBeaconBlock")
		if err != nil {
			return "", nil, err
		}
		var ps []string
		for _, p := range fs {
			ps = append(ps, "("+leanStr(p.a)+", "+leanStr(p.b)+")")
		}
		erows = append(erows, fmt.Sprintf("(%s, %s, [%s])", leanStr(exprStr(cc.List[0])), leanStr(exprStr(cl.Type)), strings.Join(ps, ", ")))
	}
	counts["envelopeToBlock"] = len(erows)
	sb.WriteString("/-- `EnvelopeToSignedBeaconBlock`: (body type case, constructed type, field ↦ source expression) -/\n")
	sb.WriteString("def envelopeToBlock : List (String × String × List (String × String)) := [\n  " + strings.Join(erows, ",\n  ") + "]\n\n")

	// per fork: Envelope / Header methods and the Fork literal of UpgradeToX
	var envRows, hdrRows, upRows []string
	for _, pkg := range []string{"phase0", "altair", "bellatrix", "capella", "deneb", "electra"} {
		bf, err := parseGo(filepath.Join(repo, "eth2/beacon", pkg, "block.go"))
		if err != nil {
			return "", nil, err
		}
		em := findFunc(bf, "*SignedBeaconBlock", "Envelope")
		if em == nil {
			return "", nil, fmt.Errorf("%s: SignedBeaconBlock.Envelope not found", pkg)
		}
		fs, err := methodLiteral(em, pkg+".Envelope")
		if err != nil {
			return "", nil, err
		}
		envRows = append(envRows, fmt.Sprintf("(%s, [%s])", leanStr(pkg), fs))
		hm := findFunc(bf, "*BeaconBlock", "Header")
		if hm == nil {
			return "", nil, fmt.Errorf("%s: BeaconBlock.Header not found", pkg)
		}
		fs, err = methodLiteral(hm, pkg+".Header")
		if err != nil {
			return "", nil, err
		}
		hdrRows = append(hdrRows, fmt.Sprintf("(%s, [%s])", leanStr(pkg), fs))
		if pkg == "phase0" {
			continue
		}
		ff, err := parseGo(filepath.Join(repo, "eth2/beacon", pkg, "fork.go"))
		if err != nil {
			return "", nil, err
		}
		var up *ast.FuncDecl
		for _, d := range ff.Decls {
			if x, ok := d.(*ast.FuncDecl); ok && strings.HasPrefix(x.Name.Name, "UpgradeTo") {
				up = x
			}
		}
		if up == nil {
			return "", nil, fmt.Errorf("%s/fork.go: no UpgradeToX", pkg)
		}
		var lits []pair
		defs := map[string]string{}
		ast.Inspect(up.Body, func(n ast.Node) bool {
			if a, ok := n.(*ast.AssignStmt); ok && a.Tok == token.DEFINE && len(a.Rhs) == 1 {
				defs[exprStr(a.Lhs[0])] = exprStr(a.Rhs[0])
				if cl, ok := a.Rhs[0].(*ast.CompositeLit); ok && exprStr(cl.Type) == "common.Fork" {
					lits, _ = compositeFields(cl, pkg+".UpgradeTo")
				}
			}
			return true
		})
		var ps []string
		ps = append(ps, "("+leanStr("func")+", "+leanStr(up.Name.Name)+")")
		for _, p := range lits {
			v := p.b
			// resolve one level of local definitions so that `epoch` reads `spec.SlotToEpoch(slot)` etc.
			if d, ok := defs[v]; ok {
				v = d
			}
			ps = append(ps, "("+leanStr(p.a)+", "+leanStr(v)+")")
		}
		if d, ok := defs["preFork"]; ok {
			ps = append(ps, "("+leanStr("preFork")+", "+leanStr(d)+")")
		}
		if d, ok := defs["slot"]; ok {
			ps = append(ps, "("+leanStr("slot")+", "+leanStr(d)+")")
		}
		upRows = append(upRows, fmt.Sprintf("(%s, [%s])", leanStr(pkg), strings.Join(ps, ", ")))
	}
	counts["envelopeMethods"] = len(envRows)
	counts["headerMethods"] = len(hdrRows)
	counts["upgradeFork"] = len(upRows)
	sb.WriteString("/-- each fork's `SignedBeaconBlock.Envelope`: field ↦ expression of the returned envelope (locals resolved one level) -/\n")
	sb.WriteString("def envelopeMethods : List (String × List (String × String)) := [\n  " + strings.Join(envRows, ",\n  ") + "]\n\n")
	sb.WriteString("/-- each fork's `BeaconBlock.Header` -/\n")
	sb.WriteString("def headerMethods : List (String × List (String × String)) := [\n  " + strings.Join(hdrRows, ",\n  ") + "]\n\n")
	sb.WriteString("/-- the `common.Fork{..}` literal built by each `UpgradeToX` (empty when the function builds none) -/\n")
	sb.WriteString("def upgradeFork : List (String × List (String × String)) := [\n  " + strings.Join(upRows, ",\n  ") + "]\n\n")
	return sb.String(), counts, nil
}

func joinExprs(es []ast.Expr) string {
	var s []string
	for _, e := range es {
		s = append(s, exprStr(e))
	}
	return strings.Join(s, ", ")
}

// methodLiteral: body = [local := expr]* ; return &T{K: V, …}; locals are substituted one level.
func methodLiteral(fd *ast.FuncDecl, who string) (string, error) {
	defs := map[string]string{}
	for i, st := range fd.Body.List {
		if a, ok := st.(*ast.AssignStmt); ok && a.Tok == token.DEFINE && len(a.Lhs) == 1 && len(a.Rhs) == 1 && i < len(fd.Body.List)-1 {
			defs[exprStr(a.Lhs[0])] = exprStr(a.Rhs[0])
			continue
		}
		r, ok := st.(*ast.ReturnStmt)
		if !ok || i != len(fd.Body.List)-1 || len(r.Results) != 1 {
			return "", fmt.Errorf("%s: unexpected statement %s", who, exprStr(st))
		}
		u, ok := r.Results[0].(*ast.UnaryExpr)
		if !ok {
			return "", fmt.Errorf("%s: result is not &T{..}", who)
		}
		cl, ok := u.X.(*ast.CompositeLit)
		if !ok {
			return "", fmt.Errorf("%s: result is not &T{..}", who)
		}
		fs, err := compositeFields(cl, who)
		if err != nil {
			return "", err
		}
		ps := []string{"(" + leanStr(":type") + ", " + leanStr(exprStr(cl.Type)) + ")"}
		for _, p := range fs {
			v := p.b
			for name, d := range defs {
				// whole-identifier substitution of locals (header -> b.Message.Header(spec))
				v = regexp.MustCompile(`(^|[^A-Za-z0-9_.])`+regexp.QuoteMeta(name)+`($|[^A-Za-z0-9_])`).ReplaceAllString(v, "${1}("+d+")${2}")
			}
			ps = append(ps, "("+leanStr(p.a)+", "+leanStr(v)+")")
		}
		return strings.Join(ps, ", "), nil
	}
	return "", fmt.Errorf("%s: empty body", who)
}

// ---------------------------------------------------------------------------------------------

func runConfigs(repo, outDir string) error {
	var sb strings.Builder
	sb.WriteString("/- GENERATED by /verif/go/cmd/extract (configs.go) from /repo's current source. Do not edit.\n")
	sb.WriteString("   YAML constants of the embedded presets/configs, Go-level constants, fork chains of eth2/beacon/fork.go. -/\n")
	sb.WriteString("import Zrnt.Config.Val\nset_option maxRecDepth 100000\n\nnamespace Zrnt.Gen.Configs\nopen Zrnt.Config (Val)\n\n")

	rows, err := embeds(repo)
	if err != nil {
		return err
	}
	sb.WriteString("/-- `configs.Mainnet` / `configs.Minimal`: (variable, struct field, decoded type, embedded file) -/\n")
	sb.WriteString("def embeds : List (String × String × String × String) := [")
	for i, r := range rows {
		if i > 0 {
			sb.WriteString(",")
		}
		fmt.Fprintf(&sb, "\n  (%s, %s, %s, %s)", leanStr(r.specVar), leanStr(r.field), leanStr(r.typ), leanStr(r.file))
	}
	sb.WriteString("]\n\n")
	nyaml := 0
	for _, v := range []string{"Mainnet", "Minimal"} {
		fmt.Fprintf(&sb, "/-- every `KEY: value` of the files embedded into `configs.%s`: (struct field, key, value), file order -/\n", v)
		fmt.Fprintf(&sb, "def yaml%s : List (String × String × Val) := [", v)
		first := true
		for _, r := range rows {
			if r.specVar != v {
				continue
			}
			kvs, err := parseYAML(filepath.Join(repo, "eth2/configs", r.file))
			if err != nil {
				return err
			}
			for _, e := range kvs {
				if !first {
					sb.WriteString(",")
				}
				first = false
				nyaml++
				fmt.Fprintf(&sb, "\n  (%s, %s, %s)", leanStr(r.field), leanStr(e.k), e.v)
			}
		}
		sb.WriteString("]\n\n")
	}
	gc, skipped, err := goConsts(repo)
	if err != nil {
		return err
	}
	sb.WriteString("/-- SCREAMING_CASE integer constants of eth2/beacon/common/*.go and altair/participation.go, and the DOMAIN_x literals -/\n")
	sb.WriteString("def goConsts : List (String × Val) := [")
	for i, e := range gc {
		if i > 0 {
			sb.WriteString(",")
		}
		fmt.Fprintf(&sb, "\n  (%s, %s)", leanStr(e.k), e.v)
	}
	sb.WriteString("]\n\n")
	fmt.Fprintf(&sb, "/-- SCREAMING_CASE constants that are not integer constants (type aliases …): not judged -/\ndef goConstsSkipped : List String := [%s]\n\n", func() string {
		var q []string
		for _, s := range skipped {
			q = append(q, leanStr(s))
		}
		return strings.Join(q, ", ")
	}())
	ft, counts, err := forkTables(repo)
	if err != nil {
		return err
	}
	sb.WriteString(ft)
	sb.WriteString("end Zrnt.Gen.Configs\n")
	var cs []string
	for k, v := range counts {
		cs = append(cs, fmt.Sprintf("%s=%d", k, v))
	}
	sort.Strings(cs)
	fmt.Printf("configs: %d embeds, %d yaml constants, %d go constants (%d non-integer skipped), fork tables %s, opaque 0\n",
		len(rows), nyaml, len(gc), len(skipped), strings.Join(cs, " "))
	return writeIfChanged(filepath.Join(outDir, "Configs.lean"), sb.String())
}
