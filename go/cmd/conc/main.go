// conc: replays and stress runs of zrnt's shared components from many goroutines (C17).
// Build with `go build -race`. Race reports are written by the runtime to GORACE=log_path=...;
// this program prints protocol lines on stdout (see internal/conc).
//
//	conc deadlock <Type> <Method>                 one call under a watchdog
//	conc pair <Type.A> <Type.B> [-iters N]        two operations racing on one instance
//	conc nonlin <Type> <Method> [-rounds N]       the two-section interleaving, results checked
//	conc stress-race <fc|pubkey|pools> [-g N -iters N -seed S]
//	conc stress-lin  <fc|pubkey|pools> [-g N -iters N]
//	conc list                                     operations known / discovered
package main

import (
	"flag"
	"fmt"
	"os"
	"strings"
	"time"

	"verifharness/internal/conc"
)

func findOp(name string) (conc.Op, bool) {
	p := strings.SplitN(name, ".", 2)
	if len(p) != 2 {
		return conc.Op{}, false
	}
	if o, ok := conc.FindOp(p[0], p[1]); ok {
		return o, true
	}
	return conc.ReflectOp(p[0], p[1])
}

func main() {
	if len(os.Args) < 2 {
		fmt.Fprintln(os.Stderr, "usage: conc <deadlock|pair|nonlin|stress-race|stress-lin|list> ...")
		os.Exit(2)
	}
	cmd := os.Args[1]
	fs := flag.NewFlagSet(cmd, flag.ExitOnError)
	iters := fs.Int("iters", 300, "calls per goroutine")
	rounds := fs.Int("rounds", 200, "rounds (nonlin)")
	gor := fs.Int("g", 8, "goroutines")
	seed := fs.Int64("seed", 1, "seed")
	timeoutMs := fs.Int("timeout", 4000, "watchdog in ms (applied twice)")
	budgetMs := fs.Int("budget", 0, "time budget in ms: when reached, stop issuing calls, join, report (0 = none)")
	prefill := fs.String("prefill", "", "comma separated operations run sequentially first (pair)")
	var pos []string
	args := os.Args[2:]
	for len(args) > 0 && !strings.HasPrefix(args[0], "-") {
		pos = append(pos, args[0])
		args = args[1:]
	}
	fs.Parse(args)
	if *budgetMs > 0 {
		conc.Deadline = time.Now().Add(time.Duration(*budgetMs) * time.Millisecond)
	}
	out := conc.NewOut(os.Stdout)
	to := time.Duration(*timeoutMs) * time.Millisecond
	defer out.Flush()
	switch cmd {
	case "list":
		for _, o := range conc.Ops {
			fmt.Println("op", o.Name())
		}
		for _, types := range conc.Components {
			for _, o := range conc.DiscoverOps(types) {
				fmt.Println("discovered", o.Name())
			}
		}
	case "deadlock":
		o, ok := findOp(pos[0] + "." + pos[1])
		if !ok {
			fmt.Println("note unknown-op", pos[0]+"."+pos[1])
			return
		}
		conc.Deadlock(o, to, out)
	case "pair":
		a, ok1 := findOp(pos[0])
		b, ok2 := findOp(pos[1])
		if !ok1 || !ok2 {
			fmt.Println("note unknown-op", pos[0], pos[1])
			return
		}
		var pre []conc.Op
		for _, n := range strings.Split(*prefill, ",") {
			if o, ok := findOp(n); ok {
				pre = append(pre, o)
			}
		}
		conc.Pair(a, b, pre, *iters, to, out)
	case "nonlin":
		o, ok := findOp(pos[0] + "." + pos[1])
		if !ok {
			fmt.Println("note unknown-op", pos[0]+"."+pos[1])
			return
		}
		conc.NonLin(o, *rounds, *gor, to, out)
	case "stress-race":
		conc.StressRace(pos[0], *gor, *iters, *seed, to, out)
	case "stress-lin":
		conc.StressLin(pos[0], *gor, *iters, to, out)
	default:
		fmt.Fprintln(os.Stderr, "unknown command", cmd)
		os.Exit(2)
	}
}
