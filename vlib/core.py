"""Shared machinery of ./check: regeneration, Lean obligations + axiom audit, harness/zmodel
correspondence, violation classification, known findings, evidence."""
import fcntl, hashlib, json, os, re, subprocess, sys, time

VERIF = os.path.dirname(os.path.dirname(os.path.abspath(__file__)))
REPO = os.environ.get("VERIF_REPO", "/repo")
LEAN = os.path.join(VERIF, "lean")
GO = os.path.join(VERIF, "go")
BUILD = os.path.join(VERIF, "build")
ZMODEL = os.path.join(LEAN, ".lake", "build", "bin", "zmodel")
HARNESS = os.path.join(BUILD, "harness")
ALLOWED_AXIOMS = {"propext", "Classical.choice", "Quot.sound"}
FORBIDDEN = re.compile(r"\bsorry\b|\badmit\b|^\s*axiom\s|native_decide|bv_decide|implemented_by|\bunsafe\s|maxHeartbeats\s+0\b")

GOENV = dict(os.environ, GOFLAGS="-mod=mod", GOPROXY="off", GOSUMDB="off", GOTOOLCHAIN="local")


def point_gomod_at_repo():
    """The harness module reaches zrnt through a replace directive; it normally points at /repo.
    In a scratch copy of /verif (tools/mutcheck.sh) VERIF_REPO points it at a scratch worktree."""
    subprocess.run(["cp", os.path.join(REPO, "go.sum"), os.path.join(GO, "go.sum")])
    if REPO != "/repo":
        subprocess.run(["go", "mod", "edit", "-replace", "github.com/protolambda/zrnt=" + REPO], cwd=GO, env=GOENV)


def sh(cmd, cwd=None, env=None, timeout=None, stdin=None):
    p = subprocess.run(cmd, cwd=cwd, env=env, stdout=subprocess.PIPE, stderr=subprocess.STDOUT,
                       timeout=timeout, stdin=stdin, text=True, errors="replace")
    return p.returncode, p.stdout


class Lock:
    """Serialises the shared build steps (lake / go build) between concurrently running checks."""
    def __enter__(self):
        os.makedirs(BUILD, exist_ok=True)
        self.f = open(os.path.join(BUILD, ".lock"), "w")
        fcntl.flock(self.f, fcntl.LOCK_EX)
        return self
    def __exit__(self, *a):
        fcntl.flock(self.f, fcntl.LOCK_UN)
        self.f.close()


# ---------------------------------------------------------------------------------------------
# regeneration (tie R)

# table name of `extract` -> the generated Lean modules under Zrnt/Gen it writes
GEN_TABLE_MODULES = {"configs": ["Configs"], "faultsites": ["FaultSites"], "lockfacts": ["LockFacts", "LockFactsOk"],
                     "sszfacts": ["SszFacts"], "sszcodec": ["SszCodec"], "sszroot": ["SszRoot"], "ssztags": ["SszTags"], "statefacts": ["StateFacts"],
                     "blocklimits": ["BlockLimits"], "stageorder": ["StageOrder"]}


def regen_items_in_cone(cone_files):
    """Regenerated items a Lean module depends on, derived from its import cone: `extract:<table>` for every
    generated table module in the cone, `go2lean:<Fn>` for every translated function whose name occurs in a
    cone file other than GoFuns.lean itself. Used to charge a failing regeneration item to exactly the
    properties whose theorems read it (in addition to what the props entry lists by hand)."""
    items = set()
    mods = {os.path.basename(p)[:-5] for p in cone_files if "/Zrnt/Gen/" in p}
    for tab, ms in GEN_TABLE_MODULES.items():
        if mods & set(ms):
            items.add("extract:" + tab)
    if "GoFuns" in mods:
        try:
            fns = list(json.load(open(os.path.join(LEAN, "Zrnt/Gen/GoFuns.lean.status.json"))))
        except Exception:
            fns = []
        text = ""
        for p in cone_files:
            if not p.endswith("/Zrnt/Gen/GoFuns.lean"):
                text += open(p, errors="replace").read()
        for fn in fns:
            if re.search(r"\b" + re.escape(fn) + r"\b", text):
                items.add("go2lean:" + fn)
        if not fns:
            items.add("go2lean:")
    return items


def regen(log):
    """Regenerate lean/Zrnt/Gen/* from /repo's working tree.
    Returns list of (name, ok, output) with names `go2lean:<LeanFunction>` and `extract:<table>`
    (plus `go2lean:build` / `extract:build` when a tool itself does not build).
    A property is charged only for the items it lists under `regen` in its props entry."""
    res = []
    os.makedirs(BUILD, exist_ok=True)
    point_gomod_at_repo()
    for name, pkg in (("go2lean", "./cmd/go2lean"), ("extract", "./cmd/extract")):
        if not os.path.exists(os.path.join(GO, pkg, "main.go")):
            continue
        rc, out = sh(["go", "build", "-o", os.path.join(BUILD, name), pkg], cwd=GO, env=GOENV)
        if rc != 0:
            res.append((name + ":build", False, out))
            continue
        if name == "go2lean":
            target = os.path.join(LEAN, "Zrnt/Gen/GoFuns.lean")
            rc, out = sh([os.path.join(BUILD, name), REPO, os.path.join(GO, "cmd/go2lean/funcs.json"), target])
            st = {}
            try:
                st = json.load(open(target + ".status.json"))
            except Exception:
                pass
            if rc != 0 or not st:
                res.append(("go2lean:build", False, out))
            # safety net: the regenerated file must compile, otherwise every driver that imports it (and so
            # zmodel and every check) would go down with it; fall back to the last version that compiled
            good = target + ".good"
            rcb, outb = sh(["lake", "build", "Zrnt.Gen.GoFuns"], cwd=LEAN, timeout=900)
            if rcb == 0:
                subprocess.run(["cp", target, good])
                for fn, msg in sorted(st.items()):
                    res.append((f"go2lean:{fn}", msg == "ok", msg))
            else:
                if os.path.exists(good):
                    subprocess.run(["cp", good, target])
                    sh(["lake", "build", "Zrnt.Gen.GoFuns"], cwd=LEAN, timeout=900)
                for fn in sorted(st):
                    res.append((f"go2lean:{fn}", False, "regenerated GoFuns.lean does not compile: " + outb[-800:]))
        else:
            rc, out = sh([os.path.join(BUILD, name), REPO, os.path.join(LEAN, "Zrnt/Gen")])
            seen = False
            for line in out.splitlines():
                m = re.match(r"TABLE (\S+) (ok|FAIL)(.*)", line)
                if m:
                    seen = True
                    tab, tok, tmsg = m.group(1), m.group(2) == "ok", m.group(3).strip() or out[-1500:]
                    # safety net (as for GoFuns): a regenerated table file that no longer compiles (it may carry
                    # kernel-decided theorems about its rows) must not take down the driver, and with it the
                    # checks of properties that do not read the table; it is charged to the properties that do,
                    # and the last compiling copy is put back for everybody else
                    for mod in GEN_TABLE_MODULES.get(tab, []):
                        target = os.path.join(LEAN, "Zrnt/Gen", mod + ".lean")
                        if not os.path.exists(target):
                            continue
                        good = target + ".good"
                        rcb, outb = sh(["lake", "build", "Zrnt.Gen." + mod], cwd=LEAN, timeout=1800)
                        if rcb == 0:
                            subprocess.run(["cp", target, good])
                        else:
                            if tok:
                                tok, tmsg = False, f"regenerated {mod}.lean does not compile: " + "; ".join(failed_decls(outb))[:1200]
                            subprocess.run(["cp", target, target + ".rejected"])
                            if os.path.exists(good):
                                subprocess.run(["cp", good, target])
                                sh(["lake", "build", "Zrnt.Gen." + mod], cwd=LEAN, timeout=1800)
                    res.append((f"extract:{tab}", tok, tmsg))
            if rc != 0 and not seen:
                res.append(("extract:build", False, out))
    bad = [n for n, ok, _ in res if not ok]
    log(f"regen: {len(res) - len(bad)}/{len(res)} items ok" + (f"; FAILED: {bad}" if bad else ""))
    return res


# ---------------------------------------------------------------------------------------------
# Lean obligations

def lake_build(targets, log):
    rc, out = sh(["lake", "build"] + targets, cwd=LEAN, timeout=3600)
    if rc != 0:
        log("lake build failed:\n" + out[-4000:])
    return rc == 0, out


def failed_decls(build_output):
    """Names of the files/lines that failed in a lake build output."""
    errs = re.findall(r"^error: (\S+?\.lean:\d+:\d+): (.*)$", build_output, re.M)
    return [f"{loc} {msg[:160]}" for loc, msg in errs][:40]


def audit(theorems, module, log):
    """#print axioms for every property theorem. Returns dict name -> list of axioms (None = missing)."""
    os.makedirs(os.path.join(BUILD, "audit"), exist_ok=True)
    path = os.path.join(BUILD, "audit", (module if isinstance(module, str) else module[0]).replace(".", "_") + ".lean")
    with open(path, "w") as f:
        for m in ([module] if isinstance(module, str) else module):
            f.write(f"import {m}\n")
        for t in theorems:
            f.write(f"#print axioms {t}\n")
    rc, out = sh(["lake", "env", "lean", path], cwd=LEAN, timeout=1800)
    res = {}
    for t in theorems:
        short = t
        m = re.search(r"'" + re.escape(short) + r"' depends on axioms: \[([^\]]*)\]", out, re.S)
        if m:
            res[t] = [a.strip() for a in m.group(1).replace("\n", " ").split(",") if a.strip()]
        elif re.search(r"'" + re.escape(short) + r"' does not depend on any axioms", out):
            res[t] = []
        else:
            res[t] = None
    if rc != 0:
        log("audit output:\n" + out[-3000:])
    return res


def import_cone(modules):
    """Files of this lake project transitively imported by the given modules (Zrnt.* / Proofs.* / ZModel)."""
    seen, todo = set(), list(modules)
    while todo:
        m = todo.pop()
        if m in seen:
            continue
        path = os.path.join(LEAN, m.replace(".", "/") + ".lean")
        if not os.path.exists(path):
            continue
        seen.add(m)
        for line in open(path, errors="replace"):
            mm = re.match(r"\s*(?:public\s+)?import\s+([A-Za-z0-9_.]+)", line)
            if mm:
                todo.append(mm.group(1))
    return [os.path.join(LEAN, m.replace(".", "/") + ".lean") for m in sorted(seen)]


def grep_forbidden(paths):
    """paths: directories (walked) or single .lean files."""
    hits = []
    files = []
    for root in paths:
        if os.path.isfile(root):
            files.append(root); continue
        for dp, _, fns in os.walk(root):
            for fn in fns:
                if fn.endswith(".lean"):
                    files.append(os.path.join(dp, fn))
    for p in files:
        in_block = 0
        for i, line in enumerate(open(p, errors="replace"), 1):
            # strip comments (block comments tracked coarsely, line comments exactly)
            s = line
            out = ""
            j = 0
            while j < len(s):
                if s.startswith("/-", j):
                    in_block += 1; j += 2; continue
                if s.startswith("-/", j) and in_block:
                    in_block -= 1; j += 2; continue
                if not in_block and s.startswith("--", j):
                    break
                if not in_block:
                    out += s[j]
                j += 1
            if FORBIDDEN.search(out):
                hits.append(f"{os.path.relpath(p, VERIF)}:{i}: {out.strip()[:120]}")
    return hits


# ---------------------------------------------------------------------------------------------
# harness / zmodel correspondence

def build_harness(log, components=None, tag="all"):
    """Build the harness against REPO. If the full build fails (some component no longer compiles
    against a changed /repo) and `components` is given, build a harness with only those components,
    so that an API change in one area does not take every other property's check down with it.
    Returns (ok, output, path_of_binary)."""
    point_gomod_at_repo()
    rc, out = sh(["go", "build", "-tags", "verif", "-o", HARNESS, "./cmd/harness"], cwd=GO, env=GOENV, timeout=1800)
    if rc == 0:
        return True, out, HARNESS
    if not components:
        log("harness build failed:\n" + out[-4000:])
        return False, out, HARNESS
    only = os.path.join(GO, "cmd", "only", tag)
    os.makedirs(only, exist_ok=True)
    subprocess.run(["cp", os.path.join(GO, "cmd/harness/main.go"), os.path.join(only, "main.go")])
    with open(os.path.join(only, "registry.go"), "w") as f:
        f.write("package main\n\nimport (\n" + "".join(f'\t_ "verifharness/internal/{c}"\n' for c in components) + ")\n")
    binp = os.path.join(BUILD, f"harness_{tag}")
    rc2, out2 = sh(["go", "build", "-tags", "verif", "-o", binp, "./cmd/only/" + tag], cwd=GO, env=GOENV, timeout=1800)
    if rc2 != 0:
        log("harness build failed (also with only this property's components):\n" + out2[-4000:])
        return False, out2, binp
    log("full harness build failed for another component; using a harness restricted to " + ",".join(components))
    return True, out, binp


def run_go(mode, ops_path, out_path, timeout=3600, env=None, binary=None):
    e = dict(os.environ, GOMEMLIMIT="12GiB")
    if env: e.update(env)
    rc, out = sh([binary or HARNESS, "exec", mode, "-in", ops_path, "-out", out_path], timeout=timeout, env=e)
    return rc, out


def run_lean(mode, ops_path, out_path, timeout=3600):
    with open(ops_path) as fi, open(out_path, "w") as fo:
        p = subprocess.run([ZMODEL, mode], stdin=fi, stdout=fo, stderr=subprocess.PIPE, timeout=timeout)
    return p.returncode, p.stderr.decode(errors="replace")


def split_model_spec(line):
    """zmodel answers `model` or `model | spec`."""
    if " | " in line:
        m, s = line.split(" | ", 1)
        return m.strip(), s.strip()
    return line.strip(), None


def compare(ops, go, lean):
    """Line-wise comparison. Returns list of dicts for the disagreeing lines."""
    bad = []
    n = max(len(ops), len(go), len(lean))
    for i in range(n):
        op = ops[i] if i < len(ops) else "<missing op>"
        g = go[i].strip() if i < len(go) else "<missing go output>"
        l = lean[i] if i < len(lean) else "<missing model output>"
        m, s = split_model_spec(l)
        go_vs_spec = (s is not None and s != "any" and g != s)
        go_vs_model = (g != m) and not (s == "any" and m != g and False)
        if go_vs_spec or go_vs_model:
            bad.append(dict(line=i, op=op, go=g, model=m, spec=s, vs_spec=go_vs_spec, vs_model=go_vs_model))
    return bad


# ---------------------------------------------------------------------------------------------
# known findings

def load_known():
    p = os.path.join(VERIF, "known_findings.jsonl")
    out = []
    if os.path.exists(p):
        for line in open(p):
            line = line.strip()
            if line and not line.startswith("#"):
                out.append(json.loads(line))
    return out


def match_known(prop, descriptor, known):
    for k in known:
        if k.get("status") == "known" and k.get("property") == prop and re.search(k["pattern"], descriptor):
            return k
    return None


# ---------------------------------------------------------------------------------------------
# evidence

def write_evidence(prop, tier, seed, level, coverage, assumptions, wall, violations):
    os.makedirs(os.path.join(VERIF, "evidence"), exist_ok=True)
    ev = dict(property_id=prop, tier=tier, seed=seed, level=level, coverage=coverage,
              assumptions=assumptions, wall_s=round(wall, 2), violations=violations)
    with open(os.path.join(VERIF, "evidence", prop + ".json"), "w") as f:
        json.dump(ev, f, indent=1, sort_keys=False)
        f.write("\n")


def write_replay(prop, payload):
    os.makedirs(os.path.join(VERIF, "replays"), exist_ok=True)
    h = hashlib.sha256(json.dumps(payload, sort_keys=True).encode()).hexdigest()[:12]
    p = os.path.join(VERIF, "replays", f"{prop}-{h}.json")
    with open(p, "w") as f:
        json.dump(payload, f, indent=1)
        f.write("\n")
    return p
