"""C15 — state accessors are exact and state copies are independent."""
import os, subprocess
from .common import TB_COMMON
from .. import core


def _diagnose(ctx):
    """When an obligation of C15 is broken, name the offending view/accessor (`Zrnt.State.report`)."""
    if not any("Proofs.Properties.C15" in str(b.get("what", "")) for b in ctx["broken"]):
        return {}
    path = os.path.join(core.BUILD, "audit", "c15_report.lean")
    os.makedirs(os.path.dirname(path), exist_ok=True)
    with open(path, "w") as f:
        f.write("import Zrnt.State.Accessors\n#eval Zrnt.State.report\n")
    subprocess.run(["lake", "build", "Zrnt.State.Accessors"], cwd=core.LEAN, stdout=subprocess.PIPE, stderr=subprocess.STDOUT)
    rc, out = core.sh(["lake", "env", "lean", path], cwd=core.LEAN, timeout=600)
    ctx["broken"].append(dict(what="C15 table theorems: offending accessors (Zrnt.State.report)", detail=out[-3000:]))
    ctx["log"]("offending accessors: " + out[-1500:])
    return {}


PROPS = {"C15": dict(
    module="Proofs.Properties.C15",
    theorems=[
        "Zrnt.Proofs.C15.fields_match_spec",
        "Zrnt.Proofs.C15.constants_match_container",
        "Zrnt.Proofs.C15.accessor_index_correct",
        "Zrnt.Proofs.C15.subview_positions_correct",
        "Zrnt.Proofs.C15.get_set_same",
        "Zrnt.Proofs.C15.get_set_other",
        "Zrnt.Proofs.C15.set_out_of_range",
        "Zrnt.Proofs.C15.copy_independent_partial",
        "Zrnt.Proofs.C15.copy_noninterference_partial",
        "Zrnt.Proofs.C15.value_determined_by_history_partial",
    ],
    regen=["extract:statefacts"],
    components=["accessors"],
    modes=[dict(name="c15", stateful=True, max_shrinks=4, tie_results=[r"^genfail$"])],
    custom=_diagnose,
    level="proof",
    trusted_base=TB_COMMON + [
        "lean/Zrnt/State/Accessors.lean: hand-written expectations — the specification's container field lists per fork, the field each accessor's name denotes, wrapper/value-shape compatibility per field type, the index constant of each field",
        "extract/statefacts.go (go/ast): finds every struct embedding *ContainerView, its ContainerType, its iota block and every recv.Get/Set/Fields[i]/values[i] of every method; unresolvable indices are a hard error; validated differentially by mode c15 (the model column follows the extracted indices)",
        "ztyp ContainerView.Get/Set, structural sharing and hash caching of the persistent tree, Go slices (exercised through zrnt by the copy experiments, not verified)",
        "the struct-form SSZ codecs of zrnt are used as the observer of the view side in mode c15 (their agreement with the specification's schema is C04/C05)",
    ],
    assumptions=[
        "a copy is taken with CopyState and the context with EpochsContext.Clone; the shared, append-only pubkey cache may know keys beyond a state's registry (documented by zrnt, guarded at use; exactness of the cache is C16)",
        "electra states are exercised as containers only (the repository does not process electra)",
    ],
    rule="per view type (all 29 container views: 6 fork states + 23 typed views) x rounds, alternating random and default (all-zero) initial values and the minimal preset and a custom preset whose vector lengths are not powers of two (96/72/48/24; element indices in the top part of the vectors and far beyond their length): the value is given field by field from the struct side and loaded from bytes; every getter/setter/special method found by reflection over the view's method set; for every setter repeated writes whose new value shares components with the stored one (same value, one component changed, random subset changed); element accessors of roots/mixes/slashings/balances/scores/participation flags/validators, appends and resets of the list sub-views; Raw() digests; held results: the result of every getter (and its Raw()) is snapshotted, the same getter is read on another value of the type (extra_data of length 0/5/32/other) and again on this one, and the held result must still serialise to its snapshot. Copy experiments: kick-started chains of every fork (setters, appends, ProcessSlots across epochs, both directions, sibling copies); generated valid chains (internal/chain) where four siblings take the chain's own block / a different valid block / a corrupted block / empty slots, incl. first blocks of fork epochs and deposit blocks; conflicting deposit histories between an original and its copy, the copy compared with a reference whose context was computed from scratch. Non-trivial = executed by Go (not bad-op); distinct = (line number, op) since sequences are stateful",
    manifest=dict(
        level_text="Lean theorems over tables regenerated from the Go source on every run: every index constant is its field's position, every accessor of every fork's state view and of every typed sub-view touches exactly the field its name denotes through a wrapper of that field's type; generic get/set laws of the container model; plus a differential run driving every accessor found by reflection and copy experiments on real chains",
        level_note="copy independence is a theorem only about the value model (copy_independent_partial): structural sharing inside ztyp and slice aliasing in the shallow context clone are runtime behaviour, observed by the copy experiments only",
        technique="Lean 4 proof over regenerated fact tables + Go/Lean differential correspondence + copy/mutate experiments",
        design_ref="DESIGN.md 5/C15", engine="lean"),
)}
