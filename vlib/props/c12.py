"""C12 — gossip validation returns the p2p specification's verdict (eth2/gossipval)."""

from .common import TB_COMMON

PROPS = {}

_VALIDATORS = ["block", "att", "agg", "exit", "pslash", "aslash", "syncMsg", "contrib"]

_THEOREMS = [
    "Zrnt.Proofs.C12.checkSlotSpan_total",
    "Zrnt.Proofs.C12.checkSlotSpan_spec",
    "Zrnt.Proofs.C12.slotSpanOk_iff",
    "Zrnt.Proofs.C12.le64_eq_spec",
    "Zrnt.Proofs.C12.isAggregatorH_eq_spec",
    "Zrnt.Proofs.C12.isAggregator_eq_spec",
    "Zrnt.Proofs.C12.isSyncAggregatorH_eq_spec",
    "Zrnt.Proofs.C12.isSyncAggregator_eq_spec",
    "Zrnt.Proofs.C12.subnet_eq_spec",
    "Zrnt.Proofs.C12.syncSubnet_eq_spec",
    "Zrnt.Proofs.C12.never_accept_of_iff",
    "Zrnt.Proofs.C12.block_accept_iff_all_conditions",
    "Zrnt.Proofs.C12.block_violated_never_accept",
    "Zrnt.Proofs.C12.block_timing_failures_ignore",
    "Zrnt.Proofs.C12.block_marks_only_on_accept",
    "Zrnt.Proofs.C12.prevEpoch_beq",
    "Zrnt.Proofs.C12.checkpointWalk_eq",
    "Zrnt.Proofs.C12.attSlotOk_eq_spec",
    "Zrnt.Proofs.C12.checkAttestationSlot_eq_model",
    "Zrnt.Proofs.C12.epochStartSlot_ok_val",
    "Zrnt.Proofs.C12.att_walk_of_ok",
    "Zrnt.Proofs.C12.att_marks_only_on_accept",
    "Zrnt.Proofs.C12.att_accept_iff_all_conditions",
    "Zrnt.Proofs.C12.att_violated_never_accept",
    "Zrnt.Proofs.C12.att_timing_failures_ignore",
    "Zrnt.Proofs.C12.selCheck_cases",
    "Zrnt.Proofs.C12.agg_walk",
    "Zrnt.Proofs.C12.agg_marks_only_on_accept",
    "Zrnt.Proofs.C12.agg_timing_failures_ignore",
    "Zrnt.Proofs.C12.agg_accept_iff_all_conditions",
    "Zrnt.Proofs.C12.agg_violated_never_accept",
    "Zrnt.Proofs.C12.exitValid_iff",
    "Zrnt.Proofs.C12.exit_accept_iff_all_conditions",
    "Zrnt.Proofs.C12.exit_timing_failures_ignore",
    "Zrnt.Proofs.C12.exit_marks_only_on_accept",
    "Zrnt.Proofs.C12.exit_violated_never_accept",
    "Zrnt.Proofs.C12.isSlashable_eq_spec",
    "Zrnt.Proofs.C12.isSlashable_eq_regenerated",
    "Zrnt.Proofs.C12.pslashShapeOk_iff",
    "Zrnt.Proofs.C12.pslashValid_iff",
    "Zrnt.Proofs.C12.pslash_accept_iff_all_conditions",
    "Zrnt.Proofs.C12.pslash_violated_never_accept",
    "Zrnt.Proofs.C12.pslash_timing_failures_ignore",
    "Zrnt.Proofs.C12.pslash_marks_only_on_accept",
    "Zrnt.Proofs.C12.syncCommitteeForSlot_eq_spec",
    "Zrnt.Proofs.C12.inSubnet_member",
    "Zrnt.Proofs.C12.syncCommitteeFor_choice",
    "Zrnt.Proofs.C12.syncMsg_accept_iff_all_conditions",
    "Zrnt.Proofs.C12.syncMsg_violated_never_accept",
    "Zrnt.Proofs.C12.syncMsg_timing_failures_ignore",
    "Zrnt.Proofs.C12.syncMsg_marks_only_on_accept",
    "Zrnt.Proofs.C12.subcommittee_eq_spec",
    "Zrnt.Proofs.C12.contrib_marks_only_on_accept",
    "Zrnt.Proofs.C12.mem_take_drop",
    "Zrnt.Proofs.C12.contrib_accept_iff_all_conditions",
    "Zrnt.Proofs.C12.contrib_violated_never_accept",
    "Zrnt.Proofs.C12.contrib_timing_failures_ignore",
    "Zrnt.Proofs.C12.sortedStrict_eq_spec",
    "Zrnt.Proofs.C12.indicesSetOk_eq",
    "Zrnt.Proofs.C12.isSlashableData_eq_spec",
    "Zrnt.Proofs.C12.sorted_last_bound",
    "Zrnt.Proofs.C12.aslashAny_eq",
    "Zrnt.Proofs.C12.valSlashable_some",
    "Zrnt.Proofs.C12.valSlashable_none",
    "Zrnt.Proofs.C12.filterSlashable_some",
    "Zrnt.Proofs.C12.filterSlashable_none",
    "Zrnt.Proofs.C12.indexedOk_eq",
    "Zrnt.Proofs.C12.mem_intersect",
    "Zrnt.Proofs.C12.aslash_accept_char",
    "Zrnt.Proofs.C12.shape_split",
    "Zrnt.Proofs.C12.aslash_accept_iff_all_conditions",
    "Zrnt.Proofs.C12.aslash_violated_never_accept",
    "Zrnt.Proofs.C12.aslash_timing_failures_ignore",
    "Zrnt.Proofs.C12.aslash_marks_only_on_accept",
]


def _nontrivial(op, g):
    # a case is non-trivial when the real validator (or helper) ran to a verdict
    return not (g.startswith("bad-op") or g.startswith("exec-error"))


PROPS["C12"] = dict(
    module="Proofs.Properties.C12",
    theorems=_THEOREMS,
    modes=[dict(name="c12", nontrivial=_nontrivial)],
    level="proof",
    rule="each op line = one message (real BLS keys/signatures over real committees of a small state) + one scripted "
         "backend answer record, run through the REAL gossipval validator and through the Lean model/spec; non-trivial = "
         "the validator returned a verdict; distinct = distinct op lines",
    trusted_base=TB_COMMON + [
        "lean/Zrnt/Gossip/Spec.lean: hand transcription of the p2p-interface condition lists (phase0, altair, deneb attestation window) with tags; 'implied:'/'local:' entries are documented there",
        "lean/Zrnt/Gossip/Model.lean: hand model of eth2/gossipval in the code's order of checks, tied by the c12 correspondence (verdict, Seen* keys, Mark* calls, returned indices) on every run; CheckSlotSpan/EpochStartSlot/SlotToEpoch are regenerated from the Go source (go2lean)",
        "go/internal/gossip: scripted mock backends (zrnt ships none), message builders, and the signature oracle (own compute_domain/compute_signing_root over SHA-256, real blsu.Verify on the harness's key table)",
        "BLS12-381 (bls12-381-util/kilic) is not modelled: ideal signature relation = oracle answers; SHA-256 in Lean (Zrnt.Sha256) for the selection-proof hash, cross-checked against Go by mode c19",
        "backend contract: Towards(root, slot) yields a context whose current epoch is epoch(slot); the chain view holds validated blocks only; SLOTS_PER_EPOCH != 0, SYNC_COMMITTEE_SIZE >= 4 (below 4 the spec formula index // (SIZE // 4) and the Go code both divide by zero; SIZE need not be a multiple of 4: presets with 13 and 30 are run)",
    ],
    manifest=dict(
        level_text="Lean theorems about a code-shaped model of every gossipval validator against an independent transcription of the p2p specification's tagged condition lists (ACCEPT iff all conditions; violated => never ACCEPT; timing-only failures => IGNORE; marks only on ACCEPT), plus arithmetic theorems for CheckSlotSpan (regenerated), is_aggregator, is_sync_committee_aggregator, compute_subnet_for_attestation, compute_subnets_for_sync_committee over all uint64 inputs; the model is tied to the Go code by a differential run with scripted backends and real BLS messages",
        level_note="trusted: Lean kernel; Spec.lean transcription of the p2p spec; the hand model (validated differentially on every run); mock backends and signature oracle; BLS itself is an oracle; the composition 'a real chain backend produces these answers' is outside the repository",
        technique="Lean 4 proof over code-shaped model + Go/Lean differential correspondence with scripted backends and real BLS messages",
        design_ref="DESIGN.md 5/C12", engine="lean"),
    assumptions=[
        "the chain view is an abstract answer record (zrnt has no chain backend): the voted block, the parents the view resolves (root, slot), InSubtree answers; consistency: the checkpoint block of a vote is not reported as a non-ancestor, fewer than SLOTS_PER_EPOCH blocks lie between the target epoch start and the voted block, the spec's fork (phase0 / deneb attestation window) is the fork of the clock's epoch under the node's DENEB_FORK_EPOCH (spec column `any` otherwise)",
        "finalized_epoch * SLOTS_PER_EPOCH, committees_per_slot * SLOTS_PER_EPOCH and activation_epoch + SHARD_COMMITTEE_PERIOD fit 64 bits (spec column is `any` otherwise)",
        "beacon_block: the bellatrix+ execution-payload conditions and the deneb blob-commitment condition are outside gossipval (it receives the header envelope only) and outside this check",
        "not covered: the later-revision '[IGNORE] a superset aggregate / contribution has already been seen' conditions — gossipval's backend interfaces have no such cache (SeenAggregate is keyed by hash_tree_root(aggregate), SeenContribution by (aggregator, slot, subcommittee)); the specification here is the revision with exactly those two de-duplication keys",
    ],
)
