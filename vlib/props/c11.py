"""C11 — graph queries agree with the inserted tree."""
from .c09 import FC_TB, FC_ASSUME, _nontrivial

PROPS = {"C11": dict(
    module="Proofs.Properties.C11",
    theorems=[
        "Zrnt.Proofs.C11.inSubtreeIdx_eq_descendant",
        "Zrnt.Proofs.C11.inSubtree_eq_descendant",
        "Zrnt.Proofs.C11.closestToSlot_eq_linear",
        "Zrnt.Proofs.C11.unknown_reported",
        "Zrnt.Proofs.C11.queries_total",
        "Zrnt.Proofs.C11.queries_refine",
        "Zrnt.Proofs.C11.retained_queries_unchanged",
        "Zrnt.Proofs.C11.Old.queries_after_prune_false",
    ],
    modes=[dict(name="fc11", stateful=True, max_shrinks=2,
                nontrivial=_nontrivial(("chain", "closest", "canonat", "getslot", "insub", "search", "findhead", "nodes")))],
    level="proof",
    trusted_base=FC_TB,
    assumptions=FC_ASSUME,
    rule="trees with forks, gaps and double proposals followed by sweeps of every ForkchoiceView query over known/unknown roots and slots before the anchor / after the head; counted: query lines the Go side executed",
    manifest=dict(
        level_text="Lean theorems about the code-shaped model (binary search = linear scan, subtree membership = ancestry on well-formed arrays) plus differential runs of all navigation queries against direct tree walks",
        level_note="trusted: Lean kernel, hand model tied by correspondence, direct-walk oracle in Spec.lean; the refinement covers admissible histories before and after pruning, including the nodes answer (keys of Indices()), Search without options (heads) and CanonAtSlot at and after the head slot; only Search from non-first anchors is unconstrained (documented in Spec.Abs.search); queries_total holds for ALL histories",
        technique="Lean 4 proof over hand model + Go/Lean/oracle differential correspondence",
        design_ref="DESIGN.md 5/C11", engine="lean"),
)}
