"""C17 — components documented as shared are safe under concurrent use.

Does not fit the line protocol: the `custom` step (run_conc) asks the Lean side which regenerated lock-fact rows
fail which discipline theorem and which schedule the Monitor model derives from each, replays those schedules
on the real code (race-instrumented program build/conc-race), then stress-runs all shared components under the
race detector, parses the detector's reports into canonical descriptors and checks call results."""
import json, os, re, subprocess, time
from .common import TB_COMMON
from .. import core

CONC = os.path.join(core.BUILD, "conc-race")
FACTS = os.path.join(core.LEAN, "Zrnt", "Gen", "LockFacts.json")
LOCK_METHODS = {"Lock", "Unlock", "RLock", "RUnlock", "TryLock", "TryRLock", "RLocker"}
# operations that exercise what another operation hands out
HANDOUT_USERS = {"PubkeyCache.Pubkey": ["CachedPubkey.Pubkey"]}


# ---------------------------------------------------------------------------------------------
# race detector reports -> canonical descriptors

FRAME = re.compile(r"^\s{2}(\S.*)\(\)\s*$")
LOC = re.compile(r"^\s{6}(\S+):(\d+)(?: \+0x[0-9a-f]+)?\s*$")
ZFUNC = re.compile(r"github\.com/protolambda/zrnt/(?P<pkg>[\w/]+)\.(?:\(\*(?P<pt>\w+)\)|(?P<vt>\w+))\.(?P<m>\w+)$")


def load_facts():
    try:
        return json.load(open(FACTS))
    except Exception:
        return []


def parse_stack(lines):
    """[(func, file, line)] of one goroutine stack in a race report."""
    out, i = [], 0
    while i < len(lines):
        m = FRAME.match(lines[i])
        if m and i + 1 < len(lines):
            l = LOC.match(lines[i + 1])
            if l:
                out.append((m.group(1), l.group(1), int(l.group(2))))
                i += 2
                continue
        i += 1
    return out


def side_of(stack, facts):
    """(Type, field, Method) of one side of a race: the innermost frame inside a method of a shared type gives the
    type and (through the regenerated access table, by source line) the field; the outermost frame of the same type
    gives the exported method the caller invoked."""
    shared = {t["name"]: t for t in facts if t["role"] == "shared"}
    hits = []
    for fn, file, line in stack:
        m = ZFUNC.search(fn)
        if not m:
            continue
        typ = m.group("pt") or m.group("vt")
        if typ in shared:
            hits.append((typ, m.group("m"), line))
    if not hits:
        # a race inside zrnt code that is not reached through a shared type (or inside the harness itself)
        for fn, file, line in stack:
            if "protolambda/zrnt" in fn:
                return ("?", "?", fn.split("/")[-1])
        # the harness reading what a call returned (an alias of guarded memory used by the caller outside the lock)
        if any("internal/conc.touch" in fn or "internal/conc.init.func" in fn or "internal/conc.ReflectOp" in fn for fn, _, _ in stack):
            return ("caller", "returned-alias", "use")
        return None
    typ, meth, line = hits[0]
    outer = [h for h in hits if h[0] == typ][-1][1]
    t = shared[typ]
    field = "?"
    for mm in t["methods"]:
        if mm["name"] != meth:
            continue
        cands = [a for a in mm["acc"] if a["line"] == line and a["field"] >= 0]
        cands.sort(key=lambda a: (not a["write"], a["field"]))
        for c in mm["calls"]:
            if c["line"] == line and c["field"] >= 0:
                cands.append(dict(field=c["field"]))
        if not cands:
            # an alias of guarded memory used after the lock was released (escape hand-out recorded at this line)
            hs = [h for h in mm.get("handouts", []) if h["line"] == line and h.get("escape")]
            hs.sort(key=lambda h: h["field"], reverse=True)
            cands = [dict(field=h["field"]) for h in hs]
        if cands:
            field = t["fields"][cands[0]["field"]]["name"]
        elif any(s["line"] == line for s in mm["sections"]):
            field = t["lock_field"] or "lock"
    return (typ, field, outer)


def parse_race_logs(paths, facts):
    """-> (descriptors, n_reports, raw_by_descriptor)"""
    descs, raw, n = [], {}, 0
    for p in paths:
        try:
            text = open(p, errors="replace").read()
        except Exception:
            continue
        for rep in text.split("=================="):
            if "WARNING: DATA RACE" not in rep:
                continue
            n += 1
            lines = rep.splitlines()
            blocks, cur = [], None
            for l in lines:
                if re.match(r"^(Write|Read|Previous write|Previous read|Atomic|Previous atomic).* by ", l):
                    cur = []
                    blocks.append(cur)
                elif l.startswith("Goroutine ") or l.strip() == "":
                    cur = None if l.startswith("Goroutine ") else cur
                    if l.strip() == "":
                        cur = None
                elif cur is not None:
                    cur.append(l)
            sides = [side_of(parse_stack(b), facts) for b in blocks[:2]]
            sides = [s for s in sides if s]
            if not sides:
                # a race entirely outside zrnt: a bug of the harness (or of a dependency as the harness uses it)
                d = "race outside zrnt: " + " / ".join((parse_stack(b) or [("?", "?", 0)])[0][0] for b in blocks[:2])
                if d not in raw:
                    raw[d] = "\n".join(lines[:40])
                    descs.append(d)
                continue
            if len(sides) == 1:
                sides.append(("?", "?", "?"))
            a, b = sorted(sides)
            if a[0] == b[0] and a[1] == b[1]:
                d = f"race: {a[0]}.{a[1]} {a[2]}/{b[2]}"
            else:
                d = f"race: {a[0]}.{a[1]} {a[2]}/{b[0]}.{b[1]} {b[2]}"
            if d not in raw:
                raw[d] = "\n".join(lines[:40])
                descs.append(d)
    return descs, n, raw


# ---------------------------------------------------------------------------------------------
# running the race-instrumented program

def run_conc(args, work, tag, timeout):
    """Run build/conc-race with its own race log. Returns dict(stdout lines, rc, race log paths, fatal)."""
    logdir = os.path.join(work, "race")
    os.makedirs(logdir, exist_ok=True)
    prefix = os.path.join(logdir, tag)
    env = dict(os.environ, GORACE=f"halt_on_error=0 log_path={prefix} history_size=3", GOMEMLIMIT="8GiB")
    t0 = time.time()
    try:
        p = subprocess.run([CONC] + args, stdout=subprocess.PIPE, stderr=subprocess.PIPE, env=env, timeout=timeout,
                           text=True, errors="replace")
        rc, out, err = p.returncode, p.stdout, p.stderr
    except subprocess.TimeoutExpired as e:
        rc, out, err = 124, (e.stdout or b"").decode(errors="replace") if isinstance(e.stdout, bytes) else (e.stdout or ""), "timeout"
    logs = [os.path.join(logdir, f) for f in sorted(os.listdir(logdir)) if f.startswith(tag + ".")]
    fatal = None
    m = re.search(r"fatal error: (concurrent map [^\n]*|all goroutines are asleep[^\n]*|sync: [^\n]*)", err or "")
    if m:
        fn = re.search(r"protolambda/zrnt/[\w/]+\.\(?\*?(\w+)\)?\.(\w+)\(", err)
        fatal = f"fatal: {m.group(1)} in {fn.group(1)}.{fn.group(2)}" if fn else f"fatal: {m.group(1)}"
    return dict(lines=out.splitlines(), rc=rc, logs=logs, fatal=fatal, stderr=(err or "")[-2000:], wall=time.time() - t0, cmd="conc-race " + " ".join(args))


def lean_failures(log):
    """Ask Lean which rows of the regenerated table fail which discipline theorem, with the schedule kind the
    Monitor model derives (Zrnt.Conc.failures). Returns (list of dicts, error text or None)."""
    path = os.path.join(core.BUILD, "audit", "c17_report.lean")
    os.makedirs(os.path.dirname(path), exist_ok=True)
    with open(path, "w") as f:
        f.write("import Zrnt.Gen.LockFacts\nimport Zrnt.Conc.LockCheck\nopen Zrnt.Conc Zrnt.Gen.LockFacts\n"
                "#eval (failures all).forM (fun f => IO.println f.render)\n"
                "#eval IO.println s!\"ROWS {(sharedRows all).length}\"\n")
    with core.Lock():
        ok, out = core.lake_build(["Zrnt.Gen.LockFacts", "Zrnt.Conc.LockCheck"], log)
        if not ok:
            return [], 0, "lake build of the regenerated table failed: " + out[-800:]
        rc, out = core.sh(["lake", "env", "lean", path], cwd=core.LEAN, timeout=600)
    fails = []
    for l in out.splitlines():
        if l.startswith("FAIL "):
            d = dict(kv.split("=", 1) for kv in l[5:].split(" ") if "=" in kv)
            fails.append(d)
    m = re.search(r"ROWS (\d+)", out)
    if rc != 0 or not m:
        return fails, 0, "reporter failed: " + out[-800:]
    return fails, int(m.group(1)), None


def build_conc(log):
    """zrnt's packages are compiled without inlining so that every method of a shared type keeps its own frame in
    the race detector's stacks (the reports are attributed to (type, field, method) through those frames)."""
    core.point_gomod_at_repo()
    with core.Lock():
        t0 = time.time()
        rc, out = core.sh(["go", "build", "-race", "-gcflags=github.com/protolambda/zrnt/...=-l", "-tags", "verif", "-o", CONC, "./cmd/conc"], cwd=core.GO, env=core.GOENV, timeout=1800)
        log(f"go build -race ./cmd/conc: rc={rc} in {time.time()-t0:.1f}s")
    return rc == 0, out


def writers_of(facts, typ, field):
    """exported methods of typ with a direct write of the field (race partners / prefill)"""
    out = []
    for t in facts:
        if t["name"] != typ:
            continue
        fi = [i for i, f in enumerate(t["fields"]) if f["name"] == field]
        for m in t["methods"]:
            if m["exported"] and any(a["write"] and a["field"] in fi for a in m["acc"]):
                out.append(m["name"])
    return out


def custom(ctx):
    tier, seed, work, log = ctx["tier"], ctx["seed"], ctx["work"], ctx["log"]
    violations, broken = ctx["violations"], ctx["broken"]
    thorough = tier == "thorough"
    facts = load_facts()
    cov = dict(replays=[], stress=[], race_reports=0, race_descriptors=[], notes=[])
    samples = []

    def add_violation(desc, replay, no_input=False):
        violations.append(dict(descriptor=desc, mode="conc", ops=replay if isinstance(replay, list) else [replay],
                               first_bad=dict(descriptor=desc), no_input=no_input))

    ok, out = build_conc(log)
    if not ok:
        broken.append(dict(what="go build -race ./cmd/conc (race-instrumented replay/stress program against /repo)", detail=out[-1500:]))
        cov["notes"].append("race detector build failed: no replays, no stress run")
        return dict(conc=cov, evaluations=0, distinct_nontrivial=0,
                    rule="race-instrumented program did not build", samples=[dict(note="no run")])

    # ---- 1. rows of the regenerated table that fail a discipline theorem -> model schedule -> replay on the real code
    fails, nrows, err = lean_failures(log)
    cov["table_rows"] = nrows
    if err:
        broken.append(dict(what="C17 lock-fact reporter", detail=err))
    cov["failing_rows"] = fails
    to = "3000" if not thorough else "6000"
    pending = []   # failing rows whose targeted replay did not manifest; dropped if the stress run exhibits them
    for f in fails:
        T, M, thm, kind, field, other = f["type"], f["method"], f["theorem"], f["kind"], f.get("field", ""), f.get("other", "")
        found = []
        runs = []
        if kind == "deadlock":
            r = run_conc(["deadlock", T, M, "-timeout", to], work, f"dl-{T}-{M}", 120)
            runs.append(r)
            if any(l.startswith("blocked ") for l in r["lines"]):
                found.append(f"deadlock: {T}.{M} blocks forever (re-acquires its own lock" + (f" through {other}" if other and other != M else "") + ")")
        elif kind in ("race", "handout"):
            partners = [other] if other else []
            partners += [w for w in writers_of(facts, T, field) if w not in partners]
            partners = partners[:3] or [M]
            subjects = [f"{T}.{M}"] + (HANDOUT_USERS.get(f"{T}.{M}", []) if kind == "handout" else [])
            for s in subjects:
                for p in partners:
                    pre = ",".join(f"{T}.{w}" for w in writers_of(facts, T, field)[:2])
                    r = run_conc(["pair", s, f"{T}.{p}", "-iters", ("300" if kind == "race" else "2000") if not thorough else "6000", "-timeout", to] + (["-prefill", pre] if pre else []),
                                 work, f"pair-{s}-{p}".replace(".", "_"), 180)
                    runs.append(r)
                    ds, n, raw = parse_race_logs(r["logs"], facts)
                    cov["race_reports"] += n
                    found += ds
                    if r["fatal"]:
                        found.append(r["fatal"])
                    if any(l.startswith("blocked ") for l in r["lines"]):
                        found += [f"deadlock: {l.split(' ', 1)[1]} blocks forever" for l in r["lines"] if l.startswith("blocked ")]
                if found:
                    break
        elif kind == "crossrace":
            # an unlocked helper is called on ANOTHER instance (parent / forked child): the scenario with forked
            # caches, lookups through children while the parent and the siblings append
            r = run_conc(["stress-race", "pubkeyfork", "-g", "8", "-iters", "4000" if not thorough else "40000", "-timeout", to], work, f"fork-{T}-{M}", 300)
            runs.append(r)
            ds, n, raw = parse_race_logs(r["logs"], facts)
            cov["race_reports"] += n
            found += ds
            found += [l.split(" ", 1)[1] for l in r["lines"] if l.startswith("violation ")]
            found += [f"deadlock: {l.split(' ', 1)[1]} blocks forever" for l in r["lines"] if l.startswith("blocked ")]
            if r["fatal"]:
                found.append(r["fatal"])
        elif kind == "nonlin":
            r = run_conc(["nonlin", T, M, "-rounds", "300" if not thorough else "3000", "-g", "4", "-timeout", to], work, f"nl-{T}-{M}", 300)
            runs.append(r)
            found += [l.split(" ", 1)[1] for l in r["lines"] if l.startswith("violation ")]
            found += [f"deadlock: {l.split(' ', 1)[1]} blocks forever" for l in r["lines"] if l.startswith("blocked ")]
            ds, n, raw = parse_race_logs(r["logs"], facts)
            cov["race_reports"] += n
            found += ds
        cov["replays"].append(dict(row=f, commands=[r["cmd"] for r in runs], observed=sorted(set(found))[:6]))
        schedule = dict(theorem=thm, row=f, model_schedule={
            "deadlock": "Zrnt.Proofs.C17.reentry_deadlocks: one call; after `acq` the thread executes `acq` again and never moves",
            "race": "Zrnt.Proofs.C17.unguarded_access_races / writing_reader_races: the other thread acquires, then both accesses are enabled together",
            "handout": "Zrnt.Proofs.C17.unguarded_access_races: the caller uses the returned alias outside the lock while a writer runs",
            "nonlin": "Zrnt.Proofs.C17.two_sections_not_linearizable: schedule [0,0,0,1,1,1,0,0,0,1,1,1]",
            "crossrace": "Zrnt.Proofs.C17.unguarded_access_races: the thread working on the child holds only the CHILD's lock while it reads the parent's field; "
                         "the thread appending to the parent acquires the parent's lock, then both accesses are enabled together",
        }.get(kind, kind), commands=[r["cmd"] for r in runs])
        if found:
            for d in sorted(set(found)):
                add_violation(d, [json.dumps(schedule)])
        else:
            pending.append((T, M, field, f"theorem {thm} fails on {T}.{M}" + (f" (field {field})" if field else "") +
                            ": the model schedule did not manifest on the real code in this run", [json.dumps(schedule)]))

    # ---- 2. stress: every shared component, race mode (no harness synchronisation) and linearizability mode
    g = "8" if not thorough else "16"
    plan = []
    # every stress phase has a TIME budget (conc -budget): when it is reached the workers stop issuing calls, join and
    # report what they covered. Iteration counts are upper bounds for an idle machine.
    race_budget, lin_budget = ("20000", "20000") if not thorough else ("60000", "45000")
    wd = "5000" if not thorough else "15000"
    plan.append(("pubkeyfork", "stress-race", ["-g", g, "-iters", "20000" if not thorough else "200000", "-seed", str(seed), "-timeout", wd, "-budget", race_budget]))
    for comp in ("pools", "pubkey", "fc"):
        it = ("10000" if not thorough else "100000") if comp == "pools" else ("20000" if not thorough else "200000")
        plan.append((comp, "stress-race", ["-g", g, "-iters", it, "-seed", str(seed), "-timeout", wd, "-budget", race_budget]))
        plan.append((comp, "stress-lin", ["-g", g, "-iters", "2880" if not thorough else "28800", "-timeout", wd, "-budget", lin_budget]))
    calls = 0
    stats_all = {}
    for comp, cmd, extra in plan:
        # the outer timeout is only a last resort far above budget + watchdog; hitting it is reported as a note, never as a finding
        r = run_conc([cmd, comp] + extra, work, f"{cmd}-{comp}", 420 if not thorough else 900)
        ds, n, raw = parse_race_logs(r["logs"], facts)
        cov["race_reports"] += n
        st = {}
        for l in r["lines"]:
            p = l.split(" ")
            if p[0] == "stat" and len(p) == 3:
                st[p[1]] = int(p[2])
            elif p[0] == "violation":
                add_violation(l.split(" ", 1)[1], [r["cmd"]])
            elif p[0] == "blocked":
                add_violation(f"deadlock: {p[1]} blocks forever", [r["cmd"]])
            elif p[0] == "note":
                cov["notes"].append(f"{cmd} {comp}: " + l.split(" ", 1)[1])
        for d in ds:
            if d.startswith("race outside zrnt"):
                broken.append(dict(what=f"{cmd} {comp}: {d}", detail=raw[d][-1500:]))
                continue
            add_violation(d, [r["cmd"], raw[d]])
            cov["race_descriptors"].append(d)
        if r["fatal"]:
            add_violation(r["fatal"], [r["cmd"], r["stderr"]])
        finished = any(l.startswith("returned ") for l in r["lines"])
        if not finished and not r["fatal"] and not any(l.startswith("blocked ") for l in r["lines"]):
            if any(l.startswith("note skip") for l in r["lines"]):
                pass
            elif r["rc"] == 124:
                # ran out of wall-clock time (loaded machine): not a finding; the coverage of this phase is simply missing
                cov["notes"].append(f"{cmd} {comp}: stopped by the outer timeout before reporting (machine too slow); phase not counted")
            else:
                broken.append(dict(what=f"{cmd} {comp} crashed (rc={r['rc']})", detail=r["stderr"][-800:]))
        stats_all.update(st)
        calls += sum(v for k, v in st.items() if k.startswith("race_calls") or k.startswith("lin_calls"))
        cov["stress"].append(dict(cmd=r["cmd"], rc=r["rc"], wall_s=round(r["wall"], 1), stats=st, race_reports=n, finished=finished))
        if cmd == "stress-lin":
            samples.append(dict(run=r["cmd"], result=[l for l in r["lines"] if not l.startswith("stat")][:4], stats=st))

    for T, M, field, desc, replay in pending:
        if any((f"{T}.{M}" in v["descriptor"] or (field and f"{T}.{field}" in v["descriptor"])) and not v["no_input"] for v in violations):
            continue
        add_violation(desc, replay, no_input=True)

    # what the run exercised, measured
    lst = run_conc(["list"], work, "list", 120)
    ops = [l.split(" ", 1)[1] for l in lst["lines"] if l.startswith("op ")]
    disc = [l.split(" ", 1)[1] for l in lst["lines"] if l.startswith("discovered ")]
    exported = {f"{t['name']}.{m['name']}" for t in facts if t["role"] == "shared" for m in t["methods"] if m["exported"]}
    not_driven = sorted(exported - set(ops) - set(disc))
    cov["operations_driven"] = len(ops) + len(disc)
    cov["operations_discovered_by_reflection"] = disc
    cov["exported_methods_not_driven"] = not_driven
    samples.append(dict(operations=ops[:12]))
    cov["stats"] = stats_all
    return dict(conc=cov, evaluations=calls, distinct_nontrivial=len(ops) + len(disc),
                rule="evaluations = calls of exported methods of the shared components executed concurrently under the Go race detector "
                     "(race mode: no harness synchronisation between calls; linearizability mode: time-stamped calls whose results are checked against "
                     "necessary conditions of some sequential order); distinct_nontrivial = distinct (type, method) operations driven, all of them on "
                     "a shared instance from several goroutines at once",
                samples=samples,
                input_distribution=dict(conc={k: {"calls": v} for k, v in stats_all.items()}))


def replay(prop, payload, path, work, log):
    """./check C17 --replay <file>: re-run the commands recorded in the replay file against the current /repo and
    report whether the same kind of violation shows again (timing-dependent ones are tried several times)."""
    cmds = []
    for op in payload.get("ops", []):
        if not isinstance(op, str):
            continue
        if op.startswith("{"):
            try:
                cmds += json.loads(op).get("commands", [])
            except Exception:
                pass
        elif op.startswith("conc-race "):
            cmds.append(op)
    want = payload.get("descriptor", "")
    kind = want.split(":", 1)[0]
    print(f"replay of: {want}")
    if not cmds:
        print("replay: this file names a discipline theorem that no longer holds of the regenerated lock facts and no run that exhibits it; re-run ./check", prop)
        return 1
    with core.Lock():
        core.regen(log)
    ok, out = build_conc(log)
    if not ok:
        print("replay: the race-instrumented program does not build:\n" + out[-1500:])
        return 1
    facts = load_facts()
    for attempt in range(3):
        for i, c in enumerate(cmds):
            r = run_conc(c.split(" ")[1:], work, f"replay{attempt}-{i}", 900)
            ds, n, raw = parse_race_logs(r["logs"], facts)
            seen = ds + [l.split(" ", 1)[1] for l in r["lines"] if l.startswith("violation ")]
            seen += [f"deadlock: {l.split(' ', 1)[1]} blocks forever" for l in r["lines"] if l.startswith("blocked ")]
            if r["fatal"]:
                seen.append(r["fatal"])
            print(f"  {c}\n    observed: {seen[:5] if seen else 'nothing'}")
            hit = [d for d in seen if d == want or d.split(":", 1)[0] == kind or (kind == "fatal" and d.startswith("race"))]
            if hit:
                print(f"replay: reproduced: {hit[0]}")
                print(f"VIOLATION property={prop} replay={path}")
                return 1
    print("replay: not reproduced in 3 attempts on the current tree")
    return 0


PROPS = {"C17": dict(
    module="Proofs.Properties.C17",
    theorems=[
        "Zrnt.Proofs.C17.monitor_linearizable",
        "Zrnt.Proofs.C17.monitor_progress",
        "Zrnt.Proofs.C17.monitor_terminates",
        "Zrnt.Proofs.C17.monitor_race_free",
        "Zrnt.Proofs.C17.reentry_deadlocks",
        "Zrnt.Proofs.C17.unguarded_access_races",
        "Zrnt.Proofs.C17.writing_reader_races",
        "Zrnt.Proofs.C17.two_sections_not_linearizable",
        "Zrnt.Proofs.C17.table_complete",
        "Zrnt.Proofs.C17.no_reentry",
        "Zrnt.Proofs.C17.guarded_access",
        "Zrnt.Proofs.C17.readers_pure",
        "Zrnt.Proofs.C17.single_section",
        "Zrnt.Proofs.C17.no_unsynchronised_handout",
        "Zrnt.Proofs.C17.cross_instance_calls_locked",
        "Zrnt.Proofs.C17.rows_wellFormed",
        "Zrnt.Proofs.C17.table_system_safe",
        "Zrnt.Proofs.C17.baseline_no_reentry_false",
        "Zrnt.Proofs.C17.baseline_guarded_access_false",
        "Zrnt.Proofs.C17.baseline_single_section_false",
        "Zrnt.Proofs.C17.baseline_no_unsynchronised_handout_false",
        "Zrnt.Proofs.C17.baseline_updateJustified_model_deadlocks",
        "Zrnt.Proofs.C17.baseline_search_prune_model_race",
    ],
    modes=[],
    regen=["extract:lockfacts"],
    components=["hreg"],
    level="proof",
    custom=custom,
    replay=replay,
    trusted_base=TB_COMMON + [
        "lock-fact extractor go/cmd/extract/lockfacts.go (go/ast, syntactic; fails on shapes it does not understand; regenerated every run): "
        "that a Go method performs the sections / accesses / calls the table row says",
        "the monitor abstraction lean/Zrnt/Conc/Monitor.lean as a model of sync.Mutex / sync.RWMutex (non-reentrant, readers share; "
        "writer preference not modelled) and of a method as acquire; accesses; release",
        "Go memory model (a mutex orders what it guards), Go scheduler and runtime, and the Go race detector for the replays and the stress run",
    ],
    assumptions=[
        "the theorem is about the monitor abstraction fed by the regenerated lock facts; that each Go method refines the monitor code its row describes "
        "is not proved (tie: regenerated table + replays + race-detector stress on the real code)",
        "nested acquisition happens only along PubkeyCache.parent (child then parent; the parent link is set once at construction to an older object, so the order is acyclic); "
        "lock ordering across objects is not part of the model",
        "callers do not mutate objects they get from the pools (pointers to caller-supplied items) nor through the *NodeRef returned by Pin",
        "timing-dependent schedules (the two-section interleaving, races) are reproduced probabilistically; a deadlock replays deterministically with one call",
        "the NodeSink callback of ProtoArray is user code called while ProtoForkChoice.mu is held; a sink that calls back into the fork choice is outside the table",
    ],
    manifest=dict(
        level_text="Lean theorems (induction over all interleavings) about a monitor abstraction — one mutex/RW-mutex-guarded object, threads stepping "
                   "acquire / access / release — proving linearizability in lock-acquisition order, deadlock-freedom with termination, and race-freedom from "
                   "per-operation premises; plus kernel-checked theorems that every exported method of ProtoForkChoice, PubkeyCache, CachedPubkey and the five "
                   "pools satisfies the syntactic counterpart of each premise in lock facts regenerated from the Go source on every run; plus replays of the "
                   "model's schedules and a race-detector stress run of the real components with result checking. The Go memory model and scheduler are "
                   "assumed; replays are probabilistic where timing-dependent",
        level_note="proved: the monitor theorems and the discipline of every regenerated row; trusted: the lock-fact extractor (syntactic go/ast analysis), "
                   "the abstraction of Go's mutexes, the Go memory model/scheduler/race detector; refinement Go-method-to-monitor-code is tied by regeneration and runtime replays only",
        technique="Lean 4 proof on an interleaving model + regenerated lock-fact table (decide per method) + schedule replays and stress under go -race",
        design_ref="DESIGN.md 5/C17", engine="lean"),
)}
