"""C01 — block state transition equals the consensus spec for every valid block."""
from .common import TB_COMMON

PROPS = {}


def _nontrivial(op, g):
    # a case counts when the real code executed a block (accepted or rejected) or a piece on a decodable input
    return not (g.startswith("bad-op") or g.startswith("pre-ok") or g == "reset")


TB_BLOCK = [
    "the specification layer S for block processing (lean/Zrnt/Beacon/Spec/BlockOps.lean, BlockTransition.lean, on top of Spec/Helpers.lean, "
    "Spec/Epoch.lean, Spec/Transition.lean), written from the published consensus specs phase0..deneb; it is the oracle and cannot be compared "
    "with the pyspec or its vectors here (neither is in the sandbox); three-way agreement Go = S on the unchanged tree is the mechanical evidence",
    "the flat exchange formats: states (go/internal/flat <-> lean/Zrnt/Beacon/State.lean) and blocks (go/internal/flatblock <-> "
    "lean/Zrnt/Beacon/Block.lean); the Go exec side re-dumps the block it parsed and refuses a line whose text is not the image of the typed block",
    "the signature oracle go/internal/beaconblock/oracle.go: own implementation of compute_domain/get_domain/compute_signing_root and of "
    "committees (compute_shuffled_index, get_seed, compute_committee), real blsu verification, keys from the pre-state registry; S cross-checks "
    "the attesting indices the oracle used against its own (err-oracle on disagreement)",
    "SHA-256 transcription lean/Zrnt/Sha256.lean (seeds, shuffling, randao mix, deposit Merkle branches, header roots, withdrawal-credential hashes)",
    "the chain generator and block mutator go/internal/chain (valid chains with every operation kind on all five forks; single-corruption mutants): "
    "what they do not generate the correspondence does not see (input distribution is in the evidence)",
]

ASSUME_BLOCK = [
    "BLS is not modelled in Lean: every signature check of the spec is a Boolean computed by the harness with real blsu verification over the "
    "spec-correct message (own domain/signing-root code) and the keys the spec prescribes; the real library is assumed to accept exactly the valid signatures",
    "hash-tree-roots supplied by the Go library and used by S as given: hash_tree_root(block.body) (o_body_root), hash_tree_root(deposit.data) "
    "(data_root), the payload's transactions_root / withdrawals_root, and the roots of the signed objects inside the oracle; SSZ merkleization is "
    "property C05 (hash_tree_root(state.latest_block_header) IS computed by S)",
    "hash_tree_root(post-state) for the state-root rule (o_post_root) is the library's root of the post-state the real code reaches WITHOUT result "
    "validation; sound because the post-state itself is compared field by field with S's on the same line",
    "the execution engine's verdict is an input (mock engine on the Go side, o_engine on the Lean side)",
    "mode=post lines: the pre-state is the chain state after slot processing up to the block's slot; the Go side answers with "
    "common.PostSlotTransition(validateResult=true) and an EpochsContext computed from that state. mode=full lines (c01 only): the pre-state is the "
    "state before slot processing (also across runs of skipped slots, epoch boundaries and fork upgrades); the Go side answers with "
    "common.StateTransition(validateResult=true); S runs process_slots of lean/Zrnt/Beacon/Spec/Transition.lean (property C02's oracle) with the "
    "state roots of the intermediate slots (sroots) and the sync-committee aggregate pubkeys (aggs) supplied by stepping the real code, as in C02",
    "uint64 overflow inside the specification (pyspec raises => reject) was not reachable by any generated chain or mutant",
    "chains use minimal-derived presets (custom 'fast' and random small parameter sets, published minimal) with 32-64 validators (quick); mainnet-sized "
    "registries are not run (the theorems have no size bound, the correspondence has). Every fork also runs under configurations whose per-fork constant "
    "families (slashing penalty quotients, proportional multipliers, leak quotients) and per-block MAX_* limits are pairwise different ('+apart', the chain "
    "library's apart:<seed>), with blocks carrying exactly MAX_x operations of each kind, MAX_x + 1 all-valid operations (typed API), attestation backlogs "
    "(deneb: inclusion later than one epoch) and payload extra_data of 0 / 31 / 32 bytes; in those configurations the Gwei constants differ too (MAX_EFFECTIVE_BALANCE 40 ETH, EJECTION_BALANCE "
    "33 ETH, the electra preset's MIN_ACTIVATION_BALANCE 24 ETH that deneb code could reach by mistake). `blk mode=payload` lines run the fork's "
    "ProcessExecutionPayload ALONE against process_execution_payload (ProcessBlock repeats the blob-commitment bound in CheckLimits, so a defect in the "
    "payload step's own bound is invisible through the block entry); c03 also applies a second block of the same slot to the post-block state. Payload blocks also run (block entry and payload step alone) on a pre-state whose latest_execution_payload_header is still the DEFAULT one (a chain that reached the fork without ever processing a payload), with a payload parent hash that is zero (valid on every fork) or non-zero (bellatrix: the merge transition block, valid; capella/deneb: refused — the parent hash is compared always, c03). On the same default-header pre-state also the ENTIRE default (all-zero, empty) payload: bellatrix — execution not enabled, nothing processed, valid (c01, c03); capella/deneb — refused (c03), once on a pre-state that expects no withdrawals (every 0x01 credential prefix turned into 0x00: prev_randao fires) and once as it is. Hand-made operations signed ACROSS the state's fork boundary (fork.epoch >= 1, two versions): an attester slashing whose votes have data.slot in the last epoch before the fork and target.epoch = the fork epoch, a proposer slashing with headers of the last slot before the fork, an exit with exit.epoch = fork epoch - 1 — one correctly signed block carrying them (c01, c03) and each alone signed under the other version (c03). 'straddle' chains hold attestations back in the epoch before EVERY fork and in the first half of the fork epoch, so the backlog (target epoch before the fork; in deneb also more than one epoch late) is included by the new fork's rules. c03: a block's first BLS change on a validator whose credentials carry prefix 0x02 / 0xff over the same hash, or the BLS prefix over a wrong hash. c03 'compensating signatures': where the specification verifies several signatures one by one, two of them become s1 + X and s2 - X (G2 point arithmetic; each invalid, the sum unchanged — invisible to a batched verification): the two headers of a proposer slashing, the two indexed attestations of an attester slashing, two exits, an exit and the randao reveal. NOT covered: block bodies whose transactions exceed 10 MiB in total (the flat exchange format carries every transaction byte on both sides; no such block is generated). The mainnet "
    "constants themselves run in the thorough tier only",
]

PROPS["C01"] = dict(
    module="Proofs.Properties.C01",
    extra_modules=["Proofs.Properties.StageOrder", "Proofs.Properties.RegenPreds", "Proofs.Properties.BlockLimits"],   # validator predicates regenerated from the Go source = the specification's (go2lean, tie R-fun)
    theorems=[
        "Zrnt.Proofs.StageOrder.block_stages_are_the_specs",
        "Zrnt.Proofs.BlockLimits.check_limits_are_the_specs", "Zrnt.Proofs.BlockLimits.limits_name_their_own_field",
        "Zrnt.Proofs.RegenPreds.isSlashable_eq", "Zrnt.Proofs.RegenPreds.isFullyWithdrawable_eq", "Zrnt.Proofs.RegenPreds.isPartiallyWithdrawable_eq",
        "Zrnt.Proofs.C01.zigzag_eq_sorted_inter",
        "Zrnt.Proofs.C01.zigzag_marker_witness",
        "Zrnt.Proofs.C01.zigzag_result_characterised",
        "Zrnt.Proofs.C01.sortedIntersection_is_set_intersection",
        "Zrnt.Proofs.C01.initiateExit_eq",
        "Zrnt.Proofs.C01.exitQueueScan_spec",
        "Zrnt.Proofs.C01.withdrawals_eq",
        "Zrnt.Proofs.C01.withdrawals_empty_registry_witness",
        "Zrnt.Proofs.C01.slashable_eq",
        "Zrnt.Proofs.C01.M_block_pieces",
        "Zrnt.Proofs.C01.header_eq",
        "Zrnt.Proofs.C01.randao_eq",
        "Zrnt.Proofs.C01.eth1vote_eq",
        "Zrnt.Proofs.C01.blsChange_eq",
        "Zrnt.Proofs.C01.payload_eq",
        "Zrnt.Proofs.C01.exit_eq",
        "Zrnt.Proofs.C01.deposit_eq",
        "Zrnt.Proofs.C01.withdrawalsApply_eq",
        "Zrnt.Proofs.C01.syncAggregate_eq",
        "Zrnt.Proofs.C01.proposer_frame",
        "Zrnt.Proofs.C01.WF_preserved_block_partial",
        "Zrnt.Proofs.C01.attestation_phase0_eq",
        "Zrnt.Proofs.C01.attestation_altair_eq",
        "Zrnt.Proofs.C01.attestation_deneb_eq",
        "Zrnt.Proofs.C01.slash_eq",
        "Zrnt.Proofs.C01.slash_link",
        "Zrnt.Proofs.C01.proposerSlashing_eq",
        "Zrnt.Proofs.C01.attesterSlashing_eq",
        "Zrnt.Proofs.C01.WF_preserved_slashing",
        "Zrnt.Proofs.C01.processBlock_eq",
        "Zrnt.Proofs.C01.M_block_refines_S_partial",
        "Zrnt.Proofs.C01.postSlotTransition_eq",
        "Zrnt.Proofs.C01.stateTransition_eq",
        "Zrnt.Proofs.C01.processBlock_noOps_eq",
        "Zrnt.Proofs.C01.processBlock_exits_eq",
        "Zrnt.Proofs.C01.processBlock_slashExit_eq",
        "Zrnt.Proofs.C01.processBlock_attestations_eq",
        "Zrnt.Proofs.C01.processBlock_phase0NoDeposits_eq",
        "Zrnt.Proofs.C01.processBlock_phase0_eq",
        "Zrnt.Proofs.C01.M_block_refines_S_phase0",
        "Zrnt.Proofs.C01.processBlock_altair_eq",
        "Zrnt.Proofs.C01.M_block_refines_S_altair",
        "Zrnt.Proofs.C01.processBlock_bellatrix_eq",
        "Zrnt.Proofs.C01.M_block_refines_S_bellatrix",
        "Zrnt.Proofs.C01.processBlock_capella_eq",
        "Zrnt.Proofs.C01.M_block_refines_S_capella",
        "Zrnt.Proofs.C01.processBlock_deneb_eq",
        "Zrnt.Proofs.C01.M_block_refines_S_deneb",
        "Zrnt.Proofs.C01.M_block_refines_S",
        "Zrnt.Proofs.C01.admissible_forks",
        "Zrnt.Proofs.C01.stateTransition_allForks_eq",
        "Zrnt.Proofs.C01.ctx_frames",
        "Zrnt.Proofs.C01.sameCommittees_initiate",
    ],
    modes=[dict(name="c01", stateful=True, max_shrinks=3, nontrivial=_nontrivial),
           dict(name="c01pieces", nontrivial=_nontrivial)],
    regen=[],
    components=["beaconblock", "flatblock", "flat", "chain", "hreg"],
    level="proof",
    rule="c01: every block of generated valid chains (all five forks, several parameter sets) as one sequence `pre <config+flat pre-state>` / "
         "`blk <flat block + oracle inputs>`: the real common.PostSlotTransition (signatures on) vs the Lean specification S, compared on "
         "accept/reject and every field of the post-state; c01pieces: the exported Go functions modelled by M driven directly "
         "(ZigZagJoin, IsSlashableAttestationData, ValidateIndexedAttestationIndicesSet, ComputeDomain/ComputeSigningRoot, "
         "GetExpectedWithdrawals, InitiateValidatorExit) vs M and S; a case is non-trivial when the Go side executed a block or piece on it "
         "(pre/reset lines are not counted); distinct = distinct (position, line) for sequences, distinct lines for pieces",
    trusted_base=TB_COMMON + TB_BLOCK,
    assumptions=ASSUME_BLOCK + [
        "M_block_refines_S is proved for all five forks under the budgeted invariants described at the end of this item (history of the partial results first). Proved M = S (accept/reject and post-state; M = the code-shaped model "
        "lean/Zrnt/Beacon/Impl/BlockM.lean that is also the model column of c01/c03) for EVERY operation kind: header, randao, eth1 vote, voluntary exit, "
        "deposit, BLS-to-execution change, execution payload of all three forks, proposer slashing, attester slashing (with slash_validator; the monadic S "
        "is proved equal to its pure core), and — against pure cores that the monadic S is compared with on every evaluation — the withdrawals state update, "
        "the sync aggregate, process_attestation of phase0 and of altair..deneb. Proved: the composition processBlock_eq / postSlotTransition_eq / "
        "stateTransition_eq (with C02's full processSlots_eq) for an arbitrary invariant Inv, with the premise OpSteps (per operation kind: under Inv the "
        "model simulates the specification — proved from the operation theorems, sim_* — and the accepted result satisfies Inv again). NOT proved: the "
        "preservation halves of OpSteps for ONE invariant implying every operation's hypotheses (done for exits, deposits' registry part, BLS changes, "
        "slashings; missing: the magnitude budgets across attestations/sync aggregate/withdrawals, and assembling the frame lemmas for the context's "
        "committees and total active balance (ctx_frames) into that invariant). The premise is discharged completely for phase0 blocks without operations "
        "(processBlock_noOps_eq), for phase0 blocks whose only operations are voluntary exits (processBlock_exits_eq), for phase0 blocks of proposer "
        "slashings + attester slashings + exits in any numbers (processBlock_slashExit_eq, counter-indexed invariant P0Inv) and for phase0 blocks of "
        "attestations (processBlock_attestations_eq), merged: ARBITRARY phase0 blocks without deposits (processBlock_phase0NoDeposits_eq), and EVERY phase0 block, deposits included "
        "(processBlock_phase0_eq, M_block_refines_S_phase0; C03: M_sound_phase0) — for phase0 the premise OpSteps is gone; the same for EVERY altair block (processBlock_altair_eq, M_block_refines_S_altair; C03: M_sound_altair; invariant AltInv = P0DInv + participation lists, total active balance, the context's stake / effective balances / sync indices) and for EVERY bellatrix block (processBlock_bellatrix_eq, M_block_refines_S_bellatrix, M_sound_bellatrix: the payload step writes the latest payload header only, the engine verdict is an input), for EVERY capella block (processBlock_capella_eq: withdrawals — balances only decrease, the withdrawal index advances by at most one payload's worth, the sweep cursor stays inside the registry —, payload, BLS changes: a credentials write keeps committees / proposer / exit queue / pubkeys) and EVERY deneb block (processBlock_deneb_eq). With all five forks closed: M_block_refines_S (and C03: M_sound) WITHOUT the premise OpSteps, under Admissible = the disjunction over the fork of the pre-state of the per-fork hypotheses (container class of the fork; the fork's budgeted invariant P0DInv / AltInv with blockNeed units; configuration facts P0Const, P0AConst, P0DConst, AltConst, CapConst); admissible_forks: no fork is left out. The _partial theorems (premise OpSteps, arbitrary invariant) are kept",
        "simulation (Sim): whenever S accepts with a post-state or rejects with `invalid`, M gives the same, and M never panics; S's own overflow/fuel/"
        "oracle outcomes (S as an executable could not decide) constrain nothing — the operation theorems exclude them under their magnitude hypotheses",
        "composition hypothesis check_types: the block is a value of the SSZ block type (per-element limits zrnt enforces when decoding)",
        "the round-2 theorems take the EpochsContext as an abstract record with hypotheses that C07 (proposer, committees), C08 (active count, stake) "
        "and C16 (pubkey cache = registry) establish for a real context",
        "theorem hypotheses: index lists hold uint64 values below the ZigZagJoin end marker 2^64-1; activeCount is the number of active validators "
        "(EpochsContext invariant, C08); epochs/indices stay inside uint64; the withdrawal cursor is inside a non-empty registry",
    ],
    manifest=dict(
        level_text="Lean theorems, for all inputs without size bound: every block operation of the hand model M of zrnt's code equals the "
                   "executable specification S on every fork (header, RANDAO, eth1 vote, proposer and attester slashings incl. the ZigZagJoin "
                   "intersection and slash_validator, attestations phase0/altair/deneb, deposits, exits incl. the single-pass exit-queue scan, "
                   "BLS changes, execution payload, withdrawals sweep, sync aggregate); the block composes (processBlock_eq / "
                   "postSlotTransition_eq / stateTransition_eq over a counter-indexed invariant), and the per-operation premise is discharged "
                   "on ALL FIVE FORKS for arbitrary blocks of the fork's container type: processBlock_phase0_eq, _altair_eq, _bellatrix_eq, "
                   "_capella_eq, _deneb_eq, each with the invariant re-established after an accepted block, and M_block_refines_S (no "
                   "_partial): every block S accepts is accepted by the model of ProcessBlock / PostSlotTransition with the same post-state; "
                   "each modelled function is tied to the exported Go function by direct differential runs, and the real PostSlotTransition "
                   "(signature validation on) is run against S for every block of generated chains that reach all five forks, contain every "
                   "operation kind, blocks with exactly MAX_x operations and configurations with pairwise different per-fork constants",
        level_note="trusted: Lean kernel, the specification transcription S, flat state/block exchange formats, signature oracle (real BLS, own "
                   "domain/committee code), chain generator; roots of block parts and the post-state root are inputs from the Go library; the tie "
                   "M = Go is by correspondence (differential runs), not by proof; the theorems assume a pre-state inside the budgeted "
                   "invariant (P0DInv / AltInv: registry, balance, slashings, exit-queue, deposit-index and withdrawal-index headroom for "
                   "blockNeed units; the EpochsContext = the specification's proposer, committees, active count, stake, effective balances, "
                   "sync indices, pubkey cache — what C07/C08/C16 establish for a real context), configuration facts (non-zero quotients, seed "
                   "lookahead conditions, one balance unit covers attestation and sync rewards) and blocks of the SSZ block type (check_types, "
                   "deposit amounts within one balance unit); the kernel cannot evaluate SHA-256, so no concrete-state instance of the "
                   "invariants is exhibited in Lean — that they hold on real states is what the correspondence runs show",
        technique="Lean 4 proof (refinement lemmas) + Go/Lean differential correspondence with a BLS signature oracle",
        design_ref="DESIGN.md 5/C01", engine="lean"),
)
