"""C13 — genesis state construction equals the spec's initialize_beacon_state_from_eth1."""
from .common import TB_COMMON

import os

PROPS = {}


def short_samples(mode, width=700):
    """Op lines of this mode carry whole deposit lists / states (up to ~1 MB): keep the evidence file small by
    storing truncated samples (the full lines are reproducible from the seed recorded in the evidence)."""
    def custom(ctx):
        def rd(ext):
            p = os.path.join(ctx["work"], f"{mode}.{ext}")
            return [l.rstrip("\n") for l in open(p, errors="replace")] if os.path.exists(p) else []
        ops, go, lean = rd("ops"), rd("go"), rd("lean")
        cut = lambda l: l if len(l) <= width else l[:width] + f"...[{len(l)} chars]"
        step = max(1, len(ops) // 5)
        cases = [dict(op=cut(ops[i]), go=cut(go[i]) if i < len(go) else None, model=cut(lean[i]) if i < len(lean) else None)
                 for i in range(0, len(ops), step)][:6]
        return dict(samples=[dict(mode=mode, cases=cases, note="lines truncated for the evidence file")])
    return custom


PROPS["C13"] = dict(
    module="Proofs.Properties.C13",
    theorems=[
        "Zrnt.Proofs.C13.incremental_deposit_root",
        "Zrnt.Proofs.C13.incremental_deposit_root_prefix",
        "Zrnt.Proofs.C13.listRoot_eq_spec",
        "Zrnt.Proofs.C13.inc_root_eq_depositListRoot",
        "Zrnt.Proofs.C13.deposit_proof_verifies",
        "Zrnt.Proofs.C13.genesis_eq_spec_partial",
        "Zrnt.Proofs.C13.kickstart_is_genesis_partial",
        "Zrnt.Proofs.C13.isValidGenesis_eq_spec",
        "Zrnt.Proofs.C13.genesis_effective_balance",
        "Zrnt.Proofs.C13.genesis_activation",
        "Zrnt.Proofs.C13.topup_no_new_validator",
        "Zrnt.Proofs.C13.new_pubkey_deposit",
        "Zrnt.Proofs.C13.genesis_pubkeys_nodup",
        "Zrnt.Proofs.C13.genesis_time_and_root",
    ],
    modes=[dict(name="c13")],
    custom=short_samples("c13"),
    regen=[],
    components=["genesischeck", "ctxcheck", "flat"],
    level="proof",
    trusted_base=TB_COMMON + [
        "transcription of initialize_beacon_state_from_eth1 / process_deposit / is_valid_genesis_state and of the SSZ roots of DepositData, DepositMessage, Validator, List[Validator], empty BeaconBlockBody (lean/Zrnt/Beacon/Genesis.lean) — three-way agreement Go = model = spec on every run is the mechanical evidence for it",
        "BLS as an oracle: per deposit the harness supplies the verdicts of the real bls12-381-util (pubkey valid, signature decodes, Verify over the deposit signing root); the Lean driver recomputes that signing root (DOMAIN_DEPOSIT, GENESIS_FORK_VERSION, zero genesis_validators_root) and refuses the line if the harness signed anything else",
        "generator-side hashing (deposit data roots, incremental deposit tree and proofs, signing roots) is written against crypto/sha256 in go/internal/genesischeck, independent of zrnt",
        "Lean SHA-256 (lean/Zrnt/Sha256.lean), compared implicitly: every root in the compared states is a SHA-256 Merkle root computed on both sides",
        "flat state exchange format (go/internal/flat, lean/Zrnt/Beacon/State.lean)",
    ],
    manifest=dict(
        level_text="Lean theorems, for all deposit lists, about the transcribed initialize_beacon_state_from_eth1 (effective balances, activations, top-ups, distinct pubkeys, genesis time/root) and about the incremental deposit-root algorithm (parametric in the hash); plus a three-way differential run real GenesisFromEth1/KickStart = code-shaped Lean model = Lean spec on generated deposit lists x presets, comparing the whole genesis state, the validity predicate and the returned epochs context",
        level_note="trusted: Lean kernel, the spec transcription in Genesis.lean, the BLS oracle (real library verdicts, signing root re-derived in Lean), SHA-256 in Lean; the refinement model=spec is a theorem (genesis_eq_spec_partial) in the overflow-free domain; the tie model=Go is the correspondence run",
        technique="Lean 4 proof + Go/Lean three-way differential correspondence",
        design_ref="DESIGN.md 5/C13", engine="lean"),
    assumptions=[
        "only phase0 genesis exists in /repo (eth2/beacon/phase0/genesis.go); later-fork genesis is not supported by the code and not modelled",
        "uint64 overflow of eth1_timestamp + GENESIS_DELAY or of a balance top-up (pyspec raises, Go wraps) is outside the compared domain (spec column `any`): deposit amounts are bounded by the ether supply and timestamps by real time",
        "SLOTS_PER_EPOCH, EFFECTIVE_BALANCE_INCREMENT non-zero",
    ],
)
