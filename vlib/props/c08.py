"""C08 — the incrementally maintained epochs context always matches the state."""
from .common import TB_COMMON
from .c13 import short_samples

PROPS = {}

PROPS["C08"] = dict(
    module="Proofs.Properties.C08",
    theorems=[
        "Zrnt.Proofs.C08.lookahead_stable",
        "Zrnt.Proofs.C08.shuffling_stable",
        "Zrnt.Proofs.C08.rotate_eq_ctxOf",
        "Zrnt.Proofs.C08.afterUpgrade_eq_ctxOf",
        "Zrnt.Proofs.C08.block_eq_ctxOf",
        "Zrnt.Proofs.C08.afterDeposit_eq_ctxOf",
        "Zrnt.Proofs.C08.ctx_answers_eq_spec",
        "Zrnt.Proofs.C08.live_ctx_answers_eq_zrnt_ctx",
        "Zrnt.Proofs.C08.ctx_sync_indices_eq_spec",
        "Zrnt.Proofs.C08.epochWritesB_sound",
        "Zrnt.Proofs.C08.checked_step_inEpoch",
        "Zrnt.Proofs.C08.checked_step_boundary",
        "Zrnt.Proofs.C08.chain_ctx_invariant",
        "Zrnt.Proofs.C08.reload_equiv",
        "Zrnt.Proofs.C08.ctx_reads_in_range",
    ],
    modes=[dict(name="c08", stateful=True, max_shrinks=3, tie_lines=[r"^genfail\b", r"^genesisfail\b"])],
    custom=short_samples("c08"),
    regen=[],
    components=["ctxcheck", "chain", "flat"],
    level="proof",
    trusted_base=TB_COMMON + [
        "ctxOf (lean/Zrnt/Beacon/Ctx.lean): the context of a state written with the consensus spec's functions (lean/Zrnt/Beacon/Spec/Helpers.lean: get_active_validator_indices, get_seed; lean/Zrnt/Beacon/Committees.lean Spec: compute_committee, compute_proposer_index over lean/Zrnt/Shuffle/Spec.lean computeShuffledIndex — the oracles of C07/C06) — the oracle for 'the context computed from scratch'",
        "the chain generator go/internal/chain (valid signed chains on the real code, all forks); what it does not generate the correspondence does not see — the input distribution is recorded in the evidence",
        "the canonical context dump go/internal/ctxcheck/dump.go (every exported field/getter of EpochsContext, pubkey cache restricted to the state's indices) and the flat state format",
        "Lean SHA-256 (seeds, shuffling, proposer sampling are hash-driven: every compared list depends on it)",
    ],
    manifest=dict(
        level_text="Lean theorems about the from-scratch context ctxOf and the code-shaped incremental operations (look-ahead stability of active sets and seeds under everything an epoch may write; rotate = ctxOf at epoch boundaries), plus on every run a three-way comparison along generated chains of all forks: dump(live EpochsContext) = dump(NewEpochsContext(spec, state)) = Lean incremental model (rotate/afterDeposit/afterUpgrade) = Lean ctxOf(state) after every slot, block, epoch boundary, deposit and fork upgrade, and the serialize-reload-continue experiment",
        level_note="trusted: Lean kernel, the spec helper transcription used by ctxOf, the chain generator's coverage, SHA-256 in Lean; the step theorems assume the write relation EpochWrites (what a block / epoch transition of epoch N may write); zmodel evaluates its sound decision procedure epochWritesB (and the other step hypotheses) between consecutive states of every generated chain and reports any step where it fails, and runs the code-shaped incremental model (rotate/afterDeposit/afterUpgrade) next to ctxOf",
        technique="Lean 4 proof + Go/Lean three-way differential correspondence along chains",
        design_ref="DESIGN.md 5/C08", engine="lean"),
    assumptions=[
        "live_ctx_answers_eq_zrnt_ctx / ctx_sync_indices_eq_spec: CfgOK, SHUFFLE_ROUND_COUNT <= 255, registry <= 2^40 entries (C07's domain); sync part: an active validator of maximal effective balance in the base epoch (HasMaxBalance)",
        "MIN_SEED_LOOKAHEAD >= 1, MAX_SEED_LOOKAHEAD >= 1, EPOCHS_PER_HISTORICAL_VECTOR > MIN_SEED_LOOKAHEAD + 3 (all published presets; the chain generator's random configurations keep them)",
        "the pubkey cache is compared only on the indices of the state (it is designed to know more: C16)",
        "registries never contain the same pubkey twice (C13 genesis_pubkeys_nodup, process_deposit)",
    ],
)
