"""Per-property configuration of ./check. One entry per claimed property."""

from .common import TB_COMMON

PROPS = {}

PROPS["C19"] = dict(
    module="Proofs.Properties.C19",
    theorems=[
        "Zrnt.Proofs.C19.isqrt_floor",
        "Zrnt.Proofs.C19.maxU64_spec",
        "Zrnt.Proofs.C19.minU64_spec",
        "Zrnt.Proofs.C19.slotToEpoch_spec",
        "Zrnt.Proofs.C19.timeToSlot_spec",
        "Zrnt.Proofs.C19.timeAtSlot_spec",
        "Zrnt.Proofs.C19.epochStartSlot_spec",
        "Zrnt.Proofs.C19.churn_spec",
        "Zrnt.Proofs.C19.committeeCount_spec",
        "Zrnt.Proofs.C19.checkSlotSpan_spec",
        "Zrnt.Proofs.C19.activationExitEpoch_spec",
        "Zrnt.Proofs.C19.slotPrevious_spec",
        "Zrnt.Proofs.C19.epochPrevious_spec",
        "Zrnt.Proofs.C19.isPow2_iff",
        "Zrnt.Proofs.C19.nextPow2_spec",
        "Zrnt.Proofs.C19.merkle_eq_spec",
        "Zrnt.Proofs.C19.merkle_domain",
        "Zrnt.Proofs.C19.merkle_sound",
        "Zrnt.Proofs.C19.merkle_complete",
        "Zrnt.Proofs.C19.isqrtFrom_floor",
        "Zrnt.Proofs.C19.isqrtPrysm_floor",
        "Zrnt.Proofs.C19.subnet_spec",
        "Zrnt.Proofs.C19.activationChurn_spec",
    ],
    modes=[dict(name="c19")],
    # regenerated items this property's theorems are about (a failure of any other item is not charged here)
    regen=["go2lean:MaxU64", "go2lean:MinU64", "go2lean:IntegerSquareroot", "go2lean:IsPowerOfTwo", "go2lean:NextPowerOfTwo",
           "go2lean:TimeToSlot", "go2lean:TimeAtSlot", "go2lean:SlotToEpoch", "go2lean:EpochStartSlot",
           "go2lean:ComputeActivationExitEpoch", "go2lean:GetChurnLimit", "go2lean:SlotPrevious", "go2lean:EpochPrevious",
           "go2lean:CommitteeCount", "go2lean:CheckSlotSpan", "go2lean:FloorSquareRootFrom",
           "go2lean:ComputeSubnetForAttestation", "go2lean:GetValidatorActivationChurnLimit"],
    components=["c19"],   # harness packages (go/internal/<name>) this property needs
    level="proof",
    trusted_base=TB_COMMON + [
        "go2lean translator (go/cmd/go2lean, tiny uint64 subset; regenerated every run; also validated differentially by mode c19)",
        "hand model of VerifyMerkleBranch (lean/Zrnt/Util/Merkle.lean) tied by correspondence with real SHA-256 on both sides",
        "Nat-level specifications in lean/Zrnt/Util/MathSpec.lean",
        "hand model of IntegerSquareRootPrysm's wrapper (table lookup + float estimate, lean/Zrnt/Util/Prysm.lean) around the regenerated floorSquareRootFrom; the theorem holds for EVERY estimate, Lean's native Float is used only by the driver for the correspondence",
    ],
    manifest=dict(
        level_text="Lean theorems over the full UInt64 domain about functions regenerated from the Go source on every run (go2lean), plus a differential run of the same Go functions against the regenerated model and Nat-level specifications",
        level_note="trusted: Lean kernel, go2lean translator (validated differentially), Nat specs in MathSpec.lean, hand model of VerifyMerkleBranch tied by correspondence",
        technique="Lean 4 proof over regenerated model + Go/Lean differential correspondence",
        design_ref="DESIGN.md 5/C19", engine="lean"),
    assumptions=["SECONDS_PER_SLOT, SLOTS_PER_EPOCH, CHURN_LIMIT_QUOTIENT, TARGET_COMMITTEE_SIZE are non-zero (documented domain)",
                 "VerifyMerkleBranch: depth <= len(branch) is the documented domain; outside it both Go and the model panic"],
)
