from .common import TB_COMMON

PROPS = {"C18": dict(
    module="Proofs.Properties.C18",
    theorems=[
        "Zrnt.Proofs.C18.poll_sites_propagate",
        "Zrnt.Proofs.C18.errors_propagate",
        "Zrnt.Proofs.C18.engine_verdicts_map_to_errors",
        "Zrnt.Proofs.C18.payload_step_placed_as_specified",
        "Zrnt.Proofs.C18.payload_step_unconditional_from_capella",
        "Zrnt.Proofs.C18.head_polls_kept",
        "Zrnt.Proofs.C18.fault_implies_error",
        "Zrnt.Proofs.C18.no_fault_same_result",
        "Zrnt.Proofs.C18.no_fault_same_result_total",
        "Zrnt.Proofs.C18.cancel_from_any_poll_is_error",
    ],
    modes=[dict(name="c18", nontrivial=lambda op, g: g in ("err", "same", "ok") or g.startswith("ok "), tie_lines=[r"^genfail\b"])],
    regen=["extract:faultsites"],
    components=["faults", "chain"],
    level="proof",
    rule="fault enumeration on the real transition code along generated chains (all five forks): every context poll index "
         "of every transition (quick: every poll when a transition has <= 64 polls) x cancellation, every engine call x "
         "{invalid,error}, plus a clean instrumented-vs-plain run and an engine-argument check per transition; a case is "
         "non-trivial when the real code executed the transition (result err/same/ok); distinct = distinct op lines",
    trusted_base=TB_COMMON + [
        "extract faultsites (go/cmd/extract/faultsites.go): syntactic recognition of ctx.Err() polls, err != nil guards and engine calls in eth2/beacon/{.,common,phase0,altair,bellatrix,capella,deneb}",
        "the abstraction of the transition as a Prog of polls / guarded engine queries / fallible steps (Zrnt.Fault); tied to the real code by the fault enumeration, not by proof",
        "chain generator (go/internal/chain) and its mock execution engine",
    ],
    assumptions=[
        "a cancellation between two polls is by construction not observable by the code; 'every cancellation point' = every ctx.Err() poll",
        "context cancellation is sticky (once Err() is non-nil it stays non-nil)",
    ],
    manifest=dict(
        level_text="Lean theorems: (1) over tables regenerated from the Go source on every run — every ctx.Err() poll and every err != nil guard in the transition packages returns an error, every execution-engine call is forwarded or turned into an error before the payload header is stored; (2) for every program built from such shapes, any cancellation or non-valid engine answer inside the executed part yields an error and without a fault the result is the undisturbed one. Tied to the real code by exhaustive fault enumeration (every poll index, every engine call x verdict) along generated chains of all five forks",
        level_note="trusted: Lean kernel; the syntactic extractor; the Prog abstraction (tied by fault enumeration only); chain generator + mock engine; cancellation between polls is unobservable by construction",
        technique="Lean 4 proof over regenerated shape tables + generic fault semantics; fault enumeration on the real code as correspondence",
        design_ref="DESIGN.md 5/C18", engine="lean"),
)}
