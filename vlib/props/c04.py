"""C04 — SSZ encoding of every type round-trips and agrees with its declared lengths."""
from .common import TB_COMMON

TB_SSZ = [
    "the SSZ rules in lean/Zrnt/SSZ (Type, Layout, Codec, Merkle): transcription of simple-serialize.md",
    "the per-fork schema transcription lean/Zrnt/Schema/Spec*.lean (hand-written from the published consensus specifications; oracle for 'canonical encoding defined by the specification's schema')",
    "extract/sszfacts + sszcodec/sszroot/ssztags (go/ast; data module Zrnt.Gen.SszFacts, row obligations split by what they speak about: four encoding methods -> SszCodec (C04), HashTreeRoot -> SszRoot (C05), json/yaml tags -> SszTags (C04)): lists every Go type with the SSZ method set; recognises method bodies and view type definitions from a closed set of shapes (others are opaque, counted in ssz_facts); generates both Zrnt.Gen.SszFacts and the harness registry",
    "Zrnt.Schema.Facts.checkType (the decision procedure the table theorems are about) incl. the polynomial normal form used to compare limit expressions for all configurations",
    "ztyp (codec, views, tree), encoding/json, yaml.v3: dependencies, exercised through zrnt by the correspondence, not verified",
    "harness framing convention: an input counts as accepted by Go only if Deserialize returns nil and read every byte of its scope",
    "Zrnt.SSZ.Json.toJson: the canonical JSON text of a value of a schema type (decimal strings, 0x-hex strings, arrays, objects keyed by the schema's field names; an empty list is []), compared per accepted line with json.Marshal's text (texts over 160 bytes by length + FNV-1a digest)",
    "the run-length notation of the op lines' hex (`hh*N.`), expanded by both executors before anything else",
]

def facts_coverage(ctx):
    """Recognised/opaque counts of the regenerated SSZ facts table (what the table theorems do not cover).
    When the facts module no longer builds, names the offending rows: evaluates `checkType` on every row of the
    regenerated table (compiled evaluation, only to *name* the type/method; the obligation itself is the kernel's)."""
    import os, re, subprocess
    root = os.path.dirname(os.path.dirname(os.path.dirname(os.path.abspath(__file__))))
    p = os.path.join(root, "lean", "Zrnt", "Gen", "SszFacts.lean")
    # when the regenerated table did not compile, the flow put the last compiling copy back and kept the new one as
    # SszFacts.lean.rejected: the rows to name are those of the rejected file
    if any(b.get("what") == "regen:extract:sszfacts" for b in ctx.get("broken", [])) and os.path.exists(p + ".rejected"):
        p = p + ".rejected"
    try:
        src = open(p).read()
    except OSError:
        return {}
    m = re.search(r"def opaqueMethods : List String := \[(.*?)\]", src, re.S)
    opaque = re.findall(r'"([^"]+)"', m.group(1)) if m else []
    cov = dict(ssz_facts=dict(go_types=len(re.findall(r"^def T_", src, re.M)), view_type_defs=len(re.findall(r"^def V_", src, re.M)),
                              method_bodies=5 * len(re.findall(r"^def T_", src, re.M)), opaque_method_bodies=len(opaque),
                              opaque_list=opaque))
    rows_mod = "SszRoot" if ctx.get("prop") == "C05" else "SszCodec"
    try:
        cov["ssz_facts"]["row_obligations"] = len(re.findall(r"^theorem row_ok_", open(os.path.join(os.path.dirname(p), rows_mod + ".lean")).read(), re.M))
        cov["ssz_facts"]["row_obligations_module"] = "Zrnt.Gen." + rows_mod
    except OSError:
        pass
    # evaluate checkType on every row (compiled evaluation, ~4 s): names the offending rows when the facts module no
    # longer builds, and reports the rows that deviate exactly as recorded in Zrnt.Schema.KnownDeviations as
    # (known) findings
    body = src.split("\nend Zrnt.Gen.SszFacts")[0]
    # each property evaluates its own part of the row check: C04 the four encoding methods (+ tags), C05 HashTreeRoot
    part = ".root" if ctx.get("prop") == "C05" else ".codec"
    script = body + ("\nopen Zrnt.Schema in\n#eval (types.filterMap fun T => (checkType owners views %s T).map "
                     "fun r => s!\"ROW {Name.toString T.name}: {r}\")\n" % part)
    if ctx.get("prop") == "C04":   # the text-form obligations (json/yaml tags) are C04's alone
        script += ("open Zrnt.Schema in\n#eval (types.filterMap fun T => (checkTags T).map "
                   "fun r => s!\"ROW {Name.toString T.name}: {r}\")\n")
    script += "end Zrnt.Gen.SszFacts\n"
    os.makedirs(os.path.join(root, "build", "audit"), exist_ok=True)
    sp = os.path.join(root, "build", "audit", "ssz_rows_%s.lean" % ctx.get("prop", "x"))
    open(sp, "w").write(script)
    try:
        out = subprocess.run(["lake", "env", "lean", sp], cwd=os.path.join(root, "lean"), stdout=subprocess.PIPE,
                             stderr=subprocess.STDOUT, text=True, timeout=600).stdout
        rows = re.findall(r'"ROW ([^"]+)"', out)
        try:
            kd = open(os.path.join(root, "lean", "Zrnt", "Schema", "KnownDeviations.lean")).read()
            known_rows = set(re.findall(r'\(n!"([^"]+)", "([^"]+)"\)', kd))
        except OSError:
            known_rows = set()
        unknown = []
        for r in rows:
            name, _, reason = r.partition(": ")
            if (name, reason) in known_rows:
                ctx["violations"].append(dict(descriptor="sszfacts: row %s: %s" % (name, reason), mode="sszfacts", ops=[],
                                              first_bad=dict(row=name, reason=reason), no_input=True))
            else:
                unknown.append(r)
        cov["ssz_facts"]["deviating_rows_recorded"] = [r for r in rows if r not in unknown]
        if unknown:
            ctx["broken"].append(dict(what="ssz facts: rows that disagree with the specification schema (type: method)", detail=unknown[:40]))
            cov["ssz_facts"]["failing_rows"] = unknown[:40]
    except Exception as e:  # naming the rows is best effort; a broken obligation is recorded by the build step
        cov["ssz_facts"]["failing_rows_error"] = str(e)[:200]
    return cov


PROPS = {"C04": dict(
    custom=facts_coverage,
    module="Proofs.Properties.C04",
    theorems=["Zrnt.Proofs.C04.decode_encode", "Zrnt.Proofs.C04.encode_size_eq_byteLength",
              "Zrnt.Proofs.C04.fixedLen_iff_isFixed", "Zrnt.Proofs.C04.encode_size_of_isFixed",
              "Zrnt.Proofs.C04.decode_some_imp_canonical", "Zrnt.Proofs.C04.decode_injective",
              "Zrnt.Proofs.C04.decode_list_within_limit", "Zrnt.Proofs.C04.encode_injective",
              "Zrnt.Proofs.C04.schema_types_legal", "Zrnt.Proofs.C04.schema_round_trip", "Zrnt.Proofs.C04.limits_agree_for_all_configs",
              "Zrnt.Proofs.C04.ssz_methods_agree", "Zrnt.Proofs.C04.ssz_text_tags_agree", "Zrnt.Proofs.C04.known_deviations_are", "Zrnt.Proofs.C04.ssz_types_complete",
              "Zrnt.Proofs.C04.no_opaque_bodies", "Zrnt.Proofs.C04.checkType_sound_struct",
              "Zrnt.Proofs.C04.checkType_sound_list", "Zrnt.Proofs.C04.checkType_sound_vector",
              "Zrnt.Proofs.C04.checkType_sound_bitfield", "Zrnt.Proofs.C04.checkType_sound_leaf", "Zrnt.Proofs.C04.leaf_meets_lift",
              "Zrnt.Proofs.C04.row_methods_not_opaque",
              "Zrnt.Proofs.C04.soundness_covers_all_rows", "Zrnt.Proofs.C04.readBitList_eq_decode"],
    # C04's view of the shared `ssz` result line: everything but the roots. The decoded value stays pinned without `htr=`:
    # Go reports `ser=` when re-serializing the decoded value does not give back the input bytes, and the JSON text of
    # the decoded value is compared with the canonical text of the value the specification decodes (`json=`).
    modes=[dict(name="ssz", strip=[r" htr=[0-9a-f]+", r" viewhtr=[0-9a-f]+"])],
    level="proof",
    trusted_base=TB_COMMON + TB_SSZ,
    assumptions=["encodings shorter than 2^32 bytes (SSZ offsets are 32-bit)",
                 "legal SSZ types only (no zero-length vectors, no empty containers)"],
    rule="every Go SSZ type x 5 presets x generated values/corruptions; a case is non-trivial when the Go side executed it (not bad-op); distinct = distinct op lines",
    manifest=dict(
        level_text="generic SSZ theorems in Lean (round trip, lengths, strict decode = canonical bytes) + table theorems over facts regenerated from the Go source + differential run of every Go SSZ type against the Lean decoder at the specification schema (bytes, lengths, root, canonical JSON text)",
        level_note="trusted: Lean kernel, SSZ rule and schema transcriptions, extractor; ztyp/json/yaml exercised not verified",
        technique="Lean 4 proof + regenerated fact tables + Go/Lean differential correspondence",
        design_ref="DESIGN.md 5/C04", engine="lean"),
)}
