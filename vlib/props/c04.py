"""C04 — SSZ encoding of every type round-trips and agrees with its declared lengths."""
from .common import TB_COMMON

TB_SSZ = [
    "the SSZ rules in lean/Zrnt/SSZ (Type, Layout, Codec, Merkle): transcription of simple-serialize.md",
    "the per-fork schema transcription lean/Zrnt/Schema/Spec*.lean (hand-written from the published consensus specifications; oracle for 'canonical encoding defined by the specification's schema')",
    "extract/sszfacts (go/ast): lists every Go type with the SSZ method set; generates both Zrnt.Gen.SszFacts and the harness registry",
    "ztyp (codec, views, tree), encoding/json, yaml.v3: dependencies, exercised through zrnt by the correspondence, not verified",
    "harness framing convention: an input counts as accepted by Go only if Deserialize returns nil and read every byte of its scope",
]

PROPS = {"C04": dict(
    module="Proofs.Properties.C04",
    theorems=["Zrnt.Proofs.C04.decode_encode", "Zrnt.Proofs.C04.encode_size_eq_byteLength",
              "Zrnt.Proofs.C04.fixedLen_iff_isFixed", "Zrnt.Proofs.C04.encode_size_of_isFixed",
              "Zrnt.Proofs.C04.decode_some_imp_canonical", "Zrnt.Proofs.C04.decode_injective",
              "Zrnt.Proofs.C04.decode_list_within_limit", "Zrnt.Proofs.C04.encode_injective"],
    modes=[dict(name="ssz")],
    level="proof",
    trusted_base=TB_COMMON + TB_SSZ,
    assumptions=["encodings shorter than 2^32 bytes (SSZ offsets are 32-bit)",
                 "legal SSZ types only (no zero-length vectors, no empty containers)"],
    rule="every Go SSZ type x 5 presets x generated values/corruptions; a case is non-trivial when the Go side executed it (not bad-op); distinct = distinct op lines",
    manifest=dict(
        level_text="generic SSZ theorems in Lean (round trip, lengths, strict decode = canonical bytes) + table theorems over facts regenerated from the Go source + differential run of every Go SSZ type against the Lean decoder at the specification schema",
        level_note="trusted: Lean kernel, SSZ rule and schema transcriptions, extractor; ztyp/json/yaml exercised not verified",
        technique="Lean 4 proof + regenerated fact tables + Go/Lean differential correspondence",
        design_ref="DESIGN.md 5/C04", engine="lean"),
)}
