"""C16 — pubkey cache maps index and key exactly along each deposit history."""
from .common import TB_COMMON

PROPS = {}

PROPS["C16"] = dict(
    module="Proofs.Properties.C16",
    theorems=[
        "Zrnt.Proofs.C16.lookup_refines_history",
        "Zrnt.Proofs.C16.pubkey_after_history",
        "Zrnt.Proofs.C16.validatorIndex_after_history",
        "Zrnt.Proofs.C16.lookup_eq_history",
        "Zrnt.Proofs.C16.addValidator_terminates",
        "Zrnt.Proofs.C16.reachable_terminates",
        "Zrnt.Proofs.C16.never_diverges",
        "Zrnt.Proofs.C16.add_known_noop",
        "Zrnt.Proofs.C16.add_conflict_forks",
        "Zrnt.Proofs.C16.add_gap_error",
        "Zrnt.Proofs.C16.add_next_appends",
        "Zrnt.Proofs.C16.history_prefix_shared",
        "Zrnt.Proofs.C16.old_lookup_reports_sibling_entry",
        "Zrnt.Proofs.C16.old_addValidator_diverges",
        "Zrnt.Proofs.C16.old_addValidator_never_terminates",
    ],
    modes=[dict(name="c16", stateful=True, max_shrinks=4)],
    level="proof",
    rule="generated operation sequences (trees of handles) run on the real PubkeyCache and on the Lean model + history "
         "specification; a case is non-trivial when the Go side executed it (not bad-op); distinct = distinct (position, op line)",
    trusted_base=TB_COMMON + [
        "hand model lean/Zrnt/PubkeyCache/Model.lean of eth2/beacon/common/validator_pubkeys.go (levels, the two lookups, "
        "AddValidator with its three fork-out branches), tied on every run by the differential mode c16: every AddValidator "
        "result, pointer identity of the returned handle, and every Pubkey/ValidatorIndex answer on every live handle after every step",
        "history specification lean/Zrnt/PubkeyCache/Spec.lean (a handle denotes the list of keys appended through it)",
        "Go harness go/internal/pubkeycache (generator, watchdog/worker restart for non-terminating calls, canonical rendering)",
        "public keys are abstract in the model (equality only); the harness uses 12 real compressed BLS12-381 keys derived with bls12-381-util",
    ],
    assumptions=[
        "validator indices are modelled as naturals: trustedParentCount + len(idx2pub) does not wrap (it is bounded by the number of cached entries)",
        "NewPubkeyCache is driven with registries without duplicate public keys (a beacon state never has duplicates); a duplicate list is answered bad-op on both sides",
        "single-threaded use (locking of the cache belongs to C17)",
    ],
    manifest=dict(
        level_text="Lean theorems over ALL operation sequences on any number of handles: a simulation between the level-store model of "
                   "PubkeyCache and the history machine (lookup_refines_history), termination of AddValidator with fuel linear in the chain "
                   "depth, no-op / fork / gap-error / prefix-sharing theorems; the model is tied to the Go code by a differential run on every check",
        level_note="trusted: Lean kernel, hand model (validated differentially on every run against the real code, every lookup on every live "
                   "handle after every step), history specification, abstract keys",
        technique="Lean 4 refinement proof (store of levels vs. per-handle histories) + Go/Lean differential correspondence with divergence watchdog",
        design_ref="DESIGN.md 5/C16", engine="lean"),
)
