"""C14 — built-in configurations are the spec's; fork lookups agree for every epoch."""
from .common import TB_COMMON

PROPS = {"C14": dict(
    module="Proofs.Properties.C14",
    theorems=[
        "Zrnt.Proofs.C14.forkVersion_eq_forkAt",
        "Zrnt.Proofs.C14.forkDecoder_tables",
        "Zrnt.Proofs.C14.forkDigest_eq_forkAt",
        "Zrnt.Proofs.C14.allocator_inverse",
        "Zrnt.Proofs.C14.allocator_unknown",
        "Zrnt.Proofs.C14.envelope_roundtrip",
        "Zrnt.Proofs.C14.upgrade_tables",
        "Zrnt.Proofs.C14.state_fork_invariant",
        "Zrnt.Proofs.C14.mainnet_constants_eq",
        "Zrnt.Proofs.C14.minimal_constants_eq",
        "Zrnt.Proofs.C14.go_constants_eq",
        "Zrnt.Proofs.C14.embeds_table",
    ],
    regen=["go2lean:ForkVersion", "go2lean:SlotToEpoch", "extract:configs"],
    components=["config"],
    modes=[dict(name="c14")],
    level="proof",
    trusted_base=TB_COMMON + [
        "lean/Zrnt/Config/Constants.lean: hand transcription (from memory) of the published mainnet/minimal presets and configs phase0..electra and of the spec-level constants; ORACLE for 'the constants the specification publishes'; entries marked (?) are pre-release feature-fork constants known less firmly",
        "lean/Zrnt/Config/Spec.lean: forkAt (latest fork whose epoch <= epoch), compute_fork_data_root / fork_digest / domain / signing_root transcribed from the phase0 spec",
        "go2lean translator (regenerates Spec.ForkVersion / SlotToEpoch as Lean functions on every run; validated differentially by mode c14)",
        "extract/configs.go (go/ast + textual YAML `KEY: value` reader; follows //go:embed; fails loudly on unrecognised shapes)",
        "meaning given to recognised shapes in lean/Zrnt/Config/ForkModel.lean (if-chain, switch, sequential ifs, field copies), tied to the real functions by the c14 correspondence",
        "real BLS (bls12-381-util) on harness-made keys: a signature verifies iff it was made by that key over exactly that message",
        "yaml.v3 decoding and ztyp SSZ/hash-tree-root (exercised through zrnt, not verified)",
    ],
    assumptions=[
        "fork epochs are non-decreasing in fork order (valid configurations); SLOTS_PER_EPOCH != 0",
        "chains start from a phase0 genesis (the only genesis zrnt builds), so ALTAIR_FORK_EPOCH = 0 is outside the chain part",
        "the Electra state upgrade is unsupported by the repository itself (UpgradeToElectra returns an error); chains are judged up to Deneb",
        "state_fork_invariant: no fork's 64-bit wrapped product epoch*SLOTS_PER_EPOCH lands within the slots walked unless it is the true product (FAR_FUTURE_EPOCH*8 wraps to 2^64-8)",
        "envelope signature: accept/reject under right/wrong version, chain, proposer and key is established by the correspondence with real BLS and real SHA-256 on both sides, not by a theorem (a theorem would need an ideal-hash assumption on 28-byte truncated roots)",
    ],
    rule="generated op lines (fork version/digest/allocator queries over random monotone schedules at both sides of every boundary, kick-started chains across the boundaries, envelope round trips of random blocks of every fork, envelope signatures with real BLS under right/wrong version/chain/key, every field of the decoded built-in structs, every Go-level constant); non-trivial = executed by Go (not bad-op); distinct = distinct op lines",
    manifest=dict(
        level_text="Lean theorems for every monotone fork schedule and every slot/epoch about the ForkVersion function regenerated from the Go source, and about code-shaped models instantiated with fork tables regenerated from fork.go/block.go; YAML and Go-level constants regenerated and proved equal to a hand-transcribed table of the published values; plus a differential run of the real functions (incl. ProcessSlots chains, envelopes, real-BLS envelope signatures, reflection dump of the decoded structs) against model and specification",
        level_note="trusted: Lean kernel, the hand-transcribed constants table and forkAt (oracles), go2lean + extractor (validated differentially), BLS/yaml/ztyp libraries",
        technique="Lean 4 proof over regenerated functions and tables + Go/Lean differential correspondence",
        design_ref="DESIGN.md 5/C14", engine="lean"),
)}
