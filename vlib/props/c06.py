"""C06 — list shuffling is the spec's swap-or-not permutation and is invertible."""
from .common import TB_COMMON

PROPS = {}

PROPS["C06"] = dict(
    module="Proofs.Properties.C06",
    theorems=[
        "Zrnt.Proofs.C06.flip_involutive",
        "Zrnt.Proofs.C06.round_involutive",
        "Zrnt.Proofs.C06.permute_lt",
        "Zrnt.Proofs.C06.unpermute_lt",
        "Zrnt.Proofs.C06.unpermute_permute",
        "Zrnt.Proofs.C06.permute_unpermute",
        "Zrnt.Proofs.C06.permute_bijective",
        "Zrnt.Proofs.C06.permuteIndex_eq_spec",
        "Zrnt.Proofs.C06.cache_invariant",
        "Zrnt.Proofs.C06.cache_invariant_step",
        "Zrnt.Proofs.C06.roundList_eq",
        "Zrnt.Proofs.C06.unshuffleList_eq_map",
        "Zrnt.Proofs.C06.shuffleList_eq_map",
        "Zrnt.Proofs.C06.lists_eq_spec",
        "Zrnt.Proofs.C06.shuffle_unshuffle",
        "Zrnt.Proofs.C06.unshuffle_shuffle",
        "Zrnt.Proofs.C06.shuffleList_perm",
        "Zrnt.Proofs.C06.unshuffleList_perm",
        "Zrnt.Proofs.C06.permuteIndex_eq_spec_sha256",
        "Zrnt.Proofs.C06.lists_eq_spec_sha256",
    ],
    modes=[dict(name="shuffle")],
    level="proof",
    trusted_base=TB_COMMON + [
        "hand model lean/Zrnt/Shuffle/Model.lean of eth2/beacon/common/shuffle.go (loop structure, hash cache refresh, uint64 wrap, uint32 truncation), tied on every run by correspondence with the real PermuteIndex/UnpermuteIndex/ShuffleList/UnshuffleList (mode shuffle, real SHA-256 on both sides)",
        "transcription of the consensus spec's compute_shuffled_index in lean/Zrnt/Shuffle/Spec.lean (the oracle; evaluated at every position of every generated list)",
        "Lean transcription of SHA-256 (lean/Zrnt/Sha256.lean) for the correspondence run only; every theorem is parametric in the hash",
    ],
    manifest=dict(
        level_text="Lean theorems, for every hash function, seed, round count and size, about a code-shaped model of shuffle.go: per-index functions are mutually inverse bijections equal to the spec's compute_shuffled_index; the whole-list routines (with their 256-position hash cache and pivot/mirror segments) equal the per-index map at every position, invert each other and return a permutation. The model is tied to the Go code by a differential run over all sizes 0..520, the 256-aligned sizes up to 4097, pivots at both ends and out-of-domain inputs, with the literal spec function as oracle",
        level_note="trusted: Lean kernel, hand model of shuffle.go (tied by correspondence), transcription of compute_shuffled_index; per-index theorems need listSize <= 2^63 (uint64 wrap beyond; counter-example proved), spec equality needs listSize <= 2^40 (the spec's uint32 window)",
        technique="Lean 4 proof over hand-written code-shaped model + Go/Lean differential correspondence against the literal spec function",
        design_ref="DESIGN.md 5/C06", engine="lean"),
    assumptions=[
        "concurrent use: the theorems are about one call; that a call's result does not depend on other calls running at the same time is checked by correspondence only (op `par`: 8-16 goroutines, 300 repetitions each, GOMAXPROCS >= 4; a shared unsynchronised hasher was detected in 40/40 runs on 16 CPUs, it needs real parallelism to show)",
        "per-index theorems: index < listSize <= 2^63 (documented domain; Go slice lengths are below 2^63; above it the uint64 sum wraps — a counter-example is proved in C06.lean)",
        "equality with compute_shuffled_index: listSize <= 2^40 = VALIDATOR_REGISTRY_LIMIT (the spec's uint32(position // 256) rejects larger positions), rounds <= 255 (uint8), hash output is 32 bytes",
    ],
)
