TB_COMMON = [
    "Lean 4.33.0 kernel (and leanchecker on the thorough tier); axioms limited to propext, Classical.choice, Quot.sound (audited by #print axioms on every run)",
    "the statements in lean/Proofs/Properties/<id>.lean say what properties.jsonl says",
    "Lean compiler for the compiled model driver zmodel (correspondence runs only, not the theorems)",
]
