"""C07 — committee, proposer and sync-committee assignments equal the spec's."""
from .common import TB_COMMON

PROPS = {}

PROPS["C07"] = dict(
    module="Proofs.Properties.C07",
    theorems=[
        "Zrnt.Proofs.C07.committeeCount_spec",
        "Zrnt.Proofs.C07.committeeCount_eq_spec",
        "Zrnt.Proofs.C07.committees_tile",
        "Zrnt.Proofs.C07.committee_sizes",
        "Zrnt.Proofs.C07.committees_partition",
        "Zrnt.Proofs.C07.seed_eq_spec",
        "Zrnt.Proofs.C07.activeIndices_eq_spec",
        "Zrnt.Proofs.C07.committee_eq_spec",
        "Zrnt.Proofs.C07.proposer_eq_spec_partial",
        "Zrnt.Proofs.C07.proposer_empty",
        "Zrnt.Proofs.C07.proposers_eq_spec_partial",
        "Zrnt.Proofs.C07.syncIndices_eq_spec_partial",
        "Zrnt.Proofs.C07.proposer_eq_spec",
        "Zrnt.Proofs.C07.syncIndices_eq_spec",
        "Zrnt.Proofs.C07.newEpochsContext_ok",
        "Zrnt.Proofs.C07.ctx_getEpochComms",
        "Zrnt.Proofs.C07.ctx_committee_eq_spec",
        "Zrnt.Proofs.C07.ctx_count_eq_spec",
        "Zrnt.Proofs.C07.ctx_proposer_eq_spec_partial",
        "Zrnt.Proofs.C07.newEpochsContext_total",
        "Zrnt.Proofs.C07.committee_eq_spec_sha256",
        "Zrnt.Proofs.C07.ctx_committee_eq_spec_sha256",
        "Zrnt.Proofs.C07.ctx_proposer_eq_spec_partial_sha256",
        "Zrnt.Proofs.C07.newEpochsContext_total_sha256",
    ],
    modes=[dict(name="committees"), dict(name="c07chain", tie_lines=[r"^genfail\b"])],
    level="proof",
    trusted_base=TB_COMMON + [
        "hand model lean/Zrnt/Beacon/Committees.lean of shuffling.go / proposers.go / sync_committee.go / randao.go / epochs_context.go (NewShufflingEpoch slicing, ComputeProposerIndex with its 1000x32 cut-off, ComputeSyncCommitteeIndices with its cached hash, GetSeed, the three-epoch lookups), tied on every run by correspondence with a real EpochsContext built over synthetic phase0/altair BeaconState views (mode committees) and with the LIVE EpochsContext of real chains crossing all five forks (mode c07chain, chain generator go/internal/chain: real state transition, real BLS)",
        "history rule for the stored sync committees used by mode c07chain (lean/Zrnt/Beacon/CommitteesChain.lean): none before altair; both = get_next_sync_committee(upgraded state) at the altair upgrade / altair genesis; rotated and re-sampled at the first slot of an epoch divisible by EPOCHS_PER_SYNC_COMMITTEE_PERIOD; unchanged otherwise; evaluated on the post-block state (sound because MIN_SEED_LOOKAHEAD = 1 and MAX_SEED_LOOKAHEAD >= 1 in every generated configuration: block operations change neither the active set of the sampled epoch nor effective balances nor the seed mix)",
        "go2lean translation of CommitteeCount (regenerated on every run; the model calls the regenerated function; also validated differentially by mode c19)",
        "transcriptions of get_active_validator_indices, get_seed, get_committee_count_per_slot, compute_committee, get_beacon_committee, compute_proposer_index, get_beacon_proposer_index, get_next_sync_committee_indices in lean/Zrnt/Beacon/Committees.lean (namespace Spec) over compute_shuffled_index of lean/Zrnt/Shuffle/Spec.lean — the oracle of the correspondence run",
        "the C06 results (list shuffling = per-index spec function) which committee_eq_spec and committees_partition use",
        "Lean transcription of SHA-256 for the correspondence run only; every theorem is parametric in the hash",
    ],
    manifest=dict(
        level_text="Lean theorems, for every hash function, registry, randao history and configuration, about a code-shaped model of the committee/proposer/sync-committee code: the committees of an epoch are consecutive slices that tile the un-shuffled active list, so they partition the active validator set (each active validator in exactly one committee), sizes are floor/ceil of n/c, the count is the spec formula (proved about the function regenerated from the Go source), each committee equals the spec's get_beacon_committee, seeds equal get_seed, proposers and sync-committee indices equal the spec's whenever the implementation returns (the 32000-candidate cut-off of ComputeProposerIndex is a stated divergence). The model is tied to the Go code by differential runs: (a) a real EpochsContext over synthetic phase0/altair states, (b) the live EpochsContext and the stored sync-committee pubkeys after every slot of real chains through phase0..deneb (upgrades, sync-committee period boundaries, deposits/exits/slashings), (c) ComputeProposerIndex / ComputeSyncCommitteeIndices called directly under installed hash functions that make acceptance rare or impossible (the 32000-candidate cut-off is reached on the real code). Synthetic part: real EpochsContext over synthetic phase0/altair states (registries 0..600, activation/exit patterns incl. none active, balances 0..max, minimal/custom/mainnet constants) against the literal spec functions",
        level_note="trusted: Lean kernel, hand model (tied by correspondence), go2lean for CommitteeCount, spec transcriptions; proposer/sync theorems: full equality with termination under HasMaxBalance (some active validator at MAX_EFFECTIVE_BALANCE; proposer: at most 32000 active validators); without it the _partial forms (equality whenever the implementation returns / per loop iteration)",
        technique="Lean 4 proof over hand-written code-shaped model + regenerated CommitteeCount + Go/Lean differential correspondence against literal spec functions",
        design_ref="DESIGN.md 5/C07", engine="lean"),
    assumptions=[
        "STATED DIVERGENCE from the specification: ComputeProposerIndex returns an error after 1000 x 32 rejected candidates, the specification's compute_proposer_index loops on. The ops `cpi` of mode committees reach the cut-off on the real code (installed hash functions without zero bytes / with rare zero bytes, effective balances 0 or tiny): the real code returns the error (no panic, no endless loop) exactly where the model does, while the specification's loop is still searching after 40000 candidates (spec column `any`); see input_distribution 'ComputeProposerIndex on the real code'. ComputeSyncCommitteeIndices has no cut-off (ops `csi` drive it beyond 32000 candidates); like the specification it would not terminate if no candidate were ever accepted",
        "configuration: SLOTS_PER_EPOCH, TARGET_COMMITTEE_SIZE non-zero, constants fit uint64, SHUFFLE_ROUND_COUNT <= 255",
        "registry size <= 2^40 (VALIDATOR_REGISTRY_LIMIT; the spec's shuffling function is undefined beyond), effective_balance*255, n*committee_count and epoch+EPOCHS_PER_HISTORICAL_VECTOR below 2^64 (the model uses unbounded naturals there)",
        "states reachable by the protocol have at least one active validator in the current epoch; with none, NewEpochsContext returns an error and no assignment is reported (spec column 'any' for committee queries, 'err' for proposers)",
    ],
)
