"""C09 — fork-choice head is the LMD-GHOST winner for every history."""
from .common import TB_COMMON

FC_TB = TB_COMMON + [
    "hand-written code-shaped model lean/Zrnt/ForkChoice/Model.lean of eth2/forkchoice (ProtoArray, ProtoVoteStore, ProtoForkChoice), tied to the Go code by the correspondence modes fc09/fc10/fc11 (same operation lines on both sides, every result compared)",
    "specification lean/Zrnt/ForkChoice/Spec.lean (tree of (root,slot) nodes with the fork-choice-parent / transition-parent edges documented in proto_array.go, latest accepted votes, GHOST walk with leads n = viable n or some child leads)",
    "Go harness go/internal/fc (generator, executor with recover + 2 s watchdog, canonical printing)",
    "Go maps modelled as association lists with unique keys; uint64 slots/epochs/balances modelled as Nat (alphabet far below 2^63); after a panic or a blocked call the instance is abandoned on both sides",
]
FC_ASSUME = [
    "tree edges are those documented in proto_array.go: a block node hangs (fork-choice parent) from the first known node of its parent root, an empty-slot node from the node one slot before it",
    "no block has the all-zero root at slot 0 (Go's zero NodeRef is the vote store's 'no vote' sentinel); an empty-slot insertion under an unknown root or below the first slot of its root is outside the domain (the API has no result to reject it): the specification answers `any` from there on",
    "Search from an anchor that is not the first node of its root is unconstrained: the code answers 'transition descendants at a later slot' (a block at the anchor's own slot is excluded, its descendants are included), which no tree contract explains, and the source documents nothing for that case (see the comment of Spec.Abs.search); Search without options = the blocks without a child block (as the source comments say; the code was repaired to that in /repo commit 750a2f5)",
    "CanonAtSlot for a slot after the head answers the head whatever withBlock says ('the closest we have', as the source comment says); at the slot of the head the requested kind is respected (repaired in /repo commit 22758ea)",
    "a root names one block: a root that was pruned is not inserted again as a new block while a latest vote still names it (the specification answers `any` from there on; the generator avoids it)",
    "OnPrune (rewritten in /repo commit 38d1471) is atomic when the sink fails: nothing is dropped, the error is returned, a repeated call reports the same nodes again (the sink must tolerate repeats); a block filling the slot of an empty-slot checkpoint node is dropped as conflicting with the checkpoint",
]

def _nontrivial(kinds):
    def f(op, g):
        return op.split(" ")[0] in kinds and g not in ("bad-op", "noinit", "dead")
    return f

PROPS = {"C09": dict(
    module="Proofs.Properties.C09",
    theorems=[
        "Zrnt.Proofs.C09.inv_structure",
        "Zrnt.Proofs.C09.no_panic",
        "Zrnt.Proofs.C09.inv_structure_quiet",
        "Zrnt.Proofs.C09.inv_weights",
        "Zrnt.Proofs.C09.weights_are_subtree_sums",
        "Zrnt.Proofs.C09.weights_propagate",
        "Zrnt.Proofs.C09.score_changes_exact",
        "Zrnt.Proofs.C09.inv_best",
        "Zrnt.Proofs.C09.head_eq_ghost",
        "Zrnt.Proofs.C09.Old.head_eq_ghost_false",
    ],
    modes=[dict(name="fc09", stateful=True, max_shrinks=2,
                nontrivial=_nontrivial(("head", "findhead", "att", "block", "slot", "justify", "pin")))],
    level="proof",
    trusted_base=FC_TB,
    assumptions=FC_ASSUME,
    rule="operation sequences (reset-separated) run on the real Go fork choice and on the Lean model+specification; counted: head/findhead/att/block/slot/justify/pin lines that the Go side executed; distinct = distinct (position, line)",
    manifest=dict(
        level_text="Lean theorems about a code-shaped model of the proto-array fork choice (invariants over all operation sequences, refinement lemmas towards the GHOST specification) plus a differential run of generated operation sequences on the real Go code, the model and the independent GHOST oracle",
        level_note="trusted: Lean kernel, hand model tied by correspondence (every API result compared on generated histories), GHOST oracle in Spec.lean; head_eq_ghost is proved for all admissible histories including finalizations and pruning (the specification prunes to the finalized subtree); Old.head_eq_ghost_false keeps the witness against the model of the code before the OnPrune rewrite; histories with malformed insertions (outside the refinement's domain) are covered by the weak structure invariant WF0 and no_panic for ALL histories, pruning included, and by the full structure invariant WF while the finalized checkpoint stays",
        technique="Lean 4 proof over hand model + Go/Lean/oracle differential correspondence",
        design_ref="DESIGN.md 5/C09", engine="lean"),
)}
