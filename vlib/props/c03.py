"""C03 — every block or operation the spec rejects is rejected, without panicking."""
import collections, os, subprocess
from .common import TB_COMMON
from .c01 import TB_BLOCK, ASSUME_BLOCK, _nontrivial
from .. import core

PROPS = {}

# rules of S that no generated line can make fire FIRST, and why (reported in the evidence next to rules_never_first)
UNREACHABLE_RULES = {
    "header.proposer_out_of_range": "after header.wrong_proposer passed, block.proposer_index is get_beacon_proposer_index(state), an element of the registry",
    "block.no_execution_payload": "a block of the state's fork always has the part (other forks are rejected by block.container_of_other_fork first)",
    "block.no_sync_aggregate": "as block.no_execution_payload",
    "payload.state_has_no_header": "a bellatrix+ state always has a latest_execution_payload_header",
    "sync_aggregate.no_committee": "an altair+ state always has a current sync committee",
    "sync_aggregate.bits_length": "ssz.sync_bitvector_length (the SSZ type check) fires first",
    "ssz.sync_bitvector_padding": "SYNC_COMMITTEE_SIZE is a multiple of 8 in every preset in use: no padding bits exist",
    "slash_validator.withdrawable_epoch": "uint64 overflow of epoch + EPOCHS_PER_SLASHINGS_VECTOR: unreachable magnitudes",
    "withdrawals.balance_index": "needs a state with fewer balances than validators (not a BeaconState the transition can produce)",
    "limits.transactions": "2^20+1 transactions: enforced by SSZ decoding and by CheckLimits; not generated for size",
    "limits.transaction_bytes": "a transaction of more than 2^30 bytes: enforced by SSZ decoding only; not generated for size",
}


def _first_rule_stats(ctx):
    """Per rejection rule of S: how many mutants S rejected BY THAT RULE FIRST (zmodel blockwhy on the same op lines)."""
    ops = os.path.join(ctx["work"], "c03.ops")
    gop = os.path.join(ctx["work"], "c03.go")
    if not (os.path.exists(ops) and os.path.exists(core.ZMODEL)):
        return {}
    with open(ops) as fi:
        p = subprocess.run([core.ZMODEL, "blockwhy"], stdin=fi, stdout=subprocess.PIPE, stderr=subprocess.PIPE, timeout=3600)
    why = p.stdout.decode(errors="replace").split("\n")
    go = open(gop).read().split("\n") if os.path.exists(gop) else []
    rules, go_out = collections.Counter(), collections.Counter()
    accepted_by_both = 0
    for i, l in enumerate(why):
        g = go[i] if i < len(go) else ""
        if l.startswith("err:"):
            rules[l[4:]] += 1
        elif l.startswith("ok ") and g.startswith("ok "):
            accepted_by_both += 1
        if g and not g.startswith("pre-ok") and g != "reset":
            go_out[g.split(" ", 1)[0]] += 1
    # every rule name S can reject with (string literals `area.rule` of the two specification files)
    import re
    declared = set()
    for fn in ("Zrnt/Beacon/Spec/BlockOps.lean", "Zrnt/Beacon/Spec/BlockTransition.lean"):
        try:
            src = open(os.path.join(core.LEAN, fn)).read()
        except OSError:
            continue
        declared |= set(re.findall(r'"([a-z_0-9]+\.[a-z_0-9]+)"', src))
    fired = set()
    for r in rules:
        fired.add(r)
        for suf in ("_out_of_range_out_of_range", "_out_of_range"):   # `idx` appends " out of range" to the rule name
            if r.endswith(suf):
                fired.add(r[:-len(suf)]); fired.add(r[:-len(suf)] + "_out_of_range")
    never = sorted(d for d in declared if d not in fired)
    return dict(rules_declared_in_S=len(declared), rules_never_first=never,
                rules_never_first_explained={r: UNREACHABLE_RULES.get(r, "reachable: not hit by this run's sample") for r in never}, rejections_by_first_rule=dict(sorted(rules.items(), key=lambda kv: (-kv[1], kv[0]))),
                rules_that_fired_first=len(rules),
                mutants_accepted_by_spec_and_code=accepted_by_both,
                go_outcomes=dict(go_out))


PROPS["C03"] = dict(
    module="Proofs.Properties.C03",
    extra_modules=["Proofs.Properties.StageOrder", "Proofs.Properties.RegenPreds", "Proofs.Properties.BlockLimits"],   # validator predicates regenerated from the Go source = the specification's (go2lean, tie R-fun)
    theorems=[
        "Zrnt.Proofs.StageOrder.block_stages_are_the_specs",
        "Zrnt.Proofs.BlockLimits.check_limits_are_the_specs", "Zrnt.Proofs.BlockLimits.limits_name_their_own_field",
        "Zrnt.Proofs.RegenPreds.isSlashable_eq",
        "Zrnt.Proofs.C03.indexedAttestation_sound",
        "Zrnt.Proofs.C03.spec_indexed_meaning",
        "Zrnt.Proofs.C03.slashable_sound",
        "Zrnt.Proofs.C03.attestation_window_sound",
        "Zrnt.Proofs.C03.domain_separation",
        "Zrnt.Proofs.C03.domain_separation_no_collision",
        "Zrnt.Proofs.C03.M_total",
        "Zrnt.Proofs.C03.M_sound_pieces",
        "Zrnt.Proofs.C03.sound_of_refines",
        "Zrnt.Proofs.C03.header_sound",
        "Zrnt.Proofs.C03.exit_age_sound",
        "Zrnt.Proofs.C03.deposit_branch_sound",
        "Zrnt.Proofs.C03.payload_sound",
        "Zrnt.Proofs.C03.no_panic_of_refines",
        "Zrnt.Proofs.C03.M_sound_partial",
        "Zrnt.Proofs.C03.attestation_reject_sound",
        "Zrnt.Proofs.C03.slashing_reject_sound",
        "Zrnt.Proofs.C03.M_sound_phase0",
        "Zrnt.Proofs.C03.M_sound_altair",
        "Zrnt.Proofs.C03.M_sound_bellatrix",
        "Zrnt.Proofs.C03.M_sound_capella",
        "Zrnt.Proofs.C03.M_sound_deneb",
        "Zrnt.Proofs.C03.M_sound",
        "Zrnt.Proofs.C03.payload_parent_hash_checked_from_capella",
    ],
    modes=[dict(name="c03", stateful=True, max_shrinks=3, nontrivial=_nontrivial)],
    regen=[],
    components=["beaconblock", "flatblock", "flat", "chain", "hreg"],
    custom=_first_rule_stats,
    level="proof",
    rule="c03: for every block of generated valid chains (all five forks) the single-corruption mutants of the chain library (field "
         "corruptions, cross-domain/cross-fork/cross-chain signature replays, duplicated/reordered/over-limit operations, inclusion-window "
         "off-by-ones, payload and engine faults, still-valid boundary mutants) plus this component's additions, all applied to the same "
         "pre-state: the real common.PostSlotTransition (signatures on) must answer `err` whenever S rejects, never `panic`, and S's post-state "
         "whenever S accepts; a case is non-trivial when the Go side executed the mutant; distinct = distinct (position, line)",
    trusted_base=TB_COMMON + TB_BLOCK,
    assumptions=ASSUME_BLOCK + [
        "M_sound is proved only in part: M_sound_partial is the block-level statement (every block of the block type that S rejects is rejected by "
        "ProcessBlock / PostSlotTransition, no panic, no runaway loop) with the premise OpSteps for an invariant — the simulation of every operation kind "
        "is proved from its M = S theorem (all operation kinds have one since round 3), the preservation of ONE common invariant by every operation is "
        "proved for EVERY phase0 operation kind (M_sound_phase0: no premise for phase0 blocks; M_sound_altair / _bellatrix / _capella / _deneb: the same for the other forks; M_sound: all five forks under Admissible, the disjunction over the fork of the per-fork hypotheses — no premise about the operations is left); single-operation forms: attestation_reject_sound, "
        "slashing_reject_sound, header_sound, exit_age_sound, deposit_branch_sound, payload_sound. coverage.rejections_by_first_rule counts, per rule of "
        "S, the mutants S rejected by that rule FIRST",
        "block-level hypothesis check_types: the block is a value of the SSZ block type (per-element limits that zrnt enforces when decoding the block)",
        "domain_separation is up to an explicit collision of the hash truncated to the 28 bytes that enter a domain (stated constructively)",
        "a Go panic is reported as the outcome `panic`, which never equals an answer of S",
    ],
    manifest=dict(
        level_text="Lean theorems for all inputs: every block operation of the hand model M of zrnt's code simulates the specification S on "
                   "every fork in the sense Sim (S accepts with a => M accepts with a; S rejects => M returns an error; M never panics and never "
                   "runs out of fuel), incl. attestation_reject_sound and slashing_reject_sound; the structure check of indexed attestations as "
                   "coded accepts exactly the spec's predicate, IsSlashableAttestationData is sound, ComputeDomain/ComputeSigningRoot separate "
                   "(domain type, fork version, genesis root, object) up to an explicit hash collision, modelled loops/indexing/divisions cannot "
                   "panic or run away (M_total); block-level soundness on ALL FIVE FORKS with no premise about the operations: M_sound "
                   "(and per fork M_sound_phase0 .. M_sound_deneb): every block of the fork's container type that S rejects is rejected by the "
                   "model of ProcessBlock and PostSlotTransition, without panic or runaway loop; plus a differential run of the "
                   "real PostSlotTransition against S on thousands of mutants of valid blocks of all five forks (over-limit MAX_x+1 blocks, "
                   "payload fields at exact limits, second block at the same slot, exits at the exact age boundary), with per-rule counts of "
                   "which spec rule rejected each mutant first",
        level_note="trusted: Lean kernel, the specification transcription S, flat state/block exchange formats, signature oracle (real BLS, own "
                   "domain/committee code: this is what exposes a signature accepted under a wrong domain, fork version, chain or key), block mutator; "
                   "the tie M = Go is by correspondence, not by proof; M_sound assumes a pre-state inside the budgeted invariant (P0DInv / AltInv, "
                   "see C01) and blocks of the SSZ block type; M_sound_partial (premise OpSteps, arbitrary invariant) is kept",
        technique="Lean 4 proof (soundness lemmas, domain separation, totality) + Go/Lean differential correspondence on block mutants",
        design_ref="DESIGN.md 5/C03", engine="lean"),
)
