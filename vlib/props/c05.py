"""C05 — hash-tree-roots agree across struct form, tree-view form and the SSZ spec."""
from .common import TB_COMMON
from .c04 import TB_SSZ, facts_coverage

PROPS = {"C05": dict(
    custom=facts_coverage,
    module="Proofs.Properties.C05",
    theorems=["Zrnt.Proofs.C05.merkleize_eq_spec", "Zrnt.Proofs.C05.merkleize_pad_zero",
              "Zrnt.Proofs.C05.mixInLength_inj", "Zrnt.Proofs.C05.htr_determined_by_bytes",
              "Zrnt.Proofs.C05.htr_eq_spec", "Zrnt.Proofs.C05.htr_eq_spec_of_decode",
              "Zrnt.Proofs.C05.setMany_valid", "Zrnt.Proofs.C05.tree_root_after_sets",
              "Zrnt.Proofs.C05.tree_set_leaves", "Zrnt.Proofs.C05.htr_struct_and_view_agree_with_schema",
              "Zrnt.Proofs.C05.seedRandao_eq", "Zrnt.Proofs.C05.fillZeroes_eq", "Zrnt.Proofs.C05.rotation_eq", "Zrnt.Proofs.C05.handwritten_htr_sound",
              "Zrnt.Proofs.C05.bitlist_htr_bytes", "Zrnt.Proofs.C05.bitvector_htr_bytes", "Zrnt.Proofs.C05.bytelist_htr_bytes",
              "Zrnt.Proofs.C05.uint64list_htr_chunks", "Zrnt.Proofs.C05.uint64vector_htr_chunks",
              "Zrnt.Proofs.C05.no_opaque_root_bodies", "Zrnt.Proofs.C05.checkType_root_struct", "Zrnt.Proofs.C05.checkType_root_list",
              "Zrnt.Proofs.C05.checkType_root_vector", "Zrnt.Proofs.C05.checkType_root_bitfield", "Zrnt.Proofs.C05.checkType_root_leaf",
              "Zrnt.Proofs.C05.root_soundness_covers_all_rows"],
    # C05's view of the shared `ssz` result line: decode status and roots (struct `htr=`, `viewhtr=`, `view=err`). Lengths,
    # the byte round trip and the JSON/YAML text belong to C04 and are not compared here.
    modes=[dict(name="ssz", strip=[r" json=\S+", r" yaml=\S+", r" len=\d+", r" fixed=\d+", r" ser=\S+(?: bytes\))?",
                                   r" viewser=bad", r" viewlen=\d+", r" viewfixed=\d+"]),
           dict(name="sszstate")],
    level="proof",
    trusted_base=TB_COMMON + TB_SSZ + [
        "SHA-256 transcription lean/Zrnt/Sha256.lean (validated hash-by-hash by mode c19 and implicitly by every root compared here); theorems are parametric in the hash",
    ],
    assumptions=["ztyp's in-memory node caching and pointer sharing are runtime behaviour of a dependency: stale-cache freedom is established by the mutation-sequence correspondence, not by proof"],
    rule="struct root, view root and Lean htr at the specification schema compared on every generated value; tree-backed states compared after every mutation step",
    manifest=dict(
        level_text="Lean theorems on merkleization (level-by-level algorithm = specification's padded tree, structural lemmas) + differential run: struct HashTreeRoot = view HashTreeRoot = Lean htr at the specification schema for every type/value; mutation sequences on tree-backed states vs rebuild-from-bytes and Lean htr",
        level_note="cache staleness is covered by correspondence only (partial)",
        technique="Lean 4 proof + Go/Lean differential correspondence",
        design_ref="DESIGN.md 5/C05", engine="lean"),
)}
