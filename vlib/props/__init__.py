"""Per-property configuration of ./check. Each module cNN.py in this package defines PROPS = {"CNN": {...}}.
Common trusted-base text lives in vlib/props/common.py."""
import importlib, os, pkgutil

PROPS = {}
for _m in sorted(pkgutil.iter_modules([os.path.dirname(__file__)]), key=lambda m: m.name):
    if _m.name in ("common",):
        continue
    mod = importlib.import_module(f"{__name__}.{_m.name}")
    PROPS.update(getattr(mod, "PROPS", {}))
