"""C02 — slot, epoch and fork-upgrade processing equals the consensus spec."""
from .common import TB_COMMON

PROPS = {}


def _nontrivial(op, g):
    # a case counts when the real code executed it on a state (accepted or rejected), not for malformed lines
    return not g.startswith("bad-op")


PROPS["C02"] = dict(
    module="Proofs.Properties.C02",
    extra_modules=["Proofs.Properties.StageOrder", "Proofs.Properties.RegenPreds"],   # validator predicates regenerated from the Go source = the specification's (go2lean, tie R-fun)
    theorems=[
        "Zrnt.Proofs.StageOrder.epoch_stages_are_the_specs", "Zrnt.Proofs.StageOrder.stages_are_the_specs",
        "Zrnt.Proofs.RegenPreds.isActive_eq", "Zrnt.Proofs.RegenPreds.isEligibleForActivationQueue_eq", "Zrnt.Proofs.RegenPreds.isEligibleForActivation_eq",
        "Zrnt.Proofs.C02.effectiveBalance_step_eq",
        "Zrnt.Proofs.C02.effectiveBalance_eq",
        "Zrnt.Proofs.C02.slashings_loop_eq",
        "Zrnt.Proofs.C02.slashings_eq",
        "Zrnt.Proofs.C02.totalActiveStake_eq",
        "Zrnt.Proofs.C02.slashing_multiplier_per_fork",
        "Zrnt.Proofs.C02.justification_eq",
        "Zrnt.Proofs.C02.registry_batched_eq_sequential",
        "Zrnt.Proofs.C02.registry_first_loop_eq",
        "Zrnt.Proofs.C02.registry_scan_unfixed_witness",
        "Zrnt.Proofs.C02.activation_prefix_eq",
        "Zrnt.Proofs.C02.activations_eq",
        "Zrnt.Proofs.C02.registry_updates_eq",
        "Zrnt.Proofs.C02.deneb_activation_limit_eq",
        "Zrnt.Proofs.C02.flat_snapshot_sound",
        "Zrnt.Proofs.C02.flagDeltas_altair_eq",
        "Zrnt.Proofs.C02.inactivityPenalty_eq",
        "Zrnt.Proofs.C02.inactivity_eq",
        "Zrnt.Proofs.C02.rewards_altair_eq",
        "Zrnt.Proofs.C02.currentTargetStake_eq",
        "Zrnt.Proofs.C02.resets_eq",
        "Zrnt.Proofs.C02.historical_eq",
        "Zrnt.Proofs.C02.participation_rotation_eq",
        "Zrnt.Proofs.C02.syncCommittee_rotation_eq",
        "Zrnt.Proofs.C02.WF_preserved_epoch",
        "Zrnt.Proofs.C02.flat_snapshot_sound_slashings",
        "Zrnt.Proofs.C02.slashings_snapshot_eq",
        "Zrnt.Proofs.C02.rewards_phase0_eq",
        "Zrnt.Proofs.C02.processEpoch_eq",
        "Zrnt.Proofs.C02.processSlots_eq_partial",
        "Zrnt.Proofs.C02.processSlot_eq",
        "Zrnt.Proofs.C02.upgrade_altair_eq",
        "Zrnt.Proofs.C02.translate_participation_eq",
        "Zrnt.Proofs.C02.upgrade_bellatrix_eq",
        "Zrnt.Proofs.C02.upgrade_capella_eq",
        "Zrnt.Proofs.C02.upgrade_deneb_eq",
        "Zrnt.Proofs.C02.upgradeMaybe_eq",
        "Zrnt.Proofs.C02.processSlotsStep_eq",
        "Zrnt.Proofs.C02.EpochWF_of_Q",
        "Zrnt.Proofs.C02.Q_genesis_like",
        "Zrnt.Proofs.C02.processSlots_eq",
        "Zrnt.Proofs.C02.oracle_links",
        "Zrnt.Proofs.C02.attestationDeltas_phase0_eq",
        "Zrnt.Proofs.C02.targetStakes_phase0_eq",
        "Zrnt.Proofs.C02.effectiveBalance_snapshot_eq",
        "Zrnt.Proofs.C02.committee_eq_C07",
        "Zrnt.Proofs.C02.committee_live_eq",
        "Zrnt.Proofs.C02.attesterData_phase0_live_eq",
        "Zrnt.Proofs.C02.rewards_phase0_live_eq",
        "Zrnt.Proofs.C02.processEpoch_live_eq",
        "Zrnt.Proofs.C02.upgrade_altair_live_eq",
        "Zrnt.Proofs.C02.oracle_links_composed",
        "Zrnt.Proofs.C02.processEpoch_oracle_eq",
        "Zrnt.Proofs.C02.processSlots_oracle_eq",
        "Zrnt.Proofs.C02.Q_genesis",
        "Zrnt.Proofs.C02.processSlots_from_genesis_eq",
    ],
    modes=[dict(name="c02", nontrivial=_nontrivial)],
    level="proof",
    rule="op lines = (sub-transition | ProcessSlots span | upgrade) x synthetic pre-state x configuration, run on the real Go code "
         "and on the Lean specification S (and code-shaped model M where they differ); a case is non-trivial when the Go side "
         "executed it on a decodable state; distinct = distinct op lines",
    trusted_base=TB_COMMON + [
        "the specification layer S (lean/Zrnt/Beacon/Spec/*.lean), written from the published consensus specs phase0..deneb; "
        "it is the oracle and cannot be compared with the pyspec or its vectors here (neither is in the sandbox)",
        "the flat state exchange format: Go dumper/loader go/internal/flat (round-trip tested against hash-tree-roots on all five forks) "
        "and the Lean parser/printer lean/Zrnt/Beacon/State.lean (echo ops on every run)",
        "SHA-256 transcription lean/Zrnt/Sha256.lean (seeds, shuffling, header and batch roots); any error shows as a mismatch",
        "harness generator go/internal/beaconepoch: what it does not generate the correspondence does not see (input distribution is in the evidence)",
    ],
    assumptions=[
        "hash_tree_root(state) at the start of every processed slot is supplied by the Go side (`sroots`), computed with the real library on the "
        "state the real code has at that point: SSZ merkleization of the state is property C05, not re-derived here "
        "(hash_tree_root of the latest block header and of the block/state-roots vectors IS computed on the Lean side)",
        "eth_aggregate_pubkeys of a sync committee is supplied by the Go side (`aggs`, keyed by the SHA-256 of the pubkey list), computed with the "
        "real BLS library from the pubkeys alone; BLS is not modelled",
        "uint64 overflow inside the specification (pyspec raises) is outside the property: such states are unreachable, the Go code wraps silently; "
        "the model answers `any`",
        "a Go panic on a (malformed) state is counted as a rejection (`err`); panic-freedom on invalid input is C03",
        "theorems are on the Nat level: M models the control flow of the Go code without uint64 wrap-around",
        "the theorems M = S are stated on the pure forms of S (lean/Zrnt/Beacon/Spec/Pure.lean, EpochPure.lean, SlotsPure.lean); oracle_links and "
        "oracle_links_composed PROVE that the monadic S used as oracle returns exactly these whenever it accepts (every stage, process_epoch, "
        "upgrade_maybe, process_slots), so processEpoch_oracle_eq / processSlots_oracle_eq speak about the executable oracle; the run-time "
        "self-comparison inside the monadic S (err-oracle) stays as a second check",
        "committees: M resolves pending attestations through C07's model of the epochs context (Committees.newEpochsContext / "
        "Ctx.getBeaconCommittee fed the flat state), proved equal to get_beacon_committee for attestations satisfying PendingOK (what "
        "process_attestation checked at inclusion: slot in an epoch the context covers, index below the committee count, one bit per member, "
        "head root still in the state) under LiveHyps (CfgOK, SHUFFLE_ROUND_COUNT <= 255, <= 2^40 validators); that the incrementally "
        "maintained context of a running chain is the one NewEpochsContext builds from the state is C08 (chain_ctx_invariant)",
        "M takes epc.PreviousEpoch/CurrentEpoch/NextEpoch.ActiveIndices and epc.TotalActiveStake as the active sets / total of the start-of-epoch "
        "registry (EpochsContext correctness is C08); with MAX_SEED_LOOKAHEAD=0 the stale next-epoch actives make the sync committee differ from the "
        "spec's (known finding)",
        "fork schedules where electra is reached are out of scope (S has no electra); ELECTRA_FORK_EPOCH is kept at FAR_FUTURE",
    ],
    manifest=dict(
        level_text="Lean theorems M = S for all inputs (no size bound), from every epoch sub-transition up to the whole of ProcessSlots: "
                   "processSlots_eq (common.ProcessSlots = process_slots with the fork upgrades over any number of slots, for every start state "
                   "satisfying the invariant Q, which process_slot, the whole process_epoch, the slot increment and each upgrade are PROVED to "
                   "re-establish; Q_genesis: EVERY state C13's initialize_beacon_state_from_eth1 returns satisfies it, for all deposit lists), "
                   "assembled from processEpoch_eq (all five forks), "
                   "processSlot_eq, upgrade_{altair,bellatrix,capella,deneb}_eq (incl. TranslateParticipation's bit masks = translate_participation), "
                   "upgradeMaybe_eq (the if-chain = upgrade at the fork epoch's first slot in fork order, any schedule), rewards_phase0_eq, "
                   "flagDeltas_altair_eq, inactivity_eq, rewards_altair_eq, currentTargetStake_eq, registry_updates_eq, justification_eq, "
                   "slashings_snapshot_eq, effectiveBalance_snapshot_eq, resets/historical/participation/syncCommittee_rotation_eq; "
                   "committee_eq_C07 / committee_live_eq: get_beacon_committee = C07's Spec.get_beacon_committee = what the live epochs context "
                   "returns (epc.GetBeaconCommittee), so rewards_phase0_live_eq, processEpoch_live_eq, upgrade_altair_live_eq hold with the "
                   "attestations as the code resolves them (no free resolved-indices input); oracle_links + oracle_links_composed: "
                   "the executable monadic spec functions return the pure results, every stage and the compositions process_epoch, "
                   "upgrade_maybe, process_slots (processEpoch_oracle_eq, processSlots_oracle_eq); plus a differential run Go = M = S per line for every "
                   "sub-transition, ProcessSlots spans incl. several fork boundaries and the upgrades, on synthetic states of all five forks under "
                   "several parameter sets and on states reached by valid chains with blocks",
        level_note="trusted: Lean kernel, the specification transcription S, the flat exchange format, harness generator; state roots and BLS "
                   "aggregates are inputs from the Go side. Still resting on the correspondence only: that pending attestations of reachable states "
                   "satisfy PendingOK (established by process_attestation, property C01/C03, not threaded through the slot-loop invariant Q here), "
                   "that the live context equals NewEpochsContext(state) (C08), the uint64 level (theorems are on Nat), and state roots / BLS "
                   "aggregates (inputs)",
        technique="Lean 4 refinement proofs (code-shaped model = spec) + Go/Lean differential correspondence on flat states",
        design_ref="DESIGN.md 5/C02", engine="lean"),
)
