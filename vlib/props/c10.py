"""C10 — justification/finalization updates terminate, prune exactly, and keep the head."""
from .c09 import FC_TB, FC_ASSUME, _nontrivial

PROPS = {"C10": dict(
    module="Proofs.Properties.C10",
    theorems=[
        "Zrnt.Proofs.C10.updateJustified_returns_partial",
        "Zrnt.Proofs.C10.Old.updateJustified_returns_false",
        "Zrnt.Proofs.C10.older_equal_noop",
        "Zrnt.Proofs.C10.outside_subtree_refused_finalized",
        "Zrnt.Proofs.C10.outside_subtree_refused_justified",
        "Zrnt.Proofs.C10.Old.prune_exact_false",
        "Zrnt.Proofs.C10.Old.prune_without_sink_false",
        "Zrnt.Proofs.C10.Old.post_prune_ops_total_false",
        "Zrnt.Proofs.C10.no_panic_quiet",
        "Zrnt.Proofs.C10.updates_refine_partial",
    ],
    modes=[dict(name="fc10", stateful=True, max_shrinks=2,
                nontrivial=_nontrivial(("justify", "nodes", "head", "just", "fin", "pinq", "block", "att", "slot")))],
    level="proof",
    trusted_base=FC_TB,
    assumptions=FC_ASSUME,
    rule="operation sequences with UpdateJustified of every kind (ahead/equal/behind/unknown/conflicting, block or gap anchor, nil/recording/failing sink) under a 2 s watchdog; counted: justify and the post-update lines the Go side executed",
    manifest=dict(
        level_text="Lean theorems about the code-shaped model (UpdateJustified never blocks, older/equal checkpoints are a no-op, structure invariant while nothing has been pruned; negations of the prune theorems on concrete witnesses) plus differential runs against the exact-prune specification",
        level_note="OnPrune is defective on the unchanged tree (known finding): prune_exact and the post-prune theorems are false of the code, their negations are proved on witnesses",
        technique="Lean 4 proof over hand model + Go/Lean/oracle differential correspondence",
        design_ref="DESIGN.md 5/C10", engine="lean"),
)}
