"""C10 — justification/finalization updates terminate, prune exactly, and keep the head."""
from .c09 import FC_TB, FC_ASSUME, _nontrivial

PROPS = {"C10": dict(
    module="Proofs.Properties.C10",
    theorems=[
        "Zrnt.Proofs.C10.updateJustified_returns",
        "Zrnt.Proofs.C10.updateJustified_returns_all",
        "Zrnt.Proofs.C10.Old.updateJustified_returns_false",
        "Zrnt.Proofs.C10.older_equal_noop",
        "Zrnt.Proofs.C10.outside_subtree_refused_finalized",
        "Zrnt.Proofs.C10.outside_subtree_refused_justified",
        "Zrnt.Proofs.C10.prune_exact",
        "Zrnt.Proofs.C10.sink_once_canonical",
        "Zrnt.Proofs.C10.sink_failure_safe",
        "Zrnt.Proofs.C10.head_in_finalized_subtree",
        "Zrnt.Proofs.C10.post_prune_ops_total",
        "Zrnt.Proofs.C10.updates_refine",
        "Zrnt.Proofs.C10.Old.prune_exact_false",
        "Zrnt.Proofs.C10.Old.prune_without_sink_false",
        "Zrnt.Proofs.C10.Old.post_prune_ops_total_false",
        "Zrnt.Proofs.C10.no_panic",
    ],
    modes=[dict(name="fc10", stateful=True, max_shrinks=2,
                nontrivial=_nontrivial(("justify", "nodes", "head", "just", "fin", "pinq", "block", "att", "slot")))],
    level="proof",
    trusted_base=FC_TB,
    assumptions=FC_ASSUME,
    rule="operation sequences with UpdateJustified of every kind (ahead/equal/behind/unknown/conflicting, block or gap anchor, nil/recording/failing sink) under a 2 s watchdog; counted: justify and the post-update lines the Go side executed",
    manifest=dict(
        level_text="Lean theorems about the code-shaped model (UpdateJustified returns on every state satisfying the invariants, older/equal checkpoints are a no-op, OnPrune keeps exactly the finalized subtree, reports every dropped node once with the canonical flag, is atomic under sink failure; every answer of every admissible history, finalizations included, equals the specification's; no call panics or blocks) plus differential runs against the exact-prune specification",
        level_note="OnPrune was rewritten in /repo (commit 38d1471); the theorems are about the model of the new code, the negations on witnesses (Old.*) about the model of the old code in Zrnt/ForkChoice/Old.lean; no_panic and updateJustified_returns_all hold for ALL histories (malformed insertions combined with pruning included, weak structure invariant WF0); the refinement theorems for admissible histories",
        technique="Lean 4 proof over hand model + Go/Lean/oracle differential correspondence",
        design_ref="DESIGN.md 5/C10", engine="lean"),
)}
