"""C20 — operation pools keep what they are given and never panic."""
from .common import TB_COMMON

PROPS = {}

THEOREMS = [
    "pool_no_panic",
    "pools_refine_spec",
    "reachable_related",
    "indexes_consistent",
    "prune_exact",
    "prune_saturates",
    "search_complete",
    "search_complete_unfiltered",
    "first_aggregate_searchable",
    "accepted_attester_slashing_listed",
    "accepted_proposer_slashing_listed",
    "accepted_exit_listed",
    "search_sound",
    "dup_absorbed",
    "double_vote_reported",
    "double_vote_aggregate_reported",
    "double_vote_aggregate_reported'",
    "window_rotation",
    "window_slots",
    "covers_spec",
    "covers_spec_needs_wellFormed",
    "singleParticipant_spec",
    "onesCount_spec",
    "bitIndex_spec",
    "getBit_spec",
    "select_spec",
    "select_rawlist_spec_mismatch",
    "old_first_aggregate_panics",
    "old_search_after_single_panics",
    "old_short_bitfield_panics",
    "old_duplicate_aggregate_stored",
    "fixed_duplicate_aggregate_absorbed",
    "old_smsg_slot0_panics",
    "old_select_missing_member_panics",
    "old_not_pool_no_panic",
]

PROPS["C20"] = dict(
    module="Proofs.Properties.C20",
    theorems=["Zrnt.Proofs.C20." + t for t in THEOREMS],
    modes=[dict(name="c20", stateful=True, max_shrinks=4)],
    level="proof",
    rule="generated operation sequences (add/search/prune/reset over the five pools, AttestationBits calls) run on the real zrnt pools "
         "and on the Lean map model + list specification; a case is non-trivial when the Go side executed it (not bad-op); "
         "distinct = distinct (position, op line)",
    trusted_base=TB_COMMON + [
        "hand model lean/Zrnt/Pool/{GoMap,Bits,Model}.lean of eth2/pool/*.go and phase0.AttestationBits (+ ztyp bitfields helpers), tied on "
        "every run by the differential mode c20 (return value of every Add*, sorted contents of every Search/All, absence of panic)",
        "list-of-accepted-items specification lean/Zrnt/Pool/Spec.lean",
        "Go harness go/internal/pool (generator, rendering; attestation data identified by (slot, index, target epoch, tag))",
        "verif hook /repo/eth2/pool/verif_export.go (build tag verif, add-only): read-only snapshot of the six SyncCommitteePool buffers",
        "hash-tree-root of AttestationData / AttesterSlashing is injective (the model uses the data itself as map key)",
    ],
    assumptions=[
        "single-threaded use (locking of the pools belongs to C17)",
        "the model has no preset parameter: what the pools do must not depend on the constants of common.Spec. The correspondence checks this on "
        "every run: op `spec` recreates the real pools with SYNC_COMMITTEE_SIZE (subcommittees of 0..128 bits, mostly not a multiple of 8), "
        "MAX_VALIDATORS_PER_COMMITTEE, SLOTS_PER_EPOCH, MAX_ATTESTATIONS, MAX_*_SLASHINGS, MAX_VOLUNTARY_EXITS, MAX_BLS_TO_EXECUTION_CHANGES taking "
        "several values each, and stored contributions are compared bit for bit (op `sdump`)",
        "signatures are opaque to the pools (they are not verified there); committees are supplied by the caller",
        "the contents of the SyncCommitteePool buffers cannot be read through the exported API (PackContribution/PackAggregate are stubs): "
        "the correspondence reads them through the add-only `verif` hook eth2/pool/verif_export.go (op `sdump`); MinAggregates.Extra is never read by "
        "any exported function and is covered by the model theorems only",
    ],
    manifest=dict(
        level_text="Lean theorems over ALL operation sequences on the five pools (no panic, map consistency, refinement of the list-of-accepted-items "
                   "specification, search soundness/completeness, exact pruning, sync window rotation) and over all byte strings for the "
                   "AttestationBits functions; the map model is tied to the Go code by a differential run on every check",
        level_note="trusted: Lean kernel, hand model (validated differentially on every run), list specification, injectivity of hash-tree-root",
        technique="Lean 4 invariant/refinement proofs (Go maps as association lists vs. lists of accepted items) + Go/Lean differential correspondence",
        design_ref="DESIGN.md 5/C20", engine="lean"),
)
