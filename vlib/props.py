"""Per-property configuration of ./check. One entry per claimed property."""

TB_COMMON = [
    "Lean 4.33.0 kernel (and leanchecker on the thorough tier); axioms limited to propext, Classical.choice, Quot.sound (audited by #print axioms on every run)",
    "the statements in lean/Proofs/Properties/<id>.lean say what properties.jsonl says",
    "Lean compiler for the compiled model driver zmodel (correspondence runs only, not the theorems)",
]

PROPS = {}

PROPS["C19"] = dict(
    module="Proofs.Properties.C19",
    theorems=[
        "Zrnt.Proofs.C19.isqrt_floor",
        "Zrnt.Proofs.C19.maxU64_spec",
        "Zrnt.Proofs.C19.minU64_spec",
        "Zrnt.Proofs.C19.slotToEpoch_spec",
        "Zrnt.Proofs.C19.timeToSlot_spec",
        "Zrnt.Proofs.C19.timeAtSlot_spec",
    ],
    modes=[dict(name="c19")],
    level="proof",
    trusted_base=TB_COMMON + [
        "go2lean translator (go/cmd/go2lean, tiny uint64 subset; regenerated every run; also validated differentially by mode c19)",
        "hand model of VerifyMerkleBranch (lean/Zrnt/Util/Merkle.lean) tied by correspondence with real SHA-256 on both sides",
        "Nat-level specifications in lean/Zrnt/Util/MathSpec.lean",
    ],
    assumptions=["SECONDS_PER_SLOT, SLOTS_PER_EPOCH, CHURN_LIMIT_QUOTIENT, TARGET_COMMITTEE_SIZE are non-zero (documented domain)",
                 "VerifyMerkleBranch: depth <= len(branch) is the documented domain; outside it both Go and the model panic"],
)
