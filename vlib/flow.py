"""Generic check flow for one property (see DESIGN.md 2.3 / 2.4)."""
import json, os, re, shutil, sys, time
from . import core


def log_factory(prop):
    def log(msg):
        sys.stderr.write(f"[{prop}] {msg}\n"); sys.stderr.flush()
    return log


def read_lines(p):
    with open(p, errors="replace") as f:
        return [l.rstrip("\n") for l in f]


def sequences(ops):
    """Split op lines of a stateful mode into (start, end) ranges delimited by `reset` lines."""
    out, start = [], 0
    for i, l in enumerate(ops):
        if l.strip() == "reset":
            if i > start:
                out.append((start, i))
            start = i + 1
    if start < len(ops):
        out.append((start, len(ops)))
    return out


HBIN = [None]   # harness binary used by this check run (set in check_property)
STRIP = {}      # mode -> compiled regexes removed from result lines before comparison (the property's own view of a
                # result line shared with another property: what this property does not speak about is not compared)


def run_pair(mode, ops_lines, work, tag, go_env=None, timeout=3600):
    """Run Go and the model on the given op lines; returns (bad, go_lines, lean_lines, crash_note)."""
    opsp = os.path.join(work, f"{tag}.ops")
    with open(opsp, "w") as f:
        f.write("\n".join(ops_lines) + ("\n" if ops_lines else ""))
    gop, lp = os.path.join(work, f"{tag}.go"), os.path.join(work, f"{tag}.lean")
    rc, out = core.run_go(mode, opsp, gop, env=go_env, timeout=timeout, binary=HBIN[0])
    note = None
    if rc != 0:
        note = f"harness exec exited {rc}: {out[-1500:]}"
    rc2, err = core.run_lean(mode, opsp, lp, timeout=timeout)
    if rc2 != 0:
        note = (note or "") + f" zmodel exited {rc2}: {err[-1500:]}"
    go = read_lines(gop) if os.path.exists(gop) else []
    lean = read_lines(lp) if os.path.exists(lp) else []
    for rx in STRIP.get(mode, []):
        go = [rx.sub("", x) for x in go]
        lean = [rx.sub("", x) for x in lean]
    return core.compare(ops_lines, go, lean), go, lean, note


def shrink(mode, seq, vs_spec, work, log, budget=120):
    """ddmin on a failing op sequence; predicate: some line still disagrees (against the same oracle)."""
    def fails(cand):
        bad, _, _, note = run_pair(mode, cand, work, "shrink")
        if note:
            return any(True for _ in bad)
        return any((b["vs_spec"] if vs_spec else b["vs_model"]) for b in bad)
    cur = list(seq)
    n, runs = 2, 0
    while len(cur) >= 2 and runs < budget:
        chunk = max(1, len(cur) // n)
        reduced = False
        for i in range(0, len(cur), chunk):
            cand = cur[:i] + cur[i + chunk:]
            runs += 1
            if cand and fails(cand):
                cur, n, reduced = cand, max(n - 1, 2), True
                break
            if runs >= budget:
                break
        if not reduced:
            if chunk == 1:
                break
            n = min(len(cur), n * 2)
    return cur


def check_property(prop, cfg, tier, seed, replay=None):
    t0 = time.time()
    log = log_factory(prop)
    # one work directory per invocation: concurrent runs of the same check must not clobber each other
    work = os.path.join(core.VERIF, "work", f"{prop}.{os.getpid()}")
    shutil.rmtree(work, ignore_errors=True)
    os.makedirs(work, exist_ok=True)
    import atexit
    atexit.register(lambda: shutil.rmtree(work, ignore_errors=True))
    known = core.load_known()
    STRIP.clear()
    for m in cfg.get("modes", []):
        if m.get("strip"):
            STRIP[m["name"]] = [re.compile(x) for x in m["strip"]]
    violations = []      # dicts: descriptor, replay payload, no_input (bool)
    known_hits = {}
    obligations, discharged = [], []
    broken = []          # names of obligations / ties that no longer check

    if replay:
        return do_replay(prop, cfg, replay, work, log)

    # 1-3: regenerate, build, audit (under the shared build lock)
    with core.Lock():
        regen_res = core.regen(log)
        wanted = set(cfg.get("regen", []))
        mods = ([cfg["module"]] if cfg.get("module") else []) + list(cfg.get("extra_modules", []))
        if mods:
            wanted |= core.regen_items_in_cone(core.import_cone(mods))
        for name, ok, out in regen_res:
            # charged only for the regenerated items this property depends on (exact name, or prefix ending in ':')
            if not any(name == w or (w.endswith(":") and name.startswith(w)) or name == w.split(":")[0] + ":build" for w in wanted):
                continue
            obligations.append(f"regen:{name}")
            if ok: discharged.append(f"regen:{name}")
            else: broken.append(dict(what=f"regen:{name}", detail=out[-1500:]))
        targets = mods
        # the property's own module and the driver are separate obligations: a proof module that broke must
        # not hide the driver, and a driver that does not build is not a broken proof of this property
        lean_ok = True
        if targets:
            lean_ok, out = core.lake_build(targets, log)
            if not lean_ok:
                broken.append(dict(what="lake build " + " ".join(targets), detail=core.failed_decls(out)))
        ok2, out2 = core.lake_build(["zmodel"], log)
        if not ok2:
            broken.append(dict(what="lake build zmodel (model driver)", detail=core.failed_decls(out2)))
        axioms = {}
        theorems = cfg.get("theorems", [])
        if theorems:
            axioms = core.audit(theorems, mods, log) if lean_ok else {t: None for t in theorems}
        for t in theorems:
            obligations.append(t)
            ax = axioms.get(t)
            if ax is None:
                if lean_ok:
                    broken.append(dict(what=f"theorem {t}", detail="not found by #print axioms"))
            elif set(ax) - core.ALLOWED_AXIOMS:
                broken.append(dict(what=f"theorem {t}", detail=f"depends on disallowed axioms {sorted(set(ax) - core.ALLOWED_AXIOMS)}"))
            else:
                discharged.append(t)
        # the property module's import cone and the compiled driver's import cone (not other properties' work in progress)
        hits = core.grep_forbidden(core.import_cone(mods + ["ZModel"]))
        obligations.append("source-grep:no sorry/admit/axiom/native_decide/bv_decide/implemented_by/unsafe")
        if hits:
            broken.append(dict(what="source grep", detail=hits[:20]))
        else:
            discharged.append(obligations[-1])
        if tier == "thorough" and lean_ok and mods:
            rc, out = core.sh(["lake", "env", "leanchecker"] + mods, cwd=core.LEAN, timeout=3600)
            obligations.append("leanchecker " + " ".join(mods))
            if rc == 0: discharged.append(obligations[-1])
            else: broken.append(dict(what="leanchecker", detail=out[-1500:]))
        hok, hout, hbin = core.build_harness(log, cfg.get("components"), prop)
        HBIN[0] = hbin
        if not hok:
            broken.append(dict(what="harness build (go build -tags verif against /repo)", detail=hout[-1500:]))

    # 4: correspondence
    evaluations, distinct, samples, hist = 0, set(), [], {}
    modes_run = []
    if hok and os.path.exists(core.ZMODEL):
        for m in cfg.get("modes", []):
            mode, stateful = m["name"], m.get("stateful", False)
            opsp, statp = os.path.join(work, f"{mode}.ops"), os.path.join(work, f"{mode}.stats.json")
            corpus = os.path.join(core.VERIF, "corpus", f"{mode}.ops")
            rc, out = core.sh([HBIN[0], "gen", mode, "-seed", str(seed), "-tier", tier, "-out", opsp, "-stats", statp],
                              timeout=3600)
            if rc != 0:
                broken.append(dict(what=f"harness gen {mode}", detail=out[-1500:])); continue
            ops = read_lines(opsp)
            if os.path.exists(corpus):
                pre = read_lines(corpus)
                ops = pre + (["reset"] if stateful else []) + ops
            bad, go, lean, note = run_pair(mode, ops, work, mode, go_env=m.get("env"))
            modes_run.append(mode)
            if note:
                broken.append(dict(what=f"correspondence run {mode}", detail=note))
            if os.path.exists(statp):
                hist[mode] = json.load(open(statp)).get("hist", {})
            nontriv = m.get("nontrivial", lambda op, g: not g.startswith("bad-op"))
            for i, op in enumerate(ops):
                if op.strip() == "reset": continue
                evaluations += 1
                g = go[i] if i < len(go) else ""
                if nontriv(op, g):
                    distinct.add(op if not stateful else (i, op))
            if stateful:
                seqs = sequences(ops)
                samples.append(dict(mode=mode, sequence=ops[seqs[0][0]:min(seqs[0][1], seqs[0][0] + 12)] if seqs else []))
            else:
                step = max(1, len(ops) // 5)
                samples.append(dict(mode=mode, cases=[dict(op=ops[i], go=go[i] if i < len(go) else None,
                                                           model=lean[i] if i < len(lean) else None)
                                                      for i in range(0, len(ops), step)][:6]))
            # classify disagreements
            # `tie_lines`: op lines written by the generator when it could not go on exploring on the code under test
            # (e.g. `genfail`: the chain library's valid block was refused). A disagreement on such a line is not an
            # input on which THIS property fails; it is a broken tie, reported as no-failing-input-found.
            tie_rx = [re.compile(x) for x in m.get("tie_lines", [])]
            tie_res_rx = [re.compile(x) for x in m.get("tie_results", [])]   # same, recognised by the Go side's answer
            def is_tie(b):
                return any(rx.search(b["op"]) for rx in tie_rx) or any(rx.search(b["go"]) for rx in tie_res_rx)
            if stateful:
                firsts, seen = [], set()
                seqs = sequences(ops)
                for b in bad:
                    for si, (a, e) in enumerate(seqs):
                        if a <= b["line"] < e and si not in seen:
                            seen.add(si); firsts.append((si, a, b))
                for si, a, b in firsts[:m.get("max_shrinks", 6)]:
                    seq = ops[a:b["line"] + 1]
                    small = shrink(mode, seq, b["vs_spec"] or b["spec"] is None, work, log)
                    bad2, go2, lean2, _ = run_pair(mode, small, work, "min")
                    last = bad2[0] if bad2 else b
                    desc = f"{mode}: " + " ; ".join(small) + f" => go={last['go']} model={last['model']}" + (f" spec={last['spec']}" if last["spec"] is not None else "")
                    violations.append(dict(descriptor=desc, mode=mode, ops=small, first_bad=last,
                                           no_input=is_tie(last) or not (last["vs_spec"] or last["spec"] is None)))
                for si, a, b in firsts[m.get("max_shrinks", 6):]:
                    desc = f"{mode}: (unshrunk) " + " ; ".join(ops[a:b['line'] + 1][-40:]) + f" => go={b['go']} model={b['model']}"
                    violations.append(dict(descriptor=desc, mode=mode, ops=ops[a:b["line"] + 1], first_bad=b,
                                           no_input=is_tie(b) or not (b["vs_spec"] or b["spec"] is None)))
            else:
                for b in bad:
                    desc = f"{mode}: {b['op']} => go={b['go']} model={b['model']}" + (f" spec={b['spec']}" if b["spec"] is not None else "")
                    # the model is the oracle when no separate spec column is printed
                    no_input = is_tie(b) or not (b["vs_spec"] or b["spec"] is None)
                    violations.append(dict(descriptor=desc, mode=mode, ops=[b["op"]], first_bad=b, no_input=no_input))

    # property-specific extra step (may add violations / coverage)
    extra_cov = {}
    if cfg.get("custom"):
        extra_cov = cfg["custom"](dict(prop=prop, tier=tier, seed=seed, work=work, log=log,
                                       violations=violations, broken=broken, obligations=obligations,
                                       discharged=discharged)) or {}

    # 5: outcome
    out_lines, nviol = [], 0
    reported = set()
    # concrete failing inputs first: the cap below must not hide them behind broken-tie lines
    violations.sort(key=lambda v: 1 if v.get("no_input") else 0)
    for v in violations:
        k = core.match_known(prop, v["descriptor"], known)
        if k:
            known_hits.setdefault(k["pattern"], k); continue
        key = v["descriptor"][:300]
        if key in reported: continue
        reported.add(key)
        if len(reported) > 25: continue
        payload = dict(property=prop, kind="failing-input" if not v["no_input"] else "tie-broken", mode=v["mode"],
                       ops=v["ops"], observed=v["first_bad"], descriptor=v["descriptor"], seed=seed, tier=tier,
                       replay_cmd=f"./check {prop} --replay <this file>")
        path = core.write_replay(prop, payload)
        out_lines.append(f"VIOLATION property={prop} replay={path}" + (" no-failing-input-found" if v["no_input"] else ""))
        nviol += 1
    if broken and nviol == 0:
        # a proof obligation or a tie no longer checks and the search found no concrete failing input
        payload = dict(property=prop, kind="obligation-broken", broken=broken, seed=seed, tier=tier,
                       searched=dict(modes=modes_run, evaluations=evaluations),
                       note="no input was found on which the implementation contradicts the oracle")
        path = core.write_replay(prop, payload)
        out_lines.append(f"VIOLATION property={prop} replay={path} no-failing-input-found")
        nviol += 1
    for k in known_hits.values():
        print(f"KNOWN-FINDING: property={prop} {k['what']}")
    for l in out_lines:
        print(l)

    cov = dict(obligations=len(obligations), discharged=len(discharged),
               checker_cmd=f"cd /verif/lean && lake build {cfg.get('module','')} && lake env lean <audit: #print axioms of each theorem>"
                           + (" && lake env leanchecker " + cfg.get("module", "") if tier == "thorough" else ""),
               trusted_base=cfg.get("trusted_base", []),
               theorems={t: axioms.get(t) for t in cfg.get("theorems", [])},
               undischarged=[o for o in obligations if o not in discharged],
               broken=broken,
               evaluations=evaluations, distinct_nontrivial=len(distinct),
               rule=cfg.get("rule", "generated operation lines run on the real Go code and on the Lean model; a case is non-trivial when the Go side executed it (not bad-op); distinct = distinct op lines"),
               samples=samples, input_distribution=hist, modes=modes_run,
               known_findings_hit=[k["what"] for k in known_hits.values()])
    cov.update(extra_cov)
    core.write_evidence(prop, tier, seed, cfg.get("level", "proof"), cov, cfg.get("assumptions", []), time.time() - t0, nviol)
    log(f"done in {time.time()-t0:.1f}s: obligations {len(discharged)}/{len(obligations)}, evaluations {evaluations}, violations {nviol}")
    return 1 if nviol else 0


def do_replay(prop, cfg, path, work, log):
    payload = json.load(open(path))
    if payload.get("kind") == "obligation-broken":
        print(json.dumps(payload["broken"], indent=1))
        print("replay: this file names proof obligations / ties that no longer check; re-run ./check", prop)
        return 1
    if cfg.get("replay"):   # property-specific replayer, for checks that do not fit the line protocol (see `custom`)
        return cfg["replay"](prop, payload, path, work, log)
    with core.Lock():
        core.regen(log); core.lake_build(["zmodel"], log)
        _, _, HBIN[0] = core.build_harness(log, cfg.get("components"), prop)
    bad, go, lean, note = run_pair(payload["mode"], payload["ops"], work, "replay")
    for i, op in enumerate(payload["ops"]):
        print(f"{op}\n    go:    {go[i] if i < len(go) else None}\n    model: {lean[i] if i < len(lean) else None}")
    if bad or note:
        print(f"replay: still disagrees ({len(bad)} line(s)) {note or ''}")
        print(f"VIOLATION property={prop} replay={path}")
        return 1
    print("replay: implementation and oracle agree on this input now")
    return 0
