#!/bin/sh
# Build the framework offline from files on disk: regenerate the Lean tables from /repo, build the
# Lean models, proofs and the zmodel driver, build the Go harness against /repo.
set -e
cd "$(dirname "$0")"
export GOFLAGS=-mod=mod GOPROXY=off GOSUMDB=off GOTOOLCHAIN=local
mkdir -p build

python3 - <<'PY'
import sys
sys.path.insert(0, ".")
from vlib import core
for n, ok, out in core.regen(lambda m: print(m)):
    if not ok:
        print("setup: regeneration step failed:", n); sys.exit(1)
PY
(cd lean && lake build)
(cd go && go build -tags verif -o ../build/harness ./cmd/harness)
echo "setup: done"
