#!/bin/sh
# Build the framework offline from files on disk: regenerate the Lean tables from /repo, build the
# Lean models and the zmodel driver (required), every property's proof module (each on its own: one
# that does not build is reported by that property's check, it must not take the others down), and the
# Go harness against /repo.
cd "$(dirname "$0")"
export GOFLAGS=-mod=mod GOPROXY=off GOSUMDB=off GOTOOLCHAIN=local
mkdir -p build
python3 - <<'PY'
import sys
sys.path.insert(0, ".")
from vlib import core
bad = [n for n, ok, out in core.regen(lambda m: print(m)) if not ok]
if bad:
    print("setup: WARNING: regeneration items failed (charged to the properties that depend on them):", bad)
PY
(cd lean && lake build zmodel) || { echo "setup: zmodel does not build"; exit 1; }
for f in lean/Proofs/Properties/*.lean; do
  m=$(basename "$f" .lean)
  (cd lean && lake build "Proofs.Properties.$m" >/dev/null 2>&1) && echo "setup: Proofs.Properties.$m ok" || echo "setup: WARNING: Proofs.Properties.$m does not build (its check will report it)"
done
(cd go && go build -tags verif -o ../build/harness ./cmd/harness) || echo "setup: WARNING: full harness does not build (checks fall back to per-property harnesses)"
[ -x tools/setup_extra.sh ] && tools/setup_extra.sh
echo "setup: done"
