import Zrnt.Config.Val
/-!
# `Spec.Constants` — the published preset and config constants (ORACLE, trusted base of C14)

Hand transcription, from memory of the published `ethereum/consensus-specs` files
`presets/{mainnet,minimal}/{phase0,altair,bellatrix,capella,deneb,electra}.yaml` and
`configs/{mainnet,minimal}.yaml`, at the pre-release the repository tracks (v1.5.0-beta.2/3: Electra
specified, `ELECTRA_FORK_EPOCH`/`FULU_FORK_EPOCH` still `FAR_FUTURE_EPOCH` stubs on mainnet — the later
published mainnet value 364032 for Electra post-dates this tree; `MAX_PAYLOAD_SIZE` already renamed
from `GOSSIP_MAX_SIZE`/`MAX_CHUNK_SIZE`).

Rows are `(group, KEY, value)`; the group is the file the constant is published in, named after the Go
struct it is decoded into (`Phase0Preset` = `presets/<p>/phase0.yaml`, …, `Config` = `configs/<p>.yaml`).
Hex values are lower-case without `0x` (the deposit contract address is published in EIP-55 mixed case).

Certainty: every phase0…deneb value and the Electra preset are values I am certain of. Marked `-- (?)`:
constants of unfinished feature forks (Fulu / EIP-7441 / EIP-7732 sections of the config files), which
changed between pre-releases and which I know less firmly; nothing in zrnt's transition reads them.
-/
namespace Zrnt.Config.Constants

def FAR_FUTURE_EPOCH : Nat := 18446744073709551615

/-- presets/mainnet/*.yaml + configs/mainnet.yaml -/
def mainnet : List (String × String × Val) := [
  -- presets/mainnet/phase0.yaml
  ("Phase0Preset", "MAX_COMMITTEES_PER_SLOT", .num 64),
  ("Phase0Preset", "TARGET_COMMITTEE_SIZE", .num 128),
  ("Phase0Preset", "MAX_VALIDATORS_PER_COMMITTEE", .num 2048),
  ("Phase0Preset", "SHUFFLE_ROUND_COUNT", .num 90),
  ("Phase0Preset", "HYSTERESIS_QUOTIENT", .num 4),
  ("Phase0Preset", "HYSTERESIS_DOWNWARD_MULTIPLIER", .num 1),
  ("Phase0Preset", "HYSTERESIS_UPWARD_MULTIPLIER", .num 5),
  ("Phase0Preset", "MIN_DEPOSIT_AMOUNT", .num 1000000000),
  ("Phase0Preset", "MAX_EFFECTIVE_BALANCE", .num 32000000000),
  ("Phase0Preset", "EFFECTIVE_BALANCE_INCREMENT", .num 1000000000),
  ("Phase0Preset", "MIN_ATTESTATION_INCLUSION_DELAY", .num 1),
  ("Phase0Preset", "SLOTS_PER_EPOCH", .num 32),
  ("Phase0Preset", "MIN_SEED_LOOKAHEAD", .num 1),
  ("Phase0Preset", "MAX_SEED_LOOKAHEAD", .num 4),
  ("Phase0Preset", "EPOCHS_PER_ETH1_VOTING_PERIOD", .num 64),
  ("Phase0Preset", "SLOTS_PER_HISTORICAL_ROOT", .num 8192),
  ("Phase0Preset", "MIN_EPOCHS_TO_INACTIVITY_PENALTY", .num 4),
  ("Phase0Preset", "EPOCHS_PER_HISTORICAL_VECTOR", .num 65536),
  ("Phase0Preset", "EPOCHS_PER_SLASHINGS_VECTOR", .num 8192),
  ("Phase0Preset", "HISTORICAL_ROOTS_LIMIT", .num 16777216),
  ("Phase0Preset", "VALIDATOR_REGISTRY_LIMIT", .num 1099511627776),
  ("Phase0Preset", "BASE_REWARD_FACTOR", .num 64),
  ("Phase0Preset", "WHISTLEBLOWER_REWARD_QUOTIENT", .num 512),
  ("Phase0Preset", "PROPOSER_REWARD_QUOTIENT", .num 8),
  ("Phase0Preset", "INACTIVITY_PENALTY_QUOTIENT", .num 67108864),
  ("Phase0Preset", "MIN_SLASHING_PENALTY_QUOTIENT", .num 128),
  ("Phase0Preset", "PROPORTIONAL_SLASHING_MULTIPLIER", .num 1),
  ("Phase0Preset", "MAX_PROPOSER_SLASHINGS", .num 16),
  ("Phase0Preset", "MAX_ATTESTER_SLASHINGS", .num 2),
  ("Phase0Preset", "MAX_ATTESTATIONS", .num 128),
  ("Phase0Preset", "MAX_DEPOSITS", .num 16),
  ("Phase0Preset", "MAX_VOLUNTARY_EXITS", .num 16),
  -- presets/mainnet/altair.yaml
  ("AltairPreset", "INACTIVITY_PENALTY_QUOTIENT_ALTAIR", .num 50331648),
  ("AltairPreset", "MIN_SLASHING_PENALTY_QUOTIENT_ALTAIR", .num 64),
  ("AltairPreset", "PROPORTIONAL_SLASHING_MULTIPLIER_ALTAIR", .num 2),
  ("AltairPreset", "SYNC_COMMITTEE_SIZE", .num 512),
  ("AltairPreset", "EPOCHS_PER_SYNC_COMMITTEE_PERIOD", .num 256),
  ("AltairPreset", "MIN_SYNC_COMMITTEE_PARTICIPANTS", .num 1),
  ("AltairPreset", "UPDATE_TIMEOUT", .num 8192),
  -- presets/mainnet/bellatrix.yaml
  ("BellatrixPreset", "INACTIVITY_PENALTY_QUOTIENT_BELLATRIX", .num 16777216),
  ("BellatrixPreset", "MIN_SLASHING_PENALTY_QUOTIENT_BELLATRIX", .num 32),
  ("BellatrixPreset", "PROPORTIONAL_SLASHING_MULTIPLIER_BELLATRIX", .num 3),
  ("BellatrixPreset", "MAX_BYTES_PER_TRANSACTION", .num 1073741824),
  ("BellatrixPreset", "MAX_TRANSACTIONS_PER_PAYLOAD", .num 1048576),
  ("BellatrixPreset", "BYTES_PER_LOGS_BLOOM", .num 256),
  ("BellatrixPreset", "MAX_EXTRA_DATA_BYTES", .num 32),
  -- presets/mainnet/capella.yaml
  ("CapellaPreset", "MAX_BLS_TO_EXECUTION_CHANGES", .num 16),
  ("CapellaPreset", "MAX_WITHDRAWALS_PER_PAYLOAD", .num 16),
  ("CapellaPreset", "MAX_VALIDATORS_PER_WITHDRAWALS_SWEEP", .num 16384),
  -- presets/mainnet/deneb.yaml
  ("DenebPreset", "FIELD_ELEMENTS_PER_BLOB", .num 4096),
  ("DenebPreset", "MAX_BLOB_COMMITMENTS_PER_BLOCK", .num 4096),
  ("DenebPreset", "KZG_COMMITMENT_INCLUSION_PROOF_DEPTH", .num 17),
  -- presets/mainnet/electra.yaml
  ("ElectraPreset", "MIN_ACTIVATION_BALANCE", .num 32000000000),
  ("ElectraPreset", "MAX_EFFECTIVE_BALANCE_ELECTRA", .num 2048000000000),
  ("ElectraPreset", "PENDING_DEPOSITS_LIMIT", .num 134217728),
  ("ElectraPreset", "PENDING_PARTIAL_WITHDRAWALS_LIMIT", .num 134217728),
  ("ElectraPreset", "PENDING_CONSOLIDATIONS_LIMIT", .num 262144),
  ("ElectraPreset", "MIN_SLASHING_PENALTY_QUOTIENT_ELECTRA", .num 4096),
  ("ElectraPreset", "WHISTLEBLOWER_REWARD_QUOTIENT_ELECTRA", .num 4096),
  ("ElectraPreset", "MAX_ATTESTER_SLASHINGS_ELECTRA", .num 1),
  ("ElectraPreset", "MAX_ATTESTATIONS_ELECTRA", .num 8),
  ("ElectraPreset", "MAX_CONSOLIDATION_REQUESTS_PER_PAYLOAD", .num 2),
  ("ElectraPreset", "MAX_DEPOSIT_REQUESTS_PER_PAYLOAD", .num 8192),
  ("ElectraPreset", "MAX_WITHDRAWAL_REQUESTS_PER_PAYLOAD", .num 16),
  ("ElectraPreset", "MAX_PENDING_PARTIALS_PER_WITHDRAWALS_SWEEP", .num 8),
  ("ElectraPreset", "MAX_PENDING_DEPOSITS_PER_EPOCH", .num 16),
  -- configs/mainnet.yaml
  ("Config", "PRESET_BASE", .str "mainnet"),
  ("Config", "CONFIG_NAME", .str "mainnet"),
  ("Config", "TERMINAL_TOTAL_DIFFICULTY", .num 58750000000000000000000),
  ("Config", "TERMINAL_BLOCK_HASH", .hex "0000000000000000000000000000000000000000000000000000000000000000"),
  ("Config", "TERMINAL_BLOCK_HASH_ACTIVATION_EPOCH", .num 18446744073709551615),
  ("Config", "MIN_GENESIS_ACTIVE_VALIDATOR_COUNT", .num 16384),
  ("Config", "MIN_GENESIS_TIME", .num 1606824000),
  ("Config", "GENESIS_FORK_VERSION", .hex "00000000"),
  ("Config", "GENESIS_DELAY", .num 604800),
  ("Config", "ALTAIR_FORK_VERSION", .hex "01000000"),
  ("Config", "ALTAIR_FORK_EPOCH", .num 74240),
  ("Config", "BELLATRIX_FORK_VERSION", .hex "02000000"),
  ("Config", "BELLATRIX_FORK_EPOCH", .num 144896),
  ("Config", "CAPELLA_FORK_VERSION", .hex "03000000"),
  ("Config", "CAPELLA_FORK_EPOCH", .num 194048),
  ("Config", "DENEB_FORK_VERSION", .hex "04000000"),
  ("Config", "DENEB_FORK_EPOCH", .num 269568),
  ("Config", "ELECTRA_FORK_VERSION", .hex "05000000"),
  ("Config", "ELECTRA_FORK_EPOCH", .num 18446744073709551615),   -- stub at this pre-release (later: 364032)
  ("Config", "FULU_FORK_VERSION", .hex "06000000"),
  ("Config", "FULU_FORK_EPOCH", .num 18446744073709551615),
  ("Config", "EIP7441_FORK_VERSION", .hex "08000000"),            -- (?)
  ("Config", "EIP7441_FORK_EPOCH", .num 18446744073709551615),    -- (?)
  ("Config", "EIP7732_FORK_VERSION", .hex "09000000"),            -- (?)
  ("Config", "EIP7732_FORK_EPOCH", .num 18446744073709551615),    -- (?)
  ("Config", "SECONDS_PER_SLOT", .num 12),
  ("Config", "SECONDS_PER_ETH1_BLOCK", .num 14),
  ("Config", "MIN_VALIDATOR_WITHDRAWABILITY_DELAY", .num 256),
  ("Config", "SHARD_COMMITTEE_PERIOD", .num 256),
  ("Config", "ETH1_FOLLOW_DISTANCE", .num 2048),
  ("Config", "INACTIVITY_SCORE_BIAS", .num 4),
  ("Config", "INACTIVITY_SCORE_RECOVERY_RATE", .num 16),
  ("Config", "EJECTION_BALANCE", .num 16000000000),
  ("Config", "MIN_PER_EPOCH_CHURN_LIMIT", .num 4),
  ("Config", "CHURN_LIMIT_QUOTIENT", .num 65536),
  ("Config", "MAX_PER_EPOCH_ACTIVATION_CHURN_LIMIT", .num 8),
  ("Config", "PROPOSER_SCORE_BOOST", .num 40),
  ("Config", "REORG_HEAD_WEIGHT_THRESHOLD", .num 20),
  ("Config", "REORG_PARENT_WEIGHT_THRESHOLD", .num 160),
  ("Config", "REORG_MAX_EPOCHS_SINCE_FINALIZATION", .num 2),
  ("Config", "DEPOSIT_CHAIN_ID", .num 1),
  ("Config", "DEPOSIT_NETWORK_ID", .num 1),
  ("Config", "DEPOSIT_CONTRACT_ADDRESS", .hex "00000000219ab540356cbb839cbe05303d7705fa"),
  ("Config", "MAX_PAYLOAD_SIZE", .num 10485760),
  ("Config", "MAX_REQUEST_BLOCKS", .num 1024),
  ("Config", "EPOCHS_PER_SUBNET_SUBSCRIPTION", .num 256),
  ("Config", "MIN_EPOCHS_FOR_BLOCK_REQUESTS", .num 33024),
  ("Config", "TTFB_TIMEOUT", .num 5),
  ("Config", "RESP_TIMEOUT", .num 10),
  ("Config", "ATTESTATION_PROPAGATION_SLOT_RANGE", .num 32),
  ("Config", "MAXIMUM_GOSSIP_CLOCK_DISPARITY", .num 500),
  ("Config", "MESSAGE_DOMAIN_INVALID_SNAPPY", .hex "00000000"),
  ("Config", "MESSAGE_DOMAIN_VALID_SNAPPY", .hex "01000000"),
  ("Config", "SUBNETS_PER_NODE", .num 2),
  ("Config", "ATTESTATION_SUBNET_COUNT", .num 64),
  ("Config", "ATTESTATION_SUBNET_EXTRA_BITS", .num 0),
  ("Config", "ATTESTATION_SUBNET_PREFIX_BITS", .num 6),
  ("Config", "MAX_REQUEST_BLOCKS_DENEB", .num 128),
  ("Config", "MIN_EPOCHS_FOR_BLOB_SIDECARS_REQUESTS", .num 4096),
  ("Config", "BLOB_SIDECAR_SUBNET_COUNT", .num 6),
  ("Config", "MAX_BLOBS_PER_BLOCK", .num 6),
  ("Config", "MAX_REQUEST_BLOB_SIDECARS", .num 768),
  ("Config", "MIN_PER_EPOCH_CHURN_LIMIT_ELECTRA", .num 128000000000),
  ("Config", "MAX_PER_EPOCH_ACTIVATION_EXIT_CHURN_LIMIT", .num 256000000000),
  ("Config", "BLOB_SIDECAR_SUBNET_COUNT_ELECTRA", .num 9),
  ("Config", "MAX_BLOBS_PER_BLOCK_ELECTRA", .num 9),
  ("Config", "MAX_REQUEST_BLOB_SIDECARS_ELECTRA", .num 1152),
  ("Config", "NUMBER_OF_COLUMNS", .num 128),                                  -- (?)
  ("Config", "NUMBER_OF_CUSTODY_GROUPS", .num 128),                           -- (?)
  ("Config", "DATA_COLUMN_SIDECAR_SUBNET_COUNT", .num 128),                   -- (?)
  ("Config", "MAX_REQUEST_DATA_COLUMN_SIDECARS", .num 16384),                 -- (?)
  ("Config", "SAMPLES_PER_SLOT", .num 8),                                     -- (?)
  ("Config", "CUSTODY_REQUIREMENT", .num 4),                                  -- (?)
  ("Config", "VALIDATOR_CUSTODY_REQUIREMENT", .num 8),                        -- (?)
  ("Config", "BALANCE_PER_ADDITIONAL_CUSTODY_GROUP", .num 32000000000),       -- (?)
  ("Config", "MAX_BLOBS_PER_BLOCK_FULU", .num 12),                            -- (?)
  ("Config", "MIN_EPOCHS_FOR_DATA_COLUMN_SIDECARS_REQUESTS", .num 4096),      -- (?)
  ("Config", "EPOCHS_PER_SHUFFLING_PHASE", .num 256),                         -- (?)
  ("Config", "PROPOSER_SELECTION_GAP", .num 2),                               -- (?)
  ("Config", "MAX_REQUEST_PAYLOADS", .num 128)]                               -- (?)

/-- presets/minimal/*.yaml + configs/minimal.yaml -/
def minimal : List (String × String × Val) := [
  -- presets/minimal/phase0.yaml  ([customized] values differ from mainnet)
  ("Phase0Preset", "MAX_COMMITTEES_PER_SLOT", .num 4),
  ("Phase0Preset", "TARGET_COMMITTEE_SIZE", .num 4),
  ("Phase0Preset", "MAX_VALIDATORS_PER_COMMITTEE", .num 2048),
  ("Phase0Preset", "SHUFFLE_ROUND_COUNT", .num 10),
  ("Phase0Preset", "HYSTERESIS_QUOTIENT", .num 4),
  ("Phase0Preset", "HYSTERESIS_DOWNWARD_MULTIPLIER", .num 1),
  ("Phase0Preset", "HYSTERESIS_UPWARD_MULTIPLIER", .num 5),
  ("Phase0Preset", "MIN_DEPOSIT_AMOUNT", .num 1000000000),
  ("Phase0Preset", "MAX_EFFECTIVE_BALANCE", .num 32000000000),
  ("Phase0Preset", "EFFECTIVE_BALANCE_INCREMENT", .num 1000000000),
  ("Phase0Preset", "MIN_ATTESTATION_INCLUSION_DELAY", .num 1),
  ("Phase0Preset", "SLOTS_PER_EPOCH", .num 8),
  ("Phase0Preset", "MIN_SEED_LOOKAHEAD", .num 1),
  ("Phase0Preset", "MAX_SEED_LOOKAHEAD", .num 4),
  ("Phase0Preset", "EPOCHS_PER_ETH1_VOTING_PERIOD", .num 4),
  ("Phase0Preset", "SLOTS_PER_HISTORICAL_ROOT", .num 64),
  ("Phase0Preset", "MIN_EPOCHS_TO_INACTIVITY_PENALTY", .num 4),
  ("Phase0Preset", "EPOCHS_PER_HISTORICAL_VECTOR", .num 64),
  ("Phase0Preset", "EPOCHS_PER_SLASHINGS_VECTOR", .num 64),
  ("Phase0Preset", "HISTORICAL_ROOTS_LIMIT", .num 16777216),
  ("Phase0Preset", "VALIDATOR_REGISTRY_LIMIT", .num 1099511627776),
  ("Phase0Preset", "BASE_REWARD_FACTOR", .num 64),
  ("Phase0Preset", "WHISTLEBLOWER_REWARD_QUOTIENT", .num 512),
  ("Phase0Preset", "PROPOSER_REWARD_QUOTIENT", .num 8),
  ("Phase0Preset", "INACTIVITY_PENALTY_QUOTIENT", .num 33554432),
  ("Phase0Preset", "MIN_SLASHING_PENALTY_QUOTIENT", .num 64),
  ("Phase0Preset", "PROPORTIONAL_SLASHING_MULTIPLIER", .num 2),
  ("Phase0Preset", "MAX_PROPOSER_SLASHINGS", .num 16),
  ("Phase0Preset", "MAX_ATTESTER_SLASHINGS", .num 2),
  ("Phase0Preset", "MAX_ATTESTATIONS", .num 128),
  ("Phase0Preset", "MAX_DEPOSITS", .num 16),
  ("Phase0Preset", "MAX_VOLUNTARY_EXITS", .num 16),
  -- presets/minimal/altair.yaml
  ("AltairPreset", "INACTIVITY_PENALTY_QUOTIENT_ALTAIR", .num 50331648),
  ("AltairPreset", "MIN_SLASHING_PENALTY_QUOTIENT_ALTAIR", .num 64),
  ("AltairPreset", "PROPORTIONAL_SLASHING_MULTIPLIER_ALTAIR", .num 2),
  ("AltairPreset", "SYNC_COMMITTEE_SIZE", .num 32),
  ("AltairPreset", "EPOCHS_PER_SYNC_COMMITTEE_PERIOD", .num 8),
  ("AltairPreset", "MIN_SYNC_COMMITTEE_PARTICIPANTS", .num 1),
  ("AltairPreset", "UPDATE_TIMEOUT", .num 64),
  -- presets/minimal/bellatrix.yaml
  ("BellatrixPreset", "INACTIVITY_PENALTY_QUOTIENT_BELLATRIX", .num 16777216),
  ("BellatrixPreset", "MIN_SLASHING_PENALTY_QUOTIENT_BELLATRIX", .num 32),
  ("BellatrixPreset", "PROPORTIONAL_SLASHING_MULTIPLIER_BELLATRIX", .num 3),
  ("BellatrixPreset", "MAX_BYTES_PER_TRANSACTION", .num 1073741824),
  ("BellatrixPreset", "MAX_TRANSACTIONS_PER_PAYLOAD", .num 1048576),
  ("BellatrixPreset", "BYTES_PER_LOGS_BLOOM", .num 256),
  ("BellatrixPreset", "MAX_EXTRA_DATA_BYTES", .num 32),
  -- presets/minimal/capella.yaml
  ("CapellaPreset", "MAX_BLS_TO_EXECUTION_CHANGES", .num 16),
  ("CapellaPreset", "MAX_WITHDRAWALS_PER_PAYLOAD", .num 4),
  ("CapellaPreset", "MAX_VALIDATORS_PER_WITHDRAWALS_SWEEP", .num 16),
  -- presets/minimal/deneb.yaml
  ("DenebPreset", "FIELD_ELEMENTS_PER_BLOB", .num 4096),
  ("DenebPreset", "MAX_BLOB_COMMITMENTS_PER_BLOCK", .num 32),
  ("DenebPreset", "KZG_COMMITMENT_INCLUSION_PROOF_DEPTH", .num 10),
  -- presets/minimal/electra.yaml
  ("ElectraPreset", "MIN_ACTIVATION_BALANCE", .num 32000000000),
  ("ElectraPreset", "MAX_EFFECTIVE_BALANCE_ELECTRA", .num 2048000000000),
  ("ElectraPreset", "PENDING_DEPOSITS_LIMIT", .num 134217728),
  ("ElectraPreset", "PENDING_PARTIAL_WITHDRAWALS_LIMIT", .num 64),
  ("ElectraPreset", "PENDING_CONSOLIDATIONS_LIMIT", .num 64),
  ("ElectraPreset", "MIN_SLASHING_PENALTY_QUOTIENT_ELECTRA", .num 4096),
  ("ElectraPreset", "WHISTLEBLOWER_REWARD_QUOTIENT_ELECTRA", .num 4096),
  ("ElectraPreset", "MAX_ATTESTER_SLASHINGS_ELECTRA", .num 1),
  ("ElectraPreset", "MAX_ATTESTATIONS_ELECTRA", .num 8),
  ("ElectraPreset", "MAX_CONSOLIDATION_REQUESTS_PER_PAYLOAD", .num 2),
  ("ElectraPreset", "MAX_DEPOSIT_REQUESTS_PER_PAYLOAD", .num 4),
  ("ElectraPreset", "MAX_WITHDRAWAL_REQUESTS_PER_PAYLOAD", .num 2),
  ("ElectraPreset", "MAX_PENDING_PARTIALS_PER_WITHDRAWALS_SWEEP", .num 2),
  ("ElectraPreset", "MAX_PENDING_DEPOSITS_PER_EPOCH", .num 16),
  -- configs/minimal.yaml
  ("Config", "PRESET_BASE", .str "minimal"),
  ("Config", "CONFIG_NAME", .str "minimal"),
  -- 2**256-2**10
  ("Config", "TERMINAL_TOTAL_DIFFICULTY", .num 115792089237316195423570985008687907853269984665640564039457584007913129638912),
  ("Config", "TERMINAL_BLOCK_HASH", .hex "0000000000000000000000000000000000000000000000000000000000000000"),
  ("Config", "TERMINAL_BLOCK_HASH_ACTIVATION_EPOCH", .num 18446744073709551615),
  ("Config", "MIN_GENESIS_ACTIVE_VALIDATOR_COUNT", .num 64),
  ("Config", "MIN_GENESIS_TIME", .num 1578009600),
  ("Config", "GENESIS_FORK_VERSION", .hex "00000001"),
  ("Config", "GENESIS_DELAY", .num 300),
  ("Config", "ALTAIR_FORK_VERSION", .hex "01000001"),
  ("Config", "ALTAIR_FORK_EPOCH", .num 18446744073709551615),
  ("Config", "BELLATRIX_FORK_VERSION", .hex "02000001"),
  ("Config", "BELLATRIX_FORK_EPOCH", .num 18446744073709551615),
  ("Config", "CAPELLA_FORK_VERSION", .hex "03000001"),
  ("Config", "CAPELLA_FORK_EPOCH", .num 18446744073709551615),
  ("Config", "DENEB_FORK_VERSION", .hex "04000001"),
  ("Config", "DENEB_FORK_EPOCH", .num 18446744073709551615),
  ("Config", "ELECTRA_FORK_VERSION", .hex "05000001"),
  ("Config", "ELECTRA_FORK_EPOCH", .num 18446744073709551615),
  ("Config", "FULU_FORK_VERSION", .hex "06000001"),
  ("Config", "FULU_FORK_EPOCH", .num 18446744073709551615),
  ("Config", "EIP7441_FORK_VERSION", .hex "08000001"),            -- (?)
  ("Config", "EIP7441_FORK_EPOCH", .num 18446744073709551615),    -- (?)
  ("Config", "EIP7732_FORK_VERSION", .hex "09000001"),            -- (?)
  ("Config", "EIP7732_FORK_EPOCH", .num 18446744073709551615),    -- (?)
  ("Config", "SECONDS_PER_SLOT", .num 6),
  ("Config", "SECONDS_PER_ETH1_BLOCK", .num 14),
  ("Config", "MIN_VALIDATOR_WITHDRAWABILITY_DELAY", .num 256),
  ("Config", "SHARD_COMMITTEE_PERIOD", .num 64),
  ("Config", "ETH1_FOLLOW_DISTANCE", .num 16),
  ("Config", "INACTIVITY_SCORE_BIAS", .num 4),
  ("Config", "INACTIVITY_SCORE_RECOVERY_RATE", .num 16),
  ("Config", "EJECTION_BALANCE", .num 16000000000),
  ("Config", "MIN_PER_EPOCH_CHURN_LIMIT", .num 2),
  ("Config", "CHURN_LIMIT_QUOTIENT", .num 32),
  ("Config", "MAX_PER_EPOCH_ACTIVATION_CHURN_LIMIT", .num 4),
  ("Config", "PROPOSER_SCORE_BOOST", .num 40),
  ("Config", "REORG_HEAD_WEIGHT_THRESHOLD", .num 20),
  ("Config", "REORG_PARENT_WEIGHT_THRESHOLD", .num 160),
  ("Config", "REORG_MAX_EPOCHS_SINCE_FINALIZATION", .num 2),
  ("Config", "DEPOSIT_CHAIN_ID", .num 5),
  ("Config", "DEPOSIT_NETWORK_ID", .num 5),
  ("Config", "DEPOSIT_CONTRACT_ADDRESS", .hex "1234567890123456789012345678901234567890"),
  ("Config", "MAX_PAYLOAD_SIZE", .num 10485760),
  ("Config", "MAX_REQUEST_BLOCKS", .num 1024),
  ("Config", "EPOCHS_PER_SUBNET_SUBSCRIPTION", .num 256),
  ("Config", "MIN_EPOCHS_FOR_BLOCK_REQUESTS", .num 272),
  ("Config", "TTFB_TIMEOUT", .num 5),
  ("Config", "RESP_TIMEOUT", .num 10),
  ("Config", "ATTESTATION_PROPAGATION_SLOT_RANGE", .num 32),
  ("Config", "MAXIMUM_GOSSIP_CLOCK_DISPARITY", .num 500),
  ("Config", "MESSAGE_DOMAIN_INVALID_SNAPPY", .hex "00000000"),
  ("Config", "MESSAGE_DOMAIN_VALID_SNAPPY", .hex "01000000"),
  ("Config", "SUBNETS_PER_NODE", .num 2),
  ("Config", "ATTESTATION_SUBNET_COUNT", .num 64),
  ("Config", "ATTESTATION_SUBNET_EXTRA_BITS", .num 0),
  ("Config", "ATTESTATION_SUBNET_PREFIX_BITS", .num 6),
  ("Config", "MAX_REQUEST_BLOCKS_DENEB", .num 128),
  ("Config", "MIN_EPOCHS_FOR_BLOB_SIDECARS_REQUESTS", .num 4096),
  ("Config", "BLOB_SIDECAR_SUBNET_COUNT", .num 6),
  ("Config", "MAX_BLOBS_PER_BLOCK", .num 6),
  ("Config", "MAX_REQUEST_BLOB_SIDECARS", .num 768),
  ("Config", "MIN_PER_EPOCH_CHURN_LIMIT_ELECTRA", .num 64000000000),
  ("Config", "MAX_PER_EPOCH_ACTIVATION_EXIT_CHURN_LIMIT", .num 128000000000),
  ("Config", "BLOB_SIDECAR_SUBNET_COUNT_ELECTRA", .num 9),
  ("Config", "MAX_BLOBS_PER_BLOCK_ELECTRA", .num 9),
  ("Config", "MAX_REQUEST_BLOB_SIDECARS_ELECTRA", .num 1152),
  ("Config", "NUMBER_OF_COLUMNS", .num 128),                                  -- (?)
  ("Config", "NUMBER_OF_CUSTODY_GROUPS", .num 128),                           -- (?)
  ("Config", "DATA_COLUMN_SIDECAR_SUBNET_COUNT", .num 128),                   -- (?)
  ("Config", "MAX_REQUEST_DATA_COLUMN_SIDECARS", .num 16384),                 -- (?)
  ("Config", "SAMPLES_PER_SLOT", .num 8),                                     -- (?)
  ("Config", "CUSTODY_REQUIREMENT", .num 4),                                  -- (?)
  ("Config", "VALIDATOR_CUSTODY_REQUIREMENT", .num 8),                        -- (?)
  ("Config", "BALANCE_PER_ADDITIONAL_CUSTODY_GROUP", .num 32000000000),       -- (?)
  ("Config", "MAX_BLOBS_PER_BLOCK_FULU", .num 12),                            -- (?)
  ("Config", "MIN_EPOCHS_FOR_DATA_COLUMN_SIDECARS_REQUESTS", .num 4096),      -- (?)
  ("Config", "EPOCHS_PER_SHUFFLING_PHASE", .num 4),                           -- (?)
  ("Config", "PROPOSER_SELECTION_GAP", .num 1),                               -- (?)
  ("Config", "MAX_REQUEST_PAYLOADS", .num 128)]                               -- (?)

/-- Constants the specification fixes outside the preset/config files (beacon-chain.md "Constants" and
"Misc"/"Domain types"/"Participation flag indices"/"Incentivization weights", validator.md, p2p-interface.md)
and that zrnt carries as Go-level constants. -/
def goLevel : List (String × Val) := [
  ("FAR_FUTURE_EPOCH", .num 18446744073709551615),
  ("BASE_REWARDS_PER_EPOCH", .num 4),
  ("DEPOSIT_CONTRACT_TREE_DEPTH", .num 32),
  ("GENESIS_SLOT", .num 0),
  ("GENESIS_EPOCH", .num 0),
  ("JUSTIFICATION_BITS_LENGTH", .num 4),
  ("BLS_WITHDRAWAL_PREFIX", .num 0),
  ("ETH1_ADDRESS_WITHDRAWAL_PREFIX", .num 1),
  ("DOMAIN_BEACON_PROPOSER", .hex "00000000"),
  ("DOMAIN_BEACON_ATTESTER", .hex "01000000"),
  ("DOMAIN_RANDAO", .hex "02000000"),
  ("DOMAIN_DEPOSIT", .hex "03000000"),
  ("DOMAIN_VOLUNTARY_EXIT", .hex "04000000"),
  ("DOMAIN_SELECTION_PROOF", .hex "05000000"),
  ("DOMAIN_AGGREGATE_AND_PROOF", .hex "06000000"),
  ("DOMAIN_SYNC_COMMITTEE", .hex "07000000"),
  ("DOMAIN_SYNC_COMMITTEE_SELECTION_PROOF", .hex "08000000"),
  ("DOMAIN_CONTRIBUTION_AND_PROOF", .hex "09000000"),
  ("DOMAIN_BLS_TO_EXECUTION_CHANGE", .hex "0a000000"),
  ("TIMELY_SOURCE_FLAG_INDEX", .num 0),
  ("TIMELY_TARGET_FLAG_INDEX", .num 1),
  ("TIMELY_HEAD_FLAG_INDEX", .num 2),
  ("TIMELY_SOURCE_WEIGHT", .num 14),
  ("TIMELY_TARGET_WEIGHT", .num 26),
  ("TIMELY_HEAD_WEIGHT", .num 14),
  ("SYNC_REWARD_WEIGHT", .num 2),
  ("PROPOSER_WEIGHT", .num 8),
  ("WEIGHT_DENOMINATOR", .num 64),
  ("TARGET_AGGREGATORS_PER_COMMITTEE", .num 16),
  ("SYNC_COMMITTEE_SUBNET_COUNT", .num 4),
  ("TARGET_AGGREGATORS_PER_SYNC_SUBCOMMITTEE", .num 16),
  ("BLOB_TX_TYPE", .num 3),
  ("VERSIONED_HASH_VERSION_KZG", .num 1),
  -- Go-level duplicates of preset/config values (must agree with both published presets)
  ("MAX_EXTRA_DATA_BYTES", .num 32),
  ("BYTES_PER_LOGS_BLOOM", .num 256),
  ("ATTESTATION_SUBNET_COUNT", .num 64),
  -- derived helper values (not spec constants by name, but fixed by it): 1 << flag index, seconds per day
  ("TIMELY_SOURCE_FLAG", .num 1),
  ("TIMELY_TARGET_FLAG", .num 2),
  ("TIMELY_HEAD_FLAG", .num 4),
  ("SECONDS_PER_DAY", .num 86400),
  -- constants of older spec versions that zrnt still carries (phase0 validator.md up to v1.3)
  ("RANDOM_SUBNETS_PER_VALIDATOR", .num 1),
  ("EPOCHS_PER_RANDOM_SUBNET_SUBSCRIPTION", .num 256)]

/-- Published constants that zrnt's `Spec` struct does not carry as a field (light-client only). -/
def notInStruct : List String := ["UPDATE_TIMEOUT"]

/-! ## Table operations used by the theorems and by `zmodel` -/

def lookup (t : List (String × String × Val)) (k : String) : Option Val :=
  (t.find? (fun r => r.2.1 == k)).map (·.2.2)

def lookupG (t : List (String × String × Val)) (g k : String) : Option Val :=
  (t.find? (fun r => r.1 == g && r.2.1 == k)).map (·.2.2)

def lookup2 (t : List (String × Val)) (k : String) : Option Val :=
  (t.find? (fun r => r.1 == k)).map (·.2)

/-- every row of `a` occurs in `b` (same group, key and value) -/
def subTable (a b : List (String × String × Val)) : Bool :=
  a.all (fun r => lookupG b r.1 r.2.1 == some r.2.2)

def keysNodup (t : List (String × String × Val)) : Bool := decide (t.map (·.2.1)).Nodup

def sub2 (a b : List (String × Val)) : Bool := a.all (fun r => lookup2 b r.1 == some r.2)

/-- rows of `a` that `b` does not carry with the same value (diagnostics; printed by a failing `#eval`) -/
def diff (a b : List (String × String × Val)) : List (String × String × Val) :=
  a.filter (fun r => lookupG b r.1 r.2.1 != some r.2.2)

end Zrnt.Config.Constants
