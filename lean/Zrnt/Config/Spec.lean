import Zrnt.Sha256
/-!
# Fork schedule specification (property C14)

The oracle for "which fork is active": `forkAt c epoch` is the latest fork (in the order phase0 <
altair < … < fulu) whose activation epoch is `≤ epoch`. It is deliberately the simplest possible
definition (a filter over the seven forks) and is independent of the shape of zrnt's comparison
chains. It is meaningful for *valid* schedules, i.e. non-decreasing fork epochs (`Monotone`), which
covers equal epochs (several forks activate at once: the last one wins), adjacent epochs and
never-activated forks (`FAR_FUTURE_EPOCH = 2^64-1`).

Also: fork digest, signing domain and signing root exactly as in the consensus spec
(`compute_fork_data_root`, `compute_fork_digest`, `compute_domain`, `compute_signing_root`), over
`Zrnt.Sha256`. A `Version` is carried as a `UInt32` (big-endian reading of its 4 bytes).
Core Lean only (linked into `zmodel`).
-/
namespace Zrnt.Config

inductive Fork where
  | phase0 | altair | bellatrix | capella | deneb | electra | fulu
  deriving DecidableEq, Repr, Inhabited

namespace Fork
def all : List Fork := [phase0, altair, bellatrix, capella, deneb, electra, fulu]

def name : Fork → String
  | phase0 => "phase0" | altair => "altair" | bellatrix => "bellatrix" | capella => "capella"
  | deneb => "deneb" | electra => "electra" | fulu => "fulu"

def ofName? (s : String) : Option Fork := all.find? (fun f => f.name = s)

/-- position in the fork order -/
def idx : Fork → Nat
  | phase0 => 0 | altair => 1 | bellatrix => 2 | capella => 3 | deneb => 4 | electra => 5 | fulu => 6

/-- the fork before `f` in the fork order (phase0 for phase0) -/
def pred : Fork → Fork
  | phase0 => phase0 | altair => phase0 | bellatrix => altair | capella => bellatrix
  | deneb => capella | electra => deneb | fulu => electra
end Fork

/-- The fork-schedule part of a configuration (`*_FORK_VERSION`, `*_FORK_EPOCH`). -/
structure Schedule where
  genesisVersion : UInt32
  altairVersion : UInt32
  bellatrixVersion : UInt32
  capellaVersion : UInt32
  denebVersion : UInt32
  electraVersion : UInt32
  fuluVersion : UInt32
  altairEpoch : UInt64
  bellatrixEpoch : UInt64
  capellaEpoch : UInt64
  denebEpoch : UInt64
  electraEpoch : UInt64
  fuluEpoch : UInt64
  deriving Repr, DecidableEq

namespace Schedule

/-- activation epoch of a fork (phase0 is active from genesis) -/
def epochOf (c : Schedule) : Fork → Nat
  | .phase0 => 0
  | .altair => c.altairEpoch.toNat
  | .bellatrix => c.bellatrixEpoch.toNat
  | .capella => c.capellaEpoch.toNat
  | .deneb => c.denebEpoch.toNat
  | .electra => c.electraEpoch.toNat
  | .fulu => c.fuluEpoch.toNat

def versionOf (c : Schedule) : Fork → UInt32
  | .phase0 => c.genesisVersion
  | .altair => c.altairVersion
  | .bellatrix => c.bellatrixVersion
  | .capella => c.capellaVersion
  | .deneb => c.denebVersion
  | .electra => c.electraVersion
  | .fulu => c.fuluVersion

/-- A valid schedule: fork epochs are non-decreasing in fork order. -/
def Monotone (c : Schedule) : Prop :=
  c.altairEpoch.toNat ≤ c.bellatrixEpoch.toNat ∧ c.bellatrixEpoch.toNat ≤ c.capellaEpoch.toNat ∧
  c.capellaEpoch.toNat ≤ c.denebEpoch.toNat ∧ c.denebEpoch.toNat ≤ c.electraEpoch.toNat ∧
  c.electraEpoch.toNat ≤ c.fuluEpoch.toNat

instance (c : Schedule) : Decidable c.Monotone := by unfold Monotone; infer_instance

end Schedule

/-- **Specification.** The fork active at `epoch`: the latest fork whose activation epoch is `≤ epoch`. -/
def forkAt (c : Schedule) (epoch : Nat) : Fork :=
  ((Fork.all.filter (fun f => decide (c.epochOf f ≤ epoch))).getLast?).getD .phase0

def versionAt (c : Schedule) (epoch : Nat) : UInt32 := c.versionOf (forkAt c epoch)

/-! ## Fork digest, domain, signing root (consensus spec, phase0 `beacon-chain.md` helpers) -/

def versionBytes (v : UInt32) : ByteArray :=
  ByteArray.mk #[(v >>> 24).toUInt8, (v >>> 16).toUInt8, (v >>> 8).toUInt8, v.toUInt8]

def zeros (n : Nat) : ByteArray := ByteArray.mk (Array.replicate n 0)

/-- `hash_tree_root(ForkData(current_version, genesis_validators_root))`: two 32-byte chunks, one hash. -/
def forkDataRoot (H : ByteArray → ByteArray) (v : UInt32) (gvr : ByteArray) : ByteArray :=
  H (versionBytes v ++ zeros 28 ++ gvr)

/-- `compute_fork_digest`: first four bytes of the fork data root -/
def forkDigest (H : ByteArray → ByteArray) (v : UInt32) (gvr : ByteArray) : ByteArray :=
  (forkDataRoot H v gvr).extract 0 4

/-- `compute_domain(domain_type, fork_version, genesis_validators_root)` -/
def computeDomain (H : ByteArray → ByteArray) (domainType : ByteArray) (v : UInt32) (gvr : ByteArray) : ByteArray :=
  domainType ++ (forkDataRoot H v gvr).extract 0 28

/-- `compute_signing_root(object_root, domain)` = htr(SigningData(object_root, domain)) -/
def signingRoot (H : ByteArray → ByteArray) (objectRoot domain : ByteArray) : ByteArray :=
  H (objectRoot ++ domain)

def DOMAIN_BEACON_PROPOSER : ByteArray := ByteArray.mk #[0, 0, 0, 0]

instance : DecidableEq ByteArray := fun a b =>
  if h : a.data = b.data then isTrue (by cases a; cases b; simp_all) else isFalse (by intro e; exact h (by rw [e]))

/-- the 64 bytes hashed by `compute_fork_data_root` -/
def forkDataInput (v : UInt32) (gvr : ByteArray) : ByteArray := versionBytes v ++ zeros 28 ++ gvr

/-! ## `BeaconBlockEnvelope.VerifySignatureVersioned` / `VerifySignature` (common/block.go)

`bls msg` stands for `blsu.Verify(pub, msg, sig)` for the envelope's signature and the expected proposer's
key, including the two deserialisation failures (`false`). The check, in the order of the source:
proposer index, fork-digest sanity check, BLS over `compute_signing_root(block_root, domain)`. -/
def verifyEnvelopeVersioned (H : ByteArray → ByteArray) (bls : ByteArray → Bool) (version : UInt32)
    (gvr : ByteArray) (envProposer proposer : UInt64) (envDigest blockRoot : ByteArray) : Bool :=
  envProposer == proposer &&
  (decide (forkDigest H version gvr = envDigest)) &&
  bls (signingRoot H blockRoot (computeDomain H DOMAIN_BEACON_PROPOSER version gvr))

end Zrnt.Config
