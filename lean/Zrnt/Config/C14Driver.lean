import Zrnt.Driver.Loop
import Zrnt.Prelude.Text
import Zrnt.Gen.GoFuns
import Zrnt.Config.ForkModel
import Zrnt.Config.Constants
/-!
`zmodel c14`. Every line is answered `<code-shaped model> | <specification>`:
the model column is computed from the regenerated definitions (`Gen.GoFuns.ForkVersion`, the fork tables of
`Gen.Configs` through `Zrnt.Config.ForkModel`, the YAML table), the specification column from `forkAt`,
the spec's digest/domain/signing-root functions and the hand-transcribed `Constants`.

A schedule token is `spe,v0,…,v6,e1,…,e6` (versions as 8 hex digits, epochs decimal).
-/
namespace Zrnt.Config
open Zrnt Zrnt.Text

def hexU32 (v : UInt32) : String := toHex (versionBytes v)

def parseVersion (s : String) : Option UInt32 :=
  match parseHex s with
  | some b => if b.size = 4 then
      some ((b.get! 0).toUInt32 <<< 24 ||| (b.get! 1).toUInt32 <<< 16 ||| (b.get! 2).toUInt32 <<< 8 ||| (b.get! 3).toUInt32)
    else none
  | none => none

def parseSchedule (tok : String) : Option (UInt64 × Schedule) :=
  match tok.splitOn "," with
  | [spe, v0, v1, v2, v3, v4, v5, v6, e1, e2, e3, e4, e5, e6] => do
    let spe ← parseU64 spe
    let v0 ← parseVersion v0; let v1 ← parseVersion v1; let v2 ← parseVersion v2; let v3 ← parseVersion v3
    let v4 ← parseVersion v4; let v5 ← parseVersion v5; let v6 ← parseVersion v6
    let e1 ← parseU64 e1; let e2 ← parseU64 e2; let e3 ← parseU64 e3
    let e4 ← parseU64 e4; let e5 ← parseU64 e5; let e6 ← parseU64 e6
    pure (spe, { genesisVersion := v0, altairVersion := v1, bellatrixVersion := v2, capellaVersion := v3,
                 denebVersion := v4, electraVersion := v5, fuluVersion := v6, altairEpoch := e1,
                 bellatrixEpoch := e2, capellaEpoch := e3, denebEpoch := e4, electraEpoch := e5, fuluEpoch := e6 })
  | _ => none

/-- the regenerated `Spec` record carrying a schedule (all other fields default) -/
def goSpec (spe : UInt64) (c : Schedule) : Gen.GoFuns.Spec :=
  { (default : Gen.GoFuns.Spec) with
    SLOTS_PER_EPOCH := spe,
    GENESIS_FORK_VERSION := c.genesisVersion, ALTAIR_FORK_VERSION := c.altairVersion,
    BELLATRIX_FORK_VERSION := c.bellatrixVersion, CAPELLA_FORK_VERSION := c.capellaVersion,
    DENEB_FORK_VERSION := c.denebVersion, ELECTRA_FORK_VERSION := c.electraVersion,
    FULU_FORK_VERSION := c.fuluVersion, ALTAIR_FORK_EPOCH := c.altairEpoch,
    BELLATRIX_FORK_EPOCH := c.bellatrixEpoch, CAPELLA_FORK_EPOCH := c.capellaEpoch,
    DENEB_FORK_EPOCH := c.denebEpoch, ELECTRA_FORK_EPOCH := c.electraEpoch, FULU_FORK_EPOCH := c.fuluEpoch }

def H := Sha256.hash

/-- number of forks (phase0…electra, the ones with a block type) other than `f` that carry `f`'s version -/
def versionClash (c : Schedule) (f : Fork) : Bool :=
  Fork.all.any (fun g => g != f && c.versionOf g == c.versionOf f)

/-- the version the decoder field of fork `f` is initialised with (regenerated `NewForkDecoder` table) -/
def decoderVersion (c : Schedule) (f : Fork) : UInt32 :=
  match genDecoder.find? (·.1 == f) with
  | some r => c.versionOf r.2
  | none => 0xdeadbeef

def allocName : Option Fork → String
  | some f => f.name
  | none => "err"

/-- schedule of a built-in configuration according to a constants table -/
def scheduleOfTable (t : List (String × String × Val)) : Option (UInt64 × Schedule) := do
  let num (k : String) : Option UInt64 := match Constants.lookup t k with
    | some (.num n) => if n < 2^64 then some (UInt64.ofNat n) else none
    | _ => none
  let ver (k : String) : Option UInt32 := match Constants.lookup t k with
    | some (.hex s) => parseVersion s
    | _ => none
  let spe ← num "SLOTS_PER_EPOCH"
  pure (spe, { genesisVersion := ← ver "GENESIS_FORK_VERSION", altairVersion := ← ver "ALTAIR_FORK_VERSION",
               bellatrixVersion := ← ver "BELLATRIX_FORK_VERSION", capellaVersion := ← ver "CAPELLA_FORK_VERSION",
               denebVersion := ← ver "DENEB_FORK_VERSION", electraVersion := ← ver "ELECTRA_FORK_VERSION",
               fuluVersion := ← ver "FULU_FORK_VERSION", altairEpoch := ← num "ALTAIR_FORK_EPOCH",
               bellatrixEpoch := ← num "BELLATRIX_FORK_EPOCH", capellaEpoch := ← num "CAPELLA_FORK_EPOCH",
               denebEpoch := ← num "DENEB_FORK_EPOCH", electraEpoch := ← num "ELECTRA_FORK_EPOCH",
               fuluEpoch := ← num "FULU_FORK_EPOCH" })

def genTable (name : String) : Option (List (String × String × Val)) :=
  if name = "Mainnet" then some Gen.Configs.yamlMainnet else if name = "Minimal" then some Gen.Configs.yamlMinimal else none
def specTable (name : String) : Option (List (String × String × Val)) :=
  if name = "Mainnet" then some Constants.mainnet else if name = "Minimal" then some Constants.minimal else none

def renderOpt : Option Val → String
  | some v => "ok " ++ v.render
  | none => "absent"

def sortStrings (l : List String) : List String := (l.toArray.qsort (· < ·)).toList

def keysLine (t : List (String × String × Val)) : String :=
  "ok " ++ ",".intercalate (sortStrings ((t.map (·.2.1)).filter (fun k => !Constants.notInStruct.contains k)))

def fstateStr (s : FState) : String :=
  s!"{s.ty.name},{hexU32 s.prev},{hexU32 s.cur},{s.epoch.toNat}"

/-- specification of the fork bookkeeping at `slot` of a chain whose genesis is in the fork active at epoch 0
(fork record `(v, v, 0)`); for `ALTAIR_FORK_EPOCH ≠ 0` that is the phase0 genesis zrnt builds -/
def specFState (c : Schedule) (spe : UInt64) (slot : UInt64) : String :=
  let e := slot.toNat / spe.toNat
  let f := forkAt c e
  let f0 := forkAt c 0
  if f = f0 then s!"{f0.name},{hexU32 (c.versionOf f0)},{hexU32 (c.versionOf f0)},0"
  else s!"{f.name},{hexU32 (c.versionOf f.pred)},{hexU32 (c.versionOf f)},{c.epochOf f}"

def chainLine (kind s : String) (targets : List String) : String :=
  let bad := "bad-op"
  -- `chain`: phase0 genesis as zrnt builds it; `chaing`: genesis upgraded at slot 0 into the fork of epoch 0
  if kind != "chain" && kind != "chaing" then bad else
  match parseSchedule s, targets.mapM parseU64 with
  | some (spe, c), some ts =>
    if ts.isEmpty || !decide c.Monotone then bad else
    let f0 := if kind == "chaing" then forkAt c 0 else .phase0
    if f0 = .electra || f0 = .fulu then bad else
    let init : FState := { ty := f0, prev := c.versionOf f0, cur := c.versionOf f0, epoch := 0, slot := 0 }
    -- walk the targets in order (they are increasing; a non-increasing target is the Go error)
    let rec go (st : Res FState) (ts : List UInt64) (accM accS : List String) : List String × List String :=
      match ts with
      | [] => (accM.reverse, accS.reverse)
      | t :: rest =>
        match st with
        | .ok s =>
          if t.toNat ≤ s.slot.toNat then (("err" :: accM).reverse, ("err" :: accS).reverse) else
          let st' := processSlots genUpgrade genSupported c spe (t.toNat - s.slot.toNat) s
          match st' with
          | .ok s' =>
            -- beyond the specification's reach: fork at genesis (phase0 genesis is then not "a genesis in
            -- the right fork"), Electra (upgrade unsupported by the repository), wrapped boundary products
            let e := t.toNat / spe.toNat
            let wrapped := Fork.all.any (fun f => c.epochOf f * spe.toNat ≥ 2^64 && (c.epochOf f * spe.toNat) % 2^64 ≤ t.toNat)
            -- an unconstrained target repeats the model's answer (so that only Go = model is compared there)
            let sp := if (kind == "chain" && c.altairEpoch = 0) ∨ forkAt c e = .electra ∨ forkAt c e = .fulu ∨ wrapped then fstateStr s'
                      else specFState c spe t
            go st' rest (fstateStr s' :: accM) (sp :: accS)
          | .panic => (("panic" :: accM).reverse, ("panic" :: accS).reverse)
          | _ =>
            -- the repository does not support the Electra upgrade (documented): an error there is not judged
            let e := t.toNat / spe.toNat
            let sp := if forkAt c e = .electra ∨ forkAt c e = .fulu then "err" else specFState c spe t
            (("err" :: accM).reverse, (sp :: accS).reverse)
        | _ => (accM.reverse, accS.reverse)
    if spe = 0 then "panic | any" else
    let (m, sp) := go (.ok init) ts [] []
    "ok " ++ " ".intercalate m ++ " | ok " ++ " ".intercalate sp
  | _, _ => bad

def le64 (n : Nat) : ByteArray :=
  ByteArray.mk ((List.range 8).map (fun i => UInt8.ofNat ((n >>> (8 * i)) % 256))).toArray

/-- the stand-in block root of a slot in `dom` lines: the slot as 8 little-endian bytes, four times -/
def slotRoot (t : Nat) : ByteArray := le64 t ++ le64 t ++ le64 t ++ le64 t

/-- `dom S gvr t…`: per target slot what the state's fork record yields through `Fork.GetDomain` for the
epochs around the state's epoch, and whether an envelope signed under the state-derived proposer domain passes
`VerifySignature`. Model: `domainVersion` on the modelled fork record + the regenerated `ForkVersion`;
specification: the version of `forkAt(epoch)` wherever the two-version fork record can reach, and `true`. -/
def domLine (s gvrH : String) (targets : List String) : String :=
  let bad := "bad-op"
  match parseSchedule s, parseHex gvrH, targets.mapM parseU64 with
  | some (spe, c), some gvr, some ts =>
    let f0 := forkAt c 0
    if ts.isEmpty || !decide c.Monotone || gvr.size != 32 || spe = 0 || f0 = .electra || f0 = .fulu then bad else
    let init : FState := { ty := f0, prev := c.versionOf f0, cur := c.versionOf f0, epoch := 0, slot := 0 }
    let dom (v : UInt32) := computeDomain H DOMAIN_BEACON_PROPOSER v gvr
    let rec go (st : Res FState) (ts : List UInt64) (accM accS : List String) : List String × List String :=
      match ts with
      | [] => (accM.reverse, accS.reverse)
      | t :: rest =>
        match st with
        | .ok s0 =>
          if t.toNat ≤ s0.slot.toNat then (("err" :: accM).reverse, ("err" :: accS).reverse) else
          match processSlots genUpgrade genSupported c spe (t.toNat - s0.slot.toNat) s0 with
          | .ok s' =>
            let e := t.toNat / spe.toNat
            let f := forkAt c e
            let judged := !(f = .electra || f = .fulu ||
              Fork.all.any (fun g => c.epochOf g * spe.toNat ≥ 2^64 && (c.epochOf g * spe.toNat) % 2^64 ≤ t.toNat))
            let one (me : Nat) (present : Bool) : String × String :=
              if !present then ("-", "-") else
              let m := toHex (dom (domainVersion s' (UInt64.ofNat me)))
              -- within the record's reach: from the preceding fork's epoch up to the state's epoch
              let reach := judged && me ≤ e && (f = f0 || c.epochOf f.pred ≤ me)
              (m, if reach then toHex (dom (versionAt c me)) else m)
            let a := one (e - 1) (e != 0)
            let b := one e true
            let d := one (e + 1) true
            -- the envelope: digest from the state's current version, signed under the state's domain for e
            let signedMsg := signingRoot H (slotRoot t.toNat) (dom (domainVersion s' (UInt64.ofNat e)))
            let bls (m : ByteArray) : Bool := decide (m = signedMsg)
            let vm := match Gen.GoFuns.ForkVersion (goSpec spe c) t with
              | .ok v => boolStr (verifyEnvelopeVersioned H bls v gvr 3 3 (forkDigest H s'.cur gvr) (slotRoot t.toNat))
              | r => r.render hexU32
            let vs := if judged then "true" else vm
            let pre := toString t.toNat ++ ":"
            go (.ok s') rest ((pre ++ ",".intercalate [a.1, b.1, d.1, vm]) :: accM) ((pre ++ ",".intercalate [a.2, b.2, d.2, vs]) :: accS)
          | .panic => (("panic" :: accM).reverse, ("panic" :: accS).reverse)
          | _ => (("err" :: accM).reverse, ("err" :: accS).reverse)
        | _ => (accM.reverse, accS.reverse)
    let (m, sp) := go (.ok init) ts [] []
    "ok " ++ " ".intercalate m ++ " | ok " ++ " ".intercalate sp
  | _, _, _ => bad

/-- sentinel constants of `specapi` lines: (group, key) -/
def sentinels : List (String × String) := [
  ("Config", "ALTAIR_FORK_EPOCH"), ("Config", "GENESIS_FORK_VERSION"), ("Config", "SECONDS_PER_SLOT"),
  ("Phase0Preset", "MAX_COMMITTEES_PER_SLOT"), ("AltairPreset", "SYNC_COMMITTEE_SIZE"),
  ("BellatrixPreset", "MAX_EXTRA_DATA_BYTES"), ("CapellaPreset", "MAX_WITHDRAWALS_PER_PAYLOAD"),
  ("DenebPreset", "MAX_BLOB_COMMITMENTS_PER_BLOCK"), ("ElectraPreset", "PENDING_CONSOLIDATIONS_LIMIT")]

def groupsInOrder : List String :=
  ["Config", "Phase0Preset", "AltairPreset", "BellatrixPreset", "CapellaPreset", "DenebPreset", "ElectraPreset"]

/-- the sentinels of a spec assembled from the named built-in components; tables: name ↦ constants table -/
def sentinelDump (tbl : String → Option (List (String × String × Val))) (names : List String) : Option String := do
  let vals ← sentinels.mapM (fun (g, k) => do
    let i ← groupsInOrder.idxOf? g
    let nm ← names[i]?
    let t ← tbl nm
    let v ← Constants.lookupG t g k
    pure v.render)
  pure (",".intercalate vals ++ ",engine=nil")

/-- `specapi names legacy mask`: whatever a caller does to the spec a public constructor handed out, the built-in
configurations and every newly constructed spec are still made of the published constants, and the
constructor hands out private copies -/
def specApiLine (namesTok legacy mask : String) : String :=
  let names := namesTok.splitOn ","
  if names.length != 7 || mask.toNat?.isNone then "bad-op" else
  if !(names.all (fun n => n == "mainnet" || n == "minimal")) || !(legacy == "none" || legacy == "mainnet" || legacy == "minimal") then "err | err" else
  let answer (tbl : String → Option (List (String × String × Val))) : String :=
    match sentinelDump tbl names, sentinelDump tbl (List.replicate 7 "mainnet"), sentinelDump tbl (List.replicate 7 "minimal") with
    | some got, some mn, some mi => s!"ok copies=distinct got={got} mainnet={mn} minimal={mi} rebuilt={got}"
    | _, _, _ => "no-table"
  let genT (n : String) := if n == "mainnet" then some Gen.Configs.yamlMainnet else if n == "minimal" then some Gen.Configs.yamlMinimal else none
  let specT (n : String) := if n == "mainnet" then some Constants.mainnet else if n == "minimal" then some Constants.minimal else none
  answer genT ++ " | " ++ answer specT

def schedStr (spe : UInt64) (c : Schedule) : String :=
  ",".intercalate ([toString spe.toNat] ++ (Fork.all.map (fun f => hexU32 (c.versionOf f))) ++
    ((Fork.all.drop 1).map (fun f => toString (c.epochOf f))))

/-- `cfgfile S a,b,c`: a configuration written to YAML files and loaded through `configs.SpecOptions.Spec`
carries exactly the written values (oracle: what was written), and reports the version of `forkAt` of the
written schedule at epochs 0 and 1. The model column evaluates the regenerated `ForkVersion` on the written
schedule. -/
def cfgFileLine (sTok extra : String) : String :=
  match parseSchedule sTok, (extra.splitOn ",").mapM parseU64 with
  | some (spe, c), some [a, b, d] =>
    if spe = 0 || !decide c.Monotone then "bad-op" else
    let head := s!"ok {schedStr spe c} {a.toNat},{b.toNat},{d.toNat}"
    let fvM (slot : UInt64) := match Gen.GoFuns.ForkVersion (goSpec spe c) slot with
      | .ok v => hexU32 v
      | r => r.render hexU32
    head ++ s!" fv0={fvM 0} fv1={fvM spe}" ++ " | " ++
      head ++ s!" fv0={hexU32 (versionAt c 0)} fv1={hexU32 (versionAt c 1)}"
  | _, _ => "bad-op"

def c14Line (line : String) : String :=
  let toks := tokens line
  let bad := "bad-op"
  match toks with
  | ["fv", s, slot] =>
    match parseSchedule s, parseU64 slot with
    | some (spe, c), some slot =>
      let m := (Gen.GoFuns.ForkVersion (goSpec spe c) slot).render hexU32
      -- outside the specification's domain: zero SLOTS_PER_EPOCH, non-monotone fork epochs
      let sp := if spe = 0 || !decide c.Monotone then "any" else "ok " ++ hexU32 (versionAt c (slot.toNat / spe.toNat))
      m ++ " | " ++ sp
    | _, _ => bad
  | ["fvb", name, slot] =>
    match genTable name >>= scheduleOfTable, specTable name >>= scheduleOfTable, parseU64 slot with
    | some (gspe, gc), some (sspe, sc), some slot =>
      (Gen.GoFuns.ForkVersion (goSpec gspe gc) slot).render hexU32 ++ " | ok " ++
        hexU32 (versionAt sc (slot.toNat / sspe.toNat))
    | _, _, _ => bad
  | ["fd", s, gvr, epoch] =>
    match parseSchedule s, parseHex gvr, parseU64 epoch with
    | some (_, c), some gvr, some epoch =>
      if gvr.size != 32 || !decide c.Monotone then bad else
      -- model: the regenerated if-chain picks a decoder field; the field holds the digest of its version;
      -- the regenerated switch allocates the first case whose digest matches
      let g := evalChain c epoch.toNat genChain.1 genChain.2
      let dig := forkDigest H (decoderVersion c g) gvr
      let al := allocate genAllocator (fun f => forkDigest H (decoderVersion c f) gvr) dig
      let f := forkAt c epoch.toNat
      let sdig := forkDigest H (c.versionOf f) gvr
      let sal := if versionClash c f then "any" else if f = .fulu then "err" else f.name
      let m := s!"ok {toHex dig} {allocName al}"
      if sal = "any" then
        -- the digest is still determined; only the block type is not
        if dig = sdig then m ++ " | any" else m ++ s!" | ok {toHex sdig} ?"
      else m ++ s!" | ok {toHex sdig} {sal}"
    | _, _, _ => bad
  | ["alloc", s, gvr, dig] =>
    match parseSchedule s, parseHex gvr, parseHex dig with
    | some (_, c), some gvr, some dig =>
      if gvr.size != 32 || dig.size != 4 then bad else
      let al := allocate genAllocator (fun f => forkDigest H (decoderVersion c f) gvr) dig
      let owners := (Fork.all.filter (fun f => forkDigest H (c.versionOf f) gvr = dig))
      let sp := match owners with
        | [] => "err"
        | [f] => if f = .fulu then "err" else "ok " ++ f.name
        | _ => "any"
      (match al with | some f => "ok " ++ f.name | none => "err") ++ " | " ++ sp
    | _, _, _ => bad
  | "chain" :: s :: targets => chainLine "chain" s targets
  | "chaing" :: s :: targets => chainLine "chaing" s targets
  | "dom" :: s :: gvr :: targets => domLine s gvr targets
  | ["specapi", names, legacy, mask] => specApiLine names legacy mask
  | ["cfgfile", sTok, extra] => cfgFileLine sTok extra
  | ["env", fork, _seed] =>
    match Fork.ofName? fork with
    | some f =>
      if f = .fulu then bad else
      if roundTripOk f.name then s!"ok {f.name} root=same bytes=same blockroot=same header=same body=same sig=same digest=same"
      else "ok table-not-identity"
    | none => bad
  | ["sig", s, slot, gvr, gvrSign, root, vIdx, dIdx, dGvr, penv, prop, signer, pub, kind] =>
    -- envelope for `slot` carrying digest(version of fork #dIdx, dGvr), signed by key `signer` under
    -- version of fork #vIdx and genesis root gvrSign; verified against (gvr, proposer prop, key pub)
    match parseSchedule s, parseU64 slot, parseHex gvr, parseHex gvrSign, parseHex root with
    | some (spe, c), some slot, some gvr, some gvrSign, some root =>
      match vIdx.toNat?, dIdx.toNat?, parseHex dGvr, parseU64 penv, parseU64 prop with
      | some vi, some di, some dGvr, some penv, some prop =>
        if spe = 0 || !decide c.Monotone || gvr.size != 32 || gvrSign.size != 32 || root.size != 32 || dGvr.size != 32 || vi > 6 || di > 6 then bad else
        let fv := Fork.all[vi]!
        let fdg := Fork.all[di]!
        let signedMsg := signingRoot H root (computeDomain H DOMAIN_BEACON_PROPOSER (c.versionOf fv) gvrSign)
        let envDigest := forkDigest H (c.versionOf fdg) dGvr
        let e := slot.toNat / spe.toNat
        -- ideal BLS: the signature verifies for exactly the message it was made over, with the signer's key
        let bls (msg : ByteArray) : Bool := kind == "good" && signer == pub && decide (msg = signedMsg)
        let verdict (v : UInt32) : Bool := verifyEnvelopeVersioned H bls v gvr penv prop envDigest root
        let m := match Gen.GoFuns.ForkVersion (goSpec spe c) slot with
          | .ok v => "ok " ++ boolStr (verdict v)
          | r => r.render hexU32
        m ++ " " ++ toHex signedMsg ++ " | ok " ++ boolStr (verdict (versionAt c e)) ++ " " ++ toHex signedMsg
      | _, _, _, _, _ => bad
    | _, _, _, _, _ => bad
  | ["const", name, key] =>
    match genTable name, specTable name with
    | some g, some sp =>
      if Constants.notInStruct.contains key then "absent | absent"
      else renderOpt (Constants.lookup g key) ++ " | " ++ renderOpt (Constants.lookup sp key)
    | _, _ => bad
  | ["constkeys", name] =>
    match genTable name, specTable name with
    | some g, some sp => keysLine g ++ " | " ++ keysLine sp
    | _, _ => bad
  | ["goconst", key] =>
    renderOpt (Constants.lookup2 Gen.Configs.goConsts key) ++ " | " ++ renderOpt (Constants.lookup2 Constants.goLevel key)
  | _ => bad

def c14Mode : Driver.Mode := Driver.stateless "c14" c14Line

end Zrnt.Config
