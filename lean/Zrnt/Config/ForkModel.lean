import Zrnt.Config.Spec
import Zrnt.Gen.Configs
import Zrnt.Prelude.Res
/-!
# Code-shaped models of the fork dispatch in `eth2/beacon/fork.go` (property C14)

The shapes (which field is compared, in which order, what is returned) are **not** written here: they are
read from the regenerated tables `Zrnt.Gen.Configs.*` by the `interp…` functions below, so the models
follow /repo's source. What is written here is only the *meaning* of a recognised shape:

* `evalChain`     — `if epoch < E₁ {return r₁} else if epoch < E₂ {return r₂} … else {return d}`
* `allocate`      — `switch digest { case d.F₁: … }` = first case whose value equals the digest
* `upgradeMaybe`  — the sequence of independent `if state is T && slot == Slot(E)*SLOTS_PER_EPOCH { state = upgrade(state) }`
* envelope tables — field-to-field copies

The specification side is `forkAt` (Zrnt.Config.Spec). Core Lean only.
-/
namespace Zrnt.Config
open Zrnt

namespace Fork
def decoderField : Fork → String
  | phase0 => "Genesis" | altair => "Altair" | bellatrix => "Bellatrix" | capella => "Capella"
  | deneb => "Deneb" | electra => "Electra" | fulu => "Fulu"
def upper : Fork → String
  | phase0 => "GENESIS" | altair => "ALTAIR" | bellatrix => "BELLATRIX" | capella => "CAPELLA"
  | deneb => "DENEB" | electra => "ELECTRA" | fulu => "FULU"
def epochField (f : Fork) : String := f.upper ++ "_FORK_EPOCH"
def versionField (f : Fork) : String := f.upper ++ "_FORK_VERSION"
def ofDecoderField? (s : String) : Option Fork := all.find? (fun f => f.decoderField = s)
def ofEpochField? (s : String) : Option Fork := (all.drop 1).find? (fun f => f.epochField = s)
def ofVersionField? (s : String) : Option Fork := all.find? (fun f => f.versionField = s)
end Fork

def stripPrefix? (p s : String) : Option String :=
  if s.startsWith p then some (s.drop p.length).toString else none

/-! ## `ForkDecoder.ForkDigest` -/

/-- rows `(fork whose epoch is compared, fork whose digest is returned)` and the default -/
abbrev Chain := List (Fork × Fork) × Fork

def interpChain (rows : List (String × String)) (dflt : String) : Option Chain := do
  let rs ← rows.mapM (fun r => do
    let e ← (stripPrefix? "d.Spec." r.1) >>= Fork.ofEpochField?
    let d ← (stripPrefix? "d." r.2) >>= Fork.ofDecoderField?
    pure (e, d))
  let d ← (stripPrefix? "d." dflt) >>= Fork.ofDecoderField?
  pure (rs, d)

def evalChain (c : Schedule) (epoch : Nat) : List (Fork × Fork) → Fork → Fork
  | [], d => d
  | (e, r) :: rest, d => if epoch < c.epochOf e then r else evalChain c epoch rest d

/-- the decoder field ↦ the fork whose version initialises it (`NewForkDecoder`) -/
def interpDecoder (rows : List (String × String)) : Option (List (Fork × Fork)) :=
  (rows.filter (fun r => r.1 != "Spec")).mapM (fun r => do
    let f ← Fork.ofDecoderField? r.1
    let v ← Fork.all.find? (fun v => r.2 == "common.ComputeForkDigest(spec." ++ v.versionField ++ ", genesisValRoot)")
    pure (f, v))

/-! ## `ForkDecoder.BlockAllocator` -/

def interpAllocator (rows : List (String × String)) : Option (List (Fork × Fork)) :=
  rows.mapM (fun r => do
    let f ← (stripPrefix? "d." r.1) >>= Fork.ofDecoderField?
    let ty ← Fork.all.find? (fun t => r.2 == t.name ++ ".SignedBeaconBlock")
    pure (f, ty))

/-- `switch digest {case d.F: …}`: the first case whose digest equals the argument; `none` = the erroring default -/
def allocate {δ : Type} [DecidableEq δ] (rows : List (Fork × Fork)) (digestOf : Fork → δ) (d : δ) : Option Fork :=
  (rows.find? (fun r => digestOf r.1 = d)).map (·.2)

/-! ## `UpgradeMaybe` along `ProcessSlots` -/

/-- what the transition records about the fork: state type and `state.fork` -/
structure FState where
  ty : Fork
  prev : UInt32
  cur : UInt32
  epoch : UInt64
  slot : UInt64
  deriving Repr, DecidableEq

/-- `(pre type, fork whose epoch triggers, post type)`; the post type's upgrade may be unsupported -/
abbrev UpChain := List (Fork × Fork × Fork)

def Fork.capName : Fork → String
  | .phase0 => "Phase0" | .altair => "Altair" | .bellatrix => "Bellatrix" | .capella => "Capella"
  | .deneb => "Deneb" | .electra => "Electra" | .fulu => "Fulu"

def interpUpgrade (rows : List (String × String × String)) : Option UpChain :=
  rows.mapM (fun r => do
    let pre ← Fork.all.find? (fun p => r.1 == "*" ++ p.name ++ ".BeaconStateView")
    let e ← Fork.all.find? (fun e => r.2.1 == "common.Slot(spec." ++ e.epochField ++ ") * spec.SLOTS_PER_EPOCH")
    let post ← Fork.all.find? (fun p => r.2.2 == p.name ++ ".UpgradeTo" ++ p.capName ++ "(spec, epc, tpre)")
    pure (pre, e, post))

/-- the forks whose `UpgradeToX` builds `Fork{PreviousVersion: preFork.CurrentVersion,
CurrentVersion: spec.X_FORK_VERSION, Epoch: spec.SlotToEpoch(slot)}` (others return an error) -/
def interpUpgradeFork (rows : List (String × List (String × String))) : Option (List Fork) :=
  (rows.filter (fun r => r.2.length > 1)).mapM (fun r => do
    let f ← Fork.ofName? r.1
    let want : List (String × String) := [
      ("func", "UpgradeTo" ++ f.capName),
      ("PreviousVersion", "preFork.CurrentVersion"),
      ("CurrentVersion", "spec." ++ f.versionField),
      ("Epoch", "spec.SlotToEpoch(slot)"),
      ("preFork", "pre.Fork()"),
      ("slot", "pre.Slot()")]
    if r.2 == want then pure f else none)

/-- `Slot(spec.X_FORK_EPOCH) * spec.SLOTS_PER_EPOCH` in wrapping 64-bit arithmetic -/
def boundarySlot (c : Schedule) (spe : UInt64) (f : Fork) : UInt64 := UInt64.ofNat (c.epochOf f) * spe

def upgradeMaybe (chain : UpChain) (supported : List Fork) (c : Schedule) (spe : UInt64) : UpChain → FState → Res FState
  | [], s => .ok s
  | (pre, e, post) :: rest, s =>
    if s.ty = pre ∧ s.slot = boundarySlot c spe e then
      if supported.contains post then
        if spe = 0 then .panic   -- spec.SlotToEpoch(slot) divides by SLOTS_PER_EPOCH
        else upgradeMaybe chain supported c spe rest
          { s with ty := post, prev := s.cur, cur := c.versionOf post, epoch := s.slot / spe }
      else .err
    else upgradeMaybe chain supported c spe rest s

/-- the fork-relevant part of `ProcessSlots`: per slot, increment then `UpgradeMaybe` -/
def processSlots (chain : UpChain) (supported : List Fork) (c : Schedule) (spe : UInt64) : Nat → FState → Res FState
  | 0, s => .ok s
  | n + 1, s =>
    match upgradeMaybe chain supported c spe chain { s with slot := s.slot + 1 } with
    | .ok s' => processSlots chain supported c spe n s'
    | r => r

/-- `Fork.GetDomain` / `common.GetDomain` (common/versioning.go): the version a state's fork record yields for
a message epoch: the previous version strictly before the record's epoch, the current version from it on -/
def domainVersion (s : FState) (epoch : UInt64) : UInt32 := if epoch < s.epoch then s.prev else s.cur

/-! ## Envelope tables -/

/-- components of a signed block / envelope that the conversions move around -/
inductive Comp where
  | slot | proposer | parentRoot | stateRoot | body | signature
  | bodyRoot      -- hash_tree_root(body)
  | headerRoot    -- hash_tree_root(header(slot, proposer, parent, state, bodyRoot)) = hash_tree_root(block)
  | digestArg     -- the digest passed to `Envelope`
  deriving DecidableEq, Repr

/-- meaning of the expressions that may appear on the right-hand sides of `Header` (over `block`) -/
def denoteHeaderExpr : String → Option Comp
  | "block.Slot" => some .slot
  | "block.ProposerIndex" => some .proposer
  | "block.ParentRoot" => some .parentRoot
  | "block.StateRoot" => some .stateRoot
  | "block.Body.HashTreeRoot(spec, tree.GetHashFn())" => some .bodyRoot
  | _ => none

/-- `Header` is the spec's header of the block: each header field from the same-named block field -/
def headerOk (fields : List (String × String)) : Bool :=
  fields == [(":type", "common.BeaconBlockHeader")] ++
    [("Slot", "block.Slot"), ("ProposerIndex", "block.ProposerIndex"), ("ParentRoot", "block.ParentRoot"),
     ("StateRoot", "block.StateRoot"), ("BodyRoot", "block.Body.HashTreeRoot(spec, tree.GetHashFn())")]

/-- envelope field ↦ block component, for an `Envelope` method whose header is `b.Message.Header(spec)` -/
def denoteEnvelope (fields : List (String × String)) : Option (List (String × List Comp)) :=
  fields.mapM (fun r =>
    match r.1, r.2 with
    | ":type", "common.BeaconBlockEnvelope" => some (":type", [])
    | "ForkDigest", "digest" => some ("ForkDigest", [.digestArg])
    | "BeaconBlockHeader", "*(b.Message.Header(spec))" =>
        some ("BeaconBlockHeader", [.slot, .proposer, .parentRoot, .stateRoot, .bodyRoot])
    | "Body", "&b.Message.Body" => some ("Body", [.body])
    | "BlockRoot", "(b.Message.Header(spec)).HashTreeRoot(tree.GetHashFn())" => some ("BlockRoot", [.headerRoot])
    | "Signature", "b.Signature" => some ("Signature", [.signature])
    | _, _ => none)

/-- block field ↦ component, reading the envelope produced by `denoteEnvelope` -/
def denoteToBlock (pkg : String) (row : String × String × List (String × String)) : Option (List (String × Comp)) :=
  if row.1 != "*" ++ pkg ++ ".BeaconBlockBody" || row.2.1 != pkg ++ ".SignedBeaconBlock" then none else
  row.2.2.mapM (fun r =>
    match r.1, r.2 with
    | "Message:type", t => if t == pkg ++ ".BeaconBlock" then some ("Message:type", .body) else none
    | "Message.Slot", "benv.Slot" => some ("Slot", .slot)
    | "Message.ProposerIndex", "benv.ProposerIndex" => some ("ProposerIndex", .proposer)
    | "Message.ParentRoot", "benv.ParentRoot" => some ("ParentRoot", .parentRoot)
    | "Message.StateRoot", "benv.StateRoot" => some ("StateRoot", .stateRoot)
    | "Message.Body", "*x" => some ("Body", .body)
    | "Signature", "benv.Signature" => some ("Signature", .signature)
    | _, _ => none)

/-- the round trip block → envelope → block is the identity on every block field, for package `pkg` -/
def roundTripOk (pkg : String) : Bool :=
  match Gen.Configs.envelopeMethods.find? (·.1 == pkg), Gen.Configs.headerMethods.find? (·.1 == pkg),
        Gen.Configs.envelopeToBlock.find? (·.1 == "*" ++ pkg ++ ".BeaconBlockBody") with
  | some em, some hm, some tb =>
    headerOk hm.2 &&
    (denoteEnvelope em.2 == some [(":type", []), ("ForkDigest", [.digestArg]),
        ("BeaconBlockHeader", [.slot, .proposer, .parentRoot, .stateRoot, .bodyRoot]),
        ("Body", [.body]), ("BlockRoot", [.headerRoot]), ("Signature", [.signature])]) &&
    (denoteToBlock pkg tb == some [("Message:type", .body), ("Slot", .slot), ("ProposerIndex", .proposer),
        ("ParentRoot", .parentRoot), ("StateRoot", .stateRoot), ("Body", .body), ("Signature", .signature)])
  | _, _, _ => false

/-! ## The tables as interpreted now (used by `zmodel`; the theorems pin them by `decide`) -/

def genChain : Chain :=
  (interpChain Gen.Configs.forkDigestChain Gen.Configs.forkDigestDefault).getD ([], .phase0)
def genDecoder : List (Fork × Fork) := (interpDecoder Gen.Configs.newForkDecoder).getD []
def genAllocator : List (Fork × Fork) := (interpAllocator Gen.Configs.blockAllocator).getD []
def genUpgrade : UpChain := (interpUpgrade Gen.Configs.upgradeChain).getD []
def genSupported : List Fork := (interpUpgradeFork Gen.Configs.upgradeFork).getD []

end Zrnt.Config
