/-! Value of a configuration constant (shared by the regenerated table `Zrnt.Gen.Configs` and the
hand-transcribed oracle `Zrnt.Config.Constants`). Hex strings are lower-case without `0x`. -/
namespace Zrnt.Config

inductive Val where
  | num (n : Nat)
  | hex (s : String)
  | str (s : String)
  deriving DecidableEq, Repr, Inhabited

def Val.render : Val → String
  | .num n => toString n
  | .hex s => "0x" ++ s
  | .str s => "'" ++ s ++ "'"

end Zrnt.Config
