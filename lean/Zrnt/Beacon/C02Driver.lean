import Zrnt.Driver.Loop
import Zrnt.Beacon.Spec.Transition
import Zrnt.Beacon.Impl.Epoch
import Zrnt.Beacon.Impl.Pipeline
import Zrnt.Beacon.Impl.Slots
/-!
`zmodel c02`. Every op line is  `<op> [<sub>] key=value …`  where the key=value tokens are the flat
pre-state, the configuration constants and the op's extra inputs:

* `echo`                      → abbreviated flat form of the parsed state (format round trip)
* `epoch <sub>`               → one epoch sub-transition (or `all` = `process_epoch`) on the pre-state;
                                for `justification`, `registry`, `slashings`, `effective_balance`, `all` the answer is
                                `<code-shaped model M> | <specification S>`
* `slots target=<slot> sroots=<slot>:<root>,…`  → `process_slots` incl. fork upgrades, as `<M> | <S>` (M: the same slot
                                loop with the code-shaped `ProcessEpoch` pipeline at the epoch boundaries)
* `upgrade`                   → the fork upgrade(s) due at the pre-state's slot (if any), as `<M> | <S>`

Extra inputs supplied by the Go side (documented assumptions of the evidence):
`sroots`  hash_tree_root(state) at the start of each processed slot (SSZ merkleization of the state is C05's subject),
`aggs`    `<sha256(pk_1 ‖ … ‖ pk_n)>:<eth_aggregate_pubkeys([pk_1..pk_n])>,…` (BLS is not modelled).

Answers: `ok <abbreviated flat post-state>`, `err` (the spec rejects: assert / index error / division by
zero), `any` (a uint64 overflow in the spec or an exhausted loop bound: unreachable states, Go wraps silently),
`bad-op`.
-/
namespace Zrnt.Beacon
open Zrnt Zrnt.Text Zrnt.Beacon.Spec

def parseAggs (s : String) : Option (List (Bytes × Bytes)) :=
  if s = "-" then some [] else
  (s.splitOn ",").mapM fun e =>
    match e.splitOn ":" with
    | [k, v] => do pure (← parseHex k, ← parseHex v)
    | _ => none

def parseRoots (s : String) : Option (List (Nat × Bytes)) :=
  if s = "-" then some [] else
  (s.splitOn ",").mapM fun e =>
    match e.splitOn ":" with
    | [k, v] => do pure (← k.toNat?, ← parseHex v)
    | _ => none

def aggOracleOf (tbl : List (Bytes × Bytes)) : AggOracle := fun pks =>
  let key := Sha256.hash (pks.foldl (· ++ ·) ByteArray.empty)
  (tbl.find? (·.1 = key)).map (·.2)

def rootOracleOf (tbl : List (Nat × Bytes)) : RootOracle := fun slot =>
  (tbl.find? (·.1 = slot)).map (·.2)

def render (r : SM State) : String :=
  match r with
  | .ok s => "ok " ++ printStateAbbrev s
  | .error (.invalid _) => "err"
  | .error (.overflow _) => "any"
  | .error (.fuel _) => "any"
  | .error (.oracle _) => "err-oracle"

/-- human-readable variant for debugging (`ZMODEL_DEBUG`-style op prefix `dbg`) -/
def renderDbg (r : SM State) : String :=
  match r with
  | .ok s => "ok " ++ printState s
  | .error e => "error " ++ reprStr e

/-- The `EpochInputs` of the pure pipelines, obtained the way the monadic functions obtain them; the computed sync
committee is read off the monadic result `post` (it is the new `next_sync_committee` at a period boundary).
`viaCtx` (the model column): the phase0 pending attestations are resolved the way the code resolves them, through the
epochs context (`Impl.liveCtx`, `Impl.resolveAttsCtx`: `epc.GetBeaconCommittee` + `FilterParticipants`); at the
genesis epoch neither pipeline reads them. -/
def epochInputsOf (cfg : Config) (s post : State) (viaCtx : Bool := false) : SM EpochInputs := do
  let (prevAtts, currAtts) ←
    if s.fork ≠ .phase0 then pure (([] : List ResolvedAtt), ([] : List ResolvedAtt))
    else if viaCtx then
      if get_current_epoch cfg s = GENESIS_EPOCH then pure ([], [])
      else do
        let epc ← Ctx.liftRes (Impl.liveCtx cfg s)
        let p ← Impl.resolveAttsCtx cfg epc s (get_previous_epoch cfg s) s.previous_epoch_attestations
        let c ← Impl.resolveAttsCtx cfg epc s (get_current_epoch cfg s) s.current_epoch_attestations
        pure (p, c)
    else do
      let p ← resolve_attestations cfg s (get_previous_epoch cfg s)
      let c ← resolve_attestations cfg s (get_current_epoch cfg s)
      pure (p, c)
  let roots ← justification_inputs cfg s
  let boundary := (get_current_epoch cfg s + 1) % cfg.EPOCHS_PER_SYNC_COMMITTEE_PERIOD = 0
  pure { prevAtts := prevAtts, currAtts := currAtts,
         prevRoot := (roots.map (·.previous_root)).getD ZERO32, curRoot := (roots.map (·.current_root)).getD ZERO32,
         computedSync := if boundary then post.next_sync_committee else none }

/-- the monadic result, provided the pure pipeline (the subject of `processEpoch_eq`) gives the same state -/
def withPipelineCheck (cfg : Config) (s : State) (pipeline : Config → EpochInputs → State → State) (r : SM State)
    (viaCtx : Bool := false) : SM State := do
  let post ← r
  let inp ← epochInputsOf cfg s post viaCtx
  if pipeline cfg inp s = post then pure post else throw (.oracle "pure pipeline disagrees with the monadic one")

def epochSub (cfg : Config) (agg : AggOracle) (sub : String) (s : State) : Option (SM State) :=
  match sub with
  | "all" => some (withPipelineCheck cfg s process_epoch_pure (process_epoch cfg agg s))
  | "justification" => some (process_justification_and_finalization cfg s)
  | "inactivity" => if s.fork = .phase0 then none else some (process_inactivity_updates cfg s)
  | "rewards" => some (process_rewards_and_penalties cfg s)
  | "registry" => some (process_registry_updates cfg s)
  | "slashings" => some (process_slashings cfg s)
  | "eth1_reset" => some (process_eth1_data_reset cfg s)
  | "effective_balance" => some (process_effective_balance_updates cfg s)
  | "slashings_reset" => some (process_slashings_reset cfg s)
  | "randao_reset" => some (process_randao_mixes_reset cfg s)
  | "historical" => some (if s.fork ≥ .capella then process_historical_summaries_update cfg s
                          else process_historical_roots_update cfg s)
  | "participation" => some (if s.fork = .phase0 then process_participation_record_updates s
                             else process_participation_flag_updates s)
  | "sync_committee" => if s.fork = .phase0 then none else some (process_sync_committee_updates cfg agg s)
  | _ => none

/-- the code-shaped model `M` of a sub-transition, where there is one -/
def epochSubM (cfg : Config) (agg : AggOracle) (sub : String) (s : State) : Option (SM State) :=
  match sub with
  | "all" => some (withPipelineCheck cfg s Impl.processEpochPure (Impl.processEpochM cfg agg s) (viaCtx := true))
  | "justification" => some (Impl.justificationM cfg s)
  | "inactivity" => if s.fork = .phase0 then none else some (Impl.inactivityM cfg s)
  | "rewards" => if s.fork = .phase0 then some (Impl.rewardsPhase0M cfg s) else some (Impl.rewardsAltairM cfg s)
  | "registry" => some (Impl.registryM cfg s.validators s)
  | "slashings" => some (Impl.slashingsM cfg s.validators s)
  | "effective_balance" => some (Impl.effectiveBalanceM cfg s.validators s)
  | "eth1_reset" => some (Impl.eth1ResetM cfg s)
  | "slashings_reset" => some (Impl.slashingsResetM cfg s)
  | "randao_reset" => some (Impl.randaoResetM cfg s)
  | "historical" => some (Impl.historicalM cfg s)
  | "participation" => some (Impl.participationM s)
  | "sync_committee" => if s.fork = .phase0 then none else some (Impl.syncCommitteeM cfg agg s.validators s)
  | _ => none

/-- `UpgradeMaybe` as coded (`Impl.upgradeMaybe`), with the inputs obtained the way the monadic spec obtains them -/
def upgradeMaybeM (cfg : Config) (agg : AggOracle) (s : State) : SM State := do
  let post ← upgrade_maybe cfg agg s
  let toAltair := s.fork = .phase0 && at_fork_epoch cfg cfg.ALTAIR_FORK_EPOCH s
  -- `altair.TranslateParticipation`: committees from the epochs context of the pre state
  let atts ← if toAltair then do
      let epc ← Ctx.liftRes (Impl.liveCtx cfg s)
      Impl.resolveFlagAttsCtx cfg epc (upgrade_to_altair_pure cfg ⟨[], none⟩ s) s.previous_epoch_attestations
    else pure []
  pure (Impl.upgradeMaybe cfg ⟨atts, post.current_sync_committee⟩ s)

def c02Line (line : String) : String :=
  let toks := tokens line
  let (kv, rest) := parseKV toks
  let dbg := rest.head? = some "dbg"
  let rest := if dbg then rest.drop 1 else rest
  let out := if dbg then renderDbg else render
  match parseConfig kv, parseState kv with
  | .ok cfg, .ok s =>
    let agg := aggOracleOf ((kv.get? "aggs" >>= parseAggs).getD [])
    match rest with
    | ["echo"] => printStateAbbrev s
    | ["epoch", sub] =>
      match epochSub cfg agg sub s with
      | some r =>
        match epochSubM cfg agg sub s with
        | some m => out m ++ " | " ++ out r
        | none => out r
      | none => "bad-op"
    | ["slots"] =>
      match kv.get? "target" >>= (·.toNat?), kv.get? "sroots" >>= parseRoots with
      | some target, some roots =>
        -- model column: `common.ProcessSlots` with the code-shaped `ProcessEpoch` pipeline at the epoch boundaries
        out (process_slots_with Impl.processEpochM cfg agg (rootOracleOf roots) s target) ++ " | " ++
          out (process_slots cfg agg (rootOracleOf roots) s target)
      | _, _ => "bad-op"
    | ["upgrade"] => out (upgradeMaybeM cfg agg s) ++ " | " ++ out (upgrade_maybe cfg agg s)
    | _ => "bad-op"
  | .error e, _ => if dbg then "bad-op config: " ++ e else "bad-op"
  | _, .error e => if dbg then "bad-op state: " ++ e else "bad-op"

def c02Mode : Driver.Mode := Driver.stateless "c02" c02Line

end Zrnt.Beacon
