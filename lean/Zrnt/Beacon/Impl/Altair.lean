import Zrnt.Beacon.Spec.Pure
/-!
# Code-shaped model `M`: altair epoch attester data, flag deltas, inactivity (also bellatrix … deneb)

`altair/attester.go`, `altair/deltas.go`, `altair/inactivity_scores.go`, `common/deltas.go`.
`flats` is the `FlatValidator` snapshot, `prevActive` / `currActive` are `epc.PreviousEpoch.ActiveIndices` /
`epc.CurrentEpoch.ActiveIndices`, `totalActiveStake` / `sqRoot` are `epc.TotalActiveStake(SqRoot)`.
-/
namespace Zrnt.Beacon.Impl
open Zrnt.Beacon Zrnt.Beacon.Spec

/-- `TIMELY_SOURCE_FLAG = 1<<0`, `TIMELY_TARGET_FLAG = 1<<1`, `TIMELY_HEAD_FLAG = 1<<2` -/
def flagMask (flagIndex : Nat) : Nat := 1 <<< flagIndex

def flatEff (flats : List Validator) (vi : Nat) : Nat := (flats.getD vi default).effective_balance
def flatSlashed (flats : List Validator) (vi : Nat) : Bool := (flats.getD vi default).slashed

structure AltairAttesterData where
  eligibleIndices : List Nat
  prevSourceStake : Nat
  prevTargetStake : Nat
  prevHeadStake : Nat
  currTargetStake : Nat

def clampIncrement (cfg : Config) (x : Nat) : Nat :=
  if x < cfg.EFFECTIVE_BALANCE_INCREMENT then cfg.EFFECTIVE_BALANCE_INCREMENT else x

/-- one accumulating loop `for _, vi := range active { if !slashed && part[vi]&flag != 0 { acc += effBal } }` -/
def stakeLoop (flats : List Validator) (participation : List Nat) (mask : Nat) (active : List Nat) : Nat :=
  active.foldl (fun acc vi =>
    if !flatSlashed flats vi && (participation.getD vi 0 &&& mask) != 0 then acc + flatEff flats vi else acc) 0

/-- `altair.ComputeEpochAttesterData` (after fix 2e74fa1: the current-epoch target stake runs over the
current epoch's active indices). The three previous-epoch stakes share one loop in the Go code; the
accumulators are independent, so they are modelled as three runs of the same loop. -/
def computeEpochAttesterDataAltair (cfg : Config) (flats : List Validator) (prevParticipation currParticipation : List Nat)
    (prevEpoch : Nat) (prevActive currActive : List Nat) : AltairAttesterData :=
  let eligible := (List.range flats.length).filter fun i =>
    match flats[i]? with
    | some flat => is_active_validator flat prevEpoch || (flat.slashed && prevEpoch + 1 < flat.withdrawable_epoch)
    | none => false
  { eligibleIndices := eligible
    prevSourceStake := clampIncrement cfg (stakeLoop flats prevParticipation (flagMask 0) prevActive)
    prevTargetStake := clampIncrement cfg (stakeLoop flats prevParticipation (flagMask 1) prevActive)
    prevHeadStake := clampIncrement cfg (stakeLoop flats prevParticipation (flagMask 2) prevActive)
    currTargetStake := clampIncrement cfg (stakeLoop flats currParticipation (flagMask 1) currActive) }

/-- `altair.ComputeFlagDeltas` -/
def computeFlagDeltas (cfg : Config) (flats : List Validator) (prevParticipation : List Nat)
    (prevActive eligibleIndices : List Nat) (totalActiveStake sqRoot : Nat) (flag weight : Nat)
    (isInactivityLeak : Bool) : Deltas :=
  let unslashedParticipatingTotalBalance := clampIncrement cfg (stakeLoop flats prevParticipation flag prevActive)
  let unslashedParticipatingIncrements := unslashedParticipatingTotalBalance / cfg.EFFECTIVE_BALANCE_INCREMENT
  let activeIncrements := totalActiveStake / cfg.EFFECTIVE_BALANCE_INCREMENT
  let baseRewardPerIncrement := (cfg.EFFECTIVE_BALANCE_INCREMENT * cfg.BASE_REWARD_FACTOR) / sqRoot
  eligibleIndices.foldl (fun (out : Deltas) vi =>
    let effBal := flatEff flats vi
    let increments := effBal / cfg.EFFECTIVE_BALANCE_INCREMENT
    let baseReward := increments * baseRewardPerIncrement
    let flagParticipation := (prevParticipation.getD vi 0 &&& flag) != 0
    let slashed := flatSlashed flats vi
    if !slashed && flagParticipation then
      if !isInactivityLeak then
        let rewardNumerator := (baseReward * weight) * unslashedParticipatingIncrements
        let rewardDenominator := activeIncrements * WEIGHT_DENOMINATOR
        (addAtPure out.1 vi (rewardNumerator / rewardDenominator), out.2)
      else out
    else if flag != flagMask 2 then
      (out.1, addAtPure out.2 vi ((baseReward * weight) / WEIGHT_DENOMINATOR))
    else out) (zeros flats.length, zeros flats.length)

/-- `altair.ComputeInactivityPenaltyDeltas` -/
def computeInactivityPenaltyDeltas (cfg : Config) (flats : List Validator) (prevParticipation inactivityScores : List Nat)
    (eligibleIndices : List Nat) (inactivityPenaltyQuotient : Nat) : Deltas :=
  let penaltyDenominator := cfg.INACTIVITY_SCORE_BIAS * inactivityPenaltyQuotient
  eligibleIndices.foldl (fun (out : Deltas) vi =>
    if !(!flatSlashed flats vi && (prevParticipation.getD vi 0 &&& flagMask 1) != 0) then
      let score := inactivityScores.getD vi 0
      let penaltyNumerator := flatEff flats vi * score
      (out.1, addAtPure out.2 vi (penaltyNumerator / penaltyDenominator))
    else out) (zeros flats.length, zeros flats.length)

/-- `common.ApplyDeltas`: one pass over the balances -/
def applyDeltas (balances : List Nat) (deltas : Deltas) : List Nat :=
  (List.range balances.length).map fun i =>
    let bal := balances.getD i 0 + deltas.1.getD i 0
    let penalty := deltas.2.getD i 0
    if bal ≥ penalty then bal - penalty else 0

/-- `altair.ProcessEpochRewardsAndPenalties` after the genesis guard (after fix 28797f6: four passes) -/
def processEpochRewardsAndPenaltiesAltair (cfg : Config) (flats : List Validator) (prevParticipation inactivityScores : List Nat)
    (prevActive eligibleIndices : List Nat) (totalActiveStake sqRoot inactivityPenaltyQuotient : Nat)
    (isInactivityLeak : Bool) (balances : List Nat) : List Nat :=
  let source := computeFlagDeltas cfg flats prevParticipation prevActive eligibleIndices totalActiveStake sqRoot
    (flagMask 0) TIMELY_SOURCE_WEIGHT isInactivityLeak
  let target := computeFlagDeltas cfg flats prevParticipation prevActive eligibleIndices totalActiveStake sqRoot
    (flagMask 1) TIMELY_TARGET_WEIGHT isInactivityLeak
  let head := computeFlagDeltas cfg flats prevParticipation prevActive eligibleIndices totalActiveStake sqRoot
    (flagMask 2) TIMELY_HEAD_WEIGHT isInactivityLeak
  let inactivity := computeInactivityPenaltyDeltas cfg flats prevParticipation inactivityScores eligibleIndices
    inactivityPenaltyQuotient
  [source, target, head, inactivity].foldl applyDeltas balances

/-- `altair.ProcessInactivityUpdates` after the genesis guard -/
def processInactivityUpdates (cfg : Config) (flats : List Validator) (prevParticipation : List Nat)
    (eligibleIndices : List Nat) (isInactivityLeak : Bool) (inactivityScores : List Nat) : List Nat :=
  eligibleIndices.foldl (fun scores vi =>
    match scores[vi]? with
    | none => scores
    | some score =>
      let newScore := score
      let newScore :=
        if !flatSlashed flats vi && (prevParticipation.getD vi 0 &&& flagMask 1) != 0 then
          (if newScore > 0 then newScore - 1 else newScore)
        else newScore + cfg.INACTIVITY_SCORE_BIAS
      let newScore :=
        if !isInactivityLeak then
          (if newScore < cfg.INACTIVITY_SCORE_RECOVERY_RATE then 0 else newScore - cfg.INACTIVITY_SCORE_RECOVERY_RATE)
        else newScore
      -- `if newScore != score { SetScore }`
      if newScore != score then scores.set vi newScore else scores) inactivityScores

end Zrnt.Beacon.Impl
