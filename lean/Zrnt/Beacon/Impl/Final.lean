import Zrnt.Beacon.Spec.Pure
/-!
# Code-shaped model `M`: the final updates (`phase0/final.go`, `common/randao.go`, `common/history.go`,
`capella/transition.go`, `altair/participation.go`)

The Go code works from `epc.NextEpoch.Epoch` (`nextEpoch` below, `= current + 1`), uses `Epoch.Previous()`
(saturating at 0) and `spec.SlotToEpoch(SLOTS_PER_HISTORICAL_ROOT)`.
-/
namespace Zrnt.Beacon.Impl
open Zrnt.Beacon Zrnt.Beacon.Spec

/-- `Epoch.Previous()` -/
def epochPrevious (e : Nat) : Nat := if e = 0 then 0 else e - 1

/-- `spec.SlotToEpoch(slot)` -/
def slotToEpoch (cfg : Config) (slot : Nat) : Nat := slot / cfg.SLOTS_PER_EPOCH

/-- `phase0.ProcessEth1DataReset`: `votes.Reset()` at the end of a voting period -/
def processEth1DataReset (cfg : Config) (nextEpoch : Nat) (votes : List Eth1Data) : List Eth1Data :=
  if nextEpoch % cfg.EPOCHS_PER_ETH1_VOTING_PERIOD == 0 then [] else votes

/-- `phase0.ProcessSlashingsReset` → `SlashingsView.ResetSlashings(nextEpoch)` -/
def processSlashingsReset (cfg : Config) (nextEpoch : Nat) (slashings : List Nat) : List Nat :=
  slashings.set (nextEpoch % cfg.EPOCHS_PER_SLASHINGS_VECTOR) 0

/-- `phase0.ProcessRandaoMixesReset` → `common.PrepareRandao(mixes, nextEpoch)`:
`prev := GetRandomMix(nextEpoch.Previous()); SetRandomMix(nextEpoch, prev)` -/
def processRandaoMixesReset (cfg : Config) (nextEpoch : Nat) (mixes : List Bytes) : List Bytes :=
  match mixes[epochPrevious nextEpoch % cfg.EPOCHS_PER_HISTORICAL_VECTOR]? with
  | some prev => mixes.set (nextEpoch % cfg.EPOCHS_PER_HISTORICAL_VECTOR) prev
  | none => mixes

/-- `phase0.ProcessHistoricalRootsUpdate` → `common.UpdateHistoricalRoots`: append
`tree.Hash(blockRoots.HashTreeRoot, stateRoots.HashTreeRoot)` ("emulating HistoricalBatch") -/
def processHistoricalRootsUpdate (cfg : Config) (nextEpoch : Nat) (blockRoots stateRoots historicalRoots : List Bytes) : List Bytes :=
  if nextEpoch % slotToEpoch cfg cfg.SLOTS_PER_HISTORICAL_ROOT == 0 then
    historicalRoots ++ [Spec.hash (hash_tree_root_roots_vector blockRoots ++ hash_tree_root_roots_vector stateRoots)]
  else historicalRoots

/-- `capella.ProcessHistoricalSummariesUpdate` → `UpdateHistoricalSummaries` -/
def processHistoricalSummariesUpdate (cfg : Config) (nextEpoch : Nat) (blockRoots stateRoots : List Bytes)
    (summaries : List HistoricalSummary) : List HistoricalSummary :=
  if nextEpoch % slotToEpoch cfg cfg.SLOTS_PER_HISTORICAL_ROOT == 0 then
    summaries ++ [{ block_summary_root := hash_tree_root_roots_vector blockRoots,
                    state_summary_root := hash_tree_root_roots_vector stateRoots }]
  else summaries

/-- `altair.ProcessParticipationFlagUpdates`: previous takes the current list's backing, the current list is
zero-filled to ITS OWN length (`currentEp.FillZeroes(currentEp.Length())`) -/
def processParticipationFlagUpdates (currentParticipation : List Nat) : List Nat × List Nat :=
  (currentParticipation, List.replicate currentParticipation.length 0)

/-- `phase0.ProcessParticipationRecordUpdates`: previous takes the current list's backing, current becomes the default (empty) list -/
def processParticipationRecordUpdates (currentAttestations : List PendingAttestation) :
    List PendingAttestation × List PendingAttestation :=
  (currentAttestations, [])

/-! ## `common.ComputeSyncCommitteeIndices` / `altair.ProcessSyncCommitteeUpdates` -/

/-- The selection loop with the hash of the random-byte source cached in `h` and refreshed every 32 rounds
(`if i%32 == 0 { h = hFn(seed ‖ i/32) }`). `active` is `epc.NextEpoch.ActiveIndices`, `shuffled i` is
`PermuteIndex(rounds, i % len(active), len(active), seed)`. -/
def computeSyncCommitteeIndicesLoop (cfg : Config) (vals : List Validator) (active : List Nat) (seed : Bytes)
    (shuffled : Nat → Nat) : Nat → Nat → Bytes → List Nat → Option (List Nat)
  | 0, _, _, acc => if acc.length ≥ cfg.SYNC_COMMITTEE_SIZE then some acc else none
  | fuel + 1, i, h, acc =>
    if acc.length ≥ cfg.SYNC_COMMITTEE_SIZE then some acc else
    let candidateIndex := active.getD (shuffled i) 0
    let effectiveBalance := eff_of vals candidateIndex
    -- every 32 rounds, create a new source for randomByte
    let h := if i % 32 == 0 then Spec.hash (seed ++ uintToBytes 8 (i / 32)) else h
    let randomByte := (h.get! (i % 32)).toNat
    let acc := if effectiveBalance * 0xff ≥ cfg.MAX_EFFECTIVE_BALANCE * randomByte then acc ++ [candidateIndex] else acc
    computeSyncCommitteeIndicesLoop cfg vals active seed shuffled fuel (i + 1) h acc

def computeSyncCommitteeIndices (cfg : Config) (vals : List Validator) (active : List Nat) (seed : Bytes)
    (shuffled : Nat → Nat) (fuel : Nat) : Option (List Nat) :=
  computeSyncCommitteeIndicesLoop cfg vals active seed shuffled fuel 0 ZERO32 []

/-- `altair.ProcessSyncCommitteeUpdates`: at a period boundary `RotateSyncCommittee(next)` -/
def processSyncCommitteeUpdates (cfg : Config) (nextEpoch : Nat) (current next computed : Option SyncCommittee) :
    Option SyncCommittee × Option SyncCommittee :=
  if nextEpoch % cfg.EPOCHS_PER_SYNC_COMMITTEE_PERIOD == 0 then (next, computed) else (current, next)

end Zrnt.Beacon.Impl
