import Zrnt.Beacon.Spec.Pure
/-!
# Code-shaped model `M`: the final updates (`phase0/final.go`, `common/randao.go`, `common/history.go`,
`capella/transition.go`, `altair/participation.go`)

The Go code works from `epc.NextEpoch.Epoch` (`nextEpoch` below, `= current + 1`), uses `Epoch.Previous()`
(saturating at 0) and `spec.SlotToEpoch(SLOTS_PER_HISTORICAL_ROOT)`.
-/
namespace Zrnt.Beacon.Impl
open Zrnt.Beacon Zrnt.Beacon.Spec

/-- `Epoch.Previous()` -/
def epochPrevious (e : Nat) : Nat := if e = 0 then 0 else e - 1

/-- `spec.SlotToEpoch(slot)` -/
def slotToEpoch (cfg : Config) (slot : Nat) : Nat := slot / cfg.SLOTS_PER_EPOCH

/-- `phase0.ProcessEth1DataReset`: `votes.Reset()` at the end of a voting period -/
def processEth1DataReset (cfg : Config) (nextEpoch : Nat) (votes : List Eth1Data) : List Eth1Data :=
  if nextEpoch % cfg.EPOCHS_PER_ETH1_VOTING_PERIOD == 0 then [] else votes

/-- `phase0.ProcessSlashingsReset` → `SlashingsView.ResetSlashings(nextEpoch)` -/
def processSlashingsReset (cfg : Config) (nextEpoch : Nat) (slashings : List Nat) : List Nat :=
  slashings.set (nextEpoch % cfg.EPOCHS_PER_SLASHINGS_VECTOR) 0

/-- `phase0.ProcessRandaoMixesReset` → `common.PrepareRandao(mixes, nextEpoch)`:
`prev := GetRandomMix(nextEpoch.Previous()); SetRandomMix(nextEpoch, prev)` -/
def processRandaoMixesReset (cfg : Config) (nextEpoch : Nat) (mixes : List Bytes) : List Bytes :=
  match mixes[epochPrevious nextEpoch % cfg.EPOCHS_PER_HISTORICAL_VECTOR]? with
  | some prev => mixes.set (nextEpoch % cfg.EPOCHS_PER_HISTORICAL_VECTOR) prev
  | none => mixes

/-- `phase0.ProcessHistoricalRootsUpdate` → `common.UpdateHistoricalRoots`: append
`tree.Hash(blockRoots.HashTreeRoot, stateRoots.HashTreeRoot)` ("emulating HistoricalBatch") -/
def processHistoricalRootsUpdate (cfg : Config) (nextEpoch : Nat) (blockRoots stateRoots historicalRoots : List Bytes) : List Bytes :=
  if nextEpoch % slotToEpoch cfg cfg.SLOTS_PER_HISTORICAL_ROOT == 0 then
    historicalRoots ++ [Spec.hash (hash_tree_root_roots_vector blockRoots ++ hash_tree_root_roots_vector stateRoots)]
  else historicalRoots

/-- `capella.ProcessHistoricalSummariesUpdate` → `UpdateHistoricalSummaries` -/
def processHistoricalSummariesUpdate (cfg : Config) (nextEpoch : Nat) (blockRoots stateRoots : List Bytes)
    (summaries : List HistoricalSummary) : List HistoricalSummary :=
  if nextEpoch % slotToEpoch cfg cfg.SLOTS_PER_HISTORICAL_ROOT == 0 then
    summaries ++ [{ block_summary_root := hash_tree_root_roots_vector blockRoots,
                    state_summary_root := hash_tree_root_roots_vector stateRoots }]
  else summaries

/-- `altair.ProcessParticipationFlagUpdates`: previous takes the current list's backing, the current list is
zero-filled to ITS OWN length (`currentEp.FillZeroes(currentEp.Length())`) -/
def processParticipationFlagUpdates (currentParticipation : List Nat) : List Nat × List Nat :=
  (currentParticipation, List.replicate currentParticipation.length 0)

/-- `phase0.ProcessParticipationRecordUpdates`: previous takes the current list's backing, current becomes the default (empty) list -/
def processParticipationRecordUpdates (currentAttestations : List PendingAttestation) :
    List PendingAttestation × List PendingAttestation :=
  (currentAttestations, [])

end Zrnt.Beacon.Impl
