import Zrnt.Beacon.Impl.Block
import Zrnt.Util.Merkle
import Zrnt.Beacon.Spec.BlockTransition
/-!
# Code-shaped model `M` of zrnt's whole block processing (`common.PostSlotTransition`, the five `ProcessBlock`s)

Every definition follows the control flow of the named Go function on the flat `State`:
* what the Go code reads from the `EpochsContext` it is GIVEN is read from the record `Ctx` (proposer of the
  slot, committee count and committees, number of active validators, total active stake and its cached
  square root, cached effective balances, pubkey→index cache, indices of the current sync committee).
  `ctxOf cfg s` is the context the specification prescribes for a state (what `NewEpochsContext` has to
  compute: properties C07/C08/C16); the refinement theorems take `CtxOK cfg s ctx` as their hypothesis;
* a tree-view access that returns an error is `Res.err`, a raw slice index out of range is `Res.panic`;
* `uint64` sums and products the Go code performs wrap (`w64`);
* every BLS verification is the same oracle Boolean `S` consumes (BLS is not modelled; the messages and
  domains are the subject of `domain_separation` and of the harness oracle), hash-tree-roots of block
  parts are the same supplied roots.
Deposits extend the context (pubkey cache, effective balances), so operations return `Ctx × State`.
-/
namespace Zrnt.Beacon.BlockM
open Zrnt Zrnt.Beacon Zrnt.Beacon.Spec Zrnt.Beacon.BlockImpl

/-- the part of `common.EpochsContext` block processing reads -/
structure Ctx where
  /-- `epc.GetBeaconProposer(state.slot)`; `none` = it returns an error -/
  proposer : Option Nat
  /-- `epc.GetCommitteeCountPerSlot(epoch)` -/
  committeeCount : Nat → Option Nat
  /-- `epc.GetBeaconCommittee(slot, index)` -/
  committee : Nat → Nat → Option (List Nat)
  /-- `len(epc.CurrentEpoch.ActiveIndices)` -/
  activeCount : Nat
  /-- `epc.TotalActiveStake`, `epc.TotalActiveStakeSqRoot` -/
  totalActiveStake : Nat
  totalActiveStakeSqRoot : Nat
  /-- `epc.EffectiveBalances` -/
  effectiveBalances : List Nat
  /-- `epc.ValidatorPubkeyCache.ValidatorIndex(pubkey)` -/
  pubkeyIndex : Bytes → Option Nat
  /-- `epc.CurrentSyncCommittee.Indices`; `none` = no sync committee loaded -/
  syncIndices : Option (List Nat)

/-- The context the specification prescribes for a state. -/
def ctxOf (cfg : Config) (s : State) : Ctx :=
  let cur := get_current_epoch cfg s
  let inRange (e : Nat) : Bool := (e + 1 == cur || e == cur || e == cur + 1) && e + 1 ≥ cur
  { proposer := (Block.get_beacon_proposer_index cfg s).toOption
    committeeCount := fun e => if inRange e then (get_committee_count_per_slot cfg s e).toOption else none
    committee := fun slot index =>
      let e := compute_epoch_at_slot cfg slot
      if inRange e && index < cfg.MAX_COMMITTEES_PER_SLOT then
        match get_committee_count_per_slot cfg s e with
        | .ok n => if index < n then (get_beacon_committee cfg s slot index).toOption else none
        | .error _ => none
      else none
    activeCount := (get_active_validator_indices s cur).length
    totalActiveStake := match get_total_active_balance cfg s with | .ok v => v | .error _ => 0
    totalActiveStakeSqRoot := match get_total_active_balance cfg s with | .ok v => integer_squareroot v | .error _ => 0
    effectiveBalances := s.validators.map (·.effective_balance)
    pubkeyIndex := fun pk =>
      let i := (s.validators.map (·.pubkey)).findIdx (· = pk)
      if i < s.validators.length then some i else none
    syncIndices := match s.current_sync_committee with
      | none => none
      | some c => c.pubkeys.mapM fun pk =>
          let i := (s.validators.map (·.pubkey)).findIdx (· = pk)
          if i < s.validators.length then some i else none }

def w64 (n : Nat) : Nat := n % 2 ^ 64

/-- a tree-view read `list.Get(i)` -/
def rget {α} (l : List α) (i : Nat) : Res α :=
  match l[i]? with
  | some a => .ok a
  | none => .err

def ofOpt {α} : Option α → Res α
  | some a => .ok a
  | none => .err

def guard (c : Bool) : Res Unit := if c then .ok () else .err

/-- `common.IncreaseBalance` -/
def increaseBalance (s : State) (index delta : Nat) : Res State := do
  let bal ← rget s.balances index
  pure { s with balances := s.balances.set index (w64 (bal + delta)) }

/-- `common.DecreaseBalance` -/
def decreaseBalance (s : State) (index delta : Nat) : Res State := do
  let bal ← rget s.balances index
  pure { s with balances := s.balances.set index (if bal ≥ delta then bal - delta else 0) }

/-! ## header, randao, eth1 vote -/

/-- `common.ProcessHeader(…, expectedProposer)` -/
def processHeader (s : State) (block : SignedBlock) (expectedProposer : Nat) : Res State := do
  -- Verify that the slots match
  guard (block.slot = s.slot)
  guard (!(block.slot ≤ s.latest_block_header.slot))
  -- vals.IsValidIndex(header.ProposerIndex)
  guard (block.proposer_index < s.validators.length)
  guard (block.proposer_index = expectedProposer)
  -- Verify that the parent matches
  guard (block.parent_root = hash_tree_root_header s.latest_block_header)
  let validator ← rget s.validators block.proposer_index
  -- Verify proposer is not slashed
  guard (!validator.slashed)
  -- Store as the new latest block
  pure { s with latest_block_header :=
    { slot := block.slot, proposer_index := block.proposer_index, parent_root := block.parent_root,
      state_root := ZERO32, body_root := block.o_body_root } }

/-- `phase0.ProcessRandaoReveal`. The oracle Boolean `o_randao` is for the key of `block.proposer_index`, which
`ProcessHeader` has just required to be `epc.GetBeaconProposer(slot)`, the key looked up here. -/
def processRandaoReveal (cfg : Config) (ctx : Ctx) (s : State) (block : SignedBlock) : Res State := do
  let propIndex ← ofOpt ctx.proposer
  -- epc.ValidatorPubkeyCache.Pubkey(propIndex)
  guard (propIndex < s.validators.length)
  guard (propIndex = block.proposer_index && block.o_randao)
  let epoch := s.slot / cfg.SLOTS_PER_EPOCH
  -- mixes.GetRandomMix(epoch): i := epoch % VectorLength
  if s.randao_mixes.length = 0 then .panic else
  let i := epoch % s.randao_mixes.length
  let randMix ← rget s.randao_mixes i
  pure { s with randao_mixes := s.randao_mixes.set i (Block.xor randMix (Block.hash block.randao_reveal)) }

/-- `phase0.ProcessEth1Vote` -/
def processEth1Vote (cfg : Config) (s : State) (data : Eth1Data) : Res State := do
  let voteCount := s.eth1_data_votes.length
  let period := w64 (cfg.EPOCHS_PER_ETH1_VOTING_PERIOD * cfg.SLOTS_PER_EPOCH)
  guard (!(voteCount ≥ period))
  let votes := s.eth1_data_votes ++ [data]
  let s := { s with eth1_data_votes := votes }
  let voteCount := voteCount + 1
  -- only do costly counting if we have enough votes yet.
  if w64 (voteCount * 2) > period then
    let count := (votes.filter (· = data)).length
    if w64 (count * 2) > period then pure { s with eth1_data := data } else pure s
  else pure s

/-! ## exits and slashings -/

/-- `phase0.InitiateValidatorExit` on the state (`BlockImpl.initiateValidatorExit` on its registry) -/
def initiateExit (cfg : Config) (ctx : Ctx) (s : State) (index : Nat) : Res State := do
  let vals ← initiateValidatorExit cfg (s.slot / cfg.SLOTS_PER_EPOCH) ctx.activeCount s.validators index
  pure { s with validators := vals }

/-- `ForkSettings.MinSlashingPenaltyQuotient` / `CalcProposerShare` -/
def minSlashingPenaltyQuotient (cfg : Config) : Fork → Nat
  | .phase0 => cfg.MIN_SLASHING_PENALTY_QUOTIENT
  | .altair => cfg.MIN_SLASHING_PENALTY_QUOTIENT_ALTAIR
  | _ => cfg.MIN_SLASHING_PENALTY_QUOTIENT_BELLATRIX

/-- `phase0.SlashValidator(…, slashedIndex, nil)` -/
def slashValidator (cfg : Config) (ctx : Ctx) (s : State) (slashedIndex : Nat) : Res State := do
  let currentEpoch := s.slot / cfg.SLOTS_PER_EPOCH
  let s ← initiateExit cfg ctx s slashedIndex
  let v ← rget s.validators slashedIndex
  -- v.MakeSlashed(); withdrawable epoch
  let withdrawalEpoch := w64 (currentEpoch + cfg.EPOCHS_PER_SLASHINGS_VECTOR)
  let v := { v with slashed := true,
                    withdrawable_epoch := if withdrawalEpoch > v.withdrawable_epoch then withdrawalEpoch else v.withdrawable_epoch }
  let s := { s with validators := s.validators.set slashedIndex v }
  let effectiveBalance := v.effective_balance
  -- slashings.AddSlashing(currentEpoch, effectiveBalance)
  if s.slashings.length = 0 then .panic else
  let si := currentEpoch % s.slashings.length
  let prev ← rget s.slashings si
  let s := { s with slashings := s.slashings.set si (w64 (prev + effectiveBalance)) }
  let q := minSlashingPenaltyQuotient cfg s.fork
  if q = 0 then .panic else
  let s ← decreaseBalance s slashedIndex (effectiveBalance / q)
  let propIndex ← ofOpt ctx.proposer
  if cfg.WHISTLEBLOWER_REWARD_QUOTIENT = 0 then .panic else
  let whistleblowerReward := effectiveBalance / cfg.WHISTLEBLOWER_REWARD_QUOTIENT
  let proposerReward ←
    (if s.fork = .phase0 then
      (if cfg.PROPOSER_REWARD_QUOTIENT = 0 then Res.panic else Res.ok (whistleblowerReward / cfg.PROPOSER_REWARD_QUOTIENT))
    else Res.ok (w64 (whistleblowerReward * PROPOSER_WEIGHT) / WEIGHT_DENOMINATOR))
  let s ← increaseBalance s propIndex proposerReward
  increaseBalance s propIndex (w64 (whistleblowerReward + 2 ^ 64 - proposerReward))

/-- `phase0.IsSlashable` -/
def isSlashable (v : Validator) (epoch : Nat) : Bool :=
  if v.slashed then false
  else if v.activation_epoch > epoch then false
  else if v.withdrawable_epoch ≤ epoch then false
  else true

/-- `phase0.ProcessProposerSlashing` (`ValidateProposerSlashing` + `SlashValidator`) -/
def processProposerSlashing (cfg : Config) (ctx : Ctx) (s : State) (ps : ProposerSlashing) : Res State := do
  let h1 := ps.signed_header_1.message
  let h2 := ps.signed_header_2.message
  guard (h1.slot = h2.slot)
  guard (h1.proposer_index = h2.proposer_index)
  guard (!(h1 = h2))
  let proposerIndex := h1.proposer_index
  guard (proposerIndex < s.validators.length)
  let validator ← rget s.validators proposerIndex
  guard (isSlashable validator (s.slot / cfg.SLOTS_PER_EPOCH))
  guard ps.signed_header_1.sig_ok
  guard ps.signed_header_2.sig_ok
  slashValidator cfg ctx s proposerIndex

/-- `phase0.ValidateIndexedAttestation` = structure check + range check + signature -/
def validateIndexedAttestation (cfg : Config) (s : State) (indices : List Nat) (sig_ok : Bool) : Res Unit := do
  let ok ← validateIndexedNoSig cfg s.validators.length indices
  guard ok
  guard sig_ok

/-- `phase0.ProcessAttesterSlashing`: `ZigZagJoin` over the two index lists, slashing inside the callback
(an error inside the callback is remembered and returned after the join) -/
def processAttesterSlashing (cfg : Config) (ctx : Ctx) (s : State) (as : AttesterSlashing) : Res State := do
  let sa1 := as.attestation_1
  let sa2 := as.attestation_2
  guard (isSlashableAttestationData sa1.data sa2.data)
  validateIndexedAttestation cfg s sa1.attesting_indices sa1.sig_ok
  validateIndexedAttestation cfg s sa2.attesting_indices sa2.sig_ok
  let currentEpoch := s.slot / cfg.SLOTS_PER_EPOCH
  let common ← zigzagIn sa1.attesting_indices sa2.attesting_indices
  let (s, slashedAny) ← common.foldlM (fun (acc : State × Bool) i => do
    let validator ← rget acc.1.validators i
    if isSlashable validator currentEpoch then
      let s' ← slashValidator cfg ctx acc.1 i
      pure (s', true)
    else pure acc) (s, false)
  guard slashedAny
  pure s

/-- `phase0.ValidateVoluntaryExit` + `InitiateValidatorExit` (deneb: the same checks, another domain inside the oracle) -/
def processVoluntaryExit (cfg : Config) (ctx : Ctx) (s : State) (exit : SignedVoluntaryExit) : Res State := do
  let currentEpoch := s.slot / cfg.SLOTS_PER_EPOCH
  guard (exit.validator_index < s.validators.length)
  let validator ← rget s.validators exit.validator_index
  -- IsActive
  guard (validator.activation_epoch ≤ currentEpoch && currentEpoch < validator.exit_epoch)
  guard (!(validator.exit_epoch ≠ FAR_FUTURE_EPOCH))
  guard (!(currentEpoch < exit.epoch))
  guard (!(currentEpoch < w64 (validator.activation_epoch + cfg.SHARD_COMMITTEE_PERIOD)))
  guard exit.sig_ok
  initiateExit cfg ctx s exit.validator_index

/-! ## attestations -/

/-- `sort.Slice(participants, <)` -/
def sortNat (l : List Nat) : List Nat := Block.insertionSort l

/-- `Attestation.ConvertToIndexed` (with the bitlist check): participants of the committee, sorted -/
def convertToIndexed (cfg : Config) (att : Attestation) (committee : List Nat) : Res (List Nat) := do
  guard (att.bits_wellformed && att.aggregation_bits.length ≤ cfg.MAX_VALIDATORS_PER_COMMITTEE)
  guard (committee.length = att.aggregation_bits.length)
  pure (sortNat ((committee.zip att.aggregation_bits).filterMap fun (i, b) => if b then some i else none))

/-- the checks on epochs, slot and committee index shared by the three `ProcessAttestation`s -/
def attestationHead (cfg : Config) (ctx : Ctx) (s : State) (data : AttestationData) : Res Unit := do
  guard (attestationTimingOk cfg.SLOTS_PER_EPOCH cfg.MIN_ATTESTATION_INCLUSION_DELAY (decide (s.fork ≥ .deneb)) s.slot data.slot data.target.epoch)
  let commCount ← ofOpt (ctx.committeeCount data.target.epoch)
  guard (!(data.index ≥ commCount))

/-- `phase0.ProcessAttestation` -/
def processAttestationPhase0 (cfg : Config) (ctx : Ctx) (s : State) (att : Attestation) : Res State := do
  let data := att.data
  attestationHead cfg ctx s data
  let currentEpoch := s.slot / cfg.SLOTS_PER_EPOCH
  -- Check source
  guard (data.source = (if data.target.epoch = currentEpoch then s.current_justified_checkpoint else s.previous_justified_checkpoint))
  -- Check signature and bitfields
  let committee ← ofOpt (ctx.committee data.slot data.index)
  let indices ← convertToIndexed cfg att committee
  validateIndexedAttestation cfg s indices att.sig_ok
  let proposerIndex ← ofOpt ctx.proposer
  let pending : PendingAttestation :=
    { data := data, aggregation_bits := att.aggregation_bits, inclusion_delay := s.slot - data.slot, proposer_index := proposerIndex }
  -- atts.Append: the list limit MAX_ATTESTATIONS * SLOTS_PER_EPOCH of the view
  let limit := cfg.MAX_ATTESTATIONS * cfg.SLOTS_PER_EPOCH
  if data.target.epoch = currentEpoch then
    guard (s.current_epoch_attestations.length < limit)
    pure { s with current_epoch_attestations := s.current_epoch_attestations ++ [pending] }
  else
    guard (s.previous_epoch_attestations.length < limit)
    pure { s with previous_epoch_attestations := s.previous_epoch_attestations ++ [pending] }

/-- `common.GetBlockRootAtSlot` -/
def getBlockRootAtSlot (cfg : Config) (s : State) (slot : Nat) : Res Bytes := do
  guard (slot < s.slot && s.slot ≤ w64 (slot + cfg.SLOTS_PER_HISTORICAL_ROOT))
  if cfg.SLOTS_PER_HISTORICAL_ROOT = 0 then .panic else
  rget s.block_roots (slot % cfg.SLOTS_PER_HISTORICAL_ROOT)

/-- `altair.GetApplicableAttestationParticipationFlags` (deneb: target flag without the delay test): the flag
byte. Both block roots are looked up BEFORE the source is compared. -/
def applicableFlags (cfg : Config) (s : State) (data : AttestationData) (inclusionDelay : Nat) : Res Nat := do
  let currentEpoch := s.slot / cfg.SLOTS_PER_EPOCH
  let justified := if data.target.epoch = currentEpoch then s.current_justified_checkpoint else s.previous_justified_checkpoint
  let expectedHead ← getBlockRootAtSlot cfg s data.slot
  let expectedTarget ← getBlockRootAtSlot cfg s (w64 (data.target.epoch * cfg.SLOTS_PER_EPOCH))
  let isMatchingSource := decide (data.source = justified)
  let isMatchingTarget := isMatchingSource && decide (expectedTarget = data.target.root)
  let isMatchingHead := isMatchingTarget && decide (expectedHead = data.beacon_block_root)
  guard isMatchingSource
  let f0 := if isMatchingSource && inclusionDelay ≤ Nat.sqrt cfg.SLOTS_PER_EPOCH then 1 else 0
  let f1 := if isMatchingTarget && (decide (s.fork ≥ .deneb) || inclusionDelay ≤ cfg.SLOTS_PER_EPOCH) then 2 else 0
  let f2 := if isMatchingHead && inclusionDelay = cfg.MIN_ATTESTATION_INCLUSION_DELAY then 4 else 0
  pure (f0 + f1 + f2)

/-- the participation loop of `altair.ProcessAttestation`: new flag bytes and the proposer reward numerator -/
def applyFlagsLoop (cfg : Config) (ctx : Ctx) (applyFlags baseRewardPerIncrement : Nat) :
    List Nat → List Nat → Nat → Res (List Nat × Nat)
  | [], part, num => .ok (part, num)
  | vi :: rest, part, num =>
    if applyFlags = 0 then applyFlagsLoop cfg ctx applyFlags baseRewardPerIncrement rest part num else
    match ctx.effectiveBalances[vi]? with
    | none => .panic    -- epc.EffectiveBalances[vi]
    | some eb =>
      let increments := eb / cfg.EFFECTIVE_BALANCE_INCREMENT
      let baseReward := w64 (increments * baseRewardPerIncrement)
      match part[vi]? with
      | none => .err
      | some existing =>
        let add (bit weight : Nat) (n : Nat) : Nat :=
          if applyFlags / bit % 2 = 1 && existing / bit % 2 = 0 then w64 (n + w64 (baseReward * weight)) else n
        let num := add 4 TIMELY_HEAD_WEIGHT (add 2 TIMELY_TARGET_WEIGHT (add 1 TIMELY_SOURCE_WEIGHT num))
        applyFlagsLoop cfg ctx applyFlags baseRewardPerIncrement rest (part.set vi (existing ||| applyFlags)) num

/-- `altair.ProcessAttestation` / `deneb.ProcessAttestation` -/
def processAttestationAltair (cfg : Config) (ctx : Ctx) (s : State) (att : Attestation) : Res State := do
  let data := att.data
  attestationHead cfg ctx s data
  let currentEpoch := s.slot / cfg.SLOTS_PER_EPOCH
  -- Note: this checks the source checkpoint.
  let applyFlags ← applicableFlags cfg s data (s.slot - data.slot)
  let committee ← ofOpt (ctx.committee data.slot data.index)
  let indices ← convertToIndexed cfg att committee
  validateIndexedAttestation cfg s indices att.sig_ok
  let current := decide (data.target.epoch = currentEpoch)
  let part := if current then s.current_epoch_participation else s.previous_epoch_participation
  if cfg.EFFECTIVE_BALANCE_INCREMENT = 0 || ctx.totalActiveStakeSqRoot = 0 then .panic else
  let baseRewardPerIncrement := w64 (cfg.EFFECTIVE_BALANCE_INCREMENT * cfg.BASE_REWARD_FACTOR) / ctx.totalActiveStakeSqRoot
  let (part, num) ← applyFlagsLoop cfg ctx applyFlags baseRewardPerIncrement indices part 0
  let s := if current then { s with current_epoch_participation := part } else { s with previous_epoch_participation := part }
  let proposerRewardDenominator := (WEIGHT_DENOMINATOR - PROPOSER_WEIGHT) * WEIGHT_DENOMINATOR / PROPOSER_WEIGHT
  let proposerReward := num / proposerRewardDenominator
  let proposerIndex ← ofOpt ctx.proposer
  increaseBalance s proposerIndex proposerReward

/-! ## deposits -/

/-- `state.AddValidator` (phase0; altair+ also appends participation flags and an inactivity score) -/
def addValidator (cfg : Config) (s : State) (pubkey wc : Bytes) (balance : Nat) : Res State := do
  if cfg.EFFECTIVE_BALANCE_INCREMENT = 0 then .panic else
  let eff := balance - balance % cfg.EFFECTIVE_BALANCE_INCREMENT
  let eff := if eff > cfg.MAX_EFFECTIVE_BALANCE then cfg.MAX_EFFECTIVE_BALANCE else eff
  -- validators.Append: registry limit of the view
  guard (s.validators.length < cfg.VALIDATOR_REGISTRY_LIMIT)
  let v : Validator := ⟨pubkey, wc, eff, false, FAR_FUTURE_EPOCH, FAR_FUTURE_EPOCH, FAR_FUTURE_EPOCH, FAR_FUTURE_EPOCH⟩
  let s := { s with validators := s.validators ++ [v], balances := s.balances ++ [balance] }
  if s.fork = .phase0 then pure s else
  pure { s with previous_epoch_participation := s.previous_epoch_participation ++ [0]
                current_epoch_participation := s.current_epoch_participation ++ [0]
                inactivity_scores := s.inactivity_scores ++ [0] }

/-- `merkle.VerifyMerkleBranch` as modelled for C19 (`Zrnt.Util.Merkle`), over SHA-256 -/
def verifyMerkleBranch (leaf : Bytes) (branch : List Bytes) (depth index : Nat) (root : Bytes) : Res Bool :=
  Zrnt.Util.Merkle.verifyMerkleBranch (fun a b => Block.hash (a ++ b)) leaf branch depth index root

/-- `phase0.ProcessDeposit(…, ignoreSignatureAndProof=false)`; returns the extended context -/
def processDeposit (cfg : Config) (ctx : Ctx) (s : State) (dep : Deposit) : Res (Ctx × State) := do
  -- Verify the Merkle branch
  let okBranch ← verifyMerkleBranch dep.data_root dep.proof (Block.DEPOSIT_CONTRACT_TREE_DEPTH + 1) s.eth1_deposit_index s.eth1_data.deposit_root
  guard okBranch
  let s := { s with eth1_deposit_index := w64 (s.eth1_deposit_index + 1) }
  let valCount := s.validators.length
  -- it exists if: it exists in the pubkey cache AND the validator index is lower than the current validator count.
  let exists? := match ctx.pubkeyIndex dep.data.pubkey with
    | some i => if i < valCount then some i else none
    | none => none
  match exists? with
  | none =>
    -- undecodable pubkey / signature or failing proof of possession: deposit skipped, still valid block
    if !dep.sig_ok then pure (ctx, s) else
    let s ← addValidator cfg s dep.data.pubkey dep.data.withdrawal_credentials dep.data.amount
    let pk := dep.data.pubkey
    let ctx := { ctx with pubkeyIndex := fun k => if k = pk then (match ctx.pubkeyIndex k with | some i => some i | none => some valCount) else ctx.pubkeyIndex k }
    let ctx ← (if ctx.effectiveBalances.length = valCount then do
        let nv ← rget s.validators valCount
        pure { ctx with effectiveBalances := ctx.effectiveBalances ++ [nv.effective_balance] }
      else pure ctx)
    pure (ctx, s)
  | some valIndex =>
    let s ← increaseBalance s valIndex dep.data.amount
    pure (ctx, s)

/-- `phase0.ProcessDeposits`: the count rule (as repaired: no wrapping subtraction), then every deposit -/
def processDeposits (cfg : Config) (ctx : Ctx) (s : State) (ops : List Deposit) : Res (Ctx × State) := do
  guard (!(s.eth1_data.deposit_count < s.eth1_deposit_index))
  let expected := s.eth1_data.deposit_count - s.eth1_deposit_index
  let expected := if expected > cfg.MAX_DEPOSITS then cfg.MAX_DEPOSITS else expected
  guard (ops.length = expected)
  ops.foldlM (fun (acc : Ctx × State) d => processDeposit cfg acc.1 acc.2 d) (ctx, s)

/-! ## capella: BLS changes, withdrawals -/

/-- `capella.ProcessBLSToExecutionChange` -/
def processBLSToExecutionChange (s : State) (op : SignedBLSToExecutionChange) : Res State := do
  guard (!(op.validator_index ≥ s.validators.length))
  let validator ← rget s.validators op.validator_index
  guard (validator.withdrawal_credentials.extract 0 1 = ⟨#[Block.BLS_WITHDRAWAL_PREFIX]⟩)
  guard ((validator.withdrawal_credentials.extract 1 32) = (Block.hash op.from_bls_pubkey).extract 1 32)
  guard op.sig_ok
  let wc : Bytes := ⟨#[Block.ETH1_ADDRESS_WITHDRAWAL_PREFIX]⟩ ++ ⟨Array.replicate 11 0⟩ ++ op.to_execution_address
  pure { s with validators := s.validators.set op.validator_index { validator with withdrawal_credentials := wc } }

/-- the comparison + balance loop of `capella.ProcessWithdrawals` -/
def withdrawalsApplyLoop : List Withdrawal → List Withdrawal → State → Res State
  | [], _, s => .ok s
  | e :: es, ws, s =>
    match ws with
    | [] => .panic  -- withdrawals[w] (lengths were compared before)
    | w :: ws' =>
      if w.index ≠ e.index || w.validator_index ≠ e.validator_index || w.address ≠ e.address || w.amount ≠ e.amount then .err
      else match decreaseBalance s e.validator_index e.amount with
        | .ok s' => withdrawalsApplyLoop es ws' s'
        | .err => .err
        | .panic => .panic
        | .outOfFuel => .outOfFuel

/-- `capella.ProcessWithdrawals` -/
def processWithdrawals (cfg : Config) (s : State) (payload : ExecutionPayload) : Res State := do
  let expected ← expectedWithdrawals cfg s
  guard (expected.length = payload.withdrawals.length)
  let s ← withdrawalsApplyLoop expected payload.withdrawals s
  let s := match expected.getLast? with
    | some latest => { s with next_withdrawal_index := w64 (latest.index + 1) }
    | none => s
  let validatorCount := s.validators.length
  if expected.length = cfg.MAX_WITHDRAWALS_PER_PAYLOAD then
    match expected.getLast? with
    | none => .panic  -- expectedWithdrawals[len-1] with MAX_WITHDRAWALS_PER_PAYLOAD = 0
    | some latest =>
      if validatorCount = 0 then .panic else
      pure { s with next_withdrawal_validator_index := w64 (latest.validator_index + 1) % validatorCount }
  else
    if validatorCount = 0 then .panic else
    let next := w64 (s.next_withdrawal_validator_index + cfg.MAX_VALIDATORS_PER_WITHDRAWALS_SWEEP) % validatorCount
    pure { s with next_withdrawal_validator_index := next }

/-! ## sync aggregate, execution payload -/

/-- the balance loop of `altair.ProcessSyncAggregate` (as repaired: the proposer is paid per participant) -/
def syncLoop (participantReward proposerReward proposer : Nat) : List Nat → List Bool → State → Res State
  | [], _, s => .ok s
  | vi :: rest, bits, s =>
    match bits with
    | [] => .ok s
    | b :: bs =>
      let r := if b then (do let s ← increaseBalance s vi participantReward; increaseBalance s proposer proposerReward)
               else decreaseBalance s vi participantReward
      match r with
      | .ok s' => syncLoop participantReward proposerReward proposer rest bs s'
      | .err => .err
      | .panic => .panic
      | .outOfFuel => .outOfFuel

/-- `altair.ProcessSyncAggregate` -/
def processSyncAggregate (cfg : Config) (ctx : Ctx) (s : State) (agg : SyncAggregate) : Res State := do
  -- bitfields.BitvectorCheck
  guard (agg.sync_committee_bits.length = 8 * ((cfg.SYNC_COMMITTEE_SIZE + 7) / 8))
  guard ((agg.sync_committee_bits.drop cfg.SYNC_COMMITTEE_SIZE).all (· = false))
  let indices ← ofOpt ctx.syncIndices
  -- prevSlot := currentSlot.Previous(); GetBlockRootAtSlot(prevSlot)
  let _ ← getBlockRootAtSlot cfg s (s.slot - 1)
  guard agg.sig_ok
  if cfg.EFFECTIVE_BALANCE_INCREMENT = 0 || ctx.totalActiveStakeSqRoot = 0 || cfg.SLOTS_PER_EPOCH = 0 || cfg.SYNC_COMMITTEE_SIZE = 0 then .panic else
  let totalActiveIncrements := ctx.totalActiveStake / cfg.EFFECTIVE_BALANCE_INCREMENT
  let baseRewardPerIncrement := w64 (cfg.EFFECTIVE_BALANCE_INCREMENT * cfg.BASE_REWARD_FACTOR) / ctx.totalActiveStakeSqRoot
  let totalBaseRewards := w64 (baseRewardPerIncrement * totalActiveIncrements)
  let maxParticipantRewards := w64 (totalBaseRewards * SYNC_REWARD_WEIGHT) / WEIGHT_DENOMINATOR / cfg.SLOTS_PER_EPOCH
  let participantReward := maxParticipantRewards / cfg.SYNC_COMMITTEE_SIZE
  let proposerReward := w64 (participantReward * PROPOSER_WEIGHT) / (WEIGHT_DENOMINATOR - PROPOSER_WEIGHT)
  let proposer ← ofOpt ctx.proposer
  -- epc.CurrentSyncCommittee.Indices[i] for i < SYNC_COMMITTEE_SIZE
  if indices.length < cfg.SYNC_COMMITTEE_SIZE then .panic else
  syncLoop participantReward proposerReward proposer (indices.take cfg.SYNC_COMMITTEE_SIZE)
    (agg.sync_committee_bits.take cfg.SYNC_COMMITTEE_SIZE) s

/-- `spec.TimeAtSlot` (the regenerated translation `Gen.GoFuns.TimeAtSlot` is C19's subject): division by
`SECONDS_PER_SLOT`, refusal above the quotient, otherwise the (then non-wrapping) product plus genesis time -/
def timeAtSlot (cfg : Config) (slot genesisTime : Nat) : Res Nat :=
  if cfg.SECONDS_PER_SLOT = 0 then .panic
  else if slot > (2 ^ 64 - 1 - genesisTime) / cfg.SECONDS_PER_SLOT then .err
  else .ok (w64 (w64 (slot * cfg.SECONDS_PER_SLOT) + genesisTime))

/-- `{bellatrix,capella,deneb}.ProcessExecutionPayload` (with the extra-data length check) -/
def processExecutionPayload (cfg : Config) (s : State) (block : SignedBlock) (payload : ExecutionPayload) : Res State := do
  guard (payload.fields.extra_data.size ≤ cfg.MAX_EXTRA_DATA_BYTES)
  let latest ← ofOpt s.latest_execution_payload_header
  let completed := if s.fork = .bellatrix then Block.is_merge_transition_complete cfg s else true
  guard (!completed || payload.fields.parent_hash = latest.block_hash)
  if s.randao_mixes.length = 0 then .panic else
  let expectedMix ← rget s.randao_mixes ((s.slot / cfg.SLOTS_PER_EPOCH) % s.randao_mixes.length)
  guard (payload.fields.prev_randao = expectedMix)
  let expectedTime ← timeAtSlot cfg s.slot s.genesis_time
  guard (payload.fields.timestamp = expectedTime)
  guard (!(s.fork ≥ .deneb) || block.blob_kzg_commitments.length ≤ cfg.MAX_BLOBS_PER_BLOCK)
  guard (block.o_engine = .valid)
  pure { s with latest_execution_payload_header := some payload.fields }

/-! ## `ProcessBlock` per fork and `PostSlotTransition` -/

/-- `body.CheckLimits` of the state's fork -/
def checkLimits (cfg : Config) (fork : Fork) (block : SignedBlock) : Res Unit := do
  guard (block.proposer_slashings.length ≤ cfg.MAX_PROPOSER_SLASHINGS)
  guard (block.attester_slashings.length ≤ cfg.MAX_ATTESTER_SLASHINGS)
  guard (block.attestations.length ≤ cfg.MAX_ATTESTATIONS)
  guard (block.deposits.length ≤ cfg.MAX_DEPOSITS)
  guard (block.voluntary_exits.length ≤ cfg.MAX_VOLUNTARY_EXITS)
  if fork ≥ .bellatrix then
    guard ((block.execution_payload.map (·.transactions.length)).getD 0 ≤ cfg.MAX_TRANSACTIONS_PER_PAYLOAD)
  if fork ≥ .capella then
    guard (block.bls_to_execution_changes.length ≤ cfg.MAX_BLS_TO_EXECUTION_CHANGES)
  if fork ≥ .deneb then
    guard (block.blob_kzg_commitments.length ≤ cfg.MAX_BLOBS_PER_BLOCK)

def foldOps {α} (f : State → α → Res State) (l : List α) (s : State) : Res State := l.foldlM f s

/-- the operations part shared by the forks, from `CheckLimits` on -/
def processOperations (cfg : Config) (ctx : Ctx) (s : State) (block : SignedBlock) : Res (Ctx × State) := do
  checkLimits cfg s.fork block
  let s ← foldOps (processProposerSlashing cfg ctx) block.proposer_slashings s
  let s ← foldOps (processAttesterSlashing cfg ctx) block.attester_slashings s
  let s ← (if s.fork = .phase0 then foldOps (processAttestationPhase0 cfg ctx) block.attestations s
           else foldOps (processAttestationAltair cfg ctx) block.attestations s)
  let (ctx, s) ← processDeposits cfg ctx s block.deposits
  let s ← foldOps (processVoluntaryExit cfg ctx) block.voluntary_exits s
  let s ← (if s.fork ≥ .capella then foldOps (fun s op => processBLSToExecutionChange s op) block.bls_to_execution_changes s else pure s)
  pure (ctx, s)

/-- `(state *BeaconStateView) ProcessBlock` of the state's fork -/
def processBlock (cfg : Config) (ctx : Ctx) (s : State) (block : SignedBlock) : Res State := do
  -- body, ok := benv.Body.(*BeaconBlockBody)
  guard (block.fork = s.fork)
  let expectedProposer ← ofOpt ctx.proposer
  let s ← processHeader s block expectedProposer
  let s ← (match s.fork with
    | .phase0 | .altair => pure s
    | .bellatrix => do
      let payload ← ofOpt block.execution_payload
      if Block.is_execution_enabled cfg s payload then processExecutionPayload cfg s block payload else pure s
    | .capella | .deneb => do
      let payload ← ofOpt block.execution_payload
      let s ← processWithdrawals cfg s payload
      processExecutionPayload cfg s block payload)
  let s ← processRandaoReveal cfg ctx s block
  let s ← processEth1Vote cfg s block.eth1_data
  let (ctx, s) ← processOperations cfg ctx s block
  if s.fork = .phase0 then pure s else
  let agg ← ofOpt block.sync_aggregate
  processSyncAggregate cfg ctx s agg

/-- `common.PostSlotTransition(…, validateResult = true)`; `ctx` = the context of the pre-state -/
def postSlotTransition (cfg : Config) (ctx : Ctx) (s : State) (block : SignedBlock) : Res State := do
  guard (s.slot = block.slot)
  let proposer ← ofOpt ctx.proposer
  -- epc.ValidatorPubkeyCache.Pubkey(proposer)
  guard (proposer < s.validators.length)
  -- VerifySignatureVersioned: b.ProposerIndex != proposer → false
  guard (block.proposer_index = proposer && block.o_block_sig)
  let s ← processBlock cfg ctx s block
  -- State root verification
  match block.o_post_root with
  | some r => do guard (block.state_root = r); pure s
  | none => .outOfFuel  -- oracle audit: the real code rejected without validation

end Zrnt.Beacon.BlockM
