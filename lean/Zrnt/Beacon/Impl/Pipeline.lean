import Zrnt.Beacon.Spec.EpochPure
import Zrnt.Beacon.Impl.Epoch
/-!
# Code-shaped model `M` of the whole `ProcessEpoch` (phase0 and altair … deneb), pure form

The per-fork `ProcessEpoch` of zrnt: `flats := FlattenValidators(state.validators)` once, attester data once, then the
sub-steps in order, the registry/slashings/effective-balance steps reading `flats`. Same `EpochInputs` as the
specification's `process_epoch_pure`.
-/
namespace Zrnt.Beacon.Impl
open Zrnt.Beacon Zrnt.Beacon.Spec

def justificationStage (cfg : Config) (inp : EpochInputs) (prev cur : Nat) (flats : List Validator) (s : State) : State :=
  if cur ≤ GENESIS_EPOCH + 1 then s else
  let total := totalActiveStake cfg flats cur
  let t : Nat × Nat :=
    if s.fork = .phase0 then
      let d := computeEpochAttesterDataPhase0 cfg flats prev inp.prevAtts inp.currAtts
      (d.prevTargetStake, d.currTargetStake)
    else
      let d := computeEpochAttesterDataAltair cfg flats s.previous_epoch_participation s.current_epoch_participation prev
        (active_indices_of flats prev) (active_indices_of flats cur)
      (d.prevTargetStake, d.currTargetStake)
  withFFG s (processEpochJustification prev cur (ffgOf s) total t.1 t.2 inp.prevRoot inp.curRoot)

def inactivityStage (cfg : Config) (prev cur : Nat) (flats : List Validator) (s : State) : State :=
  if s.fork = .phase0 ∨ cur = GENESIS_EPOCH then s else
  let d := computeEpochAttesterDataAltair cfg flats s.previous_epoch_participation s.current_epoch_participation prev
    (active_indices_of flats prev) (active_indices_of flats cur)
  { s with inactivity_scores := (processInactivityUpdates cfg flats s.previous_epoch_participation d.eligibleIndices
      (in_leak_of cfg prev s) s.inactivity_scores) }

def rewardsStage (cfg : Config) (inp : EpochInputs) (prev cur : Nat) (flats : List Validator) (s : State) : State :=
  if cur = GENESIS_EPOCH then s else
  let total := totalActiveStake cfg flats cur
  if s.fork = .phase0 then
    { s with balances := (processEpochRewardsAndPenaltiesPhase0 cfg flats
        (computeEpochAttesterDataPhase0 cfg flats prev inp.prevAtts inp.currAtts) total (finality_delay_of prev s)
        cfg.INACTIVITY_PENALTY_QUOTIENT s.balances) }
  else
    let d := computeEpochAttesterDataAltair cfg flats s.previous_epoch_participation s.current_epoch_participation prev
      (active_indices_of flats prev) (active_indices_of flats cur)
    { s with balances := (processEpochRewardsAndPenaltiesAltair cfg flats s.previous_epoch_participation s.inactivity_scores
        (active_indices_of flats prev) d.eligibleIndices total (integer_squareroot total)
        (inactivity_penalty_quotient cfg s.fork) (in_leak_of cfg prev s) s.balances) }

def registryStage (cfg : Config) (cur : Nat) (flats : List Validator) (s : State) : State :=
  { s with validators := processEpochRegistryUpdates cfg (decide (s.fork ≥ .deneb)) cur s.finalized_checkpoint.epoch flats s.validators }

def slashingsStage (cfg : Config) (cur : Nat) (flats : List Validator) (s : State) : State :=
  { s with balances := processEpochSlashings cfg s.fork cur flats s.slashings s.balances }

def eth1Stage (cfg : Config) (cur : Nat) (s : State) : State :=
  { s with eth1_data_votes := processEth1DataReset cfg (cur + 1) s.eth1_data_votes }

def effectiveBalanceStage (cfg : Config) (flats : List Validator) (s : State) : State :=
  { s with validators := processEffectiveBalanceUpdates cfg flats s.validators s.balances }

def slashingsResetStage (cfg : Config) (cur : Nat) (s : State) : State :=
  { s with slashings := processSlashingsReset cfg (cur + 1) s.slashings }

def randaoStage (cfg : Config) (cur : Nat) (s : State) : State :=
  { s with randao_mixes := processRandaoMixesReset cfg (cur + 1) s.randao_mixes }

def historicalStage (cfg : Config) (cur : Nat) (s : State) : State :=
  if s.fork ≥ .capella then
    { s with historical_summaries := processHistoricalSummariesUpdate cfg (cur + 1) s.block_roots s.state_roots s.historical_summaries }
  else
    { s with historical_roots := processHistoricalRootsUpdate cfg (cur + 1) s.block_roots s.state_roots s.historical_roots }

def participationStage (s : State) : State :=
  if s.fork = .phase0 then
    { s with previous_epoch_attestations := (processParticipationRecordUpdates s.current_epoch_attestations).1,
             current_epoch_attestations := (processParticipationRecordUpdates s.current_epoch_attestations).2 }
  else
    { s with previous_epoch_participation := (processParticipationFlagUpdates s.current_epoch_participation).1,
             current_epoch_participation := (processParticipationFlagUpdates s.current_epoch_participation).2 }

def syncStage (cfg : Config) (inp : EpochInputs) (cur : Nat) (s : State) : State :=
  if s.fork = .phase0 then s else
  { s with current_sync_committee :=
             (processSyncCommitteeUpdates cfg (cur + 1) s.current_sync_committee s.next_sync_committee inp.computedSync).1,
           next_sync_committee :=
             (processSyncCommitteeUpdates cfg (cur + 1) s.current_sync_committee s.next_sync_committee inp.computedSync).2 }

/-- `(*BeaconStateView).ProcessEpoch` of phase0 / altair / bellatrix / capella / deneb -/
def processEpochPure (cfg : Config) (inp : EpochInputs) (s : State) : State :=
  let prev := get_previous_epoch cfg s
  let cur := get_current_epoch cfg s
  let flats := s.validators
  let s := justificationStage cfg inp prev cur flats s
  let s := inactivityStage cfg prev cur flats s
  let s := rewardsStage cfg inp prev cur flats s
  let s := registryStage cfg cur flats s
  let s := slashingsStage cfg cur flats s
  let s := eth1Stage cfg cur s
  let s := effectiveBalanceStage cfg flats s
  let s := slashingsResetStage cfg cur s
  let s := randaoStage cfg cur s
  let s := historicalStage cfg cur s
  let s := participationStage s
  syncStage cfg inp cur s

end Zrnt.Beacon.Impl
