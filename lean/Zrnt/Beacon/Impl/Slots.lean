import Zrnt.Beacon.Spec.SlotsPure
import Zrnt.Beacon.Impl.Pipeline
/-!
# Code-shaped model `M`: `common.ProcessSlot`, the four `UpgradeTo*`, `StandardUpgradeableBeaconState.UpgradeMaybe`, `common.ProcessSlots`

`common/transition.go`, `altair/fork.go`, `bellatrix/fork.go`, `capella/fork.go`, `deneb/fork.go`, `beacon/fork.go`.
Every `UpgradeTo*` reads the fields of the old state one by one and builds the new state with `FromFields`; the models
build the new `State` field by field in the same way. What `UpgradeMaybe` does to the epochs context is C08's subject.
-/
namespace Zrnt.Beacon.Impl
open Zrnt.Beacon Zrnt.Beacon.Spec

/-- `common.ProcessSlot`: `BatchRootsView.SetRoot(slot, r)` writes at `slot % VectorLength`; the header root is taken
from the local copy of the header after its state root has been filled in. -/
def processSlot (previousStateRoot : Bytes) (s : State) : State :=
  let stateRoots := s.state_roots.set (s.slot % s.state_roots.length) previousStateRoot
  let latestHeader := s.latest_block_header
  let filled := latestHeader.state_root = ZERO32
  let latestHeader := if filled then { latestHeader with state_root := previousStateRoot } else latestHeader
  let previousBlockRoot := hash_tree_root_header latestHeader
  let blockRoots := s.block_roots.set (s.slot % s.block_roots.length) previousBlockRoot
  { s with state_roots := stateRoots,
           latest_block_header := (if filled then latestHeader else s.latest_block_header),
           block_roots := blockRoots }

/-- `altair.GetApplicableAttestationParticipationFlags` as a bit mask (the error for a non-matching source is the
wrapper's business) -/
def applicableFlags (cfg : Config) (a : FlagAtt) : Nat :=
  let isMatchingSource := a.source_ok
  let isMatchingTarget := isMatchingSource && a.target_ok
  let isMatchingHead := isMatchingTarget && a.head_ok
  let out := 0
  let out := if isMatchingSource && decide (a.inclusion_delay ≤ integer_squareroot cfg.SLOTS_PER_EPOCH) then out ||| flagMask 0 else out
  let out := if isMatchingTarget && decide (a.inclusion_delay ≤ cfg.SLOTS_PER_EPOCH) then out ||| flagMask 1 else out
  if isMatchingHead && decide (a.inclusion_delay = cfg.MIN_ATTESTATION_INCLUSION_DELAY) then out ||| flagMask 2 else out

/-- `altair.TranslateParticipation`: `participationRegistry[vi] |= applicableFlags` for the participants -/
def translateParticipation (cfg : Config) (atts : List FlagAtt) (registry : List Nat) : List Nat :=
  atts.foldl (fun registry att =>
    let flags := applicableFlags cfg att
    att.indices.foldl (fun registry vi =>
      match registry[vi]? with
      | some x => registry.set vi (x ||| flags)
      | none => registry) registry) registry

/-- `altair.UpgradeToAltair` -/
def upgradeToAltair (cfg : Config) (inp : UpgradeInputs) (pre : State) : State :=
  let epoch := slotToEpoch cfg pre.slot
  let valCount := pre.validators.length
  let prevRegistry := translateParticipation cfg inp.atts (List.replicate valCount 0)
  let currRegistry := List.replicate valCount 0
  let emptyScores := List.replicate valCount 0
  -- "A duplicate committee is assigned for the current and next committee at the fork boundary"
  let nextSyncCommittee := inp.syncCommittee
  { fork := .altair
    genesis_time := pre.genesis_time
    genesis_validators_root := pre.genesis_validators_root
    slot := pre.slot
    fork_rec := { previous_version := pre.fork_rec.current_version, current_version := cfg.ALTAIR_FORK_VERSION, epoch := epoch }
    latest_block_header := pre.latest_block_header
    block_roots := pre.block_roots
    state_roots := pre.state_roots
    historical_roots := pre.historical_roots
    eth1_data := pre.eth1_data
    eth1_data_votes := pre.eth1_data_votes
    eth1_deposit_index := pre.eth1_deposit_index
    validators := pre.validators
    balances := pre.balances
    randao_mixes := pre.randao_mixes
    slashings := pre.slashings
    previous_epoch_attestations := []
    current_epoch_attestations := []
    justification_bits := pre.justification_bits
    previous_justified_checkpoint := pre.previous_justified_checkpoint
    current_justified_checkpoint := pre.current_justified_checkpoint
    finalized_checkpoint := pre.finalized_checkpoint
    previous_epoch_participation := prevRegistry
    current_epoch_participation := currRegistry
    inactivity_scores := emptyScores
    current_sync_committee := nextSyncCommittee
    next_sync_committee := nextSyncCommittee
    latest_execution_payload_header := pre.latest_execution_payload_header
    next_withdrawal_index := pre.next_withdrawal_index
    next_withdrawal_validator_index := pre.next_withdrawal_validator_index
    historical_summaries := pre.historical_summaries }

/-- the later upgrades copy every field of the old state; `f` builds what is new -/
def copyState (pre : State) (fork : Fork) (forkRec : ForkRec) (header : Option ExecutionPayloadHeader)
    (nwi nwvi : Nat) (summaries : List HistoricalSummary) : State :=
  { fork := fork
    genesis_time := pre.genesis_time
    genesis_validators_root := pre.genesis_validators_root
    slot := pre.slot
    fork_rec := forkRec
    latest_block_header := pre.latest_block_header
    block_roots := pre.block_roots
    state_roots := pre.state_roots
    historical_roots := pre.historical_roots
    eth1_data := pre.eth1_data
    eth1_data_votes := pre.eth1_data_votes
    eth1_deposit_index := pre.eth1_deposit_index
    validators := pre.validators
    balances := pre.balances
    randao_mixes := pre.randao_mixes
    slashings := pre.slashings
    previous_epoch_attestations := pre.previous_epoch_attestations
    current_epoch_attestations := pre.current_epoch_attestations
    justification_bits := pre.justification_bits
    previous_justified_checkpoint := pre.previous_justified_checkpoint
    current_justified_checkpoint := pre.current_justified_checkpoint
    finalized_checkpoint := pre.finalized_checkpoint
    previous_epoch_participation := pre.previous_epoch_participation
    current_epoch_participation := pre.current_epoch_participation
    inactivity_scores := pre.inactivity_scores
    current_sync_committee := pre.current_sync_committee
    next_sync_committee := pre.next_sync_committee
    latest_execution_payload_header := header
    next_withdrawal_index := nwi
    next_withdrawal_validator_index := nwvi
    historical_summaries := summaries }

/-- `bellatrix.UpgradeToBellatrix`: `ExecutionPayloadHeaderType.Default(nil)` as the new header -/
def upgradeToBellatrix (cfg : Config) (pre : State) : State :=
  copyState pre .bellatrix
    { previous_version := pre.fork_rec.current_version, current_version := cfg.BELLATRIX_FORK_VERSION, epoch := slotToEpoch cfg pre.slot }
    (some (defaultPayloadHeader cfg)) pre.next_withdrawal_index pre.next_withdrawal_validator_index pre.historical_summaries

/-- `capella.UpgradeToCapella`: the old header copied field by field, `WithdrawalsRoot: common.Root{}` -/
def upgradeToCapella (cfg : Config) (pre : State) : State :=
  let updated := pre.latest_execution_payload_header.map fun old =>
    ({ parent_hash := old.parent_hash, fee_recipient := old.fee_recipient, state_root := old.state_root,
       receipts_root := old.receipts_root, logs_bloom := old.logs_bloom, prev_randao := old.prev_randao,
       block_number := old.block_number, gas_limit := old.gas_limit, gas_used := old.gas_used, timestamp := old.timestamp,
       extra_data := old.extra_data, base_fee_per_gas := old.base_fee_per_gas, block_hash := old.block_hash,
       transactions_root := old.transactions_root, withdrawals_root := some ZERO32,
       blob_gas_used := old.blob_gas_used, excess_blob_gas := old.excess_blob_gas } : ExecutionPayloadHeader)
  copyState pre .capella
    { previous_version := pre.fork_rec.current_version, current_version := cfg.CAPELLA_FORK_VERSION, epoch := slotToEpoch cfg pre.slot }
    updated 0 0 []

/-- `deneb.UpgradeToDeneb`: the old header copied field by field, `BlobGasUsed: 0, ExcessBlobGas: 0` -/
def upgradeToDeneb (cfg : Config) (pre : State) : State :=
  let updated := pre.latest_execution_payload_header.map fun old =>
    ({ parent_hash := old.parent_hash, fee_recipient := old.fee_recipient, state_root := old.state_root,
       receipts_root := old.receipts_root, logs_bloom := old.logs_bloom, prev_randao := old.prev_randao,
       block_number := old.block_number, gas_limit := old.gas_limit, gas_used := old.gas_used, timestamp := old.timestamp,
       extra_data := old.extra_data, base_fee_per_gas := old.base_fee_per_gas, block_hash := old.block_hash,
       transactions_root := old.transactions_root, withdrawals_root := old.withdrawals_root,
       blob_gas_used := some 0, excess_blob_gas := some 0 } : ExecutionPayloadHeader)
  copyState pre .deneb
    { previous_version := pre.fork_rec.current_version, current_version := cfg.DENEB_FORK_VERSION, epoch := slotToEpoch cfg pre.slot }
    updated pre.next_withdrawal_index pre.next_withdrawal_validator_index pre.historical_summaries

/-- `StandardUpgradeableBeaconState.UpgradeMaybe`: four independent `if`s, each testing the dynamic type of the state and
`slot == FORK_EPOCH * SLOTS_PER_EPOCH` (electra: out of scope) -/
def upgradeMaybe (cfg : Config) (inp : UpgradeInputs) (s : State) : State :=
  let s := if s.fork = .phase0 && s.slot == cfg.ALTAIR_FORK_EPOCH * cfg.SLOTS_PER_EPOCH then upgradeToAltair cfg inp s else s
  let s := if s.fork = .altair && s.slot == cfg.BELLATRIX_FORK_EPOCH * cfg.SLOTS_PER_EPOCH then upgradeToBellatrix cfg s else s
  let s := if s.fork = .bellatrix && s.slot == cfg.CAPELLA_FORK_EPOCH * cfg.SLOTS_PER_EPOCH then upgradeToCapella cfg s else s
  if s.fork = .capella && s.slot == cfg.DENEB_FORK_EPOCH * cfg.SLOTS_PER_EPOCH then upgradeToDeneb cfg s else s

/-- one iteration of the loop of `common.ProcessSlots` -/
def processSlotsStep (cfg : Config) (inp : SlotInputs) (s : State) : State :=
  let currentSlot := s.slot
  let s := processSlot inp.stateRoot s
  let isEpochEnd := slotToEpoch cfg (currentSlot + 1) != slotToEpoch cfg currentSlot
  let s := if isEpochEnd then processEpochPure cfg inp.epoch s else s
  let s := { s with slot := currentSlot + 1 }
  upgradeMaybe cfg inp.upgrade s

/-- `common.ProcessSlots` over as many slots as there are inputs -/
def processSlots (cfg : Config) (inps : List SlotInputs) (s : State) : State :=
  inps.foldl (fun s inp => processSlotsStep cfg inp s) s

end Zrnt.Beacon.Impl
