import Zrnt.Prelude.Res
import Zrnt.Beacon.Spec.BlockOps
/-!
# Code-shaped model `M` of the places where zrnt's block processing is shaped differently from the spec

Each definition follows the control flow of the named Go function. A raw Go slice index `a[i]`
is modelled by `at?` and yields `Res.panic` when it is out of range; a ztyp view access that returns an
error yields `Res.err`; `uint64` additions that the Go code performs are taken modulo `2^64`.
No definition here is `partial`: loops are structural or well-founded recursions.

* (a) `zigzagIn`            — `common.ValidatorSet.ZigZagJoin` (eth2/beacon/common/validator_indices.go), `onIn` calls in order
* (b) `exitQueueScan`, `initiateValidatorExit` — `phase0.InitiateValidatorExit` (eth2/beacon/phase0/voluntary_exit.go)
* (c) `expectedWithdrawals` — `capella.GetExpectedWithdrawals` (eth2/beacon/capella/transition.go)
* (d) `validateIndicesSet`, `validateIndexedNoSig` — `phase0.ValidateIndexedAttestationIndicesSet` / `…NoSignature` (eth2/beacon/phase0/indexed.go)
* (e) `isSlashableAttestationData` — `phase0.IsSlashableAttestationData` (eth2/beacon/phase0/attester_slashing.go)
* (h) `attestationTimingOk` — the epoch/slot checks at the head of `ProcessAttestation` (phase0, altair, deneb/attestation.go)
* (f) `computeForkDataRoot`, `computeDomain`, `computeSigningRoot` — eth2/beacon/common/bls.go, versioning.go, over an abstract hash
-/
namespace Zrnt.Beacon.BlockImpl
open Zrnt Zrnt.Beacon Zrnt.Beacon.Spec

/-! ## (a) ZigZagJoin -/

/-- `ValidatorIndexMarker = ^uint64(0)` -/
def marker : Nat := 2 ^ 64 - 1

/-- `updateI` / `updateJ`: the element at the cursor, or the marker when the cursor is past the end -/
def cur (l : List Nat) (i : Nat) : Nat := l.getD i marker

/-- The `for` loop of `ZigZagJoin`, collecting the arguments of the `onIn` calls in call order.
`vs`, `target` hold `uint64` values (`≤ marker`); `fuel` bounds the number of iterations (every
iteration advances `i` or `j`; `zigzagIn` supplies `len(vs) + len(target) + 1`). -/
def zigzagLoop (vs target : List Nat) : (fuel : Nat) → (i j : Nat) → (acc : List Nat) → Res (List Nat)
  | 0, _, _, _ => .outOfFuel
  | fuel + 1, i, j, acc =>
    -- at some point all items in vs have been processed.
    if i ≥ vs.length then .ok acc
    else
      let iV := cur vs i
      let jV := cur target j
      if iV = jV then zigzagLoop vs target fuel (i + 1) (j + 1) (acc ++ [iV])   -- onIn(iV)
      else if iV < jV then zigzagLoop vs target fuel (i + 1) j acc               -- onOut(iV)
      else zigzagLoop vs target fuel i (j + 1) acc

def zigzagIn (vs target : List Nat) : Res (List Nat) :=
  zigzagLoop vs target (vs.length + target.length + 1) 0 0 []

/-! ## (b) InitiateValidatorExit -/

/-- the single pass over the registry: `(exitQueueEnd, exitQueueEndChurn)` -/
def exitQueueScan (exits : List Nat) (start : Nat) : Nat × Nat :=
  exits.foldl (fun (acc : Nat × Nat) valExit =>
    if valExit = FAR_FUTURE_EPOCH then acc
    else if valExit = acc.1 then (acc.1, acc.2 + 1)
    else if valExit > acc.1 then (valExit, 1)
    else acc) (start, 0)

/-- `InitiateValidatorExit` on a bare registry. `activeCount = len(epc.CurrentEpoch.ActiveIndices)`.
`err`: the view access `validators.Validator(index)` fails. Additions wrap as in Go. -/
def initiateValidatorExit (cfg : Config) (currentEpoch activeCount : Nat) (vals : List Validator) (index : Nat) :
    Res (List Validator) :=
  match vals[index]? with
  | none => .err
  | some v =>
    -- Return if validator already initiated exit
    if v.exit_epoch ≠ FAR_FUTURE_EPOCH then .ok vals else
    let (exitQueueEnd, exitQueueEndChurn) :=
      exitQueueScan (vals.map (·.exit_epoch)) ((currentEpoch + 1 + cfg.MAX_SEED_LOOKAHEAD) % 2 ^ 64)
    -- spec.GetChurnLimit(uint64(len(epc.CurrentEpoch.ActiveIndices)))
    if cfg.CHURN_LIMIT_QUOTIENT = 0 then .panic else
    let churnLimit := max cfg.MIN_PER_EPOCH_CHURN_LIMIT (activeCount / cfg.CHURN_LIMIT_QUOTIENT)
    let exitQueueEnd := if exitQueueEndChurn ≥ churnLimit then (exitQueueEnd + 1) % 2 ^ 64 else exitQueueEnd
    .ok (vals.set index { v with exit_epoch := exitQueueEnd,
                                 withdrawable_epoch := (exitQueueEnd + cfg.MIN_VALIDATOR_WITHDRAWABILITY_DELAY) % 2 ^ 64 })

/-! ## (c) GetExpectedWithdrawals -/

/-- The `for { … }` loop of `GetExpectedWithdrawals`. Note the order: the validator and balance at the
cursor are read (an out-of-range view access is an error) BEFORE the loop bound is tested. `fuel`
bounds the iterations (`expectedWithdrawals` supplies `validatorCount + 1`). -/
def withdrawalsLoop (cfg : Config) (s : State) (epoch validatorCount : Nat) :
    (fuel : Nat) → (i withdrawalIndex validatorIndex : Nat) → (withdrawals : List Withdrawal) → Res (List Withdrawal)
  | 0, _, _, _, _ => .outOfFuel
  | fuel + 1, i, withdrawalIndex, validatorIndex, withdrawals =>
    match s.validators[validatorIndex]?, s.balances[validatorIndex]? with
    | none, _ => .err
    | _, none => .err
    | some validator, some balance =>
      if i ≥ validatorCount || i ≥ cfg.MAX_VALIDATORS_PER_WITHDRAWALS_SWEEP then .ok withdrawals
      else
        let address := validator.withdrawal_credentials.extract 12 32
        let (withdrawals, withdrawalIndex) :=
          if Block.is_fully_withdrawable_validator validator balance epoch then
            (withdrawals ++ [⟨withdrawalIndex, validatorIndex, address, balance⟩], (withdrawalIndex + 1) % 2 ^ 64)
          else if Block.is_partially_withdrawable_validator cfg validator balance then
            (withdrawals ++ [⟨withdrawalIndex, validatorIndex, address, balance - cfg.MAX_EFFECTIVE_BALANCE⟩],
             (withdrawalIndex + 1) % 2 ^ 64)
          else (withdrawals, withdrawalIndex)
        if withdrawals.length = cfg.MAX_WITHDRAWALS_PER_PAYLOAD then .ok withdrawals
        else if validatorCount = 0 then .panic  -- `% validatorCount`
        else withdrawalsLoop cfg s epoch validatorCount fuel (i + 1) withdrawalIndex
               ((validatorIndex + 1) % 2 ^ 64 % validatorCount) withdrawals

def expectedWithdrawals (cfg : Config) (s : State) : Res (List Withdrawal) :=
  withdrawalsLoop cfg s (s.slot / cfg.SLOTS_PER_EPOCH) s.validators.length (s.validators.length + 1) 0
    s.next_withdrawal_index s.next_withdrawal_validator_index []

/-! ## (d) ValidateIndexedAttestationIndicesSet / NoSignature -/

/-- `sort.IsSorted(indices)`: no `i` with `indices[i] < indices[i-1]` -/
def isSortedGo : List Nat → Bool
  | [] => true
  | [_] => true
  | a :: b :: rest => !(b < a) && isSortedGo (b :: rest)

/-- the duplicate scan: `for i := 1; i < len; i++ { if indices[i-1] == indices[i] … }` -/
def noAdjacentDup : List Nat → Bool
  | [] => true
  | [_] => true
  | a :: b :: rest => a != b && noAdjacentDup (b :: rest)

/-- `ValidateIndexedAttestationIndicesSet` followed by the range check of `…NoSignature`
(`indices[len(indices)-1]` is a raw slice index). `true` = no error. -/
def validateIndexedNoSig (cfg : Config) (validatorCount : Nat) (indices : List Nat) : Res Bool :=
  -- Verify max number of indices
  if indices.length > cfg.MAX_VALIDATORS_PER_COMMITTEE then .ok false
  -- empty attestation
  else if indices.length ≤ 0 then .ok false
  -- The indices must be sorted
  else if !isSortedGo indices then .ok false
  -- Verify if the indices are unique. Simple O(n) check, since they are already sorted.
  else if !noAdjacentDup indices then .ok false
  else
    -- Check the last item of the sorted list to be a valid index
    match indices[indices.length - 1]? with
    | none => .panic
    | some last => .ok (decide (last < validatorCount))

/-! ## (e) IsSlashableAttestationData -/

/-- `IsDoubleVote`: `*a != *b && a.Target.Epoch == b.Target.Epoch` -/
def isDoubleVote (a b : AttestationData) : Bool := a ≠ b && a.target.epoch == b.target.epoch
/-- `IsSurroundVote`: `a.Source.Epoch < b.Source.Epoch && a.Target.Epoch > b.Target.Epoch` -/
def isSurroundVote (a b : AttestationData) : Bool :=
  decide (a.source.epoch < b.source.epoch) && decide (a.target.epoch > b.target.epoch)
/-- `IsSlashableAttestationData`: `IsSurroundVote(a, b) || IsDoubleVote(a, b)` -/
def isSlashableAttestationData (a b : AttestationData) : Bool := isSurroundVote a b || isDoubleVote a b

/-! ## (f) domains and signing roots over an abstract hash

Byte strings are `List UInt8`. `H` stands for SHA-256 (`hash_tree_root` of the two-field containers
`ForkData` and `SigningData` is one hash of the two 32-byte chunks). -/

abbrev Bs := List UInt8

/-- `ComputeForkDataRoot(version, genesisValidatorsRoot)`: the 4-byte version is padded to a chunk -/
def computeForkDataRoot (H : Bs → Bs) (version gvr : Bs) : Bs :=
  H (version ++ List.replicate 28 0 ++ gvr)

/-- `ComputeDomain(domainType, version, genesisValidatorsRoot)`: `domainType ‖ forkDataRoot[:28]` -/
def computeDomain (H : Bs → Bs) (domainType version gvr : Bs) : Bs :=
  domainType ++ (computeForkDataRoot H version gvr).take 28

/-- `ComputeSigningRoot(msgRoot, domain)` -/
def computeSigningRoot (H : Bs → Bs) (msgRoot domain : Bs) : Bs := H (msgRoot ++ domain)

/-- the message a signature is verified over, as a function of the four separated inputs -/
def signedMessage (H : Bs → Bs) (domainType version gvr objRoot : Bs) : Bs :=
  computeSigningRoot H objRoot (computeDomain H domainType version gvr)

/-! ## (h) attestation timing checks — `phase0.ProcessAttestation`, `altair.ProcessAttestation`,
`deneb.ProcessAttestation` (the checks before the committee look-up), `uint64` additions wrap -/

/-- `true` = none of the four timing errors is returned. `deneb`: EIP-7045 drops the "too old" test. -/
def attestationTimingOk (SLOTS_PER_EPOCH MIN_ATTESTATION_INCLUSION_DELAY : Nat) (deneb : Bool)
    (currentSlot dataSlot targetEpoch : Nat) : Bool :=
  let currentEpoch := currentSlot / SLOTS_PER_EPOCH
  let previousEpoch := currentEpoch - 1   -- Epoch.Previous(): 0 stays 0 (truncated subtraction)
  -- Check target
  if targetEpoch < previousEpoch then false
  else if targetEpoch > currentEpoch then false
  -- And if it matches the slot
  else if targetEpoch ≠ dataSlot / SLOTS_PER_EPOCH then false
  else if !deneb && !(currentSlot ≤ (dataSlot + SLOTS_PER_EPOCH) % 2 ^ 64) then false          -- too old
  else if !((dataSlot + MIN_ATTESTATION_INCLUSION_DELAY) % 2 ^ 64 ≤ currentSlot) then false   -- too new
  else true

end Zrnt.Beacon.BlockImpl
