import Zrnt.Beacon.Impl.Altair
/-!
# Code-shaped model `M`: phase0 attester statuses and attestation rewards

`phase0/attester.go` (`ComputeEpochAttesterData`: one `AttesterStatus` per validator, filled by walking the pending
attestations and their participants) and `phase0/deltas.go` (`AttestationRewardsAndPenalties`: one pass over the
validators reading the statuses; `ProcessEpochRewardsAndPenalties`: sum of the five deltas, one `ApplyDeltas`).
The attestations enter resolved (`epc.GetBeaconCommittee` + `FilterParticipants`, root comparisons), as for `S`.
-/
namespace Zrnt.Beacon.Impl
open Zrnt.Beacon Zrnt.Beacon.Spec

structure AttesterStatus where
  inclusionDelay : Nat
  /-- `none` = `common.ValidatorIndexMarker` -/
  attestedProposer : Option Nat
  prevSource : Bool
  prevTarget : Bool
  prevHead : Bool
  currSource : Bool
  currTarget : Bool
  currHead : Bool
  unslashed : Bool
  eligible : Bool
  deriving DecidableEq, Inhabited

/-- first loop of `ComputeEpochAttesterData` -/
def initStatuses (flats : List Validator) (prevEpoch : Nat) : List AttesterStatus :=
  flats.map fun flat =>
    { inclusionDelay := 0, attestedProposer := none, prevSource := false, prevTarget := false, prevHead := false,
      currSource := false, currTarget := false, currHead := false,
      unslashed := !flat.slashed,
      eligible := is_active_validator flat prevEpoch || (flat.slashed && prevEpoch + 1 < flat.withdrawable_epoch) }

/-- `statuses[p] = f(statuses[p])` (Go would panic outside the slice; participants are validator indices) -/
def updAt (st : List AttesterStatus) (p : Nat) (f : AttesterStatus → AttesterStatus) : List AttesterStatus :=
  match st[p]? with
  | some x => st.set p (f x)
  | none => st

/-- "If the attestation is the earliest, i.e. has the smallest delay" -/
def updDelay (att : ResolvedAtt) (status : AttesterStatus) : AttesterStatus :=
  if status.attestedProposer.isNone || status.inclusionDelay > att.inclusion_delay then
    { status with inclusionDelay := att.inclusion_delay, attestedProposer := some att.proposer_index }
  else status

def updFlagsPrev (att : ResolvedAtt) (status : AttesterStatus) : AttesterStatus :=
  let status := { status with prevSource := true }
  if att.matching_target then
    let status := { status with prevTarget := true }
    if att.matching_head then { status with prevHead := true } else status
  else status

def updFlagsCurr (att : ResolvedAtt) (status : AttesterStatus) : AttesterStatus :=
  let status := { status with currSource := true }
  if att.matching_target then
    let status := { status with currTarget := true }
    if att.matching_head then { status with currHead := true } else status
  else status

/-- the closure `processEpoch` of `ComputeEpochAttesterData` for the previous epoch's attestations -/
def processEpochPrev (atts : List ResolvedAtt) (st : List AttesterStatus) : List AttesterStatus :=
  atts.foldl (fun st att =>
    let st := att.indices.foldl (fun st p => updAt st p (updDelay att)) st
    att.indices.foldl (fun st p => updAt st p (updFlagsPrev att)) st) st

/-- … and for the current epoch's attestations (no inclusion-delay bookkeeping) -/
def processEpochCurr (atts : List ResolvedAtt) (st : List AttesterStatus) : List AttesterStatus :=
  atts.foldl (fun st att => att.indices.foldl (fun st p => updAt st p (updFlagsCurr att)) st) st

structure Phase0AttesterData where
  statuses : List AttesterStatus
  prevSourceStake : Nat
  prevTargetStake : Nat
  prevHeadStake : Nat
  currTargetStake : Nat

def clampInc (cfg : Config) (x : Nat) : Nat :=
  if x < cfg.EFFECTIVE_BALANCE_INCREMENT then cfg.EFFECTIVE_BALANCE_INCREMENT else x

/-- one stake accumulator of the last loop of `ComputeEpochAttesterData` (the Go loop nests source ⊇ target ⊇ head) -/
def stakeOf (flats : List Validator) (st : List AttesterStatus) (sel : AttesterStatus → Bool) : Nat :=
  (List.range st.length).foldl (fun acc i =>
    if sel (st.getD i default) then acc + (flats.getD i default).effective_balance else acc) 0

/-- `phase0.ComputeEpochAttesterData` -/
def computeEpochAttesterDataPhase0 (cfg : Config) (flats : List Validator) (prevEpoch : Nat)
    (prevAtts currAtts : List ResolvedAtt) : Phase0AttesterData :=
  let st := processEpochCurr currAtts (processEpochPrev prevAtts (initStatuses flats prevEpoch))
  { statuses := st
    prevSourceStake := clampInc cfg (stakeOf flats st fun s => s.prevSource && s.unslashed)
    prevTargetStake := clampInc cfg (stakeOf flats st fun s => s.prevSource && s.unslashed && s.prevTarget)
    prevHeadStake := clampInc cfg (stakeOf flats st fun s => s.prevSource && s.unslashed && s.prevTarget && s.prevHead)
    currTargetStake := clampInc cfg (stakeOf flats st fun s => s.currTarget && s.unslashed) }

structure RewardsAndPenalties where
  source : Deltas
  target : Deltas
  head : Deltas
  inclusionDelay : Deltas
  inactivity : Deltas

/-- body of the validator loop of `AttestationRewardsAndPenalties` -/
def rewardsStep (cfg : Config) (flats : List Validator) (totalBalanceIncs srcIncs tgtIncs headIncs balanceSqRoot finalityDelay
    inactivityPenaltyQuotient : Nat) (isInactivityLeak : Bool) (res : RewardsAndPenalties) (i : Nat) (status : AttesterStatus) :
    RewardsAndPenalties :=
  let effBalance := (flats.getD i default).effective_balance
  let baseReward := effBalance * cfg.BASE_REWARD_FACTOR / balanceSqRoot / BASE_REWARDS_PER_EPOCH
  -- Inclusion delay
  let res :=
    if status.prevSource && status.unslashed then
      let proposerReward := baseReward / cfg.PROPOSER_REWARD_QUOTIENT
      let r := addAtPure res.inclusionDelay.1 (status.attestedProposer.getD 0) proposerReward
      let maxAttesterReward := baseReward - proposerReward
      let r := addAtPure r i (maxAttesterReward / status.inclusionDelay)
      { res with inclusionDelay := (r, res.inclusionDelay.2) }
    else res
  if status.eligible then
    let comp (d : Deltas) (attested : Bool) (stakeIncs : Nat) : Deltas :=
      if attested && status.unslashed then
        if isInactivityLeak then (addAtPure d.1 i baseReward, d.2)
        else (addAtPure d.1 i (baseReward * stakeIncs / totalBalanceIncs), d.2)
      else (d.1, addAtPure d.2 i baseReward)
    let res := { res with source := comp res.source status.prevSource srcIncs }
    let res := { res with target := comp res.target status.prevTarget tgtIncs }
    let res := { res with head := comp res.head status.prevHead headIncs }
    if isInactivityLeak then
      let proposerReward := baseReward / cfg.PROPOSER_REWARD_QUOTIENT
      let p := addAtPure res.inactivity.2 i (BASE_REWARDS_PER_EPOCH * baseReward - proposerReward)
      let p := if !(status.prevTarget && status.unslashed) then
          addAtPure p i (effBalance * finalityDelay / inactivityPenaltyQuotient) else p
      { res with inactivity := (res.inactivity.1, p) }
    else res
  else res

/-- `phase0.AttestationRewardsAndPenalties` -/
def attestationRewardsAndPenalties (cfg : Config) (flats : List Validator) (d : Phase0AttesterData)
    (totalBalance finalityDelay inactivityPenaltyQuotient : Nat) : RewardsAndPenalties :=
  let n := d.statuses.length
  let z : Deltas := (zeros n, zeros n)
  let balanceSqRoot := integer_squareroot totalBalance
  let totalBalanceIncs := totalBalance / cfg.EFFECTIVE_BALANCE_INCREMENT
  let srcIncs := d.prevSourceStake / cfg.EFFECTIVE_BALANCE_INCREMENT
  let tgtIncs := d.prevTargetStake / cfg.EFFECTIVE_BALANCE_INCREMENT
  let headIncs := d.prevHeadStake / cfg.EFFECTIVE_BALANCE_INCREMENT
  let isInactivityLeak := decide (finalityDelay > cfg.MIN_EPOCHS_TO_INACTIVITY_PENALTY)
  (List.range n).foldl (fun res i =>
    rewardsStep cfg flats totalBalanceIncs srcIncs tgtIncs headIncs balanceSqRoot finalityDelay inactivityPenaltyQuotient
      isInactivityLeak res i (d.statuses.getD i default)) ⟨z, z, z, z, z⟩

/-- `Deltas.Add` -/
def deltasAdd (a b : Deltas) : Deltas :=
  ((List.range a.1.length).map fun i => a.1.getD i 0 + b.1.getD i 0,
   (List.range a.2.length).map fun i => a.2.getD i 0 + b.2.getD i 0)

/-- `phase0.ProcessEpochRewardsAndPenalties` after the genesis guard -/
def processEpochRewardsAndPenaltiesPhase0 (cfg : Config) (flats : List Validator) (d : Phase0AttesterData)
    (totalBalance finalityDelay inactivityPenaltyQuotient : Nat) (balances : List Nat) : List Nat :=
  let n := d.statuses.length
  let r := attestationRewardsAndPenalties cfg flats d totalBalance finalityDelay inactivityPenaltyQuotient
  let sum : Deltas := (zeros n, zeros n)
  let sum := deltasAdd sum r.source
  let sum := deltasAdd sum r.target
  let sum := deltasAdd sum r.head
  let sum := deltasAdd sum r.inclusionDelay
  let sum := deltasAdd sum r.inactivity
  applyDeltas balances sum

end Zrnt.Beacon.Impl
