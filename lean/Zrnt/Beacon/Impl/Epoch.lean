import Zrnt.Beacon.Spec.Epoch
import Zrnt.Beacon.Impl.Altair
import Zrnt.Beacon.Impl.Final
import Zrnt.Beacon.Impl.Phase0
import Zrnt.Beacon.Impl.Resolve
/-!
# Code-shaped model `M` of the places where zrnt's epoch processing is shaped differently from the spec

Each definition follows the control flow of the named Go function (file, function in the doc comment),
on `Nat` (the `uint64` wrap-around of the Go code is outside these models: on inputs where a product or
sum leaves the `uint64` range the specification layer answers `overflow` and the property does not
constrain the code). `flats` is the `[]common.FlatValidator` snapshot taken at the start of
`ProcessEpoch`; the models take it as a separate argument wherever the Go code reads the snapshot.
-/
namespace Zrnt.Beacon.Impl
open Zrnt.Beacon Zrnt.Beacon.Spec

/-! ## (b) justification bits as one byte: `phase0.ProcessEpochJustification`, `common.JustificationBits` -/

/-- the SSZ byte of a 4-bit bitvector -/
def bitsToByte (l : List Bool) : Nat :=
  (if l.getD 0 false then 1 else 0) + (if l.getD 1 false then 2 else 0) +
  (if l.getD 2 false then 4 else 0) + (if l.getD 3 false then 8 else 0)

def byteToBits (b : Nat) : List Bool := [b.testBit 0, b.testBit 1, b.testBit 2, b.testBit 3]

/-- `JustificationBits.NextEpoch`: `jb[0] = (jb[0] << 1) & 0x0f` -/
def nextEpochBits (b : Nat) : Nat := (b <<< 1) &&& 0x0f

/-- `JustificationBits.IsJustified(epochsAgo...)` -/
def isJustified (b : Nat) (epochsAgo : List Nat) : Bool :=
  epochsAgo.all fun t => (b &&& (1 <<< t)) != 0

/-- `phase0.ProcessEpochJustification` after the early return for the first two epochs. -/
def processEpochJustification (previousEpoch currentEpoch : Nat) (f : FFG)
    (totalStake prevEpochUnslashedTargetStake currEpochUnslashedTargetStake : Nat)
    (previousRoot currentRoot : Bytes) : FFG :=
  let oldPreviousJustified := f.previous_justified_checkpoint
  let oldCurrentJustified := f.current_justified_checkpoint
  let bits := nextEpochBits (bitsToByte f.justification_bits)
  -- var newJustifiedCheckpoint *common.Checkpoint
  let (newJustified, bits) :=
    if prevEpochUnslashedTargetStake * 3 ≥ totalStake * 2 then
      (some (⟨previousEpoch, previousRoot⟩ : Checkpoint), bits ||| (1 <<< 1))
    else (none, bits)
  let (newJustified, bits) :=
    if currEpochUnslashedTargetStake * 3 ≥ totalStake * 2 then
      (some (⟨currentEpoch, currentRoot⟩ : Checkpoint), bits ||| (1 <<< 0))
    else (newJustified, bits)
  let currentJustified := match newJustified with
    | some c => c
    | none => oldCurrentJustified
  -- var toFinalize *common.Checkpoint
  let toFinalize : Option Checkpoint := none
  let toFinalize := if isJustified bits [1, 2, 3] && oldPreviousJustified.epoch + 3 = currentEpoch
    then some oldPreviousJustified else toFinalize
  let toFinalize := if isJustified bits [1, 2] && oldPreviousJustified.epoch + 2 = currentEpoch
    then some oldPreviousJustified else toFinalize
  let toFinalize := if isJustified bits [0, 1, 2] && oldCurrentJustified.epoch + 2 = currentEpoch
    then some oldCurrentJustified else toFinalize
  let toFinalize := if isJustified bits [0, 1] && oldCurrentJustified.epoch + 1 = currentEpoch
    then some oldCurrentJustified else toFinalize
  let finalized := match toFinalize with
    | some c => c
    | none => f.finalized_checkpoint
  ⟨byteToBits bits, oldCurrentJustified, currentJustified, finalized⟩

/-! ## (c) effective-balance hysteresis: `phase0.ProcessEffectiveBalanceUpdates` -/

/-- body of the loop for one validator: `flatEff` is `flats[i].EffectiveBalance` -/
def effectiveBalanceStep (cfg : Config) (balance flatEff : Nat) : Option Nat :=
  let HYSTERESIS_INCREMENT := cfg.EFFECTIVE_BALANCE_INCREMENT / cfg.HYSTERESIS_QUOTIENT
  let DOWNWARD_THRESHOLD := HYSTERESIS_INCREMENT * cfg.HYSTERESIS_DOWNWARD_MULTIPLIER
  let UPWARD_THRESHOLD := HYSTERESIS_INCREMENT * cfg.HYSTERESIS_UPWARD_MULTIPLIER
  if balance + DOWNWARD_THRESHOLD < flatEff ∨ flatEff + UPWARD_THRESHOLD < balance then
    let effBalance := balance - (balance % cfg.EFFECTIVE_BALANCE_INCREMENT)
    let effBalance := if cfg.MAX_EFFECTIVE_BALANCE < effBalance then cfg.MAX_EFFECTIVE_BALANCE else effBalance
    some effBalance  -- val.SetEffectiveBalance(effBalance)
  else none

/-- The loop over the balances: validator `i` of the state gets a new effective balance when the
snapshot's effective balance `flats[i]` is outside the hysteresis band around `balances[i]`. -/
def processEffectiveBalanceUpdates (cfg : Config) : List Validator → List Validator → List Nat → List Validator
  | flat :: flats, val :: vals, balance :: balances =>
    (match effectiveBalanceStep cfg balance flat.effective_balance with
     | some e => { val with effective_balance := e }
     | none => val) :: processEffectiveBalanceUpdates cfg flats vals balances
  | _, vals, _ => vals

/-! ## (d) slashings: `phase0.ProcessEpochSlashings` -/

def decreaseBalance (bal delta : Nat) : Nat := if bal ≥ delta then bal - delta else 0

/-- `totalActiveStake` as summed from the snapshot over the current epoch's active indices -/
def totalActiveStake (cfg : Config) (flats : List Validator) (currentEpoch : Nat) : Nat :=
  let t := ((flats.filter (is_active_validator · currentEpoch)).map (·.effective_balance)).sum
  if t < cfg.EFFECTIVE_BALANCE_INCREMENT then cfg.EFFECTIVE_BALANCE_INCREMENT else t

def processEpochSlashingsLoop (cfg : Config) (slashingsEpoch adjusted total : Nat) : List Validator → List Nat → List Nat
  | flat :: flats, bal :: bals =>
    (if flat.slashed && slashingsEpoch == flat.withdrawable_epoch then
      let penaltyNumerator := flat.effective_balance / cfg.EFFECTIVE_BALANCE_INCREMENT
      let penaltyNumerator := penaltyNumerator * adjusted
      let penalty := penaltyNumerator / total * cfg.EFFECTIVE_BALANCE_INCREMENT
      decreaseBalance bal penalty
     else bal) :: processEpochSlashingsLoop cfg slashingsEpoch adjusted total flats bals
  | _, bals => bals

def processEpochSlashings (cfg : Config) (fork : Fork) (currentEpoch : Nat) (flats : List Validator)
    (slashings : List Nat) (balances : List Nat) : List Nat :=
  let total := totalActiveStake cfg flats currentEpoch
  let slashingsWeight := slashings.sum * proportional_slashing_multiplier cfg fork
  let adjustedTotalSlashingBalance := if total < slashingsWeight then total else slashingsWeight
  let slashingsEpoch := currentEpoch + cfg.EPOCHS_PER_SLASHINGS_VECTOR / 2
  processEpochSlashingsLoop cfg slashingsEpoch adjustedTotalSlashingBalance total flats balances

/-! ## (a) registry: `phase0.ComputeRegistryProcessData`, `phase0.ProcessEpochRegistryUpdates`, `deneb.…` -/

structure RegistryProcessData where
  indicesToSetActivationEligibility : List Nat
  /-- sorted by `(activation_eligibility_epoch, index)` -/
  indicesToMaybeActivate : List Nat
  indicesToEject : List Nat
  exitQueueEnd : Nat
  exitQueueEndChurn : Nat
  churnLimit : Nat

/-- The single scan over the exit epochs (second loop of `ComputeRegistryProcessData`), after the fix
6d1e229: a later exit epoch restarts the churn count. Returns `(exitQueueEnd, exitQueueEndChurn)`. -/
def exitQueueScan (start : Nat) (exits : List Nat) : Nat × Nat :=
  exits.foldl (fun (acc : Nat × Nat) exit =>
    if exit = FAR_FUTURE_EPOCH then acc else
    let acc := if exit > acc.1 then (exit, 0) else acc
    if exit = acc.1 then (acc.1, acc.2 + 1) else acc) (start, 0)

/-- The scan as it was before the fix (kept for the witness of lead #13). -/
def exitQueueScanUnfixed (start : Nat) (exits : List Nat) : Nat × Nat :=
  exits.foldl (fun (acc : Nat × Nat) exit =>
    if exit = FAR_FUTURE_EPOCH then acc else
    let acc := if exit > acc.1 then (exit, acc.2) else acc
    if exit = acc.1 then (acc.1, acc.2 + 1) else acc) (start, 0)

def insertSorted (le : Nat → Nat → Bool) (x : Nat) : List Nat → List Nat
  | [] => [x]
  | y :: ys => if le x y then x :: y :: ys else y :: insertSorted le x ys

def computeRegistryProcessData (cfg : Config) (flats : List Validator) (currentEpoch : Nat) : RegistryProcessData :=
  let idxd := (List.range flats.length).zip flats
  let activeCount := (flats.filter (is_active_validator · currentEpoch)).length
  let toSet := (idxd.filter fun (_, f) =>
    f.activation_eligibility_epoch == FAR_FUTURE_EPOCH && f.effective_balance == cfg.MAX_EFFECTIVE_BALANCE).map (·.1)
  let toMaybe := (idxd.filter fun (_, f) =>
    f.activation_epoch == FAR_FUTURE_EPOCH && f.activation_eligibility_epoch ≤ currentEpoch).map (·.1)
  let toEject := (idxd.filter fun (_, f) =>
    is_active_validator f currentEpoch && f.effective_balance ≤ cfg.EJECTION_BALANCE && f.exit_epoch == FAR_FUTURE_EPOCH).map (·.1)
  -- sort.Slice with the total order (eligibility epoch, index): any correct sort gives the same list
  let toMaybe := toMaybe.mergeSort (queueLe flats)
  let (exitQueueEnd, exitQueueEndChurn) :=
    exitQueueScan (compute_activation_exit_epoch cfg currentEpoch) (flats.map (·.exit_epoch))
  let churnLimit := max cfg.MIN_PER_EPOCH_CHURN_LIMIT (activeCount / cfg.CHURN_LIMIT_QUOTIENT)
  let (exitQueueEnd, exitQueueEndChurn) :=
    if exitQueueEndChurn ≥ churnLimit then (exitQueueEnd + 1, 0) else (exitQueueEnd, exitQueueEndChurn)
  ⟨toSet, toMaybe, toEject, exitQueueEnd, exitQueueEndChurn, churnLimit⟩

/-- "process ejections" block: `exitEnd`/`endChurn` stepping. -/
def processEjections (cfg : Config) (churnLimit : Nat) : Nat → Nat → List Nat → List Validator → List Validator
  | _, _, [], vals => vals
  | exitEnd, endChurn, index :: rest, vals =>
    let vals := match vals[index]? with
      | some v => vals.set index { v with exit_epoch := exitEnd,
                                          withdrawable_epoch := exitEnd + cfg.MIN_VALIDATOR_WITHDRAWABILITY_DELAY }
      | none => vals
    let endChurn := endChurn + 1
    if endChurn ≥ churnLimit then processEjections cfg churnLimit (exitEnd + 1) 0 rest vals
    else processEjections cfg churnLimit exitEnd endChurn rest vals

def setEligibility (eligibilityEpoch : Nat) (indices : List Nat) (vals : List Validator) : List Validator :=
  indices.foldl (fun vals index =>
    match vals[index]? with
    | some v => vals.set index { v with activation_eligibility_epoch := eligibilityEpoch }
    | none => vals) vals

/-- "Process activations" block: take `limit`, stop at the first candidate above the finalized epoch. -/
def processActivations (cfg : Config) (currentEpoch finalizedEpoch limit : Nat) (flats : List Validator)
    (candidates : List Nat) (vals : List Validator) : List Validator :=
  let dequeued := candidates.take limit
  let dequeued := dequeued.takeWhile fun index => (flats.getD index default).activation_eligibility_epoch ≤ finalizedEpoch
  dequeued.foldl (fun vals index =>
    match vals[index]? with
    | some v => vals.set index { v with activation_epoch := compute_activation_exit_epoch cfg currentEpoch }
    | none => vals) vals

/-- `phase0.ProcessEpochRegistryUpdates` (`activationLimit = churnLimit`) and `deneb.ProcessEpochRegistryUpdates`
(`activationLimit = min(MAX_PER_EPOCH_ACTIVATION_CHURN_LIMIT, churnLimit)`). -/
def processEpochRegistryUpdates (cfg : Config) (deneb : Bool) (currentEpoch finalizedEpoch : Nat)
    (flats vals : List Validator) : List Validator :=
  let d := computeRegistryProcessData cfg flats currentEpoch
  let vals := processEjections cfg d.churnLimit d.exitQueueEnd d.exitQueueEndChurn d.indicesToEject vals
  let vals := setEligibility (currentEpoch + 1) d.indicesToSetActivationEligibility vals
  let limit := if deneb then min cfg.MAX_PER_EPOCH_ACTIVATION_CHURN_LIMIT d.churnLimit else d.churnLimit
  processActivations cfg currentEpoch finalizedEpoch limit flats d.indicesToMaybeActivate vals

/-! ## State-level wrappers

The verdict (reject / overflow) is the specification's; the values are computed by `M`. `flats` is the
snapshot of the registry taken at the start of `ProcessEpoch`. -/

def altairAttesterData (cfg : Config) (s : State) : AltairAttesterData :=
  computeEpochAttesterDataAltair cfg s.validators s.previous_epoch_participation s.current_epoch_participation
    (get_previous_epoch cfg s) (active_indices_of s.validators (get_previous_epoch cfg s))
    (active_indices_of s.validators (get_current_epoch cfg s))

/-- `epc.TotalActiveStake` / `TotalActiveStakeSqRoot` as `loadCurrentStake` computes them -/
def epcTotalActiveStake (cfg : Config) (flats : List Validator) (currentEpoch : Nat) : Nat := totalActiveStake cfg flats currentEpoch

/-- `phase0.ComputeEpochAttesterData`: the pending attestations of the previous and of the current epoch are resolved
through the epochs context (`epc.GetBeaconCommittee` + `FilterParticipants`, `Impl.resolveAttsCtx`), not by
`get_beacon_committee`; `Proofs/Lemmas/C02Committee.lean` (`resolve_attestations_live`) proves the two agree. -/
def phase0AttesterData (cfg : Config) (s : State) : SM Phase0AttesterData := do
  let epc ← Ctx.liftRes (liveCtx cfg s)
  let prevAtts ← resolveAttsCtx cfg epc s (get_previous_epoch cfg s) s.previous_epoch_attestations
  let currAtts ← resolveAttsCtx cfg epc s (get_current_epoch cfg s) s.current_epoch_attestations
  pure (computeEpochAttesterDataPhase0 cfg s.validators (get_previous_epoch cfg s) prevAtts currAtts)

/-- phase0 `ProcessEpochRewardsAndPenalties` -/
def rewardsPhase0M (cfg : Config) (s : State) : SM State := do
  let s' ← process_rewards_and_penalties cfg s
  if get_current_epoch cfg s = GENESIS_EPOCH then return s'
  let d ← phase0AttesterData cfg s
  let bals := processEpochRewardsAndPenaltiesPhase0 cfg s.validators d
    (epcTotalActiveStake cfg s.validators (get_current_epoch cfg s)) (← get_finality_delay cfg s)
    cfg.INACTIVITY_PENALTY_QUOTIENT s.balances
  pure { s' with balances := bals }

def justificationM (cfg : Config) (s : State) : SM State := do
  match ← justification_inputs cfg s with
  | none => pure s
  | some i =>
    -- altair+: the two target stakes come from `altair.ComputeEpochAttesterData`, the total from the epochs context
    let (total, prevT, curT) ←
      if s.fork = .phase0 then do
        let d ← phase0AttesterData cfg s
        pure (epcTotalActiveStake cfg s.validators (get_current_epoch cfg s), d.prevTargetStake, d.currTargetStake)
      else
        let d := altairAttesterData cfg s
        pure (epcTotalActiveStake cfg s.validators (get_current_epoch cfg s), d.prevTargetStake, d.currTargetStake)
    pure (withFFG s (processEpochJustification (get_previous_epoch cfg s) (get_current_epoch cfg s) (ffgOf s)
      total prevT curT i.previous_root i.current_root))

/-- altair+ `ProcessInactivityUpdates` -/
def inactivityM (cfg : Config) (s : State) : SM State := do
  let s' ← process_inactivity_updates cfg s
  if get_current_epoch cfg s = GENESIS_EPOCH then return s'
  let d := altairAttesterData cfg s
  let scores := processInactivityUpdates cfg s.validators s.previous_epoch_participation d.eligibleIndices
    (← is_in_inactivity_leak cfg s) s.inactivity_scores
  pure { s' with inactivity_scores := scores }

/-- altair+ `ProcessEpochRewardsAndPenalties` -/
def rewardsAltairM (cfg : Config) (s : State) : SM State := do
  let s' ← process_rewards_and_penalties cfg s
  if get_current_epoch cfg s = GENESIS_EPOCH then return s'
  let d := altairAttesterData cfg s
  let total := epcTotalActiveStake cfg s.validators (get_current_epoch cfg s)
  let bals := processEpochRewardsAndPenaltiesAltair cfg s.validators s.previous_epoch_participation s.inactivity_scores
    (active_indices_of s.validators (get_previous_epoch cfg s)) d.eligibleIndices total (integer_squareroot total)
    (inactivity_penalty_quotient cfg s.fork) (← is_in_inactivity_leak cfg s) s.balances
  pure { s' with balances := bals }

def registryM (cfg : Config) (flats : List Validator) (s : State) : SM State := do
  let s' ← process_registry_updates cfg s
  let vals := processEpochRegistryUpdates cfg (decide (s.fork ≥ .deneb)) (get_current_epoch cfg s)
    s.finalized_checkpoint.epoch flats s.validators
  pure { s' with validators := vals }

def slashingsM (cfg : Config) (flats : List Validator) (s : State) : SM State := do
  let s' ← process_slashings cfg s
  let bals := processEpochSlashings cfg s.fork (get_current_epoch cfg s) flats s.slashings s.balances
  pure { s' with balances := bals }

def effectiveBalanceM (cfg : Config) (flats : List Validator) (s : State) : SM State := do
  let s' ← process_effective_balance_updates cfg s
  let vals := processEffectiveBalanceUpdates cfg flats s.validators s.balances
  pure { s' with validators := vals }

def eth1ResetM (cfg : Config) (s : State) : SM State := do
  let s' ← process_eth1_data_reset cfg s
  pure { s' with eth1_data_votes := processEth1DataReset cfg (get_current_epoch cfg s + 1) s.eth1_data_votes }

def slashingsResetM (cfg : Config) (s : State) : SM State := do
  let s' ← process_slashings_reset cfg s
  pure { s' with slashings := processSlashingsReset cfg (get_current_epoch cfg s + 1) s.slashings }

def randaoResetM (cfg : Config) (s : State) : SM State := do
  let s' ← process_randao_mixes_reset cfg s
  pure { s' with randao_mixes := processRandaoMixesReset cfg (get_current_epoch cfg s + 1) s.randao_mixes }

def historicalM (cfg : Config) (s : State) : SM State := do
  if s.fork ≥ .capella then
    let s' ← process_historical_summaries_update cfg s
    pure { s' with historical_summaries :=
      processHistoricalSummariesUpdate cfg (get_current_epoch cfg s + 1) s.block_roots s.state_roots s.historical_summaries }
  else
    let s' ← process_historical_roots_update cfg s
    pure { s' with historical_roots :=
      processHistoricalRootsUpdate cfg (get_current_epoch cfg s + 1) s.block_roots s.state_roots s.historical_roots }

def participationM (s : State) : SM State := do
  if s.fork = .phase0 then
    let r := processParticipationRecordUpdates s.current_epoch_attestations
    pure { s with previous_epoch_attestations := r.1, current_epoch_attestations := r.2 }
  else
    let r := processParticipationFlagUpdates s.current_epoch_participation
    pure { s with previous_epoch_participation := r.1, current_epoch_participation := r.2 }

/-- `altair.ProcessSyncCommitteeUpdates`. The candidates are `epc.NextEpoch.ActiveIndices`, which the epochs context
computed from the registry as it was at the START of the epoch transition (`flats`); effective balances and
pubkeys are read from the state as it is now. -/
def syncCommitteeM (cfg : Config) (agg : AggOracle) (flats : List Validator) (s : State) : SM State := do
  let nextEpoch := get_current_epoch cfg s + 1
  if cfg.EPOCHS_PER_SYNC_COMMITTEE_PERIOD = 0 then invalid "division by zero"
  let computed ← if nextEpoch % cfg.EPOCHS_PER_SYNC_COMMITTEE_PERIOD = 0 then do
      let active := active_indices_of flats nextEpoch
      if active.isEmpty then invalid "no active validators to compute sync committee from"
      let seed ← get_seed cfg s nextEpoch DOMAIN_SYNC_COMMITTEE
      match computeSyncCommitteeIndices cfg s.validators active seed (shuffledOf cfg active.length seed) SYNC_FUEL with
      | none => throw (.fuel "ComputeSyncCommitteeIndices")
      | some indices =>
        let pubkeys ← indices.mapM fun index => do pure (← idx s.validators index "validators").pubkey
        match agg pubkeys with
        | some aggregate => pure (some (⟨pubkeys, aggregate⟩ : SyncCommittee))
        | none => throw (.oracle "aggregate pubkey not supplied for this pubkey list")
    else pure none
  let r := processSyncCommitteeUpdates cfg nextEpoch s.current_sync_committee s.next_sync_committee computed
  pure { s with current_sync_committee := r.1, next_sync_committee := r.2 }

/-- The fork's `ProcessEpoch` pipeline with the snapshot `flats` taken once at the start. -/
def processEpochM (cfg : Config) (agg : AggOracle) (s : State) : SM State := do
  let flats := s.validators
  let s ← justificationM cfg s
  let s ← if s.fork = .phase0 then pure s else inactivityM cfg s
  let s ← if s.fork = .phase0 then rewardsPhase0M cfg s else rewardsAltairM cfg s
  let s ← registryM cfg flats s
  let s ← slashingsM cfg flats s
  let s ← eth1ResetM cfg s
  let s ← effectiveBalanceM cfg flats s
  let s ← slashingsResetM cfg s
  let s ← randaoResetM cfg s
  let s ← historicalM cfg s
  let s ← participationM s
  if s.fork = .phase0 then pure s else syncCommitteeM cfg agg flats s

end Zrnt.Beacon.Impl
