import Zrnt.Beacon.Ctx
import Zrnt.Beacon.Spec.Epoch
import Zrnt.Beacon.Spec.SlotsPure
/-!
# Code-shaped model `M`: resolving pending attestations through the epochs context

`phase0/attester.go` (`ComputeEpochAttesterData`, the closure `processEpoch`) and `altair/fork.go`
(`TranslateParticipation`) do not call `get_beacon_committee`: they ask the LIVE `*common.EpochsContext`
(`epc.GetBeaconCommittee(att.Data.Slot, att.Data.Index)`), then keep the committee members whose aggregation bit is
set. The context is C07's model `Committees.Ctx` (`Committees.newEpochsContext`, `Ctx.getBeaconCommittee`); C08 proves
that the incrementally maintained context of a running chain is the one `NewEpochsContext` builds from the state
(`chain_ctx_invariant`, `live_ctx_answers_eq_zrnt_ctx`).

The results are the `ResolvedAtt` / `FlagAtt` records the rest of `M` (status arrays, participation registry) consumes.
-/
namespace Zrnt.Beacon.Impl
open Zrnt.Beacon Zrnt.Beacon.Spec Zrnt.Beacon.Ctx

/-- `common.NewEpochsContext(spec, state)`: C07's model, fed the registry and randao mixes of the flat state -/
def liveCtx (cfg : Config) (s : State) : Res Committees.Ctx :=
  Committees.newEpochsContext Spec.hash (cfgC cfg) (s.validators.map valC).toArray
    (fun i => s.randao_mixes.getD i ByteArray.empty) s.slot

/-- `AttestationBits.FilterParticipants(committee)`: "panics if committee size does not match" -/
def filterParticipants (committee : List Nat) (bits : List Bool) : SM (List Nat) :=
  if bits.length ≠ committee.length then invalid "panic: committee mismatch, bitfield length does not match" else
  pure ((committee.zip bits).filterMap fun (i, b) => if b then some i else none)

/-- the closure `processEpoch` of `ComputeEpochAttesterData`, up to (not including) the status updates: the target
root of the epoch first, then per attestation the head root of its slot, the committee FROM THE CONTEXT, the
participants. `matching_head` is recorded as the code tests it: inside the target test. -/
def resolveAttsCtx (cfg : Config) (epc : Committees.Ctx) (s : State) (epoch : Nat) (atts : List PendingAttestation) :
    SM (List ResolvedAtt) := do
  let actualTargetBlockRoot ← get_block_root_at_slot cfg s (compute_start_slot_at_epoch cfg epoch)
  atts.mapM fun att => do
    let attBlockRoot ← get_block_root_at_slot cfg s att.data.slot
    let committee ← liftRes (epc.getBeaconCommittee (cfgC cfg) att.data.slot att.data.index)
    let participants ← filterParticipants committee att.aggregation_bits
    let target := decide (att.data.target.root = actualTargetBlockRoot)
    pure { indices := participants, inclusion_delay := att.inclusion_delay, proposer_index := att.proposer_index,
           matching_target := target, matching_head := target && decide (att.data.beacon_block_root = attBlockRoot) }

/-- the loop of `altair.TranslateParticipation` up to the registry writes: `GetApplicableAttestationParticipationFlags`'s
comparisons on the (altair) state `s`, then the committee FROM THE CONTEXT and its members with their bit set (the
code reads `att.AggregationBits.GetBit(i)` for each committee position `i`; the bit list has the committee's length). -/
def resolveFlagAttsCtx (cfg : Config) (epc : Committees.Ctx) (s : State) (pending : List PendingAttestation) :
    SM (List FlagAtt) :=
  pending.mapM fun att => do
    let justifiedCheckpoint :=
      if att.data.target.epoch = get_current_epoch cfg s then s.current_justified_checkpoint else s.previous_justified_checkpoint
    let expectedHead ← get_block_root_at_slot cfg s att.data.slot
    let expectedTarget ← get_block_root cfg s att.data.target.epoch
    let isMatchingSource := decide (att.data.source = justifiedCheckpoint)
    let isMatchingTarget := isMatchingSource && decide (att.data.target.root = expectedTarget)
    let isMatchingHead := isMatchingTarget && decide (att.data.beacon_block_root = expectedHead)
    let committee ← liftRes (epc.getBeaconCommittee (cfgC cfg) att.data.slot att.data.index)
    let participants ← filterParticipants committee att.aggregation_bits
    pure { indices := participants, inclusion_delay := att.inclusion_delay, source_ok := isMatchingSource,
           target_ok := isMatchingTarget, head_ok := isMatchingHead }

end Zrnt.Beacon.Impl
