import Zrnt.Prelude.Res
import Zrnt.Gen.GoFuns
import Zrnt.Shuffle.Model
import Zrnt.Shuffle.Spec
/-!
# Committees, proposers, sync committee, seeds (property C07)

**Model** (`namespace Zrnt.Beacon.Committees`): transcription of the code in
`eth2/beacon/common/{shuffling,proposers,sync_committee,randao,epochs_context}.go` *as it is*:
active indices → copy → `UnshuffleList` → slices `[n·i/c, n·(i+1)/c)` per (slot, committee);
`CommitteeCount` is the function regenerated from the Go source (`Zrnt.Gen.GoFuns.CommitteeCount`);
`ComputeProposerIndex` with its 1000 × 32 candidate cut-off; `ComputeSyncCommitteeIndices` with its
hash refreshed when `i % 32 = 0`; `GetSeed`; the three-epoch `EpochsContext` with its lookup functions.

**Specification** (`namespace Zrnt.Beacon.Committees.Spec`): the consensus-spec functions literally
(`get_active_validator_indices`, `get_seed`, `get_committee_count_per_slot`, `compute_committee`,
`get_beacon_committee`, `compute_proposer_index`, `get_beacon_proposer_index`,
`get_next_sync_committee_indices`), over `compute_shuffled_index` of `Zrnt.Shuffle.Spec`.

Inputs are flat: per validator `(activation_epoch, exit_epoch, effective_balance)`, the randao mixes as
a function of the vector index, the slot, the configuration constants. The hash is a parameter.
Arithmetic is over `Nat`; the generator keeps epochs, balances and sizes far below `2^64`
(`effective_balance·255`, `n·committee_count`, `epoch + EPOCHS_PER_HISTORICAL_VECTOR` do not wrap).
-/
namespace Zrnt.Beacon.Committees
open Zrnt Zrnt.Shuffle

structure Val where
  activation : Nat
  exit : Nat
  effBal : Nat
  deriving Repr, Inhabited

structure Cfg where
  SLOTS_PER_EPOCH : Nat
  TARGET_COMMITTEE_SIZE : Nat
  MAX_COMMITTEES_PER_SLOT : Nat
  SHUFFLE_ROUND_COUNT : Nat
  EPOCHS_PER_HISTORICAL_VECTOR : Nat
  MIN_SEED_LOOKAHEAD : Nat
  MAX_EFFECTIVE_BALANCE : Nat
  SYNC_COMMITTEE_SIZE : Nat
  deriving Repr, Inhabited

def DOMAIN_BEACON_PROPOSER : ByteArray := ⟨#[0, 0, 0, 0]⟩
def DOMAIN_BEACON_ATTESTER : ByteArray := ⟨#[1, 0, 0, 0]⟩
def DOMAIN_SYNC_COMMITTEE : ByteArray := ⟨#[7, 0, 0, 0]⟩

/-- `binary.LittleEndian.PutUint64` -/
def putUint64 (v : Nat) : ByteArray :=
  ⟨#[UInt8.ofNat (v % 256), UInt8.ofNat (v / 256 % 256), UInt8.ofNat (v / 65536 % 256),
     UInt8.ofNat (v / 16777216 % 256), UInt8.ofNat (v / 4294967296 % 256),
     UInt8.ofNat (v / 1099511627776 % 256), UInt8.ofNat (v / 281474976710656 % 256),
     UInt8.ofNat (v / 72057594037927936 % 256)]⟩

/-! ## model -/

/-- `ActiveIndices(LoadBoundedIndices(validators), epoch)` -/
def activeIndices (vals : Array Val) (epoch : Nat) : Array Nat :=
  (Array.range vals.size).filter fun i => decide (vals[i]!.activation ≤ epoch ∧ epoch < vals[i]!.exit)

/-- `GetSeed`: `hash(domain_type ‖ le64(epoch) ‖ mix[(epoch + EPOCHS_PER_HISTORICAL_VECTOR − MIN_SEED_LOOKAHEAD − 1) mod vector length])` -/
def getSeed (H : ByteArray → ByteArray) (cfg : Cfg) (mixes : Nat → ByteArray) (epoch : Nat)
    (domainType : ByteArray) : ByteArray :=
  let mix := mixes ((epoch + cfg.EPOCHS_PER_HISTORICAL_VECTOR - cfg.MIN_SEED_LOOKAHEAD - 1) % cfg.EPOCHS_PER_HISTORICAL_VECTOR)
  H (domainType ++ putUint64 epoch ++ mix)

instance : Inhabited Zrnt.Gen.GoFuns.Spec := ⟨by constructor <;> exact default⟩

/-- the `*Spec` handed to the regenerated `CommitteeCount` -/
def goSpec (cfg : Cfg) : Zrnt.Gen.GoFuns.Spec :=
  { (default : Zrnt.Gen.GoFuns.Spec) with
    SLOTS_PER_EPOCH := UInt64.ofNat cfg.SLOTS_PER_EPOCH
    TARGET_COMMITTEE_SIZE := UInt64.ofNat cfg.TARGET_COMMITTEE_SIZE
    MAX_COMMITTEES_PER_SLOT := UInt64.ofNat cfg.MAX_COMMITTEES_PER_SLOT }

/-- `CommitteeCount(spec, activeValidators)`: the function regenerated from shuffling.go -/
def committeeCount (cfg : Cfg) (activeValidators : Nat) : Res Nat :=
  match Zrnt.Gen.GoFuns.CommitteeCount (goSpec cfg) (UInt64.ofNat activeValidators) with
  | .ok v => .ok v.toNat
  | .err => .err
  | .panic => .panic
  | .outOfFuel => .outOfFuel

structure ShufflingEpoch where
  epoch : Nat
  activeIndices : Array Nat
  shuffling : Array Nat
  /-- slot → committee index → members (slices of `shuffling`) -/
  committees : List (List (List Nat))
  deriving Repr, Inhabited

/-- `uint8(spec.SHUFFLE_ROUND_COUNT)` -/
def rounds8 (cfg : Cfg) : Nat := cfg.SHUFFLE_ROUND_COUNT % 256

/-- `NewShufflingEpoch(spec, indicesBounded, seed, epoch)` -/
def newShufflingEpoch (H : ByteArray → ByteArray) (cfg : Cfg) (vals : Array Val) (seed : ByteArray)
    (epoch : Nat) : Res ShufflingEpoch := do
  let active := activeIndices vals epoch
  let shuffling := unshuffleList (Hasher.ofHash H seed) (rounds8 cfg) active
  let validatorCount := shuffling.size
  let committeesPerSlot ← committeeCount cfg validatorCount
  let committeeCount := committeesPerSlot * cfg.SLOTS_PER_EPOCH
  let committees := (List.range cfg.SLOTS_PER_EPOCH).map fun slot =>
    (List.range committeesPerSlot).map fun slotIndex =>
      let index := slot * committeesPerSlot + slotIndex
      let startOffset := validatorCount * index / committeeCount
      let endOffset := validatorCount * (index + 1) / committeeCount
      (shuffling.extract startOffset endOffset).toList
  pure { epoch := epoch, activeIndices := active, shuffling := shuffling, committees := committees }

/-- `ComputeShufflingEpoch` -/
def computeShufflingEpoch (H : ByteArray → ByteArray) (cfg : Cfg) (vals : Array Val) (mixes : Nat → ByteArray)
    (epoch : Nat) : Res ShufflingEpoch :=
  newShufflingEpoch H cfg vals (getSeed H cfg mixes epoch DOMAIN_BEACON_ATTESTER) epoch

/-- the acceptance test `effectiveBalance*0xff >= MAX_EFFECTIVE_BALANCE*randomByte` -/
def accepts (cfg : Cfg) (effBal randomByte : Nat) : Bool :=
  decide (effBal * 0xff ≥ cfg.MAX_EFFECTIVE_BALANCE * randomByte)

/-- the inner `for j := 0; j < 32; j++` of `ComputeProposerIndex` (`k` iterations left); `none` = no
candidate accepted in this block of 32 -/
def proposerInner (H : ByteArray → ByteArray) (cfg : Cfg) (vals : Array Val) (active : Array Nat)
    (seed : ByteArray) (i : Nat) (h : ByteArray) : Nat → Nat → Res (Option Nat)
  | 0, _ => .ok none
  | k + 1, j =>
    let randomByte := byteAt h j
    let absI := ((i <<< 5) ||| j) % active.size
    match permuteIndex (Hasher.ofHash H seed) (rounds8 cfg) absI active.size with
    | .ok shuffledI =>
      if hs : shuffledI < active.size then
        let candidateIndex := active[shuffledI]
        if hv : candidateIndex < vals.size then
          if accepts cfg vals[candidateIndex].effBal randomByte then .ok (some candidateIndex)
          else proposerInner H cfg vals active seed i h k (j + 1)
        else .err        -- registry.Validator(candidateIndex) fails
      else .panic        -- active[int(shuffledI)] out of range
    | .err => .err
    | .panic => .panic
    | .outOfFuel => .outOfFuel

/-- the outer `for i := 0; i < 1000; i++` (`k` iterations left) -/
def proposerOuter (H : ByteArray → ByteArray) (cfg : Cfg) (vals : Array Val) (active : Array Nat)
    (seed : ByteArray) : Nat → Nat → Res Nat
  | 0, _ => .err   -- "random (but balance-biased) infinite scrolling should always find a proposer"
  | k + 1, i =>
    let h := H (seed ++ putUint64 i)
    match proposerInner H cfg vals active seed i h 32 0 with
    | .ok (some c) => .ok c
    | .ok none => proposerOuter H cfg vals active seed k (i + 1)
    | .err => .err
    | .panic => .panic
    | .outOfFuel => .outOfFuel

/-- `ComputeProposerIndex(spec, registry, active, seed)` -/
def computeProposerIndex (H : ByteArray → ByteArray) (cfg : Cfg) (vals : Array Val) (active : Array Nat)
    (seed : ByteArray) : Res Nat :=
  if active.size = 0 then .err else proposerOuter H cfg vals active seed 1000 0

/-- `ComputeProposers(spec, state, epoch, active).Proposers` -/
def computeProposers (H : ByteArray → ByteArray) (cfg : Cfg) (vals : Array Val) (mixes : Nat → ByteArray)
    (epoch : Nat) (active : Array Nat) : Res (List Nat) :=
  if active.size = 0 then .err else
  let startSlot := epoch * cfg.SLOTS_PER_EPOCH
  let epochSeed := getSeed H cfg mixes epoch DOMAIN_BEACON_PROPOSER
  (List.range cfg.SLOTS_PER_EPOCH).mapM fun i =>
    computeProposerIndex H cfg vals active (H (epochSeed ++ putUint64 (startSlot + i)))

/-- the `for len(syncCommitteeIndices) < SYNC_COMMITTEE_SIZE` loop of `ComputeSyncCommitteeIndices`;
the Go loop has no bound, the model takes fuel -/
def syncLoop (H : ByteArray → ByteArray) (cfg : Cfg) (vals : Array Val) (active : Array Nat)
    (periodSeed : ByteArray) : Nat → Nat → ByteArray → Array Nat → Res (Array Nat)
  | 0, _, _, _ => .outOfFuel
  | fuel + 1, i, h, out =>
    if ¬ out.size < cfg.SYNC_COMMITTEE_SIZE then .ok out else
    match permuteIndex (Hasher.ofHash H periodSeed) (rounds8 cfg) (i % active.size) active.size with
    | .ok shuffledIndex =>
      if hs : shuffledIndex < active.size then
        let candidateIndex := active[shuffledIndex]
        if hv : candidateIndex < vals.size then
          let effectiveBalance := vals[candidateIndex].effBal
          let h := if i % 32 = 0 then H (periodSeed ++ putUint64 (i / 32)) else h
          let randomByte := byteAt h (i % 32)
          let out := if accepts cfg effectiveBalance randomByte then out.push candidateIndex else out
          syncLoop H cfg vals active periodSeed fuel (i + 1) h out
        else .err
      else .panic
    | .err => .err
    | .panic => .panic
    | .outOfFuel => .outOfFuel

/-- `ComputeSyncCommitteeIndices(spec, state, baseEpoch, active)` for a state at `slot` -/
def computeSyncCommitteeIndices (H : ByteArray → ByteArray) (cfg : Cfg) (vals : Array Val)
    (mixes : Nat → ByteArray) (slot baseEpoch : Nat) (active : Array Nat) (fuel : Nat) : Res (Array Nat) :=
  if active.size = 0 then .err
  else if baseEpoch > slot / cfg.SLOTS_PER_EPOCH + 1 then .err
  else
    let periodSeed := getSeed H cfg mixes baseEpoch DOMAIN_SYNC_COMMITTEE
    syncLoop H cfg vals active periodSeed fuel 0 (ByteArray.mk (Array.replicate 32 0)) #[]

/-- the part of `EpochsContext` this property is about -/
structure Ctx where
  previousEpoch : ShufflingEpoch
  currentEpoch : ShufflingEpoch
  nextEpoch : ShufflingEpoch
  proposersEpoch : Nat
  proposers : List Nat
  deriving Repr, Inhabited

/-- `NewEpochsContext(spec, state)`: `LoadShuffling` then `LoadProposers` -/
def newEpochsContext (H : ByteArray → ByteArray) (cfg : Cfg) (vals : Array Val) (mixes : Nat → ByteArray)
    (slot : Nat) : Res Ctx := do
  if cfg.SLOTS_PER_EPOCH = 0 then .panic else
  let currentEpoch := slot / cfg.SLOTS_PER_EPOCH
  let cur ← computeShufflingEpoch H cfg vals mixes currentEpoch
  let prevEpoch := currentEpoch - 1      -- Epoch.Previous(): 0 stays 0
  let prev ← if prevEpoch = currentEpoch then pure cur else computeShufflingEpoch H cfg vals mixes prevEpoch
  let next ← computeShufflingEpoch H cfg vals mixes (currentEpoch + 1)
  let props ← computeProposers H cfg vals mixes cur.epoch cur.activeIndices
  pure { previousEpoch := prev, currentEpoch := cur, nextEpoch := next, proposersEpoch := cur.epoch, proposers := props }

/-- `getEpochComms` -/
def Ctx.getEpochComms (c : Ctx) (epoch : Nat) : Res (List (List (List Nat))) :=
  if epoch = c.previousEpoch.epoch then .ok c.previousEpoch.committees
  else if epoch = c.currentEpoch.epoch then .ok c.currentEpoch.committees
  else if epoch = c.nextEpoch.epoch then .ok c.nextEpoch.committees
  else .err

/-- `GetBeaconCommittee(slot, index)` -/
def Ctx.getBeaconCommittee (cfg : Cfg) (c : Ctx) (slot index : Nat) : Res (List Nat) :=
  if index ≥ cfg.MAX_COMMITTEES_PER_SLOT then .err else
  match c.getEpochComms (slot / cfg.SLOTS_PER_EPOCH) with
  | .ok comms =>
    match comms[slot % cfg.SLOTS_PER_EPOCH]? with
    | some slotComms =>
      match slotComms[index]? with
      | some committee => .ok committee
      | none => .err
    | none => .panic
  | _ => .err

/-- `GetCommitteeCountPerSlot(epoch)` (the error is looked at before `epochComms[0]` is indexed) -/
def Ctx.getCommitteeCountPerSlot (c : Ctx) (epoch : Nat) : Res Nat :=
  match c.getEpochComms epoch with
  | .ok comms =>
    match comms[0]? with
    | some slotComms => .ok slotComms.length
    | none => .panic
  | _ => .err

/-- `GetBeaconProposer(slot)` -/
def Ctx.getBeaconProposer (cfg : Cfg) (c : Ctx) (slot : Nat) : Res Nat :=
  if slot / cfg.SLOTS_PER_EPOCH ≠ c.proposersEpoch then .err else
  match c.proposers[slot % cfg.SLOTS_PER_EPOCH]? with
  | some p => .ok p
  | none => .panic

/-! ## specification -/
namespace Spec
open Zrnt.Shuffle.Spec (uintToBytes computeShuffledIndex)

/-- `SpecRes`: `ok v`, `err` = an `assert`/index/arithmetic failure of the pyspec, `outOfFuel` = the
spec's unbounded `while` loop did not finish within the fuel given to this executable rendering -/
abbrev SpecRes := Res

def is_active_validator (v : Val) (epoch : Nat) : Bool :=
  decide (v.activation ≤ epoch ∧ epoch < v.exit)

/-- `[ValidatorIndex(i) for i, v in enumerate(state.validators) if is_active_validator(v, epoch)]` -/
def get_active_validator_indices (validators : List Val) (epoch : Nat) : List Nat :=
  validators.zipIdx.filterMap fun (v, i) => if is_active_validator v epoch then some i else none

/-- `state.randao_mixes[epoch % EPOCHS_PER_HISTORICAL_VECTOR]` -/
def get_randao_mix (cfg : Cfg) (mixes : Nat → ByteArray) (epoch : Nat) : ByteArray :=
  mixes (epoch % cfg.EPOCHS_PER_HISTORICAL_VECTOR)

def get_seed (hash : ByteArray → ByteArray) (cfg : Cfg) (mixes : Nat → ByteArray) (epoch : Nat)
    (domain_type : ByteArray) : ByteArray :=
  let mix := get_randao_mix cfg mixes (epoch + cfg.EPOCHS_PER_HISTORICAL_VECTOR - cfg.MIN_SEED_LOOKAHEAD - 1)
  hash (domain_type ++ uintToBytes 8 epoch ++ mix)

/-- `max(1, min(MAX_COMMITTEES_PER_SLOT, len(active) // SLOTS_PER_EPOCH // TARGET_COMMITTEE_SIZE))` -/
def get_committee_count_per_slot (cfg : Cfg) (validators : List Val) (epoch : Nat) : Nat :=
  max 1 (min cfg.MAX_COMMITTEES_PER_SLOT
    ((get_active_validator_indices validators epoch).length / cfg.SLOTS_PER_EPOCH / cfg.TARGET_COMMITTEE_SIZE))

def compute_committee (hash : ByteArray → ByteArray) (cfg : Cfg) (indices : List Nat) (seed : ByteArray)
    (index count : Nat) : SpecRes (List Nat) :=
  if count = 0 then .err else
  let start := indices.length * index / count
  let end_ := indices.length * (index + 1) / count
  (List.range' start (end_ - start)).mapM fun i =>
    match computeShuffledIndex hash cfg.SHUFFLE_ROUND_COUNT i indices.length seed with
    | some s => match indices[s]? with
      | some v => .ok v
      | none => .err
    | none => .err

def get_beacon_committee (hash : ByteArray → ByteArray) (cfg : Cfg) (validators : List Val)
    (mixes : Nat → ByteArray) (slot index : Nat) : SpecRes (List Nat) :=
  let epoch := slot / cfg.SLOTS_PER_EPOCH
  let committees_per_slot := get_committee_count_per_slot cfg validators epoch
  compute_committee hash cfg (get_active_validator_indices validators epoch)
    (get_seed hash cfg mixes epoch DOMAIN_BEACON_ATTESTER)
    ((slot % cfg.SLOTS_PER_EPOCH) * committees_per_slot + index) (committees_per_slot * cfg.SLOTS_PER_EPOCH)

/-- the candidate the `i`-th iteration of the sampling loops looks at, and whether it is accepted -/
def candidate (hash : ByteArray → ByteArray) (cfg : Cfg) (validators : List Val) (indices : List Nat)
    (seed : ByteArray) (i : Nat) : SpecRes (Nat × Bool) :=
  let total := indices.length
  if total = 0 then .err else
  match computeShuffledIndex hash cfg.SHUFFLE_ROUND_COUNT (i % total) total seed with
  | none => .err
  | some s =>
    match indices[s]? with
    | none => .err
    | some candidate_index =>
      let random_byte := ((hash (seed ++ uintToBytes 8 (i / 32))).get! (i % 32)).toNat
      match validators[candidate_index]? with
      | none => .err
      | some v =>
        .ok (candidate_index, decide (v.effBal * (2 ^ 8 - 1) ≥ cfg.MAX_EFFECTIVE_BALANCE * random_byte))

/-- `compute_proposer_index`: `while True` rendered with fuel -/
def compute_proposer_index (hash : ByteArray → ByteArray) (cfg : Cfg) (validators : List Val)
    (indices : List Nat) (seed : ByteArray) : Nat → Nat → SpecRes Nat
  | 0, _ => .outOfFuel
  | fuel + 1, i =>
    if indices.length = 0 then .err else
    match candidate hash cfg validators indices seed i with
    | .ok (c, true) => .ok c
    | .ok (_, false) => compute_proposer_index hash cfg validators indices seed fuel (i + 1)
    | .err => .err
    | .panic => .panic
    | .outOfFuel => .outOfFuel

/-- `get_beacon_proposer_index` of a state whose slot is `slot` -/
def get_beacon_proposer_index (hash : ByteArray → ByteArray) (cfg : Cfg) (validators : List Val)
    (mixes : Nat → ByteArray) (slot : Nat) (fuel : Nat) : SpecRes Nat :=
  let epoch := slot / cfg.SLOTS_PER_EPOCH
  let seed := hash (get_seed hash cfg mixes epoch DOMAIN_BEACON_PROPOSER ++ uintToBytes 8 slot)
  let indices := get_active_validator_indices validators epoch
  compute_proposer_index hash cfg validators indices seed fuel 0

/-- the `while len(sync_committee_indices) < SYNC_COMMITTEE_SIZE` loop, with fuel -/
def sync_loop (hash : ByteArray → ByteArray) (cfg : Cfg) (validators : List Val) (indices : List Nat)
    (seed : ByteArray) : Nat → Nat → List Nat → SpecRes (List Nat)
  | 0, _, _ => .outOfFuel
  | fuel + 1, i, acc =>
    if ¬ acc.length < cfg.SYNC_COMMITTEE_SIZE then .ok acc else
    match candidate hash cfg validators indices seed i with
    | .ok (c, true) => sync_loop hash cfg validators indices seed fuel (i + 1) (acc ++ [c])
    | .ok (_, false) => sync_loop hash cfg validators indices seed fuel (i + 1) acc
    | .err => .err
    | .panic => .panic
    | .outOfFuel => .outOfFuel

/-- `get_next_sync_committee_indices` (altair) of a state whose slot is `slot` -/
def get_next_sync_committee_indices (hash : ByteArray → ByteArray) (cfg : Cfg) (validators : List Val)
    (mixes : Nat → ByteArray) (slot : Nat) (fuel : Nat) : SpecRes (List Nat) :=
  let epoch := slot / cfg.SLOTS_PER_EPOCH + 1
  let active_validator_indices := get_active_validator_indices validators epoch
  let seed := get_seed hash cfg mixes epoch DOMAIN_SYNC_COMMITTEE
  sync_loop hash cfg validators active_validator_indices seed fuel 0 []

end Spec
end Zrnt.Beacon.Committees
