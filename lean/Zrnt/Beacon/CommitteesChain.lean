import Zrnt.Beacon.CommitteesDriver
/-! `zmodel c07chain` (property C07 along real chains). A line is

`step <cfgId> <n> <balances> <seed> <genesis mode> <policy> <k>` (which step of which chain: only the Go side uses it)
followed by the flat data of the state after the step:
`<SLOTS_PER_EPOCH> <TARGET_COMMITTEE_SIZE> <MAX_COMMITTEES_PER_SLOT> <SHUFFLE_ROUND_COUNT> <EPOCHS_PER_HISTORICAL_VECTOR>
 <MIN_SEED_LOOKAHEAD> <MAX_EFFECTIVE_BALANCE> <SYNC_COMMITTEE_SIZE> <ALTAIR_FORK_EPOCH> <EPOCHS_PER_SYNC_COMMITTEE_PERIOD>
 <slot before the step | -> <slot> <digest of the current sync committee stored before the step | -> <… next | ->
 <randao mixes> <validators activation:exit:effective_balance:pubkey> <stored current sync pubkeys | -> <stored next | ->`

Answer `<model> | <spec>`: committees / counts / proposers by the code-shaped model of a context built from
this state resp. by the literal specification functions; the sync-committee parts are the same in both columns:

* `spk` (digests of the stored pubkeys) by the specification's history rule — before altair: none; at the altair
  upgrade (or an altair genesis): both committees are `get_next_sync_committee(state)` of the upgraded state; at
  the first slot of an epoch divisible by the period: current := previous next, next := `get_next_sync_committee`
  evaluated at the end of the epoch before; otherwise unchanged;
* `sidx` (the context's indices): the registry index of every stored pubkey. -/
namespace Zrnt.Beacon.Committees
open Zrnt Zrnt.Text

structure CVal where
  v : Val
  pub : ByteArray

instance : Inhabited CVal := ⟨⟨default, ByteArray.empty⟩⟩

def parseCVals (s : String) : Option (Array CVal) :=
  if s = "-" then some #[] else
  (s.splitOn ",").toArray.mapM fun t =>
    match t.splitOn ":" with
    | [a, e, b, p] => do
      let a ← parseEpochTok a
      let e ← parseEpochTok e
      let b ← b.toNat?
      let p ← parseHex p
      if p.size ≠ 48 then none
      pure { v := { activation := a, exit := e, effBal := b }, pub := p }
    | _ => none

def parseHexList (s : String) (size : Nat) : Option (Array ByteArray) :=
  if s = "-" then some #[] else
  (s.splitOn ",").toArray.mapM fun t => do
    let b ← parseHex t
    if b.size ≠ size then none
    pure b

/-- the randao mixes of a line: the whole vector (`hex,hex,…`) or, for long vectors, `index:hex` pairs of the slots
around the current epoch -/
def parseMixes (s : String) (ephv : Nat) : Option (Nat → ByteArray) :=
  if s.contains ':' then do
    let pairs ← (s.splitOn ",").mapM fun t =>
      match t.splitOn ":" with
      | [i, h] => do
        let i ← i.toNat?
        let b ← parseHex h
        if b.size ≠ 32 then none
        pure (i, b)
      | _ => none
    pure fun i => match pairs.find? (·.1 = i) with
      | some (_, b) => b
      | none => ByteArray.empty
  else do
    let a ← parseHexList s 32
    if a.size ≠ ephv then none
    pure fun i => a[i]!

def digestOf (ps : List ByteArray) : String :=
  toHex (Sha256.hash (ps.foldl (· ++ ·) ByteArray.empty))

instance : BEq ByteArray := ⟨fun a b => a.data == b.data⟩

def optNat (s : String) : Option (Option Nat) := if s = "-" then some none else s.toNat?.map some

def chainLine (line : String) : String :=
  let toks := tokens line
  match toks with
  -- the generator could not build or continue the chain: the real code refused a block made from its own
  -- context and state. Never expected (chains are deterministic and complete on the unchanged tree).
  | "genfail" :: _ => "chain-complete"
  | "step" :: _cfgId :: nS :: _bal :: seedS :: _gmode :: _policy :: kS ::
      spe :: tcs :: mcs :: src :: ephv :: msl :: meb :: scs :: altairS :: periodS :: preS :: postS ::
      prevCur :: prevNext :: mixesS :: valsS :: spkCurS :: spkNextS :: [] =>
    let parsed : Option (Cfg × Nat × Nat × Option Nat × Nat × (Nat → ByteArray) × Array CVal × Array ByteArray × Array ByteArray) := do
      let _ ← nS.toNat?
      let _ ← seedS.toInt?
      let _ ← kS.toNat?
      let spe ← spe.toNat?
      let tcs ← tcs.toNat?
      let mcs ← mcs.toNat?
      let src ← src.toNat?
      let ephv ← ephv.toNat?
      let msl ← msl.toNat?
      let meb ← meb.toNat?
      let scs ← scs.toNat?
      let altair ← altairS.toNat?
      let period ← periodS.toNat?
      let pre ← optNat preS
      let post ← postS.toNat?
      let mixes ← parseMixes mixesS ephv
      let vals ← parseCVals valsS
      let c ← parseHexList spkCurS 48
      let n ← parseHexList spkNextS 48
      if spe = 0 ∨ tcs = 0 ∨ ephv = 0 ∨ src > 255 ∨ msl ≥ ephv ∨ period = 0 then none
      pure (⟨spe, tcs, mcs, src, ephv, msl, meb, scs⟩, altair, period, pre, post, mixes, vals, c, n)
    match parsed with
    | none => "bad-op"
    | some (cfg, altair, period, pre, post, mixes, cvals, spkCur, spkNext) =>
      let H := Sha256.hash
      let vals := cvals.map (·.v)
      let valsL := vals.toList
      let cur := post / cfg.SLOTS_PER_EPOCH
      let prev := cur - 1
      let next := cur + 1
      -- sync-committee part (the same in both columns)
      let sample (slotArg : Nat) : Option String :=
        match Spec.get_next_sync_committee_indices H cfg valsL mixes slotArg loopFuel with
        | .ok l => some (digestOf (l.map fun i => cvals[i]!.pub))
        | _ => none
      let lookup (pk : ByteArray) : String :=
        match cvals.findIdx? (fun c => c.pub == pk) with
        | some i => toString i
        | none => "?"
      let syncPart : String :=
        if cur < altair then "sidx=nil spk=nil" else
        let expect : Option (String × String) :=
          let fresh := (sample post).map fun d => (d, d)
          match pre with
          | none => fresh                                     -- genesis already in altair or later
          | some preSlot =>
            let ePre := preSlot / cfg.SLOTS_PER_EPOCH
            if ePre < altair then fresh                       -- upgrade_to_altair happened in this step
            else if cur > ePre ∧ cur % period = 0 then        -- process_sync_committee_updates at the end of epoch cur-1
              (sample (post - 1)).map fun d => (prevNext, d)
            else some (prevCur, prevNext)
        let sidx := (if spkCur.isEmpty then "-" else ",".intercalate (spkCur.toList.map lookup)) ++ ";" ++
          (if spkNext.isEmpty then "-" else ",".intercalate (spkNext.toList.map lookup))
        match expect with
        | some (c, n) => "sidx=" ++ sidx ++ " spk=" ++ c ++ "," ++ n
        | none => "sidx=" ++ sidx ++ " spk=err"
      let m := match newEpochsContext H cfg vals mixes post with
        | .ok c =>
          "ok P=" ++ epochStr (modelEpochComms cfg c prev) ++ " C=" ++ epochStr (modelEpochComms cfg c cur) ++
            " N=" ++ epochStr (modelEpochComms cfg c next) ++ " cnt=" ++ rs toString (c.getCommitteeCountPerSlot prev) ++ "," ++
            rs toString (c.getCommitteeCountPerSlot cur) ++ "," ++ rs toString (c.getCommitteeCountPerSlot next) ++ " props=" ++
            ",".intercalate ((List.range cfg.SLOTS_PER_EPOCH).map fun s => rs toString (c.getBeaconProposer cfg (cur * cfg.SLOTS_PER_EPOCH + s))) ++
            " " ++ syncPart
        | r => rs (fun _ => "") r
      let sp := (List.range cfg.SLOTS_PER_EPOCH).map fun s =>
        Spec.get_beacon_proposer_index H cfg valsL mixes (cur * cfg.SLOTS_PER_EPOCH + s) loopFuel
      let s :=
        match specEpochComms cfg valsL mixes prev, specEpochComms cfg valsL mixes cur, specEpochComms cfg valsL mixes next with
        | some p, some c, some n =>
          if sp.all (fun r => match r with | .ok _ => true | _ => false) then
            "ok P=" ++ epochStr p ++ " C=" ++ epochStr c ++ " N=" ++ epochStr n ++
              s!" cnt={Spec.get_committee_count_per_slot cfg valsL prev},{Spec.get_committee_count_per_slot cfg valsL cur},{Spec.get_committee_count_per_slot cfg valsL next}" ++
              " props=" ++ ",".intercalate (sp.map (rs toString)) ++ " " ++ syncPart
          else "err"
        | _, _, _ => "err"
      m ++ " | " ++ s
  | _ => "bad-op"

def chainMode : Driver.Mode := Driver.stateless "c07chain" chainLine

end Zrnt.Beacon.Committees
