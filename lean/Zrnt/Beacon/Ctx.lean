import Zrnt.Beacon.State
import Zrnt.Beacon.Spec.Helpers
import Zrnt.Beacon.Committees
/-!
# C08 — the epochs context: from scratch (`ctxOf`) and incrementally (`rotate`, `afterDeposit`, `afterUpgrade`)

`Ctx` holds every answer zrnt's `common.EpochsContext` can give about the validators of a state:
three shufflings (previous / current / next epoch: epoch, active indices, the shuffled list, the
committees per slot), the proposers of the current epoch, the effective balances, the total active
stake and its integer square root, the indices and keys of the current and next sync committee
(altair+), and the pubkey cache restricted to the indices of the state (index → pubkey, pubkey → index).

* `ctxOf cfg st` — the **specification**: the context computed from the state alone, with the
  consensus spec's functions (`get_active_validator_indices`, `get_seed`, `compute_shuffled_index`,
  `compute_committee`, `compute_proposer_index`, `get_total_active_balance`). It is what
  `NewEpochsContext(spec, state)` has to produce.
* `rotate`, `afterDeposit`, `afterUpgrade` — the **code-shaped model** of how zrnt maintains the live
  context: `RotateEpochs` (shift the shufflings, compute only the next one, recompute proposers and
  stake, move the sync committees at a period boundary), `ProcessDeposit` (pubkey cache and — since the
  `fix:` commit — effective balances grow with the registry), `UpgradeMaybe` (the altair upgrade loads the
  sync committees).
* `dump` — the canonical text form, the same tokens as `/verif/go/internal/ctxcheck/dump.go`.
-/
namespace Zrnt.Beacon.Ctx
open Zrnt.Beacon Zrnt.Beacon.Spec

structure ShufflingEpoch where
  epoch : Nat
  active : List Nat
  /-- `shuffling[j] = active[compute_shuffled_index(j, n, seed)]`: committees are consecutive slices of it -/
  shuffling : List Nat
  /-- slot of the epoch → committee index → members -/
  committees : List (List (List Nat))
  deriving DecidableEq, Inhabited

structure Proposers where
  epoch : Nat
  proposers : List Nat
  /-- the exported field `ProposersEpoch.CommitteesPerSlot` (`active / SLOTS_PER_EPOCH / TARGET_COMMITTEE_SIZE`, unclamped) -/
  cps : Nat
  deriving DecidableEq, Inhabited

structure SyncC where
  indices : List Nat
  pubkeys : List Bytes
  deriving DecidableEq, Inhabited

structure Ctx where
  prev : ShufflingEpoch
  cur : ShufflingEpoch
  next : ShufflingEpoch
  proposers : Proposers
  effBalances : List Nat
  totalActiveStake : Nat
  totalActiveStakeSqrt : Nat
  syncCurrent : Option SyncC
  syncNext : Option SyncC
  /-- the pubkey cache restricted to the indices of the state: `pubkeys[i]` is the key cached for index `i` -/
  pubkeys : List Bytes
  deriving DecidableEq, Inhabited

/-! ## From scratch -/

/-- committees per slot for `n` active validators (`get_committee_count_per_slot`) -/
def committeesPerSlot (cfg : Config) (n : Nat) : Nat :=
  max 1 (min cfg.MAX_COMMITTEES_PER_SLOT (n / cfg.SLOTS_PER_EPOCH / cfg.TARGET_COMMITTEE_SIZE))

/-! The shuffling, committee and proposer functions are the literal specification functions of
`Zrnt.Beacon.Committees.Spec` (`compute_committee`, `compute_proposer_index` over
`Zrnt.Shuffle.Spec.computeShuffledIndex`) — the oracle of C07, about which C07 proves that zrnt's
`NewEpochsContext` model answers exactly these (`ctx_committee_eq_spec`, `ctx_proposer_eq_spec_partial`).
They are fed the active set and the seeds computed from the flat state. -/

/-- the constants `Committees.Spec` reads -/
def cfgC (cfg : Config) : Committees.Cfg :=
  { SLOTS_PER_EPOCH := cfg.SLOTS_PER_EPOCH, TARGET_COMMITTEE_SIZE := cfg.TARGET_COMMITTEE_SIZE,
    MAX_COMMITTEES_PER_SLOT := cfg.MAX_COMMITTEES_PER_SLOT, SHUFFLE_ROUND_COUNT := cfg.SHUFFLE_ROUND_COUNT,
    EPOCHS_PER_HISTORICAL_VECTOR := cfg.EPOCHS_PER_HISTORICAL_VECTOR, MIN_SEED_LOOKAHEAD := cfg.MIN_SEED_LOOKAHEAD,
    MAX_EFFECTIVE_BALANCE := cfg.MAX_EFFECTIVE_BALANCE, SYNC_COMMITTEE_SIZE := cfg.SYNC_COMMITTEE_SIZE }

/-- the part of a validator `Committees.Spec` reads -/
def valC (v : Validator) : Committees.Val := ⟨v.activation_epoch, v.exit_epoch, v.effective_balance⟩

/-- a `Committees.Spec` result in this file's error monad -/
def liftRes {α : Type} : Res α → SM α
  | .ok a => pure a
  | .err => invalid "assertion of the specification"
  | .panic => invalid "panic"
  | .outOfFuel => throw (.fuel "specification loop")

/-- `active[compute_shuffled_index(j, len(active), seed)]` -/
def shuffledAt (cfg : Config) (active : List Nat) (seed : Bytes) (j : Nat) : SM Nat :=
  match Zrnt.Shuffle.Spec.computeShuffledIndex Spec.hash cfg.SHUFFLE_ROUND_COUNT j active.length seed with
  | some k => idx active k "indices"
  | none => invalid "compute_shuffled_index"

/-- the shuffling of an epoch from its two inputs: the active set and the attester seed -/
def shufflingOfParts (cfg : Config) (epoch : Nat) (active : List Nat) (seed : Bytes) : SM ShufflingEpoch := do
  let n := active.length
  let shuffling ← (List.range n).mapM (shuffledAt cfg active seed)
  let cps := committeesPerSlot cfg n
  let committees ← (List.range cfg.SLOTS_PER_EPOCH).mapM fun slot =>
    (List.range cps).mapM fun index =>
      -- get_beacon_committee: compute_committee(indices, seed, (slot % SLOTS_PER_EPOCH) * cps + index, cps * SLOTS_PER_EPOCH)
      liftRes (Committees.Spec.compute_committee Spec.hash (cfgC cfg) active seed (slot * cps + index) (cps * cfg.SLOTS_PER_EPOCH))
  pure ⟨epoch, active, shuffling, committees⟩

def shufflingOf (cfg : Config) (st : State) (epoch : Nat) : SM ShufflingEpoch := do
  shufflingOfParts cfg epoch (get_active_validator_indices st epoch) (← get_seed cfg st epoch DOMAIN_BEACON_ATTESTER)

/-- `compute_proposer_index`; the pyspec's `while True` is bounded by the 32 000 candidates zrnt tries
(`ComputeProposerIndex`: 1000 hashes × 32 bytes), after which zrnt returns an error. -/
def compute_proposer_index (cfg : Config) (validators : List Validator) (indices : List Nat) (seed : Bytes) : SM Nat :=
  liftRes (Committees.Spec.compute_proposer_index Spec.hash (cfgC cfg) (validators.map valC) indices seed 32000 0)

/-- proposers of all slots of `epoch` (`get_beacon_proposer_index` at each slot) -/
def proposersOf (cfg : Config) (st : State) (epoch : Nat) (active : List Nat) : SM Proposers := do
  let epochSeed ← get_seed cfg st epoch DOMAIN_BEACON_PROPOSER
  let start := compute_start_slot_at_epoch cfg epoch
  let ps ← (List.range cfg.SLOTS_PER_EPOCH).mapM fun i =>
    compute_proposer_index cfg st.validators active (Spec.hash (epochSeed ++ uintToBytes 8 (start + i)))
  pure ⟨epoch, ps, active.length / cfg.SLOTS_PER_EPOCH / cfg.TARGET_COMMITTEE_SIZE⟩

/-- `get_total_balance(state, active)`: at least one increment -/
def totalActiveStakeOf (cfg : Config) (st : State) (epoch : Nat) : Nat :=
  max cfg.EFFECTIVE_BALANCE_INCREMENT
    (((get_active_validator_indices st epoch).map fun i => (st.validators.getD i default).effective_balance).foldl (· + ·) 0)

/-- index of a pubkey in the registry (registries never hold a key twice) -/
def indexOfPubkey (validators : List Validator) (pk : Bytes) : Option Nat :=
  validators.findIdx? fun v => decide (v.pubkey = pk)

/-- the validator index of a sync-committee member (the committee holds pubkeys) -/
def memberIndex (validators : List Validator) (pk : Bytes) : SM Nat :=
  match indexOfPubkey validators pk with
  | some i => pure i
  | none => invalid "sync committee member is not a validator"

/-- the indexed form of one of the state's sync committees -/
def syncOf (validators : List Validator) (sc : SyncCommittee) : SM SyncC := do
  let indices ← sc.pubkeys.mapM (memberIndex validators)
  pure ⟨indices, sc.pubkeys⟩

def syncOfOpt (validators : List Validator) : Option SyncCommittee → SM (Option SyncC)
  | none => pure none
  | some sc => some <$> syncOf validators sc

/-- **The context of a state, from scratch** (= what `NewEpochsContext(spec, state)` must return). -/
def ctxOf (cfg : Config) (st : State) : SM Ctx := do
  let current_epoch := get_current_epoch cfg st
  let previous_epoch := get_previous_epoch cfg st
  let cur ← shufflingOf cfg st current_epoch
  let prev ← shufflingOf cfg st previous_epoch
  let next ← shufflingOf cfg st (current_epoch + 1)
  let proposers ← proposersOf cfg st current_epoch cur.active
  let total := totalActiveStakeOf cfg st current_epoch
  pure {
    prev := prev, cur := cur, next := next, proposers := proposers
    effBalances := st.validators.map (·.effective_balance)
    totalActiveStake := total
    totalActiveStakeSqrt := integer_squareroot total
    syncCurrent := ← syncOfOpt st.validators st.current_sync_committee
    syncNext := ← syncOfOpt st.validators st.next_sync_committee
    pubkeys := st.validators.map (·.pubkey) }

/-! ## Incrementally (code-shaped: what zrnt does to the live context) -/

/-- `EpochsContext.RotateEpochs(state)`, called by `ProcessSlots` right after the slot counter entered a new epoch
(`st'` is the state after epoch processing and the slot increment). -/
def rotate (cfg : Config) (c : Ctx) (st' : State) : SM Ctx := do
  -- epc.PreviousEpoch = epc.CurrentEpoch; epc.CurrentEpoch = epc.NextEpoch
  let prev := c.cur
  let cur := c.next
  -- epc.NextEpoch = ComputeShufflingEpoch(state, nextEpoch)
  let next ← shufflingOf cfg st' (cur.epoch + 1)
  -- epc.LoadProposers(state): proposers of the (new) current epoch over the cached active indices
  let proposers ← proposersOf cfg st' cur.epoch cur.active
  -- epc.loadCurrentStake(state, indicesBounded)
  let total := totalActiveStakeOf cfg st' cur.epoch
  -- sync committees: only at a period boundary, and only for states that have them
  let (sc, sn) ←
    if st'.fork ≥ Fork.altair ∧ cur.epoch % cfg.EPOCHS_PER_SYNC_COMMITTEE_PERIOD = 0 then do
      let current ← match c.syncNext with
        | some n => pure (some n)                                        -- epc.CurrentSyncCommittee = epc.NextSyncCommittee
        | none => syncOfOpt st'.validators st'.current_sync_committee    -- hydrate from the state
      let next ← syncOfOpt st'.validators st'.next_sync_committee
      pure (current, next)
    else pure (c.syncCurrent, c.syncNext)
  pure {
    prev := prev, cur := cur, next := next, proposers := proposers
    effBalances := st'.validators.map (·.effective_balance)
    totalActiveStake := total
    totalActiveStakeSqrt := integer_squareroot total
    syncCurrent := sc, syncNext := sn
    pubkeys := c.pubkeys }

/-- `ProcessDeposit` adding validator `v` (a new pubkey with a valid proof of possession): the pubkey cache
learns the pair and the effective-balance cache grows with the registry. Top-ups and skipped deposits do not
touch the context. -/
def afterDeposit (c : Ctx) (v : Validator) : Ctx :=
  { c with pubkeys := c.pubkeys ++ [v.pubkey], effBalances := c.effBalances ++ [v.effective_balance] }

/-- `UpgradeMaybe`: the upgrade to altair loads the sync committees from the upgraded state; the later upgrades
leave the context alone. -/
def afterUpgrade (c : Ctx) (post : State) : SM Ctx := do
  if post.fork = Fork.altair then
    pure { c with syncCurrent := ← syncOfOpt post.validators post.current_sync_committee
                  syncNext := ← syncOfOpt post.validators post.next_sync_committee }
  else pure c

/-! ## Executable checks of the step hypotheses (run by `zmodel c08` on every observed step) -/

/-- one registry field: unchanged, or moved from `FAR_FUTURE_EPOCH` to an epoch `≥ compute_activation_exit_epoch(N)` -/
def fieldWriteB (cfg : Config) (N old new : Nat) : Bool :=
  decide (new = old) || (decide (old = FAR_FUTURE_EPOCH) && decide (compute_activation_exit_epoch cfg N ≤ new))

/-- two mix vectors of equal length that agree everywhere except possibly at the positions `a` and `b`
(one linear pass; `j` is the position of the heads) -/
def mixesOkFrom (a b : Nat) : Nat → List Bytes → List Bytes → Bool
  | _, [], [] => true
  | j, x :: xs, y :: ys => (decide (j = a) || decide (j = b) || decide (y = x)) && mixesOkFrom a b (j + 1) xs ys
  | _, _, _ => false

/-- Decides the write relation `Zrnt.Proofs.Ctx.EpochWrites cfg N st st'` the C08 theorems assume of blocks and of the
epoch transition of epoch `N` (soundness: `Zrnt.Proofs.C08.epochWritesB_sound`). -/
def epochWritesB (cfg : Config) (N : Nat) (st st' : State) : Bool :=
  decide (st.validators.length ≤ st'.validators.length) &&
  (List.range st.validators.length).all (fun i =>
    match st.validators[i]?, st'.validators[i]? with
    | some v, some v' =>
      fieldWriteB cfg N v.activation_epoch v'.activation_epoch && fieldWriteB cfg N v.exit_epoch v'.exit_epoch
    | _, _ => false) &&
  (List.range' st.validators.length (st'.validators.length - st.validators.length)).all (fun i =>
    match st'.validators[i]? with
    | some v' => decide (v'.activation_epoch = FAR_FUTURE_EPOCH)
    | none => false) &&
  mixesOkFrom (N % cfg.EPOCHS_PER_HISTORICAL_VECTOR) ((N + 1) % cfg.EPOCHS_PER_HISTORICAL_VECTOR) 0 st.randao_mixes st'.randao_mixes

/-- the remaining hypotheses of the in-epoch step theorem (`block_eq_ctxOf`): existing validators keep pubkey and
effective balance, the state's sync committees are untouched -/
def inEpochHypsB (st st' : State) : Bool :=
  let n := st.validators.length
  decide ((st'.validators.take n).map (·.pubkey) = st.validators.map (·.pubkey)) &&
  decide ((st'.validators.take n).map (·.effective_balance) = st.validators.map (·.effective_balance)) &&
  decide (st'.current_sync_committee = st.current_sync_committee) &&
  decide (st'.next_sync_committee = st.next_sync_committee)

/-- the remaining hypotheses of the rotation theorem (`rotate_eq_ctxOf`): no validator added by the epoch transition,
sync committees moved as `process_sync_committee_updates` does -/
def boundaryHypsB (cfg : Config) (N : Nat) (st st' : State) : Bool :=
  decide (st'.validators.map (·.pubkey) = st.validators.map (·.pubkey)) &&
  (if st'.fork ≥ Fork.altair ∧ (N + 1) % cfg.EPOCHS_PER_SYNC_COMMITTEE_PERIOD = 0 then
    decide (st'.current_sync_committee = st.next_sync_committee)
   else decide (st'.current_sync_committee = st.current_sync_committee) && decide (st'.next_sync_committee = st.next_sync_committee))

/-! ## Canonical text form (same tokens as go/internal/ctxcheck/dump.go) -/

def natList (l : List Nat) : String := joinOr "," (l.map toString)

def committeesStr (cs : List (List (List Nat))) : String :=
  joinOr ";" (cs.map fun slot => if slot.isEmpty then "none" else "/".intercalate (slot.map natList))

def shufflingFields (p : String) (s : ShufflingEpoch) : List (String × String) := [
  (p ++ "_epoch", toString s.epoch), (p ++ "_active", natList s.active), (p ++ "_shuffling", natList s.shuffling),
  (p ++ "_committees", committeesStr s.committees),
  (p ++ "_count", toString ((s.committees.headD []).length))]

def syncFields (p : String) : Option SyncC → List (String × String)
  | none => [(p ++ "_indices", "nil"), (p ++ "_pubkeys", "nil")]
  | some s => [(p ++ "_indices", natList s.indices), (p ++ "_pubkeys", joinOr "," (s.pubkeys.map hx))]

def fields (c : Ctx) : List (String × String) :=
  shufflingFields "prev" c.prev ++ shufflingFields "cur" c.cur ++ shufflingFields "next" c.next ++
  [("proposers_epoch", toString c.proposers.epoch), ("proposers", natList c.proposers.proposers),
   ("proposers_cps", toString c.proposers.cps), ("proposer_lookup", natList c.proposers.proposers),
   ("eff_len", toString c.effBalances.length), ("eff_balances", natList c.effBalances),
   ("total_active_stake", toString c.totalActiveStake), ("total_active_stake_sqrt", toString c.totalActiveStakeSqrt)] ++
  syncFields "sync_current" c.syncCurrent ++ syncFields "sync_next" c.syncNext ++
  [("idx2pub", joinOr "," (c.pubkeys.map hx)),
   ("pub2idx", joinOr "," (c.pubkeys.map fun pk =>
      match c.pubkeys.findIdx? (fun q => decide (q = pk)) with
      | some i => toString i
      | none => "?"))]

def dump (c : Ctx) : String := " ".intercalate ((fields c).map fun (k, v) => k ++ "=" ++ v)
def dumpAbbrev (c : Ctx) : String := " ".intercalate ((fields c).map fun (k, v) => k ++ "=" ++ abbrevValue v)

end Zrnt.Beacon.Ctx
