import Zrnt.Driver.Loop
import Zrnt.Beacon.Impl.Block
import Zrnt.Beacon.Spec.BlockTransition
import Zrnt.Beacon.Impl.BlockM
/-!
`zmodel c01pieces` (stateless): ties every piece of the code-shaped model `M`
(`Zrnt/Beacon/Impl/Block.lean`) to the exported Go function it models. Answers `<M> | <S>`;
`S` = `any` where the property does not constrain the input (documented domain).

* `zigzag <a> <b>`                 lists `i,i,…` / `-`         → `ok i,i,…` (the `onIn` calls in order)
* `slashable <d1> <d2>`            `<d>` = slot:index:root:se:sr:te:tr → `ok true|false`
* `indexed max=<N> <list>`         `ValidateIndexedAttestationIndicesSet` → `ok true` (nil) / `ok false` (error)
* `domain <t4> <v4> <g32> <o32>`   `ComputeSigningRoot(o, ComputeDomain(t, v, g))` → hex
* `withdrawals <cfg> <state>`      `capella.GetExpectedWithdrawals` → `ok idx:vi:addr:amount;…` / `err`
* `wdapply pw=<withdrawals> <cfg> <state>`  `capella.ProcessWithdrawals` (comparison, balances, index and cursor update) → `ok <abbrev state>` / `err`
* `initexit index=<i> <cfg> <state>`  `phase0.InitiateValidatorExit` → `ok <abbrev state>` / `err`
-/
namespace Zrnt.Beacon.BlockPieces
open Zrnt Zrnt.Text Zrnt.Beacon Zrnt.Beacon.Spec Zrnt.Beacon.BlockImpl

def pNats (s : String) : Option (List Nat) :=
  if s = "-" then some [] else (s.splitOn ",").mapM fun t => do
    let n ← t.toNat?
    if n < 2 ^ 64 then some n else none

def showNats (l : List Nat) : String := if l.isEmpty then "-" else ",".intercalate (l.map toString)

def resStr {α} (f : α → String) : Res α → String
  | .ok a => "ok " ++ f a
  | .err => "err"
  | .panic => "panic"
  | .outOfFuel => "outOfFuel"

def smStr {α} (f : α → String) : SM α → String
  | .ok a => "ok " ++ f a
  | .error _ => "err"

def pData (s : String) : Option AttestationData :=
  match s.splitOn ":" with
  | [slot, idx, bbr, se, sr, te, tr] =>
    match pAttData slot idx bbr se sr te tr with
    | .ok d => some d
    | .error _ => none
  | _ => none

def showWithdrawals (l : List Withdrawal) : String :=
  if l.isEmpty then "-" else ";".intercalate (l.map fun w => s!"{w.index}:{w.validator_index}:{toHex w.address}:{w.amount}")

def sha (l : List UInt8) : List UInt8 := (Sha256.hash ⟨l.toArray⟩).toList

def piecesLine (line : String) : String :=
  let toks := tokens line
  let (kv, rest) := parseKV toks
  match rest with
  | ["zigzag", a, b] =>
    match pNats a, pNats b with
    | some vs, some target =>
      let m := resStr showNats (zigzagIn vs target)
      let dom := Block.sortedUnique vs && Block.sortedUnique target && !vs.contains marker
      m ++ " | " ++ (if dom then "ok " ++ showNats (Block.sortedIntersection vs target) else "any")
    | _, _ => "bad-op"
  | ["slashable", a, b] =>
    match pData a, pData b with
    | some d1, some d2 =>
      "ok " ++ boolStr (isSlashableAttestationData d1 d2) ++ " | ok " ++ boolStr (Block.is_slashable_attestation_data d1 d2)
    | _, _ => "bad-op"
  | ["indexed", l] =>
    match kv.get? "max" >>= (·.toNat?), pNats l with
    | some mx, some indices =>
      let cfg : Config := { (default : Config) with MAX_VALIDATORS_PER_COMMITTEE := mx }
      resStr boolStr (validateIndexedNoSig cfg (2 ^ 64) indices) ++ " | ok " ++
        boolStr (decide (indices.length ≤ mx) && indices.length != 0 && Block.sortedUnique indices)
    | _, _ => "bad-op"
  | ["domain", t, v, g, o] =>
    match parseHex t, parseHex v, parseHex g, parseHex o with
    | some t, some v, some g, some o =>
      if t.size = 4 ∧ v.size = 4 ∧ g.size = 32 ∧ o.size = 32 then
        toHex ⟨(signedMessage sha t.toList v.toList g.toList o.toList).toArray⟩
      else "bad-op"
    | _, _, _, _ => "bad-op"
  | ["withdrawals"] =>
    match parseConfig kv, parseState kv with
    | .ok cfg, .ok s =>
      resStr showWithdrawals (expectedWithdrawals cfg s) ++ " | " ++ smStr showWithdrawals (Block.get_expected_withdrawals cfg s)
    | _, _ => "bad-op"
  | ["wdapply"] =>
    match parseConfig kv, parseState kv, (kv.get? "pw").map (pList ";" pWithdrawal) with
    | .ok cfg, .ok s, some (.ok wl) =>
      let payload : ExecutionPayload := ⟨default, [], wl⟩
      let m := match BlockM.processWithdrawals cfg s payload with
        | .ok s' => "ok " ++ printStateAbbrev s'
        | .err => "err"
        | .panic => "panic"
        | .outOfFuel => "outOfFuel"
      m ++ " | " ++ smStr printStateAbbrev (Block.process_withdrawals cfg s payload)
    | _, _, _ => "bad-op"
  | ["initexit"] =>
    match parseConfig kv, parseState kv, kv.get? "index" >>= (·.toNat?) with
    | .ok cfg, .ok s, some index =>
      let cur := get_current_epoch cfg s
      let activeCount := (get_active_validator_indices s cur).length
      let m := match initiateValidatorExit cfg cur activeCount s.validators index with
        | .ok vals => "ok " ++ printStateAbbrev { s with validators := vals }
        | .err => "err"
        | .panic => "panic"
        | .outOfFuel => "outOfFuel"
      m ++ " | " ++ smStr printStateAbbrev (initiate_validator_exit cfg s index)
    | _, _, _ => "bad-op"
  | _ => "bad-op"

def piecesMode : Driver.Mode := Driver.stateless "c01pieces" piecesLine

end Zrnt.Beacon.BlockPieces
