import Zrnt.Beacon.State
/-!
# Flat signed beacon block (all five forks) and its Go↔Lean exchange format

One `structure SignedBlock` for phase0 … deneb signed beacon blocks. `fork` names the block *container*;
parts a fork lacks are `none` / empty. Lean never decodes SSZ: the Go package
`/verif/go/internal/flatblock` prints a real typed `SignedBeaconBlock` into the text below (`Dump`) and
parses the text back into a typed block (`Parse`); the two files are kept in step. The Go exec side
runs the real code on `Parse(line)` and refuses the op line (`bad-op`) unless `Dump(Parse(line))` is the
line's text again, so the text Lean reads is exactly the image of the typed block the real code ran on
(including the hash-tree-roots, which `Dump` recomputes with the real library).

BLS and SSZ merkleization are not modelled in Lean. Every record that carries a signature therefore
also carries the **signature-oracle Boolean(s)** computed by the harness with its own code following
the spec (`compute_domain` / `get_domain` / `compute_signing_root`, keys taken from the pre-state
registry by the indices the spec prescribes, real `blsu` verification), and every hash-tree-root the
spec takes of a block part is supplied by the harness from the real library and named `*_root`.

## Format (tokens `key=value` on one line; conventions of `State.lean`: `:` joins the fields of a
record, `;` joins records, `,` joins scalars/byte strings inside a field, `-` = empty; booleans `0|1`)

```
fork=phase0|altair|bellatrix|capella|deneb
slot=N proposer_index=N parent_root=H32 state_root=H32 signature=H96
randao_reveal=H96  eth1_data=deposit_root:deposit_count:block_hash  graffiti=H32
proposer_slashings=<ps>;…    <ps>  = <sh>:<sh>
                             <sh>  = slot:proposer_index:parent_root:state_root:body_root:signature:sig_ok
attester_slashings=<as>;…    <as>  = <ia>:<ia>
                             <ia>  = i,i,…:slot:index:beacon_block_root:source_epoch:source_root:target_epoch:target_root:signature:sig_ok
attestations=<att>;…         <att> = bits:slot:index:beacon_block_root:source_epoch:source_root:target_epoch:target_root:signature:sig_ok:oidx
                             (bits = the RAW SSZ bitlist bytes, with the delimiter bit, as hex; oidx = i,i,… the sorted attesting
                              indices the harness derived and took the keys of, `x` if it could not derive them)
deposits=<dep>;…             <dep> = proof(33 × H32 joined by ,):pubkey:withdrawal_credentials:amount:signature:data_root:sig_ok
voluntary_exits=<ex>;…       <ex>  = epoch:validator_index:signature:sig_ok
sync_aggregate=bits:signature:sig_ok     (altair+, `-` before; bits = the RAW SSZ bitvector bytes as hex)
payload=<the 14/15/17 header fields of State.lean's payload_header>   (bellatrix+, `-` before;
                             transactions_root and withdrawals_root are hash-tree-roots supplied by the harness)
transactions=hex,hex,…       (bellatrix+, `-` before or if empty; an empty transaction is written `e`)
withdrawals=index:validator_index:address:amount;…                    (capella+, `-` before or if empty)
bls_changes=<bc>;…           <bc>  = validator_index:from_bls_pubkey:to_execution_address:signature:sig_ok   (capella+)
blob_kzg_commitments=H48,…   (deneb, `-` before or if empty)
```
Oracle tokens (harness-computed, see `/verif/go/internal/beaconblock`):
```
o_block_sig=0|1          signed_block.signature verifies under validators[proposer_index].pubkey (pre-state) for
                         compute_signing_root(block, get_domain(state, DOMAIN_BEACON_PROPOSER)); 0 if index out of range
o_randao=0|1             randao_reveal verifies under validators[block.proposer_index].pubkey for
                         compute_signing_root(epoch_of(block.slot) , get_domain(state, DOMAIN_RANDAO))
o_body_root=H32          hash_tree_root(block.body)
o_engine=valid|invalid|error   what the (mock) execution engine answers for this payload
o_post_root=H32|-        hash_tree_root of the post-state the real code reaches without result validation (`-`: it rejects)
```
-/
namespace Zrnt.Beacon
open Zrnt.Text

structure SignedBeaconBlockHeader where
  message : BeaconBlockHeader
  signature : Bytes
  /-- oracle: `bls.Verify(validators[message.proposer_index].pubkey, signing_root(message, DOMAIN_BEACON_PROPOSER @ epoch(message.slot)), signature)` -/
  sig_ok : Bool
  deriving DecidableEq, Inhabited

structure ProposerSlashing where
  signed_header_1 : SignedBeaconBlockHeader
  signed_header_2 : SignedBeaconBlockHeader
  deriving DecidableEq, Inhabited

structure IndexedAttestation where
  attesting_indices : List Nat
  data : AttestationData
  signature : Bytes
  /-- oracle: `bls.FastAggregateVerify([validators[i].pubkey for i in attesting_indices], signing_root(data, DOMAIN_BEACON_ATTESTER @ data.target.epoch), signature)`;
  `false` when some index is out of the registry's range -/
  sig_ok : Bool
  deriving DecidableEq, Inhabited

structure AttesterSlashing where
  attestation_1 : IndexedAttestation
  attestation_2 : IndexedAttestation
  deriving DecidableEq, Inhabited

structure Attestation where
  aggregation_bits : List Bool
  /-- the raw bytes are a well-formed SSZ bitlist (non-empty, last byte non-zero); `aggregation_bits = []` otherwise -/
  bits_wellformed : Bool
  data : AttestationData
  signature : Bytes
  /-- oracle: FastAggregateVerify of the keys of `oracle_indices` over the attestation data's signing root -/
  sig_ok : Bool
  /-- the sorted attesting indices the harness used (`none`: it could not derive them, then `sig_ok = false`) -/
  oracle_indices : Option (List Nat)
  deriving DecidableEq, Inhabited

structure DepositData where
  pubkey : Bytes
  withdrawal_credentials : Bytes
  amount : Nat
  signature : Bytes
  deriving DecidableEq, Inhabited

structure Deposit where
  proof : List Bytes
  data : DepositData
  /-- supplied: `hash_tree_root(deposit.data)` -/
  data_root : Bytes
  /-- oracle: `bls.Verify(data.pubkey, signing_root(DepositMessage, compute_domain(DOMAIN_DEPOSIT)), data.signature)` -/
  sig_ok : Bool
  deriving DecidableEq, Inhabited

structure SignedVoluntaryExit where
  epoch : Nat
  validator_index : Nat
  signature : Bytes
  /-- oracle: verifies under `validators[validator_index].pubkey` with the fork's exit domain -/
  sig_ok : Bool
  deriving DecidableEq, Inhabited

structure SignedBLSToExecutionChange where
  validator_index : Nat
  from_bls_pubkey : Bytes
  to_execution_address : Bytes
  signature : Bytes
  /-- oracle: verifies under `from_bls_pubkey` with `compute_domain(DOMAIN_BLS_TO_EXECUTION_CHANGE, genesis_validators_root=…)` -/
  sig_ok : Bool
  deriving DecidableEq, Inhabited

structure SyncAggregate where
  /-- ALL bits of the raw bitvector bytes (8 per byte, least significant first); `S` checks the byte length
  against `SYNC_COMMITTEE_SIZE` and that the padding bits are zero -/
  sync_committee_bits : List Bool
  sync_committee_signature : Bytes
  /-- oracle: `eth_fast_aggregate_verify(participant pubkeys, signing_root(block_root(previous_slot), DOMAIN_SYNC_COMMITTEE), signature)` -/
  sig_ok : Bool
  deriving DecidableEq, Inhabited

structure Withdrawal where
  index : Nat
  validator_index : Nat
  address : Bytes
  amount : Nat
  deriving DecidableEq, Inhabited

/-- The execution payload. `fields` holds the scalar/bytes fields in the shape of the payload *header*
with `transactions_root` / `withdrawals_root` = the harness-supplied hash-tree-roots of the two lists,
i.e. `fields` IS the header `process_execution_payload` stores. -/
structure ExecutionPayload where
  fields : ExecutionPayloadHeader
  transactions : List Bytes
  withdrawals : List Withdrawal
  deriving DecidableEq, Inhabited

inductive EngineVerdict where
  | valid | invalid | error
  deriving DecidableEq, Inhabited

structure SignedBlock where
  fork : Fork
  slot : Nat
  proposer_index : Nat
  parent_root : Bytes
  state_root : Bytes
  signature : Bytes
  randao_reveal : Bytes
  eth1_data : Eth1Data
  graffiti : Bytes
  proposer_slashings : List ProposerSlashing
  attester_slashings : List AttesterSlashing
  attestations : List Attestation
  deposits : List Deposit
  voluntary_exits : List SignedVoluntaryExit
  sync_aggregate : Option SyncAggregate
  execution_payload : Option ExecutionPayload
  bls_to_execution_changes : List SignedBLSToExecutionChange
  blob_kzg_commitments : List Bytes
  -- oracle inputs
  o_block_sig : Bool
  o_randao : Bool
  o_body_root : Bytes
  o_engine : EngineVerdict
  o_post_root : Option Bytes
  deriving Inhabited

/-! ## Parsing -/

def pAttData (slot idx bbr se sr te tr : String) : P AttestationData := do
  pure ⟨← pU64 slot, ← pU64 idx, ← pHexN 32 bbr, ⟨← pU64 se, ← pHexN 32 sr⟩, ⟨← pU64 te, ← pHexN 32 tr⟩⟩

def pSignedHeader : List String → P SignedBeaconBlockHeader
  | [a, b, c, d, e, sg, ok] => do
    pure ⟨⟨← pU64 a, ← pU64 b, ← pHexN 32 c, ← pHexN 32 d, ← pHexN 32 e⟩, ← pHexN 96 sg, ← pBool01 ok⟩
  | _ => throw "bad signed header"

def pProposerSlashing (s : String) : P ProposerSlashing :=
  let f := s.splitOn ":"
  if f.length = 14 then do pure ⟨← pSignedHeader (f.take 7), ← pSignedHeader (f.drop 7)⟩
  else throw s!"bad proposer slashing {s}"

def pIndexed : List String → P IndexedAttestation
  | [ix, slot, idx, bbr, se, sr, te, tr, sg, ok] => do
    pure ⟨← pList "," pU64 ix, ← pAttData slot idx bbr se sr te tr, ← pHexN 96 sg, ← pBool01 ok⟩
  | _ => throw "bad indexed attestation"

def pAttesterSlashing (s : String) : P AttesterSlashing :=
  let f := s.splitOn ":"
  if f.length = 20 then do pure ⟨← pIndexed (f.take 10), ← pIndexed (f.drop 10)⟩
  else throw s!"bad attester slashing {s}"

/-- bits of a byte string, least significant bit of each byte first -/
def bytesBits (b : Bytes) : List Bool :=
  b.toList.flatMap fun x => (List.range 8).map fun i => (x.toNat / 2 ^ i) % 2 = 1

/-- SSZ bitlist: the highest set bit of the last byte is the delimiter. `none`: no bytes, or last byte zero. -/
def decodeBitlist (b : Bytes) : Option (List Bool) :=
  if b.size = 0 then none else
  let last := (b.get! (b.size - 1)).toNat
  if last = 0 then none else
  let n := 8 * (b.size - 1) + Nat.log2 last
  some ((bytesBits b).take n)

def pAttestation (s : String) : P Attestation :=
  match s.splitOn ":" with
  | [bits, slot, idx, bbr, se, sr, te, tr, sg, ok, oidx] => do
    let oi ← if oidx = "x" then pure none else some <$> pList "," pU64 oidx
    let raw ← pHex bits
    let (bl, wf) := match decodeBitlist raw with | some l => (l, true) | none => ([], false)
    pure ⟨bl, wf, ← pAttData slot idx bbr se sr te tr, ← pHexN 96 sg, ← pBool01 ok, oi⟩
  | _ => throw s!"bad attestation {s}"

def pDeposit (s : String) : P Deposit :=
  match s.splitOn ":" with
  | [proof, pk, wc, amt, sg, root, ok] => do
    pure ⟨← pList "," (pHexN 32) proof, ⟨← pHexN 48 pk, ← pHexN 32 wc, ← pU64 amt, ← pHexN 96 sg⟩, ← pHexN 32 root, ← pBool01 ok⟩
  | _ => throw s!"bad deposit {s}"

def pExit (s : String) : P SignedVoluntaryExit :=
  match s.splitOn ":" with
  | [e, v, sg, ok] => do pure ⟨← pU64 e, ← pU64 v, ← pHexN 96 sg, ← pBool01 ok⟩
  | _ => throw s!"bad exit {s}"

def pBLSChange (s : String) : P SignedBLSToExecutionChange :=
  match s.splitOn ":" with
  | [v, pk, addr, sg, ok] => do pure ⟨← pU64 v, ← pHexN 48 pk, ← pHexN 20 addr, ← pHexN 96 sg, ← pBool01 ok⟩
  | _ => throw s!"bad bls change {s}"

def pSyncAggregate (s : String) : P (Option SyncAggregate) :=
  if s = "-" then pure none else
  match s.splitOn ":" with
  | [bits, sg, ok] => do pure (some ⟨bytesBits (← pHex bits), ← pHexN 96 sg, ← pBool01 ok⟩)
  | _ => throw s!"bad sync aggregate {s}"

def pWithdrawal (s : String) : P Withdrawal :=
  match s.splitOn ":" with
  | [i, v, a, amt] => do pure ⟨← pU64 i, ← pU64 v, ← pHexN 20 a, ← pU64 amt⟩
  | _ => throw s!"bad withdrawal {s}"

def pTx (s : String) : P Bytes := if s = "e" then pure ByteArray.empty else pHex s

def pEngine : String → P EngineVerdict
  | "valid" => pure .valid | "invalid" => pure .invalid | "error" => pure .error
  | s => throw s!"bad engine verdict {s}"

def parseBlock (kv : KV) : P SignedBlock := do
  let get := need kv
  let forkS ← get "fork"
  let some fork := Fork.ofName? forkS | throw s!"bad fork {forkS}"
  let payloadHdr ← pPayloadHeader (← get "payload")
  let txs ← pList "," pTx (← get "transactions")
  let wds ← pList ";" pWithdrawal (← get "withdrawals")
  let postRoot ← (do let s ← get "o_post_root"; if s = "-" then pure none else some <$> pHexN 32 s)
  pure {
    fork := fork
    slot := ← pU64 (← get "slot")
    proposer_index := ← pU64 (← get "proposer_index")
    parent_root := ← pHexN 32 (← get "parent_root")
    state_root := ← pHexN 32 (← get "state_root")
    signature := ← pHexN 96 (← get "signature")
    randao_reveal := ← pHexN 96 (← get "randao_reveal")
    eth1_data := ← pEth1Data (← get "eth1_data")
    graffiti := ← pHexN 32 (← get "graffiti")
    proposer_slashings := ← pList ";" pProposerSlashing (← get "proposer_slashings")
    attester_slashings := ← pList ";" pAttesterSlashing (← get "attester_slashings")
    attestations := ← pList ";" pAttestation (← get "attestations")
    deposits := ← pList ";" pDeposit (← get "deposits")
    voluntary_exits := ← pList ";" pExit (← get "voluntary_exits")
    sync_aggregate := ← pSyncAggregate (← get "sync_aggregate")
    execution_payload := payloadHdr.map fun h => ⟨h, txs, wds⟩
    bls_to_execution_changes := ← pList ";" pBLSChange (← get "bls_changes")
    blob_kzg_commitments := ← pList "," (pHexN 48) (← get "blob_kzg_commitments")
    o_block_sig := ← pBool01 (← get "o_block_sig")
    o_randao := ← pBool01 (← get "o_randao")
    o_body_root := ← pHexN 32 (← get "o_body_root")
    o_engine := ← pEngine (← get "o_engine")
    o_post_root := postRoot }

end Zrnt.Beacon
