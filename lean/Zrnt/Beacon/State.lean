import Std.Data.HashMap
import Zrnt.Prelude.Text
import Zrnt.Sha256
/-!
# Flat beacon state, configuration record and the Go↔Lean exchange format

One `structure State` for all five forks (phase0 … deneb). `fork` names the BeaconState *container*
the state is an instance of; fields a fork lacks are empty lists / `none` / `0`.

Lean never decodes SSZ. The Go harness (`/verif/go/internal/flat`) dumps a real `BeaconState` into
the **flat text format** specified below, Lean parses it with `parseState`, runs the specification
and prints the post-state with `printState` in the same format. The format is specified in the
doc comment of `/verif/go/internal/flat/flat.go`; the two files are kept in step (a round-trip
`echo` op of the `c02` mode compares Go's dump with `printState (parseState dump)` on every run).

## Format (one line, tokens separated by one space, every token `key=value`, no spaces inside)

scalars: decimal `Nat`;  bytes: lowercase hex, `-` for the empty byte string;
list of scalars / of byte strings: elements joined by `,`, `-` for the empty list;
record: fields joined by `:`;  list of records: records joined by `;`, `-` for the empty list.

State keys (lower case), in this order:
```
fork=phase0|altair|bellatrix|capella|deneb
genesis_time=N  genesis_validators_root=H32  slot=N
fork_previous_version=H4  fork_current_version=H4  fork_epoch=N
header=slot:proposer_index:parent_root:state_root:body_root
block_roots=H32,…  state_roots=H32,…  historical_roots=H32,…|-
eth1_data=deposit_root:deposit_count:block_hash
eth1_data_votes=deposit_root:deposit_count:block_hash;…|-
eth1_deposit_index=N
validators=pubkey:withdrawal_credentials:effective_balance:slashed(0|1):activation_eligibility_epoch:activation_epoch:exit_epoch:withdrawable_epoch;…|-
balances=N,…|-  randao_mixes=H32,…  slashings=N,…
prev_atts=<att>;…|-  curr_atts=<att>;…|-          (phase0 only, `-` otherwise)
   <att> = bits(0/1 string, `-` if empty):slot:index:beacon_block_root:source_epoch:source_root:target_epoch:target_root:inclusion_delay:proposer_index
justification_bits=b0b1b2b3 (0/1 characters, bit 0 first)
prev_justified=epoch:root  curr_justified=epoch:root  finalized=epoch:root
prev_participation=N,…|-  curr_participation=N,…|-  inactivity_scores=N,…|-        (altair+, `-` before)
current_sync_committee=aggregate_pubkey:pk,pk,…  next_sync_committee=…             (altair+, `-` before)
payload_header=parent_hash:fee_recipient:state_root:receipts_root:logs_bloom:prev_randao:block_number:gas_limit:gas_used:timestamp:extra_data:base_fee_per_gas:block_hash:transactions_root[:withdrawals_root[:blob_gas_used:excess_blob_gas]]
                                                                                  (bellatrix+: 14 fields, capella: 15, deneb: 17; `-` before)
next_withdrawal_index=N  next_withdrawal_validator_index=N                         (capella+, `0` before)
historical_summaries=block_summary_root:state_summary_root;…|-                     (capella+, `-` before)
```
Configuration keys are the UPPER_CASE names of the preset/config constants (decimal; fork versions hex).
-/
namespace Zrnt.Beacon
open Zrnt.Text

abbrev Bytes := ByteArray

instance : DecidableEq ByteArray := fun a b =>
  if h : a.data = b.data then isTrue (by cases a; cases b; simp_all) else isFalse (by intro e; exact h (by rw [e]))

inductive Fork where
  | phase0 | altair | bellatrix | capella | deneb
  deriving DecidableEq, Repr, Inhabited

namespace Fork
def toNat : Fork → Nat
  | phase0 => 0 | altair => 1 | bellatrix => 2 | capella => 3 | deneb => 4
def name : Fork → String
  | phase0 => "phase0" | altair => "altair" | bellatrix => "bellatrix" | capella => "capella" | deneb => "deneb"
def ofName? : String → Option Fork
  | "phase0" => some phase0 | "altair" => some altair | "bellatrix" => some bellatrix
  | "capella" => some capella | "deneb" => some deneb | _ => none
instance : LE Fork := ⟨fun a b => a.toNat ≤ b.toNat⟩
instance : LT Fork := ⟨fun a b => a.toNat < b.toNat⟩
instance (a b : Fork) : Decidable (a ≤ b) := inferInstanceAs (Decidable (a.toNat ≤ b.toNat))
instance (a b : Fork) : Decidable (a < b) := inferInstanceAs (Decidable (a.toNat < b.toNat))
end Fork

/-- All preset and configuration constants the specification layer reads. Every field is dumped by
the Go side from the real `*common.Spec`, so custom presets work. -/
structure Config where
  -- phase0 preset
  MAX_COMMITTEES_PER_SLOT : Nat
  TARGET_COMMITTEE_SIZE : Nat
  MAX_VALIDATORS_PER_COMMITTEE : Nat
  SHUFFLE_ROUND_COUNT : Nat
  HYSTERESIS_QUOTIENT : Nat
  HYSTERESIS_DOWNWARD_MULTIPLIER : Nat
  HYSTERESIS_UPWARD_MULTIPLIER : Nat
  MIN_DEPOSIT_AMOUNT : Nat
  MAX_EFFECTIVE_BALANCE : Nat
  EFFECTIVE_BALANCE_INCREMENT : Nat
  MIN_ATTESTATION_INCLUSION_DELAY : Nat
  SLOTS_PER_EPOCH : Nat
  MIN_SEED_LOOKAHEAD : Nat
  MAX_SEED_LOOKAHEAD : Nat
  EPOCHS_PER_ETH1_VOTING_PERIOD : Nat
  SLOTS_PER_HISTORICAL_ROOT : Nat
  MIN_EPOCHS_TO_INACTIVITY_PENALTY : Nat
  EPOCHS_PER_HISTORICAL_VECTOR : Nat
  EPOCHS_PER_SLASHINGS_VECTOR : Nat
  HISTORICAL_ROOTS_LIMIT : Nat
  VALIDATOR_REGISTRY_LIMIT : Nat
  BASE_REWARD_FACTOR : Nat
  WHISTLEBLOWER_REWARD_QUOTIENT : Nat
  PROPOSER_REWARD_QUOTIENT : Nat
  INACTIVITY_PENALTY_QUOTIENT : Nat
  MIN_SLASHING_PENALTY_QUOTIENT : Nat
  PROPORTIONAL_SLASHING_MULTIPLIER : Nat
  MAX_PROPOSER_SLASHINGS : Nat
  MAX_ATTESTER_SLASHINGS : Nat
  MAX_ATTESTATIONS : Nat
  MAX_DEPOSITS : Nat
  MAX_VOLUNTARY_EXITS : Nat
  -- altair preset
  INACTIVITY_PENALTY_QUOTIENT_ALTAIR : Nat
  MIN_SLASHING_PENALTY_QUOTIENT_ALTAIR : Nat
  PROPORTIONAL_SLASHING_MULTIPLIER_ALTAIR : Nat
  SYNC_COMMITTEE_SIZE : Nat
  EPOCHS_PER_SYNC_COMMITTEE_PERIOD : Nat
  MIN_SYNC_COMMITTEE_PARTICIPANTS : Nat
  -- bellatrix preset
  INACTIVITY_PENALTY_QUOTIENT_BELLATRIX : Nat
  MIN_SLASHING_PENALTY_QUOTIENT_BELLATRIX : Nat
  PROPORTIONAL_SLASHING_MULTIPLIER_BELLATRIX : Nat
  MAX_BYTES_PER_TRANSACTION : Nat
  MAX_TRANSACTIONS_PER_PAYLOAD : Nat
  BYTES_PER_LOGS_BLOOM : Nat
  MAX_EXTRA_DATA_BYTES : Nat
  -- capella preset
  MAX_BLS_TO_EXECUTION_CHANGES : Nat
  MAX_WITHDRAWALS_PER_PAYLOAD : Nat
  MAX_VALIDATORS_PER_WITHDRAWALS_SWEEP : Nat
  -- deneb preset
  MAX_BLOB_COMMITMENTS_PER_BLOCK : Nat
  -- config
  MIN_GENESIS_ACTIVE_VALIDATOR_COUNT : Nat
  MIN_GENESIS_TIME : Nat
  GENESIS_DELAY : Nat
  GENESIS_FORK_VERSION : Bytes
  ALTAIR_FORK_VERSION : Bytes
  ALTAIR_FORK_EPOCH : Nat
  BELLATRIX_FORK_VERSION : Bytes
  BELLATRIX_FORK_EPOCH : Nat
  CAPELLA_FORK_VERSION : Bytes
  CAPELLA_FORK_EPOCH : Nat
  DENEB_FORK_VERSION : Bytes
  DENEB_FORK_EPOCH : Nat
  ELECTRA_FORK_EPOCH : Nat
  SECONDS_PER_SLOT : Nat
  SECONDS_PER_ETH1_BLOCK : Nat
  MIN_VALIDATOR_WITHDRAWABILITY_DELAY : Nat
  SHARD_COMMITTEE_PERIOD : Nat
  ETH1_FOLLOW_DISTANCE : Nat
  INACTIVITY_SCORE_BIAS : Nat
  INACTIVITY_SCORE_RECOVERY_RATE : Nat
  EJECTION_BALANCE : Nat
  MIN_PER_EPOCH_CHURN_LIMIT : Nat
  CHURN_LIMIT_QUOTIENT : Nat
  MAX_PER_EPOCH_ACTIVATION_CHURN_LIMIT : Nat
  MAX_BLOBS_PER_BLOCK : Nat
  deriving Inhabited

/-! ## Containers -/

structure Validator where
  pubkey : Bytes
  withdrawal_credentials : Bytes
  effective_balance : Nat
  slashed : Bool
  activation_eligibility_epoch : Nat
  activation_epoch : Nat
  exit_epoch : Nat
  withdrawable_epoch : Nat
  deriving DecidableEq, Inhabited

structure Checkpoint where
  epoch : Nat
  root : Bytes
  deriving DecidableEq, Inhabited

structure ForkRec where
  previous_version : Bytes
  current_version : Bytes
  epoch : Nat
  deriving DecidableEq, Inhabited

structure BeaconBlockHeader where
  slot : Nat
  proposer_index : Nat
  parent_root : Bytes
  state_root : Bytes
  body_root : Bytes
  deriving DecidableEq, Inhabited

structure Eth1Data where
  deposit_root : Bytes
  deposit_count : Nat
  block_hash : Bytes
  deriving DecidableEq, Inhabited

structure AttestationData where
  slot : Nat
  index : Nat
  beacon_block_root : Bytes
  source : Checkpoint
  target : Checkpoint
  deriving DecidableEq, Inhabited

structure PendingAttestation where
  aggregation_bits : List Bool
  data : AttestationData
  inclusion_delay : Nat
  proposer_index : Nat
  deriving DecidableEq, Inhabited

structure SyncCommittee where
  pubkeys : List Bytes
  aggregate_pubkey : Bytes
  deriving DecidableEq, Inhabited

/-- Execution payload header of bellatrix (`withdrawals_root = none`), capella (`some`, blob fields `none`)
and deneb (all present). -/
structure ExecutionPayloadHeader where
  parent_hash : Bytes
  fee_recipient : Bytes
  state_root : Bytes
  receipts_root : Bytes
  logs_bloom : Bytes
  prev_randao : Bytes
  block_number : Nat
  gas_limit : Nat
  gas_used : Nat
  timestamp : Nat
  extra_data : Bytes
  base_fee_per_gas : Nat
  block_hash : Bytes
  transactions_root : Bytes
  withdrawals_root : Option Bytes
  blob_gas_used : Option Nat
  excess_blob_gas : Option Nat
  deriving DecidableEq, Inhabited

structure HistoricalSummary where
  block_summary_root : Bytes
  state_summary_root : Bytes
  deriving DecidableEq, Inhabited

structure State where
  fork : Fork
  genesis_time : Nat
  genesis_validators_root : Bytes
  slot : Nat
  fork_rec : ForkRec
  latest_block_header : BeaconBlockHeader
  block_roots : List Bytes
  state_roots : List Bytes
  historical_roots : List Bytes
  eth1_data : Eth1Data
  eth1_data_votes : List Eth1Data
  eth1_deposit_index : Nat
  validators : List Validator
  balances : List Nat
  randao_mixes : List Bytes
  slashings : List Nat
  /-- phase0 only -/
  previous_epoch_attestations : List PendingAttestation
  /-- phase0 only -/
  current_epoch_attestations : List PendingAttestation
  /-- 4 bits, bit 0 (most recent epoch) first -/
  justification_bits : List Bool
  previous_justified_checkpoint : Checkpoint
  current_justified_checkpoint : Checkpoint
  finalized_checkpoint : Checkpoint
  /-- altair+ -/
  previous_epoch_participation : List Nat
  /-- altair+ -/
  current_epoch_participation : List Nat
  /-- altair+ -/
  inactivity_scores : List Nat
  /-- altair+ -/
  current_sync_committee : Option SyncCommittee
  /-- altair+ -/
  next_sync_committee : Option SyncCommittee
  /-- bellatrix+ -/
  latest_execution_payload_header : Option ExecutionPayloadHeader
  /-- capella+ -/
  next_withdrawal_index : Nat
  /-- capella+ -/
  next_withdrawal_validator_index : Nat
  /-- capella+ -/
  historical_summaries : List HistoricalSummary
  deriving DecidableEq, Inhabited

/-! ## Parsing -/

abbrev KV := Std.HashMap String String

/-- Split a line into `key=value` tokens; tokens without `=` are returned separately (op name, args). -/
def parseKV (toks : List String) : KV × List String :=
  toks.foldl (fun (acc : KV × List String) t =>
    match t.splitOn "=" with
    | [k, v] => (acc.1.insert k v, acc.2)
    | _ => (acc.1, acc.2 ++ [t])) (Std.HashMap.emptyWithCapacity 128, [])

abbrev P := Except String

def need (kv : KV) (k : String) : P String :=
  match kv.get? k with
  | some v => pure v
  | none => throw s!"missing {k}"

def pNat (s : String) : P Nat :=
  match s.toNat? with
  | some n => pure n
  | none => throw s!"bad number {s}"

/-- a `uint64` scalar -/
def pU64 (s : String) : P Nat := do
  let n ← pNat s
  if n < 2 ^ 64 then pure n else throw s!"number out of uint64 range {s}"

def pHex (s : String) : P Bytes :=
  match parseHex s with
  | some b => pure b
  | none => throw s!"bad hex {s}"

def pHexN (n : Nat) (s : String) : P Bytes := do
  let b ← pHex s
  if b.size = n then pure b else throw s!"expected {n} bytes: {s}"

def pList {α} (sep : String) (f : String → P α) (s : String) : P (List α) :=
  if s = "-" then pure [] else (s.splitOn sep).mapM f

def pBits (s : String) : P (List Bool) :=
  if s = "-" then pure [] else
  s.toList.mapM (fun c => if c = '0' then pure false else if c = '1' then pure true else throw s!"bad bits {s}")

def pBool01 (s : String) : P Bool :=
  if s = "0" then pure false else if s = "1" then pure true else throw s!"bad bool {s}"

def pCheckpoint (s : String) : P Checkpoint :=
  match s.splitOn ":" with
  | [e, r] => do pure ⟨← pU64 e, ← pHexN 32 r⟩
  | _ => throw s!"bad checkpoint {s}"

def pEth1Data (s : String) : P Eth1Data :=
  match s.splitOn ":" with
  | [a, b, c] => do pure ⟨← pHexN 32 a, ← pU64 b, ← pHexN 32 c⟩
  | _ => throw s!"bad eth1data {s}"

def pValidator (s : String) : P Validator :=
  match s.splitOn ":" with
  | [pk, wc, eb, sl, aee, ae, ee, we] => do
    pure ⟨← pHexN 48 pk, ← pHexN 32 wc, ← pU64 eb, ← pBool01 sl, ← pU64 aee, ← pU64 ae, ← pU64 ee, ← pU64 we⟩
  | _ => throw s!"bad validator {s}"

def pHeader (s : String) : P BeaconBlockHeader :=
  match s.splitOn ":" with
  | [a, b, c, d, e] => do pure ⟨← pU64 a, ← pU64 b, ← pHexN 32 c, ← pHexN 32 d, ← pHexN 32 e⟩
  | _ => throw s!"bad header {s}"

def pAtt (s : String) : P PendingAttestation :=
  match s.splitOn ":" with
  | [bits, slot, idx, bbr, se, sr, te, tr, delay, prop] => do
    pure ⟨← pBits bits, ⟨← pU64 slot, ← pU64 idx, ← pHexN 32 bbr, ⟨← pU64 se, ← pHexN 32 sr⟩, ⟨← pU64 te, ← pHexN 32 tr⟩⟩,
          ← pU64 delay, ← pU64 prop⟩
  | _ => throw s!"bad pending attestation {s}"

def pSyncCommittee (s : String) : P (Option SyncCommittee) :=
  if s = "-" then pure none else
  match s.splitOn ":" with
  | [agg, pks] => do pure (some ⟨← pList "," (pHexN 48) pks, ← pHexN 48 agg⟩)
  | _ => throw s!"bad sync committee"

def pPayloadHeader (s : String) : P (Option ExecutionPayloadHeader) :=
  if s = "-" then pure none else do
  let f := s.splitOn ":"
  let g (i : Nat) : String := f.getD i ""
  if f.length ≠ 14 ∧ f.length ≠ 15 ∧ f.length ≠ 17 then throw "bad payload header"
  let base_fee ← pNat (g 11)
  if base_fee ≥ 2 ^ 256 then throw "base fee out of range"
  let wr ← if f.length ≥ 15 then (some <$> pHexN 32 (g 14)) else pure none
  let bgu ← if f.length = 17 then (some <$> pU64 (g 15)) else pure none
  let ebg ← if f.length = 17 then (some <$> pU64 (g 16)) else pure none
  pure (some {
    parent_hash := ← pHexN 32 (g 0), fee_recipient := ← pHexN 20 (g 1), state_root := ← pHexN 32 (g 2),
    receipts_root := ← pHexN 32 (g 3), logs_bloom := ← pHex (g 4), prev_randao := ← pHexN 32 (g 5),
    block_number := ← pU64 (g 6), gas_limit := ← pU64 (g 7), gas_used := ← pU64 (g 8), timestamp := ← pU64 (g 9),
    extra_data := ← pHex (g 10), base_fee_per_gas := base_fee, block_hash := ← pHexN 32 (g 12),
    transactions_root := ← pHexN 32 (g 13), withdrawals_root := wr, blob_gas_used := bgu, excess_blob_gas := ebg })

def pSummary (s : String) : P HistoricalSummary :=
  match s.splitOn ":" with
  | [a, b] => do pure ⟨← pHexN 32 a, ← pHexN 32 b⟩
  | _ => throw s!"bad summary {s}"

def parseState (kv : KV) : P State := do
  let get := need kv
  let forkS ← get "fork"
  let some fork := Fork.ofName? forkS | throw s!"bad fork {forkS}"
  let st : State := {
    fork := fork
    genesis_time := ← pU64 (← get "genesis_time")
    genesis_validators_root := ← pHexN 32 (← get "genesis_validators_root")
    slot := ← pU64 (← get "slot")
    fork_rec := ⟨← pHexN 4 (← get "fork_previous_version"), ← pHexN 4 (← get "fork_current_version"), ← pU64 (← get "fork_epoch")⟩
    latest_block_header := ← pHeader (← get "header")
    block_roots := ← pList "," (pHexN 32) (← get "block_roots")
    state_roots := ← pList "," (pHexN 32) (← get "state_roots")
    historical_roots := ← pList "," (pHexN 32) (← get "historical_roots")
    eth1_data := ← pEth1Data (← get "eth1_data")
    eth1_data_votes := ← pList ";" pEth1Data (← get "eth1_data_votes")
    eth1_deposit_index := ← pU64 (← get "eth1_deposit_index")
    validators := ← pList ";" pValidator (← get "validators")
    balances := ← pList "," pU64 (← get "balances")
    randao_mixes := ← pList "," (pHexN 32) (← get "randao_mixes")
    slashings := ← pList "," pU64 (← get "slashings")
    previous_epoch_attestations := ← pList ";" pAtt (← get "prev_atts")
    current_epoch_attestations := ← pList ";" pAtt (← get "curr_atts")
    justification_bits := ← pBits (← get "justification_bits")
    previous_justified_checkpoint := ← pCheckpoint (← get "prev_justified")
    current_justified_checkpoint := ← pCheckpoint (← get "curr_justified")
    finalized_checkpoint := ← pCheckpoint (← get "finalized")
    previous_epoch_participation := ← pList "," pU64 (← get "prev_participation")
    current_epoch_participation := ← pList "," pU64 (← get "curr_participation")
    inactivity_scores := ← pList "," pU64 (← get "inactivity_scores")
    current_sync_committee := ← pSyncCommittee (← get "current_sync_committee")
    next_sync_committee := ← pSyncCommittee (← get "next_sync_committee")
    latest_execution_payload_header := ← pPayloadHeader (← get "payload_header")
    next_withdrawal_index := ← pU64 (← get "next_withdrawal_index")
    next_withdrawal_validator_index := ← pU64 (← get "next_withdrawal_validator_index")
    historical_summaries := ← pList ";" pSummary (← get "historical_summaries") }
  if st.justification_bits.length ≠ 4 then throw "justification_bits must have 4 bits"
  pure st

def parseConfig (kv : KV) : P Config := do
  let n (k : String) : P Nat := do pNat (← need kv k)
  let v (k : String) : P Bytes := do pHexN 4 (← need kv k)
  pure {
    MAX_COMMITTEES_PER_SLOT := ← n "MAX_COMMITTEES_PER_SLOT"
    TARGET_COMMITTEE_SIZE := ← n "TARGET_COMMITTEE_SIZE"
    MAX_VALIDATORS_PER_COMMITTEE := ← n "MAX_VALIDATORS_PER_COMMITTEE"
    SHUFFLE_ROUND_COUNT := ← n "SHUFFLE_ROUND_COUNT"
    HYSTERESIS_QUOTIENT := ← n "HYSTERESIS_QUOTIENT"
    HYSTERESIS_DOWNWARD_MULTIPLIER := ← n "HYSTERESIS_DOWNWARD_MULTIPLIER"
    HYSTERESIS_UPWARD_MULTIPLIER := ← n "HYSTERESIS_UPWARD_MULTIPLIER"
    MIN_DEPOSIT_AMOUNT := ← n "MIN_DEPOSIT_AMOUNT"
    MAX_EFFECTIVE_BALANCE := ← n "MAX_EFFECTIVE_BALANCE"
    EFFECTIVE_BALANCE_INCREMENT := ← n "EFFECTIVE_BALANCE_INCREMENT"
    MIN_ATTESTATION_INCLUSION_DELAY := ← n "MIN_ATTESTATION_INCLUSION_DELAY"
    SLOTS_PER_EPOCH := ← n "SLOTS_PER_EPOCH"
    MIN_SEED_LOOKAHEAD := ← n "MIN_SEED_LOOKAHEAD"
    MAX_SEED_LOOKAHEAD := ← n "MAX_SEED_LOOKAHEAD"
    EPOCHS_PER_ETH1_VOTING_PERIOD := ← n "EPOCHS_PER_ETH1_VOTING_PERIOD"
    SLOTS_PER_HISTORICAL_ROOT := ← n "SLOTS_PER_HISTORICAL_ROOT"
    MIN_EPOCHS_TO_INACTIVITY_PENALTY := ← n "MIN_EPOCHS_TO_INACTIVITY_PENALTY"
    EPOCHS_PER_HISTORICAL_VECTOR := ← n "EPOCHS_PER_HISTORICAL_VECTOR"
    EPOCHS_PER_SLASHINGS_VECTOR := ← n "EPOCHS_PER_SLASHINGS_VECTOR"
    HISTORICAL_ROOTS_LIMIT := ← n "HISTORICAL_ROOTS_LIMIT"
    VALIDATOR_REGISTRY_LIMIT := ← n "VALIDATOR_REGISTRY_LIMIT"
    BASE_REWARD_FACTOR := ← n "BASE_REWARD_FACTOR"
    WHISTLEBLOWER_REWARD_QUOTIENT := ← n "WHISTLEBLOWER_REWARD_QUOTIENT"
    PROPOSER_REWARD_QUOTIENT := ← n "PROPOSER_REWARD_QUOTIENT"
    INACTIVITY_PENALTY_QUOTIENT := ← n "INACTIVITY_PENALTY_QUOTIENT"
    MIN_SLASHING_PENALTY_QUOTIENT := ← n "MIN_SLASHING_PENALTY_QUOTIENT"
    PROPORTIONAL_SLASHING_MULTIPLIER := ← n "PROPORTIONAL_SLASHING_MULTIPLIER"
    MAX_PROPOSER_SLASHINGS := ← n "MAX_PROPOSER_SLASHINGS"
    MAX_ATTESTER_SLASHINGS := ← n "MAX_ATTESTER_SLASHINGS"
    MAX_ATTESTATIONS := ← n "MAX_ATTESTATIONS"
    MAX_DEPOSITS := ← n "MAX_DEPOSITS"
    MAX_VOLUNTARY_EXITS := ← n "MAX_VOLUNTARY_EXITS"
    INACTIVITY_PENALTY_QUOTIENT_ALTAIR := ← n "INACTIVITY_PENALTY_QUOTIENT_ALTAIR"
    MIN_SLASHING_PENALTY_QUOTIENT_ALTAIR := ← n "MIN_SLASHING_PENALTY_QUOTIENT_ALTAIR"
    PROPORTIONAL_SLASHING_MULTIPLIER_ALTAIR := ← n "PROPORTIONAL_SLASHING_MULTIPLIER_ALTAIR"
    SYNC_COMMITTEE_SIZE := ← n "SYNC_COMMITTEE_SIZE"
    EPOCHS_PER_SYNC_COMMITTEE_PERIOD := ← n "EPOCHS_PER_SYNC_COMMITTEE_PERIOD"
    MIN_SYNC_COMMITTEE_PARTICIPANTS := ← n "MIN_SYNC_COMMITTEE_PARTICIPANTS"
    INACTIVITY_PENALTY_QUOTIENT_BELLATRIX := ← n "INACTIVITY_PENALTY_QUOTIENT_BELLATRIX"
    MIN_SLASHING_PENALTY_QUOTIENT_BELLATRIX := ← n "MIN_SLASHING_PENALTY_QUOTIENT_BELLATRIX"
    PROPORTIONAL_SLASHING_MULTIPLIER_BELLATRIX := ← n "PROPORTIONAL_SLASHING_MULTIPLIER_BELLATRIX"
    MAX_BYTES_PER_TRANSACTION := ← n "MAX_BYTES_PER_TRANSACTION"
    MAX_TRANSACTIONS_PER_PAYLOAD := ← n "MAX_TRANSACTIONS_PER_PAYLOAD"
    BYTES_PER_LOGS_BLOOM := ← n "BYTES_PER_LOGS_BLOOM"
    MAX_EXTRA_DATA_BYTES := ← n "MAX_EXTRA_DATA_BYTES"
    MAX_BLS_TO_EXECUTION_CHANGES := ← n "MAX_BLS_TO_EXECUTION_CHANGES"
    MAX_WITHDRAWALS_PER_PAYLOAD := ← n "MAX_WITHDRAWALS_PER_PAYLOAD"
    MAX_VALIDATORS_PER_WITHDRAWALS_SWEEP := ← n "MAX_VALIDATORS_PER_WITHDRAWALS_SWEEP"
    MAX_BLOB_COMMITMENTS_PER_BLOCK := ← n "MAX_BLOB_COMMITMENTS_PER_BLOCK"
    MIN_GENESIS_ACTIVE_VALIDATOR_COUNT := ← n "MIN_GENESIS_ACTIVE_VALIDATOR_COUNT"
    MIN_GENESIS_TIME := ← n "MIN_GENESIS_TIME"
    GENESIS_DELAY := ← n "GENESIS_DELAY"
    GENESIS_FORK_VERSION := ← v "GENESIS_FORK_VERSION"
    ALTAIR_FORK_VERSION := ← v "ALTAIR_FORK_VERSION"
    ALTAIR_FORK_EPOCH := ← n "ALTAIR_FORK_EPOCH"
    BELLATRIX_FORK_VERSION := ← v "BELLATRIX_FORK_VERSION"
    BELLATRIX_FORK_EPOCH := ← n "BELLATRIX_FORK_EPOCH"
    CAPELLA_FORK_VERSION := ← v "CAPELLA_FORK_VERSION"
    CAPELLA_FORK_EPOCH := ← n "CAPELLA_FORK_EPOCH"
    DENEB_FORK_VERSION := ← v "DENEB_FORK_VERSION"
    DENEB_FORK_EPOCH := ← n "DENEB_FORK_EPOCH"
    ELECTRA_FORK_EPOCH := ← n "ELECTRA_FORK_EPOCH"
    SECONDS_PER_SLOT := ← n "SECONDS_PER_SLOT"
    SECONDS_PER_ETH1_BLOCK := ← n "SECONDS_PER_ETH1_BLOCK"
    MIN_VALIDATOR_WITHDRAWABILITY_DELAY := ← n "MIN_VALIDATOR_WITHDRAWABILITY_DELAY"
    SHARD_COMMITTEE_PERIOD := ← n "SHARD_COMMITTEE_PERIOD"
    ETH1_FOLLOW_DISTANCE := ← n "ETH1_FOLLOW_DISTANCE"
    INACTIVITY_SCORE_BIAS := ← n "INACTIVITY_SCORE_BIAS"
    INACTIVITY_SCORE_RECOVERY_RATE := ← n "INACTIVITY_SCORE_RECOVERY_RATE"
    EJECTION_BALANCE := ← n "EJECTION_BALANCE"
    MIN_PER_EPOCH_CHURN_LIMIT := ← n "MIN_PER_EPOCH_CHURN_LIMIT"
    CHURN_LIMIT_QUOTIENT := ← n "CHURN_LIMIT_QUOTIENT"
    MAX_PER_EPOCH_ACTIVATION_CHURN_LIMIT := ← n "MAX_PER_EPOCH_ACTIVATION_CHURN_LIMIT"
    MAX_BLOBS_PER_BLOCK := ← n "MAX_BLOBS_PER_BLOCK" }

/-! ## Printing (the exact inverse of parsing on well-formed input) -/

def hx (b : Bytes) : String := toHex b
def joinOr (sep : String) (l : List String) : String := if l.isEmpty then "-" else sep.intercalate l
def bitsStr (l : List Bool) : String := if l.isEmpty then "-" else String.ofList (l.map fun b => if b then '1' else '0')
def b01 (b : Bool) : String := if b then "1" else "0"

def showCheckpoint (c : Checkpoint) : String := s!"{c.epoch}:{hx c.root}"
def showEth1Data (e : Eth1Data) : String := s!"{hx e.deposit_root}:{e.deposit_count}:{hx e.block_hash}"
def showValidator (v : Validator) : String :=
  s!"{hx v.pubkey}:{hx v.withdrawal_credentials}:{v.effective_balance}:{b01 v.slashed}:{v.activation_eligibility_epoch}:{v.activation_epoch}:{v.exit_epoch}:{v.withdrawable_epoch}"
def showHeader (h : BeaconBlockHeader) : String :=
  s!"{h.slot}:{h.proposer_index}:{hx h.parent_root}:{hx h.state_root}:{hx h.body_root}"
def showAtt (a : PendingAttestation) : String :=
  s!"{bitsStr a.aggregation_bits}:{a.data.slot}:{a.data.index}:{hx a.data.beacon_block_root}:{a.data.source.epoch}:{hx a.data.source.root}:{a.data.target.epoch}:{hx a.data.target.root}:{a.inclusion_delay}:{a.proposer_index}"
def showSyncCommittee : Option SyncCommittee → String
  | none => "-"
  | some c => s!"{hx c.aggregate_pubkey}:{joinOr "," (c.pubkeys.map hx)}"
def showPayloadHeader : Option ExecutionPayloadHeader → String
  | none => "-"
  | some h =>
    let base := s!"{hx h.parent_hash}:{hx h.fee_recipient}:{hx h.state_root}:{hx h.receipts_root}:{hx h.logs_bloom}:{hx h.prev_randao}:{h.block_number}:{h.gas_limit}:{h.gas_used}:{h.timestamp}:{hx h.extra_data}:{h.base_fee_per_gas}:{hx h.block_hash}:{hx h.transactions_root}"
    let w := match h.withdrawals_root with | some r => ":" ++ hx r | none => ""
    let b := match h.blob_gas_used, h.excess_blob_gas with
      | some x, some y => s!":{x}:{y}"
      | _, _ => ""
    base ++ w ++ b
def showSummary (s : HistoricalSummary) : String := s!"{hx s.block_summary_root}:{hx s.state_summary_root}"

/-- The state as an ordered list of `(key, value)` pairs. -/
def stateFields (s : State) : List (String × String) := [
  ("fork", s.fork.name),
  ("genesis_time", toString s.genesis_time),
  ("genesis_validators_root", hx s.genesis_validators_root),
  ("slot", toString s.slot),
  ("fork_previous_version", hx s.fork_rec.previous_version),
  ("fork_current_version", hx s.fork_rec.current_version),
  ("fork_epoch", toString s.fork_rec.epoch),
  ("header", showHeader s.latest_block_header),
  ("block_roots", joinOr "," (s.block_roots.map hx)),
  ("state_roots", joinOr "," (s.state_roots.map hx)),
  ("historical_roots", joinOr "," (s.historical_roots.map hx)),
  ("eth1_data", showEth1Data s.eth1_data),
  ("eth1_data_votes", joinOr ";" (s.eth1_data_votes.map showEth1Data)),
  ("eth1_deposit_index", toString s.eth1_deposit_index),
  ("validators", joinOr ";" (s.validators.map showValidator)),
  ("balances", joinOr "," (s.balances.map toString)),
  ("randao_mixes", joinOr "," (s.randao_mixes.map hx)),
  ("slashings", joinOr "," (s.slashings.map toString)),
  ("prev_atts", joinOr ";" (s.previous_epoch_attestations.map showAtt)),
  ("curr_atts", joinOr ";" (s.current_epoch_attestations.map showAtt)),
  ("justification_bits", bitsStr s.justification_bits),
  ("prev_justified", showCheckpoint s.previous_justified_checkpoint),
  ("curr_justified", showCheckpoint s.current_justified_checkpoint),
  ("finalized", showCheckpoint s.finalized_checkpoint),
  ("prev_participation", joinOr "," (s.previous_epoch_participation.map toString)),
  ("curr_participation", joinOr "," (s.current_epoch_participation.map toString)),
  ("inactivity_scores", joinOr "," (s.inactivity_scores.map toString)),
  ("current_sync_committee", showSyncCommittee s.current_sync_committee),
  ("next_sync_committee", showSyncCommittee s.next_sync_committee),
  ("payload_header", showPayloadHeader s.latest_execution_payload_header),
  ("next_withdrawal_index", toString s.next_withdrawal_index),
  ("next_withdrawal_validator_index", toString s.next_withdrawal_validator_index),
  ("historical_summaries", joinOr ";" (s.historical_summaries.map showSummary))]

/-- Full flat form. -/
def printState (s : State) : String :=
  " ".intercalate ((stateFields s).map fun (k, v) => k ++ "=" ++ v)

/-- Abbreviated flat form used for result lines: a value longer than 90 characters is replaced by
`#` + the first 16 hex digits of SHA-256 of the value's UTF-8 bytes. (Same function on the Go side:
`flat.Abbrev`.) A mismatch is thereby localised to a field while result lines stay small. -/
def abbrevValue (v : String) : String :=
  if v.length ≤ 90 then v else
  "#" ++ ((toHex (Sha256.hash v.toUTF8)).take 16).toString

def printStateAbbrev (s : State) : String :=
  " ".intercalate ((stateFields s).map fun (k, v) => k ++ "=" ++ abbrevValue v)

end Zrnt.Beacon
