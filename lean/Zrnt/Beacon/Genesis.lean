import Zrnt.Beacon.State
import Zrnt.Beacon.Spec.Helpers
import Zrnt.Sha256
/-!
# C13 — genesis: `initialize_beacon_state_from_eth1`, `is_valid_genesis_state` (spec layer `S`)
# and the code-shaped model of `phase0.GenesisFromEth1` / `KickStartState[WithSignatures]` (layer `M`)

/repo supports genesis for phase0 only (`eth2/beacon/phase0/genesis.go`), so this file does too.

* `Merkle` — Merkle machinery **parametric in the node type and the two-to-one hash**:
  `treeRoot` / `merkleizeSpec` (the SSZ specification read literally: pad to `2^d` leaves, hash the
  perfect tree), `treeRootZ` (the same tree with empty subtrees short-circuited — what runs),
  `Inc` (the deposit contract's incremental algorithm: `branch` + `count`, `push`, `root`),
  `isValidMerkleBranch` (the spec's `is_valid_merkle_branch`).
* SSZ roots of the handful of fixed shapes genesis needs, computed here (nothing but the BLS verdicts
  comes from the harness): `DepositData`, `DepositMessage`, signing root / domain, `Validator`,
  `List[Validator, VALIDATOR_REGISTRY_LIMIT]`, the empty phase0 `BeaconBlockBody`.
* `process_deposit`, `initialize_beacon_state_from_eth1`, `is_valid_genesis_state` — literal.
* `Impl.genesisFromEth1`, `Impl.kickStart` — what the Go code does (incremental root, the
  `ignoreSignaturesAndProofs` flag, wrap-around additions, the "not enough validators" error, the
  error of the epochs-context construction when nobody is active).

BLS is an oracle: each deposit carries the harness' verdicts (`pkOk`: the pubkey deserialises to a
valid key, `sigDecodes`: the signature deserialises, `verifyOk`: `blsu.Verify` over the deposit
signing root), computed by the harness with the real library over the signing root the harness
computed *independently* of zrnt; the driver re-computes that signing root here and refuses the line
(`oracle-mismatch`) if the harness signed something else.
-/
namespace Zrnt.Beacon.Genesis
open Zrnt.Beacon Zrnt.Beacon.Spec

/-! ## Merkle machinery, parametric in the hash -/
namespace Merkle
variable {α : Type}

/-- root of the all-`z0` tree of depth `k` -/
def zeroAt (H : α → α → α) (z0 : α) : Nat → α
  | 0 => z0
  | k + 1 => let z := zeroAt H z0 k; H z z

/-- root of the perfect binary tree of depth `d` over the first `2^d` entries of `l`
(a missing entry counts as `z0`) -/
def treeRoot (H : α → α → α) (z0 : α) : Nat → List α → α
  | 0, l => l.headD z0
  | d + 1, l => H (treeRoot H z0 d (l.take (2 ^ d))) (treeRoot H z0 d (l.drop (2 ^ d)))

/-- The SSZ specification's `merkleize(chunks, limit = 2^d)`, literally: pad with zero chunks up to
`2^d` leaves, hash the perfect tree. (Not executable for `d = 32`; it is what theorems talk about.) -/
def merkleizeSpec (H : α → α → α) (z0 : α) (d : Nat) (l : List α) : α :=
  treeRoot H z0 d (l ++ List.replicate (2 ^ d - l.length) z0)

/-- the same tree, an empty subtree answered by the zero-hash table `Z` (`Z k` = `zeroAt k`) without
descending (executable) -/
def treeRootZ (H : α → α → α) (Z : Nat → α) : Nat → List α → α
  | d, [] => Z d
  | 0, x :: _ => x
  | d + 1, x :: xs =>
    H (treeRootZ H Z d ((x :: xs).take (2 ^ d))) (treeRootZ H Z d ((x :: xs).drop (2 ^ d)))

/-- `hash_tree_root(List[T, 2^d])` of composite `T` given the element roots:
`mix_in_length(merkleize(roots, limit), len)`; `lenNode n` is the length chunk. -/
def listRoot (H : α → α → α) (Z : Nat → α) (lenNode : Nat → α) (d : Nat) (l : List α) : α :=
  H (treeRootZ H Z d l) (lenNode l.length)

/-- The deposit contract's state: `branch[h]` (for the set bits `h` of `count`) is the root of the
last complete subtree of height `h`. -/
structure Inc (α : Type) where
  branch : List α
  count : Nat

def Inc.empty (z0 : α) (depth : Nat) : Inc α := ⟨List.replicate depth z0, 0⟩

/-- The loop of the contract's `deposit()`:
```
node = leaf; size = count + 1
for height in range(DEPTH):
    if size % 2 == 1: branch[height] = node; return
    node = sha256(branch[height] + node); size /= 2
```
`fuel` = remaining iterations (running out is the contract's `assert False`: tree full). -/
def pushLoop (H : α → α → α) (br : List α) (node : α) (size h : Nat) : Nat → List α
  | 0 => br
  | fuel + 1 =>
    if size % 2 = 1 then br.set h node
    else pushLoop H br (H (br.getD h node) node) (size / 2) (h + 1) fuel

def Inc.push (H : α → α → α) (s : Inc α) (leaf : α) : Inc α :=
  ⟨pushLoop H s.branch leaf (s.count + 1) 0 s.branch.length, s.count + 1⟩

/-- The loop of the contract's `get_deposit_root()` after `h` iterations (`Z` = `zero_hashes`):
```
node = zero; size = count
for height in range(DEPTH):
    if size % 2 == 1: node = sha256(branch[height] + node)
    else:             node = sha256(node + zero_hashes[height])
    size /= 2
``` -/
def rootLoop (H : α → α → α) (Z : Nat → α) (br : List α) (n : Nat) : Nat → α
  | 0 => Z 0
  | h + 1 =>
    let node := rootLoop H Z br n h
    if (n / 2 ^ h) % 2 = 1 then H (br.getD h (Z 0)) node else H node (Z h)

/-- `get_deposit_root()`: the tree root with the count mixed in -/
def Inc.root (H : α → α → α) (Z : Nat → α) (lenNode : Nat → α) (s : Inc α) : α :=
  H (rootLoop H Z s.branch s.count s.branch.length) (lenNode s.count)

/-- the spec's `is_valid_merkle_branch` -/
def isValidMerkleBranch [DecidableEq α] (H : α → α → α) (leaf : α) (branch : List α) (depth index : Nat)
    (root : α) : Bool :=
  let value := (List.range depth).foldl (fun value i =>
    let sib := branch.getD i value
    if index / 2 ^ i % 2 = 1 then H sib value else H value sib) leaf
  decide (value = root)

end Merkle

/-! ## SHA-256 instance and the SSZ roots genesis needs -/

def DEPOSIT_CONTRACT_TREE_DEPTH : Nat := 32

def H2 (a b : Bytes) : Bytes := Sha256.hash (a ++ b)
def zeros (n : Nat) : Bytes := ⟨Array.replicate n 0⟩
/-- the length chunk of `mix_in_length` -/
def lenNode (n : Nat) : Bytes := uintToBytes 32 n
def zeroAt (k : Nat) : Bytes := Merkle.zeroAt H2 ZERO32 k
/-- the zero hashes of heights 0…64, computed once -/
def zeroTable : Array Bytes := Array.ofFn (n := 65) fun k => zeroAt k.val
/-- `zero_hashes[k]` (table look-up; equal to `zeroAt k` for every `k`, see `zeroFn_eq`) -/
def zeroFn (k : Nat) : Bytes := zeroTable.getD k (zeroAt k)
theorem zeroFn_eq (k : Nat) : zeroFn k = Merkle.zeroAt H2 ZERO32 k := by
  unfold zeroFn zeroTable
  by_cases h : k < 65
  · simp [Array.getD, h, zeroAt]
  · simp [Array.getD, h, zeroAt]

/-- `hash_tree_root` of a `Bytes48` (two chunks) -/
def htrBytes48 (b : Bytes) : Bytes := H2 (b.extract 0 32) (b.extract 32 48 ++ zeros 16)
/-- `hash_tree_root` of a `Bytes96` (three chunks, padded to four) -/
def htrBytes96 (b : Bytes) : Bytes :=
  H2 (H2 (b.extract 0 32) (b.extract 32 64)) (H2 (b.extract 64 96) ZERO32)

def chunkBool (b : Bool) : Bytes := chunkU64 (if b then 1 else 0)

structure DepositIn where
  pubkey : Bytes
  withdrawal_credentials : Bytes
  amount : Nat
  signature : Bytes
  /-- `Vector[Bytes32, DEPOSIT_CONTRACT_TREE_DEPTH + 1]` -/
  proof : List Bytes
  /-- oracle: the pubkey deserialises to a valid public key -/
  pkOk : Bool
  /-- oracle: the signature deserialises -/
  sigDecodes : Bool
  /-- oracle: `Verify(pubkey, deposit signing root, signature)` with the real library -/
  verifyOk : Bool
  deriving Inhabited

/-- the spec's `bls.Verify(pubkey, signing_root, signature)` for this deposit -/
def DepositIn.sigValid (d : DepositIn) : Bool := d.pkOk && d.sigDecodes && d.verifyOk

/-- `hash_tree_root(DepositData)` -/
def htrDepositData (d : DepositIn) : Bytes :=
  H2 (H2 (htrBytes48 d.pubkey) d.withdrawal_credentials) (H2 (chunkU64 d.amount) (htrBytes96 d.signature))

/-- `hash_tree_root(DepositMessage)` -/
def htrDepositMessage (d : DepositIn) : Bytes :=
  H2 (H2 (htrBytes48 d.pubkey) d.withdrawal_credentials) (H2 (chunkU64 d.amount) ZERO32)

/-- `compute_fork_data_root` -/
def compute_fork_data_root (current_version genesis_validators_root : Bytes) : Bytes :=
  H2 (current_version ++ zeros 28) genesis_validators_root

/-- `compute_domain` -/
def compute_domain (domain_type fork_version genesis_validators_root : Bytes) : Bytes :=
  domain_type ++ (compute_fork_data_root fork_version genesis_validators_root).extract 0 28

/-- `compute_signing_root` given the object's root -/
def compute_signing_root (object_root domain : Bytes) : Bytes := H2 object_root domain

/-- signing root of a deposit's proof of possession: `compute_domain(DOMAIN_DEPOSIT)` — fork-agnostic:
`GENESIS_FORK_VERSION`, zero `genesis_validators_root` -/
def depositSigningRoot (cfg : Config) (d : DepositIn) : Bytes :=
  compute_signing_root (htrDepositMessage d) (compute_domain DOMAIN_DEPOSIT cfg.GENESIS_FORK_VERSION ZERO32)

/-- `hash_tree_root(Validator)` -/
def htrValidator (v : Validator) : Bytes :=
  H2 (H2 (H2 (htrBytes48 v.pubkey) v.withdrawal_credentials)
         (H2 (chunkU64 v.effective_balance) (chunkBool v.slashed)))
     (H2 (H2 (chunkU64 v.activation_eligibility_epoch) (chunkU64 v.activation_epoch))
         (H2 (chunkU64 v.exit_epoch) (chunkU64 v.withdrawable_epoch)))

/-- `hash_tree_root(List[Validator, VALIDATOR_REGISTRY_LIMIT])` -/
def htrValidators (cfg : Config) (vs : List Validator) : Bytes :=
  Merkle.listRoot H2 zeroFn lenNode (log2ceil (max cfg.VALIDATOR_REGISTRY_LIMIT 1)) (vs.map htrValidator)

/-- root of an empty `List[T, limit]` of composite `T` -/
def htrEmptyList (limit : Nat) : Bytes := H2 (zeroFn (log2ceil (max limit 1))) (lenNode 0)

/-- `hash_tree_root(BeaconBlockBody())` of phase0: randao_reveal, eth1_data, graffiti, proposer_slashings,
attester_slashings, attestations, deposits, voluntary_exits — all default -/
def htrEmptyBody (cfg : Config) : Bytes :=
  let randao := zeroAt 2      -- 96 zero bytes: 3 chunks padded to 4
  let eth1 := zeroAt 2        -- Eth1Data(): three zero fields padded to 4
  let graffiti := ZERO32
  H2 (H2 (H2 randao eth1) (H2 graffiti (htrEmptyList cfg.MAX_PROPOSER_SLASHINGS)))
     (H2 (H2 (htrEmptyList cfg.MAX_ATTESTER_SLASHINGS) (htrEmptyList cfg.MAX_ATTESTATIONS))
         (H2 (htrEmptyList cfg.MAX_DEPOSITS) (htrEmptyList cfg.MAX_VOLUNTARY_EXITS)))

/-- `hash_tree_root(List[DepositData, 2**DEPOSIT_CONTRACT_TREE_DEPTH](*leaves))` from the data roots -/
def depositListRoot (leaves : List Bytes) : Bytes :=
  Merkle.listRoot H2 zeroFn lenNode DEPOSIT_CONTRACT_TREE_DEPTH leaves

/-! ## Specification (phase0 `beacon-chain.md`) -/

/-- `get_validator_from_deposit` -/
def get_validator_from_deposit (cfg : Config) (d : DepositIn) : Validator :=
  let amount := d.amount
  let effective_balance := min (amount - amount % cfg.EFFECTIVE_BALANCE_INCREMENT) cfg.MAX_EFFECTIVE_BALANCE
  { pubkey := d.pubkey
    withdrawal_credentials := d.withdrawal_credentials
    activation_eligibility_epoch := FAR_FUTURE_EPOCH
    activation_epoch := FAR_FUTURE_EPOCH
    exit_epoch := FAR_FUTURE_EPOCH
    withdrawable_epoch := FAR_FUTURE_EPOCH
    effective_balance := effective_balance
    slashed := false }

/-- `process_deposit` (phase0). `checkProof = false` is *not* the spec: it is the reading of zrnt's
`ignoreSignaturesAndProofs` flag used to state what KickStart builds. -/
def process_deposit (cfg : Config) (checkProof : Bool) (s : State) (d : DepositIn) : SM State := do
  -- Verify the Merkle branch
  require (!checkProof || Merkle.isValidMerkleBranch H2 (htrDepositData d) d.proof (DEPOSIT_CONTRACT_TREE_DEPTH + 1)
    s.eth1_deposit_index s.eth1_data.deposit_root) "process_deposit: merkle branch"
  -- Deposits must be processed in order
  let idx' ← u64 (s.eth1_deposit_index + 1) "eth1_deposit_index"
  let s := { s with eth1_deposit_index := idx' }
  match s.validators.findIdx? (fun v => decide (v.pubkey = d.pubkey)) with
  | none =>
    -- Verify the deposit signature (proof of possession) which is not checked by the deposit contract
    if d.sigValid then
      -- Add validator and balance entries
      pure { s with validators := s.validators ++ [get_validator_from_deposit cfg d]
                    balances := s.balances ++ [d.amount] }
    else pure s
  | some index =>
    -- Increase balance by deposit amount
    increase_balance s index d.amount

/-- the activation loop of `initialize_beacon_state_from_eth1` for one validator -/
def genesisActivate (cfg : Config) (v : Validator) (balance : Nat) : Validator :=
  let effective_balance := min (balance - balance % cfg.EFFECTIVE_BALANCE_INCREMENT) cfg.MAX_EFFECTIVE_BALANCE
  if effective_balance = cfg.MAX_EFFECTIVE_BALANCE then
    { v with effective_balance := effective_balance
             activation_eligibility_epoch := GENESIS_EPOCH
             activation_epoch := GENESIS_EPOCH }
  else { v with effective_balance := effective_balance }

/-- the `BeaconState(...)` constructor call of `initialize_beacon_state_from_eth1` (all other fields default) -/
def genesisBlank (cfg : Config) (eth1_block_hash : Bytes) (genesis_time deposit_count : Nat) : State :=
  { fork := .phase0
    genesis_time := genesis_time
    genesis_validators_root := ZERO32
    slot := GENESIS_SLOT
    fork_rec := ⟨cfg.GENESIS_FORK_VERSION, cfg.GENESIS_FORK_VERSION, GENESIS_EPOCH⟩
    latest_block_header := ⟨0, 0, ZERO32, ZERO32, htrEmptyBody cfg⟩
    block_roots := List.replicate cfg.SLOTS_PER_HISTORICAL_ROOT ZERO32
    state_roots := List.replicate cfg.SLOTS_PER_HISTORICAL_ROOT ZERO32
    historical_roots := []
    eth1_data := ⟨ZERO32, deposit_count, eth1_block_hash⟩
    eth1_data_votes := []
    eth1_deposit_index := 0
    validators := []
    balances := []
    randao_mixes := List.replicate cfg.EPOCHS_PER_HISTORICAL_VECTOR eth1_block_hash  -- Seed RANDAO with Eth1 entropy
    slashings := List.replicate cfg.EPOCHS_PER_SLASHINGS_VECTOR 0
    previous_epoch_attestations := []
    current_epoch_attestations := []
    justification_bits := [false, false, false, false]
    previous_justified_checkpoint := ⟨0, ZERO32⟩
    current_justified_checkpoint := ⟨0, ZERO32⟩
    finalized_checkpoint := ⟨0, ZERO32⟩
    previous_epoch_participation := []
    current_epoch_participation := []
    inactivity_scores := []
    current_sync_committee := none
    next_sync_committee := none
    latest_execution_payload_header := none
    next_withdrawal_index := 0
    next_withdrawal_validator_index := 0
    historical_summaries := [] }

/-- the deposit loop: before deposit `index` the deposit root is that of the first `index + 1` leaves -/
def processGenesisDeposits (cfg : Config) (checkProof : Bool) (leaves : List Bytes) :
    Nat → State → List DepositIn → SM State
  | _, s, [] => pure s
  | index, s, deposit :: rest => do
    let deposit_root := depositListRoot (leaves.take (index + 1))
    let s := { s with eth1_data := { s.eth1_data with deposit_root := deposit_root } }
    let s ← process_deposit cfg checkProof s deposit
    processGenesisDeposits cfg checkProof leaves (index + 1) s rest

/-- the activation loop -/
def processGenesisActivations (cfg : Config) (s : State) : State :=
  { s with validators := List.zipWith (genesisActivate cfg) s.validators s.balances }

/-- `initialize_beacon_state_from_eth1` -/
def initialize_beacon_state_from_eth1 (cfg : Config) (eth1_block_hash : Bytes) (eth1_timestamp : Nat)
    (deposits : List DepositIn) (checkProof : Bool := true) : SM State := do
  let genesis_time ← u64 (eth1_timestamp + cfg.GENESIS_DELAY) "genesis_time"
  let state := genesisBlank cfg eth1_block_hash genesis_time deposits.length
  -- Process deposits
  let leaves := deposits.map htrDepositData
  let state ← processGenesisDeposits cfg checkProof leaves 0 state deposits
  -- Process activations
  let state := processGenesisActivations cfg state
  -- Set genesis validators root for domain separation and chain versioning
  pure { state with genesis_validators_root := htrValidators cfg state.validators }

/-- `is_valid_genesis_state` -/
def is_valid_genesis_state (cfg : Config) (s : State) : Bool :=
  if s.genesis_time < cfg.MIN_GENESIS_TIME then false
  else if (get_active_validator_indices s GENESIS_EPOCH).length < cfg.MIN_GENESIS_ACTIVE_VALIDATOR_COUNT then false
  else true

/-! ## Code-shaped model of `phase0.GenesisFromEth1` and `KickStartState` -/
namespace Impl

def wrap64 (n : Nat) : Nat := n % 2 ^ 64

/-- `state.AddValidator` -/
def addValidator (cfg : Config) (s : State) (pub wc : Bytes) (balance : Nat) : State :=
  let effBalance := balance - balance % cfg.EFFECTIVE_BALANCE_INCREMENT
  let effBalance := if effBalance > cfg.MAX_EFFECTIVE_BALANCE then cfg.MAX_EFFECTIVE_BALANCE else effBalance
  let v : Validator := ⟨pub, wc, effBalance, false, FAR_FUTURE_EPOCH, FAR_FUTURE_EPOCH, FAR_FUTURE_EPOCH, FAR_FUTURE_EPOCH⟩
  { s with validators := s.validators ++ [v], balances := s.balances ++ [balance] }

/-- `ProcessDeposit(spec, epc, state, dep, ignoreSignatureAndProof)`; the pubkey cache of a genesis run
holds exactly the validators added so far, so its lookup is a search of the registry. `none` = error. -/
def processDeposit (cfg : Config) (ignore : Bool) (s : State) (d : DepositIn) : Option State :=
  if !ignore && !Merkle.isValidMerkleBranch H2 (htrDepositData d) d.proof (DEPOSIT_CONTRACT_TREE_DEPTH + 1)
      s.eth1_deposit_index s.eth1_data.deposit_root then none
  else
    let s := { s with eth1_deposit_index := wrap64 (s.eth1_deposit_index + 1) }
    match s.validators.findIdx? (fun v => decide (v.pubkey = d.pubkey)) with
    | none =>
      if !d.pkOk then some s                -- undecodable pubkey: deposit skipped
      else if !d.sigDecodes then some s     -- undecodable signature: skipped
      else if !ignore && !d.verifyOk then some s
      else some (addValidator cfg s d.pubkey d.withdrawal_credentials d.amount)
    | some i =>
      match s.balances[i]? with
      | none => none
      | some b => some { s with balances := s.balances.set i (wrap64 (b + d.amount)) }

/-- the deposit loop with the incrementally maintained deposit-root list -/
def depositLoop (cfg : Config) (ignore : Bool) :
    State → Merkle.Inc Bytes → List DepositIn → Option (State × Merkle.Inc Bytes)
  | s, inc, [] => some (s, inc)
  | s, inc, d :: rest =>
    let inc := inc.push H2 (htrDepositData d)
    let s := { s with eth1_data := { s.eth1_data with deposit_root := inc.root H2 zeroFn lenNode } }
    match processDeposit cfg ignore s d with
    | none => none
    | some s => depositLoop cfg ignore s inc rest

def activationLoop (cfg : Config) (s : State) : State :=
  { s with validators := List.zipWith (fun (v : Validator) balance =>
      let vEff := balance - balance % cfg.EFFECTIVE_BALANCE_INCREMENT
      let vEff := if vEff > cfg.MAX_EFFECTIVE_BALANCE then cfg.MAX_EFFECTIVE_BALANCE else vEff
      let v := { v with effective_balance := vEff }
      if vEff = cfg.MAX_EFFECTIVE_BALANCE then
        { v with activation_eligibility_epoch := GENESIS_EPOCH, activation_epoch := GENESIS_EPOCH }
      else v) s.validators s.balances }

/-- `GenesisFromEth1`; `none` = an error is returned -/
def genesisFromEth1 (cfg : Config) (eth1BlockHash : Bytes) (time : Nat) (deps : List DepositIn) (ignore : Bool) :
    Option State := do
  let state := genesisBlank cfg eth1BlockHash (wrap64 (time + cfg.GENESIS_DELAY)) (wrap64 deps.length)
  let (state, inc) ← depositLoop cfg ignore state (Merkle.Inc.empty ZERO32 DEPOSIT_CONTRACT_TREE_DEPTH) deps
  let state := { state with eth1_data := { state.eth1_data with deposit_root := inc.root H2 zeroFn lenNode } }
  -- "not enough validators to init full featured BeaconState"
  if state.validators.length < cfg.SLOTS_PER_EPOCH then none
  let state := activationLoop cfg state
  let state := { state with genesis_validators_root := htrValidators cfg state.validators }
  -- epc.LoadShuffling / epc.LoadProposers: ComputeProposers fails without active validators
  if (get_active_validator_indices state GENESIS_EPOCH).isEmpty then none
  pure state

/-- `IsValidGenesisState(spec, state)`: the genesis time first, then a loop over the registry iterator that counts
the validators active at `GENESIS_EPOCH` (`IsActive`: `activation_epoch <= epoch && epoch < exit_epoch`), compared
with `MIN_GENESIS_ACTIVE_VALIDATOR_COUNT` -/
def isValidGenesisState (cfg : Config) (s : State) : Bool :=
  if s.genesis_time < cfg.MIN_GENESIS_TIME then false
  else
    let activeCount := s.validators.foldl (fun activeCount val =>
      if val.activation_epoch ≤ GENESIS_EPOCH && GENESIS_EPOCH < val.exit_epoch then activeCount + 1 else activeCount) 0
    decide (activeCount ≥ cfg.MIN_GENESIS_ACTIVE_VALIDATOR_COUNT)

/-- `KickStartState` / `KickStartStateWithSignatures`: the caller has already turned the validator data into
deposits (placeholder or real signatures, zero proofs) -/
def kickStart (cfg : Config) (eth1BlockHash : Bytes) (time : Nat) (deps : List DepositIn) : Option State := do
  let state ← genesisFromEth1 cfg eth1BlockHash 0 deps true
  pure { state with genesis_time := time }

end Impl

/-- what `KickStart` is specified to build: genesis with proofs ignored and the time overridden -/
def kickStartSpec (cfg : Config) (eth1_block_hash : Bytes) (time : Nat) (deposits : List DepositIn) : SM State := do
  let deposits := deposits.map fun d => { d with verifyOk := true }
  let state ← initialize_beacon_state_from_eth1 cfg eth1_block_hash 0 deposits (checkProof := false)
  pure { state with genesis_time := time }

end Zrnt.Beacon.Genesis
