import Zrnt.Beacon.Spec.Epoch
/-!
# Specification layer `S`, theorem-facing form of the whole `process_epoch`

The sub-transitions of `Pure.lean` / `Epoch.lean` composed in the order of the spec's `process_epoch` (phase0, and
altair … deneb), as a pure function on `State`. What the monadic `process_epoch` obtains from oracles or from the
committee machinery enters as `EpochInputs`. `zmodel c02` compares this function with the monadic `process_epoch` on
every `epoch all` line.
-/
namespace Zrnt.Beacon.Spec
open Zrnt.Beacon

structure EpochInputs where
  /-- phase0: the previous / current epoch's pending attestations, resolved -/
  prevAtts : List ResolvedAtt
  currAtts : List ResolvedAtt
  /-- `get_block_root(state, previous_epoch)` / `(state, current_epoch)` where justification looks them up -/
  prevRoot : Bytes
  curRoot : Bytes
  /-- altair+: `get_next_sync_committee(state)` as evaluated by `process_sync_committee_updates` at a period boundary -/
  computedSync : Option SyncCommittee

/-- `get_finality_delay` (uint64 underflow is the monadic version's business) -/
def finality_delay_of (prev : Nat) (s : State) : Nat := prev - s.finalized_checkpoint.epoch
/-- `is_in_inactivity_leak` -/
def in_leak_of (cfg : Config) (prev : Nat) (s : State) : Bool :=
  decide (finality_delay_of prev s > cfg.MIN_EPOCHS_TO_INACTIVITY_PENALTY)

def justification_stage (cfg : Config) (inp : EpochInputs) (prev cur : Nat) (s : State) : State :=
  if cur ≤ GENESIS_EPOCH + 1 then s else
  let total := total_active_balance_of cfg s.validators cur
  let t := if s.fork = .phase0 then target_balances_phase0_pure cfg s.validators inp.prevAtts inp.currAtts
    else target_balances_altair_pure cfg s.validators s.previous_epoch_participation s.current_epoch_participation prev cur
  withFFG s (weigh_justification_and_finalization_pure prev cur (ffgOf s) total t.1 t.2 inp.prevRoot inp.curRoot)

def inactivity_stage (cfg : Config) (prev cur : Nat) (s : State) : State :=
  if s.fork = .phase0 ∨ cur = GENESIS_EPOCH then s else
  { s with inactivity_scores := (process_inactivity_updates_pure cfg s.validators s.previous_epoch_participation
      s.inactivity_scores prev (in_leak_of cfg prev s)) }

def rewards_stage (cfg : Config) (inp : EpochInputs) (prev cur : Nat) (s : State) : State :=
  if cur = GENESIS_EPOCH then s else
  if s.fork = .phase0 then
    { s with balances := (process_rewards_and_penalties_phase0_pure cfg s.validators s.balances prev cur
        (finality_delay_of prev s) (in_leak_of cfg prev s) inp.prevAtts) }
  else
    { s with balances := (process_rewards_and_penalties_altair_pure cfg s.validators s.previous_epoch_participation
        s.inactivity_scores s.balances prev cur (inactivity_penalty_quotient cfg s.fork) (in_leak_of cfg prev s)) }

def registry_stage (cfg : Config) (cur : Nat) (s : State) : State :=
  let first := registry_eligibility_and_ejections_pure cfg cur s.validators
  let limit := if s.fork ≥ .deneb then min cfg.MAX_PER_EPOCH_ACTIVATION_CHURN_LIMIT (churn_limit_of cfg first cur)
    else churn_limit_of cfg first cur
  { s with validators := registry_activations_pure cfg cur s.finalized_checkpoint.epoch limit first }

def slashings_stage (cfg : Config) (cur : Nat) (s : State) : State :=
  { s with balances :=
      process_slashings_pure cfg s.fork cur (total_active_balance_of cfg s.validators cur) s.slashings s.validators s.balances
        ++ s.balances.drop s.validators.length }

def eth1_stage (cfg : Config) (cur : Nat) (s : State) : State :=
  { s with eth1_data_votes := process_eth1_data_reset_pure cfg cur s.eth1_data_votes }

def effective_balance_stage (cfg : Config) (s : State) : State :=
  { s with validators := process_effective_balance_updates_pure cfg s.validators s.balances }

def slashings_reset_stage (cfg : Config) (cur : Nat) (s : State) : State :=
  { s with slashings := process_slashings_reset_pure cfg cur s.slashings }

def randao_stage (cfg : Config) (cur : Nat) (s : State) : State :=
  { s with randao_mixes := process_randao_mixes_reset_pure cfg cur s.randao_mixes }

def historical_stage (cfg : Config) (cur : Nat) (s : State) : State :=
  if s.fork ≥ .capella then
    { s with historical_summaries :=
        process_historical_summaries_update_pure cfg cur s.block_roots s.state_roots s.historical_summaries }
  else
    { s with historical_roots := process_historical_roots_update_pure cfg cur s.block_roots s.state_roots s.historical_roots }

def participation_stage (s : State) : State :=
  if s.fork = .phase0 then
    { s with previous_epoch_attestations := (process_participation_record_updates_pure s.current_epoch_attestations).1,
             current_epoch_attestations := (process_participation_record_updates_pure s.current_epoch_attestations).2 }
  else
    { s with previous_epoch_participation :=
               (process_participation_flag_updates_pure s.validators.length s.current_epoch_participation).1,
             current_epoch_participation :=
               (process_participation_flag_updates_pure s.validators.length s.current_epoch_participation).2 }

def sync_stage (cfg : Config) (inp : EpochInputs) (cur : Nat) (s : State) : State :=
  if s.fork = .phase0 then s else
  { s with current_sync_committee :=
             (process_sync_committee_updates_pure cfg cur s.current_sync_committee s.next_sync_committee inp.computedSync).1,
           next_sync_committee :=
             (process_sync_committee_updates_pure cfg cur s.current_sync_committee s.next_sync_committee inp.computedSync).2 }

/-- `process_epoch` (phase0: justification, rewards, registry, slashings, eth1 reset, effective balances, slashings
reset, randao reset, historical roots, participation records; altair+: with inactivity updates after justification,
historical summaries from capella, participation flags and sync-committee updates at the end). -/
def process_epoch_pure (cfg : Config) (inp : EpochInputs) (s : State) : State :=
  let prev := get_previous_epoch cfg s
  let cur := get_current_epoch cfg s
  let s := justification_stage cfg inp prev cur s
  let s := inactivity_stage cfg prev cur s
  let s := rewards_stage cfg inp prev cur s
  let s := registry_stage cfg cur s
  let s := slashings_stage cfg cur s
  let s := eth1_stage cfg cur s
  let s := effective_balance_stage cfg s
  let s := slashings_reset_stage cfg cur s
  let s := randao_stage cfg cur s
  let s := historical_stage cfg cur s
  let s := participation_stage s
  sync_stage cfg inp cur s

end Zrnt.Beacon.Spec
