import Zrnt.Beacon.Block
import Zrnt.Beacon.Spec.Pure
/-!
# Specification layer `S`, theorem-facing form of block operations with loops (pure cores)

As for epoch processing (`Spec/Pure.lean`): the same spec functions written over the fields they touch, in `Nat`,
without the `uint64`/index checks of the monadic versions in `BlockOps.lean`. The monadic versions COMPARE their
result with the function here on every evaluation (`crossCheck`: a disagreement is `Err.oracle`, which can never equal
an answer of the Go side, so it surfaces in every correspondence run). The refinement theorems about these operations
(`Proofs/Lemmas/BeaconBlockM.lean`) are about the definitions here.
-/
namespace Zrnt.Beacon.Block
open Zrnt.Beacon Zrnt.Beacon.Spec

/-- the run-time comparison of a monadic operation with its pure core (`none` = the pure core rejects) -/
def crossCheck (name : String) (core : Option State) (r : SM State) : SM State :=
  match r, core with
  | .ok s, some s' => if s = s' then .ok s else throw (.oracle s!"{name}: pure core disagrees (post-state)")
  | .ok _, none => throw (.oracle s!"{name}: pure core rejects, monadic version accepts")
  | .error (.invalid m), none => .error (.invalid m)
  | .error (.invalid _), some _ => throw (.oracle s!"{name}: pure core accepts, monadic version rejects")
  | .error e, _ => .error e   -- overflow / fuel / oracle: outside the pure core

/-- one `decrease_balance` on a bare balance list -/
def decBal (b : List Nat) (w : Withdrawal) : Option (List Nat) :=
  match b[w.validator_index]? with
  | some x => some (b.set w.validator_index (if w.amount > x then 0 else x - w.amount))
  | none => none

/-- The state update of `process_withdrawals`, given `expected = get_expected_withdrawals(state)`:
```python
    assert payload.withdrawals == expected_withdrawals
    for withdrawal in expected_withdrawals: decrease_balance(state, withdrawal.validator_index, withdrawal.amount)
    if len(expected_withdrawals) != 0: state.next_withdrawal_index = expected_withdrawals[-1].index + 1
    if len(expected_withdrawals) == MAX_WITHDRAWALS_PER_PAYLOAD:
        state.next_withdrawal_validator_index = (expected_withdrawals[-1].validator_index + 1) % len(state.validators)
    else:
        state.next_withdrawal_validator_index = \
            (state.next_withdrawal_validator_index + MAX_VALIDATORS_PER_WITHDRAWALS_SWEEP) % len(state.validators)
``` -/
def process_withdrawals_pure (cfg : Config) (s : State) (expected payload_withdrawals : List Withdrawal) : Option State :=
  if payload_withdrawals ≠ expected then none else
  if s.validators.length = 0 then none else
  match expected.foldlM decBal s.balances with
  | none => none
  | some balances =>
    let s := { s with balances := balances }
    let s := match expected.getLast? with
      | some l => { s with next_withdrawal_index := l.index + 1 }
      | none => s
    if expected.length = cfg.MAX_WITHDRAWALS_PER_PAYLOAD then
      match expected.getLast? with
      | some l => some { s with next_withdrawal_validator_index := (l.validator_index + 1) % s.validators.length }
      | none => none
    else
      some { s with next_withdrawal_validator_index :=
        (s.next_withdrawal_validator_index + cfg.MAX_VALIDATORS_PER_WITHDRAWALS_SWEEP) % s.validators.length }

/-! ## sync aggregate -/

/-- The reward loop of `process_sync_aggregate` on a bare balance list, `proposer` being
`get_beacon_proposer_index(state)` (it does not depend on balances: `proposer_frame`):
```python
    for participant_index, participation_bit in zip(committee_indices, sync_aggregate.sync_committee_bits):
        if participation_bit:
            increase_balance(state, participant_index, participant_reward)
            increase_balance(state, get_beacon_proposer_index(state), proposer_reward)
        else:
            decrease_balance(state, participant_index, participant_reward)
``` -/
def sync_apply_pure (participant_reward proposer_reward proposer : Nat) : List Nat → List Bool → List Nat → Option (List Nat)
  | [], _, b => some b
  | _ :: _, [], b => some b
  | vi :: rest, bit :: bits, b =>
    match b[vi]? with
    | none => none
    | some x =>
      if bit then
        let b := b.set vi (x + participant_reward)
        match b[proposer]? with
        | none => none
        | some y => sync_apply_pure participant_reward proposer_reward proposer rest bits (b.set proposer (y + proposer_reward))
      else
        sync_apply_pure participant_reward proposer_reward proposer rest bits
          (b.set vi (if participant_reward > x then 0 else x - participant_reward))

/-- `(participant_reward, proposer_reward)` of `process_sync_aggregate` for total active balance `T` -/
def sync_rewards (cfg : Config) (T : Nat) : Nat × Nat :=
  let total_active_increments := T / cfg.EFFECTIVE_BALANCE_INCREMENT
  let base_reward_per_increment := cfg.EFFECTIVE_BALANCE_INCREMENT * cfg.BASE_REWARD_FACTOR / integer_squareroot T
  let total_base_rewards := base_reward_per_increment * total_active_increments
  let max_participant_rewards := total_base_rewards * SYNC_REWARD_WEIGHT / WEIGHT_DENOMINATOR / cfg.SLOTS_PER_EPOCH
  let participant_reward := max_participant_rewards / cfg.SYNC_COMMITTEE_SIZE
  (participant_reward, participant_reward * PROPOSER_WEIGHT / (WEIGHT_DENOMINATOR - PROPOSER_WEIGHT))

/-- registry index of a pubkey (`all_pubkeys.index(pubkey)`, `none` = ValueError) -/
def pubkey_index (s : State) (pk : Bytes) : Option Nat :=
  let i := (s.validators.map (·.pubkey)).findIdx (· = pk)
  if i < s.validators.length then some i else none

/-- `process_sync_aggregate` in `Nat`, given `T = get_total_active_balance(state)` and
`p = get_beacon_proposer_index(state)` (`none` = rejected) -/
def process_sync_aggregate_pure (cfg : Config) (s : State) (agg : SyncAggregate) (T p : Nat) : Option State :=
  match s.current_sync_committee with
  | none => none
  | some committee =>
    let bits := agg.sync_committee_bits.take cfg.SYNC_COMMITTEE_SIZE
    if bits.length ≠ cfg.SYNC_COMMITTEE_SIZE then none else
    let previous_slot := max s.slot 1 - 1
    if ¬ (previous_slot < s.slot ∧ s.slot ≤ previous_slot + cfg.SLOTS_PER_HISTORICAL_ROOT) then none else
    if cfg.SLOTS_PER_HISTORICAL_ROOT = 0 then none else
    match s.block_roots[previous_slot % cfg.SLOTS_PER_HISTORICAL_ROOT]? with
    | none => none
    | some _ =>
      if !agg.sig_ok then none else
      if cfg.EFFECTIVE_BALANCE_INCREMENT = 0 ∨ cfg.SLOTS_PER_EPOCH = 0 ∨ cfg.SYNC_COMMITTEE_SIZE = 0 ∨ integer_squareroot T = 0 then none else
      let r := sync_rewards cfg T
      match committee.pubkeys.mapM (pubkey_index s) with
      | none => none
      | some committee_indices =>
        (sync_apply_pure r.1 r.2 p committee_indices bits s.balances).map fun b => { s with balances := b }

end Zrnt.Beacon.Block
