import Zrnt.Beacon.Block
import Zrnt.Beacon.Spec.Helpers
/-!
# Specification layer `S`, theorem-facing form of block operations with loops (pure cores)

As for epoch processing (`Spec/Pure.lean`): the same spec functions written over the fields they touch, in `Nat`,
without the `uint64`/index checks of the monadic versions in `BlockOps.lean`. The monadic versions COMPARE their
result with the function here on every evaluation (`crossCheck`: a disagreement is `Err.oracle`, which can never equal
an answer of the Go side, so it surfaces in every correspondence run). The refinement theorems about these operations
(`Proofs/Lemmas/BeaconBlockM.lean`) are about the definitions here.
-/
namespace Zrnt.Beacon.Block
open Zrnt.Beacon Zrnt.Beacon.Spec

/-- the run-time comparison of a monadic operation with its pure core (`none` = the pure core rejects) -/
def crossCheck (name : String) (core : Option State) (r : SM State) : SM State :=
  match r, core with
  | .ok s, some s' => if s = s' then .ok s else throw (.oracle s!"{name}: pure core disagrees (post-state)")
  | .ok _, none => throw (.oracle s!"{name}: pure core rejects, monadic version accepts")
  | .error (.invalid m), none => .error (.invalid m)
  | .error (.invalid _), some _ => throw (.oracle s!"{name}: pure core accepts, monadic version rejects")
  | .error e, _ => .error e   -- overflow / fuel / oracle: outside the pure core

/-- one `decrease_balance` on a bare balance list -/
def decBal (b : List Nat) (w : Withdrawal) : Option (List Nat) :=
  match b[w.validator_index]? with
  | some x => some (b.set w.validator_index (if w.amount > x then 0 else x - w.amount))
  | none => none

/-- The state update of `process_withdrawals`, given `expected = get_expected_withdrawals(state)`:
```python
    assert payload.withdrawals == expected_withdrawals
    for withdrawal in expected_withdrawals: decrease_balance(state, withdrawal.validator_index, withdrawal.amount)
    if len(expected_withdrawals) != 0: state.next_withdrawal_index = expected_withdrawals[-1].index + 1
    if len(expected_withdrawals) == MAX_WITHDRAWALS_PER_PAYLOAD:
        state.next_withdrawal_validator_index = (expected_withdrawals[-1].validator_index + 1) % len(state.validators)
    else:
        state.next_withdrawal_validator_index = \
            (state.next_withdrawal_validator_index + MAX_VALIDATORS_PER_WITHDRAWALS_SWEEP) % len(state.validators)
``` -/
def process_withdrawals_pure (cfg : Config) (s : State) (expected payload_withdrawals : List Withdrawal) : Option State :=
  if payload_withdrawals ≠ expected then none else
  if s.validators.length = 0 then none else
  match expected.foldlM decBal s.balances with
  | none => none
  | some balances =>
    let s := { s with balances := balances }
    let s := match expected.getLast? with
      | some l => { s with next_withdrawal_index := l.index + 1 }
      | none => s
    if expected.length = cfg.MAX_WITHDRAWALS_PER_PAYLOAD then
      match expected.getLast? with
      | some l => some { s with next_withdrawal_validator_index := (l.validator_index + 1) % s.validators.length }
      | none => none
    else
      some { s with next_withdrawal_validator_index :=
        (s.next_withdrawal_validator_index + cfg.MAX_VALIDATORS_PER_WITHDRAWALS_SWEEP) % s.validators.length }

end Zrnt.Beacon.Block
