import Zrnt.Beacon.Block
import Zrnt.Beacon.Spec.Transition
/-!
# Specification layer `S`, theorem-facing form of block operations with loops (pure cores)

As for epoch processing (`Spec/Pure.lean`): the same spec functions written over the fields they touch, in `Nat`,
without the `uint64`/index checks of the monadic versions in `BlockOps.lean`. The monadic versions COMPARE their
result with the function here on every evaluation (`crossCheck`: a disagreement is `Err.oracle`, which can never equal
an answer of the Go side, so it surfaces in every correspondence run). The refinement theorems about these operations
(`Proofs/Lemmas/BeaconBlockM.lean`) are about the definitions here.
-/
namespace Zrnt.Beacon.Block
open Zrnt.Beacon Zrnt.Beacon.Spec

/-- the run-time comparison of a monadic operation with its pure core (`none` = the pure core rejects) -/
def crossCheck (name : String) (core : Option State) (r : SM State) : SM State :=
  match r, core with
  | .ok s, some s' => if s = s' then .ok s else throw (.oracle s!"{name}: pure core disagrees (post-state)")
  | .ok _, none => throw (.oracle s!"{name}: pure core rejects, monadic version accepts")
  | .error (.invalid m), none => .error (.invalid m)
  | .error (.invalid _), some _ => throw (.oracle s!"{name}: pure core accepts, monadic version rejects")
  | .error e, _ => .error e   -- overflow / fuel / oracle: outside the pure core

/-- one `decrease_balance` on a bare balance list -/
def decBal (b : List Nat) (w : Withdrawal) : Option (List Nat) :=
  match b[w.validator_index]? with
  | some x => some (b.set w.validator_index (if w.amount > x then 0 else x - w.amount))
  | none => none

/-- The state update of `process_withdrawals`, given `expected = get_expected_withdrawals(state)`:
```python
    assert payload.withdrawals == expected_withdrawals
    for withdrawal in expected_withdrawals: decrease_balance(state, withdrawal.validator_index, withdrawal.amount)
    if len(expected_withdrawals) != 0: state.next_withdrawal_index = expected_withdrawals[-1].index + 1
    if len(expected_withdrawals) == MAX_WITHDRAWALS_PER_PAYLOAD:
        state.next_withdrawal_validator_index = (expected_withdrawals[-1].validator_index + 1) % len(state.validators)
    else:
        state.next_withdrawal_validator_index = \
            (state.next_withdrawal_validator_index + MAX_VALIDATORS_PER_WITHDRAWALS_SWEEP) % len(state.validators)
``` -/
def process_withdrawals_pure (cfg : Config) (s : State) (expected payload_withdrawals : List Withdrawal) : Option State :=
  if payload_withdrawals ≠ expected then none else
  if s.validators.length = 0 then none else
  match expected.foldlM decBal s.balances with
  | none => none
  | some balances =>
    let s := { s with balances := balances }
    let s := match expected.getLast? with
      | some l => { s with next_withdrawal_index := l.index + 1 }
      | none => s
    if expected.length = cfg.MAX_WITHDRAWALS_PER_PAYLOAD then
      match expected.getLast? with
      | some l => some { s with next_withdrawal_validator_index := (l.validator_index + 1) % s.validators.length }
      | none => none
    else
      some { s with next_withdrawal_validator_index :=
        (s.next_withdrawal_validator_index + cfg.MAX_VALIDATORS_PER_WITHDRAWALS_SWEEP) % s.validators.length }

/-! ## sync aggregate -/

/-- The reward loop of `process_sync_aggregate` on a bare balance list, `proposer` being
`get_beacon_proposer_index(state)` (it does not depend on balances: `proposer_frame`):
```python
    for participant_index, participation_bit in zip(committee_indices, sync_aggregate.sync_committee_bits):
        if participation_bit:
            increase_balance(state, participant_index, participant_reward)
            increase_balance(state, get_beacon_proposer_index(state), proposer_reward)
        else:
            decrease_balance(state, participant_index, participant_reward)
``` -/
def sync_apply_pure (participant_reward proposer_reward proposer : Nat) : List Nat → List Bool → List Nat → Option (List Nat)
  | [], _, b => some b
  | _ :: _, [], b => some b
  | vi :: rest, bit :: bits, b =>
    match b[vi]? with
    | none => none
    | some x =>
      if bit then
        let b := b.set vi (x + participant_reward)
        match b[proposer]? with
        | none => none
        | some y => sync_apply_pure participant_reward proposer_reward proposer rest bits (b.set proposer (y + proposer_reward))
      else
        sync_apply_pure participant_reward proposer_reward proposer rest bits
          (b.set vi (if participant_reward > x then 0 else x - participant_reward))

/-- `(participant_reward, proposer_reward)` of `process_sync_aggregate` for total active balance `T` -/
def sync_rewards (cfg : Config) (T : Nat) : Nat × Nat :=
  let total_active_increments := T / cfg.EFFECTIVE_BALANCE_INCREMENT
  let base_reward_per_increment := cfg.EFFECTIVE_BALANCE_INCREMENT * cfg.BASE_REWARD_FACTOR / integer_squareroot T
  let total_base_rewards := base_reward_per_increment * total_active_increments
  let max_participant_rewards := total_base_rewards * SYNC_REWARD_WEIGHT / WEIGHT_DENOMINATOR / cfg.SLOTS_PER_EPOCH
  let participant_reward := max_participant_rewards / cfg.SYNC_COMMITTEE_SIZE
  (participant_reward, participant_reward * PROPOSER_WEIGHT / (WEIGHT_DENOMINATOR - PROPOSER_WEIGHT))

/-- registry index of a pubkey (`all_pubkeys.index(pubkey)`, `none` = ValueError) -/
def pubkey_index (s : State) (pk : Bytes) : Option Nat :=
  let i := (s.validators.map (·.pubkey)).findIdx (· = pk)
  if i < s.validators.length then some i else none

/-- `process_sync_aggregate` in `Nat`, given `T = get_total_active_balance(state)` and
`p = get_beacon_proposer_index(state)` (`none` = rejected) -/
def process_sync_aggregate_pure (cfg : Config) (s : State) (agg : SyncAggregate) (T p : Nat) : Option State :=
  match s.current_sync_committee with
  | none => none
  | some committee =>
    let bits := agg.sync_committee_bits.take cfg.SYNC_COMMITTEE_SIZE
    if bits.length ≠ cfg.SYNC_COMMITTEE_SIZE then none else
    let previous_slot := max s.slot 1 - 1
    if ¬ (previous_slot < s.slot ∧ s.slot ≤ previous_slot + cfg.SLOTS_PER_HISTORICAL_ROOT) then none else
    if cfg.SLOTS_PER_HISTORICAL_ROOT = 0 then none else
    match s.block_roots[previous_slot % cfg.SLOTS_PER_HISTORICAL_ROOT]? with
    | none => none
    | some _ =>
      if !agg.sig_ok then none else
      if cfg.EFFECTIVE_BALANCE_INCREMENT = 0 ∨ cfg.SLOTS_PER_EPOCH = 0 ∨ cfg.SYNC_COMMITTEE_SIZE = 0 ∨ integer_squareroot T = 0 then none else
      let r := sync_rewards cfg T
      match committee.pubkeys.mapM (pubkey_index s) with
      | none => none
      | some committee_indices =>
        (sync_apply_pure r.1 r.2 p committee_indices bits s.balances).map fun b => { s with balances := b }

/-! ## sorted index lists -/

/-- `indices == sorted(set(indices))`: strictly increasing -/
def sortedUnique : List Nat → Bool
  | [] => true
  | [_] => true
  | a :: b :: rest => a < b && sortedUnique (b :: rest)

/-- `sorted(...)` of a list of indices -/
def insertionSort (l : List Nat) : List Nat :=
  let rec ins (x : Nat) : List Nat → List Nat
    | [] => [x]
    | y :: ys => if x ≤ y then x :: y :: ys else y :: ins x ys
  l.foldl (fun acc x => ins x acc) []

/-! ## attestations -/

/-- the first assertions of `process_attestation` (see `attestation_timing`), as a Boolean in `Nat` -/
def attestation_timing_pure (cfg : Config) (s : State) (data : AttestationData) : Bool :=
  let current := s.slot / cfg.SLOTS_PER_EPOCH
  let previous := current - 1   -- get_previous_epoch: GENESIS_EPOCH stays GENESIS_EPOCH
  (decide (data.target.epoch = previous) || decide (data.target.epoch = current)) &&
  decide (data.target.epoch = data.slot / cfg.SLOTS_PER_EPOCH) &&
  decide (data.slot + cfg.MIN_ATTESTATION_INCLUSION_DELAY ≤ s.slot) &&
  (decide (s.fork ≥ .deneb) || decide (s.slot ≤ data.slot + cfg.SLOTS_PER_EPOCH))

/-- `get_attesting_indices` + `sorted(...)` given the committee: members whose bit is set, each once, increasing -/
def attesting_indices_pure (committee : List Nat) (bits : List Bool) : List Nat :=
  insertionSort ((committee.zip bits).filterMap fun (i, b) => if b then some i else none).eraseDups

/-- `is_valid_indexed_attestation` as a Boolean (`false` also where the pyspec raises an IndexError) -/
def valid_indexed_pure (s : State) (indices : List Nat) (sig_ok : Bool) : Bool :=
  decide (indices.length ≠ 0) && sortedUnique indices && indices.all (· < s.validators.length) && sig_ok

/-- phase0 `process_attestation`, given the specification's `get_committee_count_per_slot(state, data.target.epoch)`,
`get_beacon_committee(state, data.slot, data.index)` and `get_beacon_proposer_index(state)` (`none` where they raise):
```python
    assert data.target.epoch in (get_previous_epoch(state), get_current_epoch(state))
    assert data.target.epoch == compute_epoch_at_slot(data.slot)
    assert data.slot + MIN_ATTESTATION_INCLUSION_DELAY <= state.slot <= data.slot + SLOTS_PER_EPOCH
    assert data.index < get_committee_count_per_slot(state, data.target.epoch)
    committee = get_beacon_committee(state, data.slot, data.index)
    assert len(attestation.aggregation_bits) == len(committee)
    pending_attestation = PendingAttestation(data=data, aggregation_bits=attestation.aggregation_bits,
        inclusion_delay=state.slot - data.slot, proposer_index=get_beacon_proposer_index(state))
    if data.target.epoch == get_current_epoch(state):
        assert data.source == state.current_justified_checkpoint
        state.current_epoch_attestations.append(pending_attestation)
    else:
        assert data.source == state.previous_justified_checkpoint
        state.previous_epoch_attestations.append(pending_attestation)
    assert is_valid_indexed_attestation(state, get_indexed_attestation(state, attestation))
``` -/
def process_attestation_phase0_pure (cfg : Config) (s : State) (att : Attestation)
    (committee_count : Option Nat) (committee : Option (List Nat)) (proposer : Option Nat) : Option State :=
  let data := att.data
  if !attestation_timing_pure cfg s data then none else
  match committee_count with
  | none => none
  | some count =>
    if ¬ data.index < count then none else
    match committee with
    | none => none
    | some committee =>
      if att.aggregation_bits.length ≠ committee.length then none else
      match proposer with
      | none => none
      | some proposer_index =>
        let pending : PendingAttestation :=
          { data := data, aggregation_bits := att.aggregation_bits, inclusion_delay := s.slot - data.slot, proposer_index := proposer_index }
        let limit := cfg.MAX_ATTESTATIONS * cfg.SLOTS_PER_EPOCH
        let current := decide (data.target.epoch = s.slot / cfg.SLOTS_PER_EPOCH)
        if data.source ≠ (if current then s.current_justified_checkpoint else s.previous_justified_checkpoint) then none else
        if ¬ (if current then s.current_epoch_attestations.length else s.previous_epoch_attestations.length) < limit then none else
        if !valid_indexed_pure s (attesting_indices_pure committee att.aggregation_bits) att.sig_ok then none else
        some (if current then { s with current_epoch_attestations := s.current_epoch_attestations ++ [pending] }
              else { s with previous_epoch_attestations := s.previous_epoch_attestations ++ [pending] })

/-! ## attestations, altair … deneb -/

/-- the inner loop of `process_attestation` for one attester: `for flag_index, weight in enumerate(PARTICIPATION_FLAG_WEIGHTS)`,
on the attester's flag byte and the running numerator -/
def attestation_flags_one (has : Nat → Bool) (base_reward : Nat) (e num : Nat) : Nat × Nat :=
  ((List.range PARTICIPATION_FLAG_WEIGHTS.length).zip PARTICIPATION_FLAG_WEIGHTS).foldl
    (fun acc fw => if has fw.1 && !has_flag acc.1 fw.1 then (add_flag acc.1 fw.1, acc.2 + base_reward * fw.2) else acc) (e, num)

/-- `get_block_root_at_slot` in `Nat` (`none` = its assertion fails or the vector is too short) -/
def block_root_at_slot_pure (cfg : Config) (s : State) (slot : Nat) : Option Bytes :=
  if ¬ (slot < s.slot ∧ s.slot ≤ slot + cfg.SLOTS_PER_HISTORICAL_ROOT) then none else
  if cfg.SLOTS_PER_HISTORICAL_ROOT = 0 then none else
  s.block_roots[slot % cfg.SLOTS_PER_HISTORICAL_ROOT]?

/-- altair `get_attestation_participation_flag_indices` [Modified in Deneb:EIP7045] (`none` = an assertion fails):
```python
    justified_checkpoint = current/previous justified checkpoint by data.target.epoch
    is_matching_source = data.source == justified_checkpoint
    is_matching_target = is_matching_source and data.target.root == get_block_root(state, data.target.epoch)
    is_matching_head = is_matching_target and data.beacon_block_root == get_block_root_at_slot(state, data.slot)
    assert is_matching_source
    if is_matching_source and inclusion_delay <= integer_squareroot(SLOTS_PER_EPOCH): TIMELY_SOURCE_FLAG_INDEX
    if is_matching_target and inclusion_delay <= SLOTS_PER_EPOCH: TIMELY_TARGET_FLAG_INDEX   # deneb: if is_matching_target
    if is_matching_head and inclusion_delay == MIN_ATTESTATION_INCLUSION_DELAY: TIMELY_HEAD_FLAG_INDEX
```
(`and` is short-circuit: a block root is only looked up when the left operand holds.) -/
def participation_flag_indices_pure (cfg : Config) (s : State) (data : AttestationData) (inclusion_delay : Nat) : Option (List Nat) :=
  let justified := if data.target.epoch = s.slot / cfg.SLOTS_PER_EPOCH then s.current_justified_checkpoint else s.previous_justified_checkpoint
  if data.source ≠ justified then none else
  match block_root_at_slot_pure cfg s (data.target.epoch * cfg.SLOTS_PER_EPOCH) with
  | none => none
  | some target_root =>
    let is_matching_target := decide (data.target.root = target_root)
    let head : Option Bool :=
      if is_matching_target then (block_root_at_slot_pure cfg s data.slot).map fun r => decide (data.beacon_block_root = r)
      else some false
    match head with
    | none => none
    | some is_matching_head =>
      some ((if inclusion_delay ≤ integer_squareroot cfg.SLOTS_PER_EPOCH then [TIMELY_SOURCE_FLAG_INDEX] else []) ++
        (if is_matching_target && (decide (s.fork ≥ .deneb) || decide (inclusion_delay ≤ cfg.SLOTS_PER_EPOCH)) then [TIMELY_TARGET_FLAG_INDEX] else []) ++
        (if is_matching_head && decide (inclusion_delay = cfg.MIN_ATTESTATION_INCLUSION_DELAY) then [TIMELY_HEAD_FLAG_INDEX] else []))

/-- the participation loop of altair `process_attestation` over the (sorted) attesting indices, `T = get_total_active_balance(state)`:
```python
    for index in get_attesting_indices(state, attestation):
        for flag_index, weight in enumerate(PARTICIPATION_FLAG_WEIGHTS):
            if flag_index in participation_flag_indices and not has_flag(epoch_participation[index], flag_index):
                epoch_participation[index] = add_flag(epoch_participation[index], flag_index)
                proposer_reward_numerator += get_base_reward(state, index) * weight
``` -/
def attestation_apply_pure (cfg : Config) (s : State) (T : Nat) (flags : List Nat) : List Nat → List Nat → Nat → Option (List Nat × Nat)
  | [], part, num => some (part, num)
  | i :: rest, part, num =>
    match part[i]?, s.validators[i]? with
    | some e, some v =>
      let base_reward := v.effective_balance / cfg.EFFECTIVE_BALANCE_INCREMENT *
        (cfg.EFFECTIVE_BALANCE_INCREMENT * cfg.BASE_REWARD_FACTOR / integer_squareroot T)
      let r := attestation_flags_one (fun f => flags.contains f) base_reward e num
      attestation_apply_pure cfg s T flags rest (part.set i r.1) r.2
    | _, _ => none

/-- `increase_balance` in `Nat` (`none` = index out of range) -/
def increase_balance_pure (s : State) (index delta : Nat) : Option State :=
  match s.balances[index]? with
  | none => none
  | some b => some { s with balances := s.balances.set index (b + delta) }

/-- altair … deneb `process_attestation` in `Nat`, given the specification's committee count, committee, proposer and
total active balance (`none` where they raise); `none` = rejected. Division by a zero `EFFECTIVE_BALANCE_INCREMENT` or
`integer_squareroot(T)` counts as rejected (the pyspec raises only if some flag is newly set).
```python
    (epoch/slot/window assertions; deneb: no upper bound)
    assert data.index < get_committee_count_per_slot(state, data.target.epoch)
    committee = get_beacon_committee(state, data.slot, data.index)
    assert len(attestation.aggregation_bits) == len(committee)
    participation_flag_indices = get_attestation_participation_flag_indices(state, data, state.slot - data.slot)
    assert is_valid_indexed_attestation(state, get_indexed_attestation(state, attestation))
    epoch_participation = state.current_epoch_participation if data.target.epoch == get_current_epoch(state) else state.previous_epoch_participation
    (participation loop)
    proposer_reward_denominator = (WEIGHT_DENOMINATOR - PROPOSER_WEIGHT) * WEIGHT_DENOMINATOR // PROPOSER_WEIGHT
    proposer_reward = Gwei(proposer_reward_numerator // proposer_reward_denominator)
    increase_balance(state, get_beacon_proposer_index(state), proposer_reward)
``` -/
def process_attestation_altair_pure (cfg : Config) (s : State) (att : Attestation)
    (committee_count : Option Nat) (committee : Option (List Nat)) (proposer : Option Nat) (T : Nat) : Option State :=
  let data := att.data
  if !attestation_timing_pure cfg s data then none else
  match committee_count with
  | none => none
  | some count =>
    if ¬ data.index < count then none else
    match committee with
    | none => none
    | some committee =>
      if att.aggregation_bits.length ≠ committee.length then none else
      match participation_flag_indices_pure cfg s data (s.slot - data.slot) with
      | none => none
      | some flags =>
        let indices := attesting_indices_pure committee att.aggregation_bits
        if !valid_indexed_pure s indices att.sig_ok then none else
        let current := decide (data.target.epoch = s.slot / cfg.SLOTS_PER_EPOCH)
        let part := if current then s.current_epoch_participation else s.previous_epoch_participation
        if cfg.EFFECTIVE_BALANCE_INCREMENT = 0 ∨ integer_squareroot T = 0 then none else
        (attestation_apply_pure cfg s T flags indices part 0).bind fun r =>
          proposer.bind fun p =>
            increase_balance_pure
              (if current then { s with current_epoch_participation := r.1 } else { s with previous_epoch_participation := r.1 })
              p (r.2 / ((WEIGHT_DENOMINATOR - PROPOSER_WEIGHT) * WEIGHT_DENOMINATOR / PROPOSER_WEIGHT))

/-! ## slashings -/

/-- `slash_validator(state, slashed_index)` in `Nat`, `proposer = get_beacon_proposer_index(state)` (which the registry
and balance updates of the function do not change: `proposer_frame`); `none` = an index is out of range or a
configured quotient / vector length is zero:
```python
    epoch = get_current_epoch(state)
    initiate_validator_exit(state, slashed_index)
    validator = state.validators[slashed_index]
    validator.slashed = True
    validator.withdrawable_epoch = max(validator.withdrawable_epoch, Epoch(epoch + EPOCHS_PER_SLASHINGS_VECTOR))
    state.slashings[epoch % EPOCHS_PER_SLASHINGS_VECTOR] += validator.effective_balance
    decrease_balance(state, slashed_index, validator.effective_balance // MIN_SLASHING_PENALTY_QUOTIENT)   # per fork
    proposer_index = get_beacon_proposer_index(state); whistleblower_index = proposer_index
    whistleblower_reward = Gwei(validator.effective_balance // WHISTLEBLOWER_REWARD_QUOTIENT)
    proposer_reward = Gwei(whistleblower_reward // PROPOSER_REWARD_QUOTIENT)             # phase0
    proposer_reward = Gwei(whistleblower_reward * PROPOSER_WEIGHT // WEIGHT_DENOMINATOR)  # altair+
    increase_balance(state, proposer_index, proposer_reward)
    increase_balance(state, whistleblower_index, Gwei(whistleblower_reward - proposer_reward))
``` -/
def slash_validator_pure (cfg : Config) (s : State) (slashed_index proposer : Nat) : Option State :=
  let epoch := s.slot / cfg.SLOTS_PER_EPOCH
  if cfg.CHURN_LIMIT_QUOTIENT = 0 then none else
  if ¬ slashed_index < s.validators.length then none else
  let vals := initiate_validator_exit_pure cfg epoch s.validators slashed_index
  match vals[slashed_index]? with
  | none => none
  | some validator =>
    let wd := max validator.withdrawable_epoch (epoch + cfg.EPOCHS_PER_SLASHINGS_VECTOR)
    let validator := { validator with slashed := true, withdrawable_epoch := wd }
    let vals := vals.set slashed_index validator
    if cfg.EPOCHS_PER_SLASHINGS_VECTOR = 0 then none else
    let si := epoch % cfg.EPOCHS_PER_SLASHINGS_VECTOR
    match s.slashings[si]? with
    | none => none
    | some sl =>
      let slashings := s.slashings.set si (sl + validator.effective_balance)
      let quotient := min_slashing_penalty_quotient cfg s.fork
      if quotient = 0 ∨ cfg.WHISTLEBLOWER_REWARD_QUOTIENT = 0 ∨ (s.fork = .phase0 ∧ cfg.PROPOSER_REWARD_QUOTIENT = 0) then none else
      match s.balances[slashed_index]? with
      | none => none
      | some b =>
        let penalty := validator.effective_balance / quotient
        let balances := s.balances.set slashed_index (if penalty > b then 0 else b - penalty)
        let whistleblower_reward := validator.effective_balance / cfg.WHISTLEBLOWER_REWARD_QUOTIENT
        let proposer_reward := if s.fork = .phase0 then whistleblower_reward / cfg.PROPOSER_REWARD_QUOTIENT
          else whistleblower_reward * PROPOSER_WEIGHT / WEIGHT_DENOMINATOR
        match balances[proposer]? with
        | none => none
        | some pb =>
          let balances := balances.set proposer (pb + proposer_reward)
          match balances[proposer]? with
          | none => none
          | some pb2 =>
            let balances := balances.set proposer (pb2 + (whistleblower_reward - proposer_reward))
            some { s with validators := vals, slashings := slashings, balances := balances }

end Zrnt.Beacon.Block
