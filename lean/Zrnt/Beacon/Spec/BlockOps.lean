import Zrnt.Beacon.Block
import Zrnt.Util.Merkle
import Zrnt.Beacon.Spec.Transition
import Zrnt.Beacon.Spec.BlockPure
/-!
# Specification layer `S`: block processing — helpers and the operations (phase0 … deneb)

Written from the published consensus specifications (`specs/{phase0,altair,bellatrix,capella,deneb}/
beacon-chain.md`), NOT from the Go code. Function names are the spec's. Every `assert`, `IndexError`
or `ZeroDivisionError` of the pyspec is `invalid "<rule>"` (the rule names feed the "rejected by this
rule first" statistics of C03); `uint64` results are range-checked with `u64` (overflow ⇒ reject, as
in the pyspec). Helper functions shared with epoch processing come from `Zrnt.Beacon.Spec`
(`Spec/Helpers.lean`, `Spec/Epoch.lean`, `Spec/Transition.lean`).

What is NOT computed here and enters as an input (see `Zrnt/Beacon/Block.lean`):
* every BLS verification — the `sig_ok` Booleans of the records (signature oracle);
* `hash_tree_root(block.body)`, `hash_tree_root(deposit.data)`, the payload's `transactions_root` /
  `withdrawals_root`, `hash_tree_root(state)` after the block;
* the execution engine's verdict.
`hash_tree_root(state.latest_block_header)` IS computed here (`Spec.hash_tree_root_header`), SHA-256
(`hash`, `xor` of mixes, Merkle branches, `hash(from_bls_pubkey)`) is computed here.
-/
namespace Zrnt.Beacon.Block
open Zrnt.Beacon Zrnt.Beacon.Spec

def DEPOSIT_CONTRACT_TREE_DEPTH : Nat := 32
def BLS_WITHDRAWAL_PREFIX : UInt8 := 0
def ETH1_ADDRESS_WITHDRAWAL_PREFIX : UInt8 := 1
def MAX_RANDOM_BYTE : Nat := 2 ^ 8 - 1

/-- the spec's `hash` (SHA-256) -/
def hash (b : Bytes) : Bytes := Spec.hash b

def xor (a b : Bytes) : Bytes :=
  ⟨(Array.range a.size).map fun i => (a.get! i) ^^^ (b.get! i)⟩

/-! ## Proposer -/

/-- `compute_proposer_index` (phase0 … deneb). The pyspec loop is `while True`; `fuel` bounds it
(⇒ `Err.fuel`, unreachable: the acceptance probability of every candidate is ≥ 1/255 · … ). -/
def compute_proposer_index (cfg : Config) (s : State) (indices : List Nat) (seed : Bytes)
    (fuel : Nat := 100000) : SM Nat := do
  require (indices.length > 0) "compute_proposer_index: no active validators"
  let total := indices.length
  let rec loop (fuel i : Nat) : SM Nat :=
    match fuel with
    | 0 => throw (.fuel "compute_proposer_index")
    | fuel + 1 => do
      let candidate_index ← idx indices (← compute_shuffled_index cfg (i % total) total seed) "indices"
      let random_byte := ((hash (seed ++ uintToBytes 8 (i / 32))).get! (i % 32)).toNat
      let effective_balance := (← idx s.validators candidate_index "validators").effective_balance
      if effective_balance * MAX_RANDOM_BYTE ≥ cfg.MAX_EFFECTIVE_BALANCE * random_byte then
        pure candidate_index
      else loop fuel (i + 1)
  loop fuel 0

/-- `get_beacon_proposer_index` -/
def get_beacon_proposer_index (cfg : Config) (s : State) : SM Nat := do
  let epoch := get_current_epoch cfg s
  let seed := hash ((← get_seed cfg s epoch DOMAIN_BEACON_PROPOSER) ++ uintToBytes 8 s.slot)
  let indices := get_active_validator_indices s epoch
  compute_proposer_index cfg s indices seed

/-! ## Predicates -/

/-- `is_slashable_attestation_data` -/
def is_slashable_attestation_data (data_1 data_2 : AttestationData) : Bool :=
  -- Double vote
  (data_1 ≠ data_2 && data_1.target.epoch == data_2.target.epoch) ||
  -- Surround vote
  (data_1.source.epoch < data_2.source.epoch && data_2.target.epoch < data_1.target.epoch)

/-- `is_valid_indexed_attestation`. The pubkey look-up `state.validators[i]` raises for an index out
of range (⇒ the block is invalid); the BLS verification is the oracle Boolean. -/
def is_valid_indexed_attestation (s : State) (indices : List Nat) (sig_ok : Bool) : SM Bool := do
  -- Verify indices are sorted and unique
  if indices.length = 0 || !sortedUnique indices then return false
  -- pubkeys = [state.validators[i].pubkey for i in indices]
  let _pubkeys ← indices.mapM fun i => idx s.validators i "indexed_attestation.index_out_of_range"
  -- Verify aggregate signature
  pure sig_ok

/-- `is_valid_merkle_branch`:
```python
    value = leaf
    for i in range(depth):
        if index // (2**i) % 2: value = hash(branch[i] + value)
        else:                   value = hash(value + branch[i])
    return value == root
```
The loop is `Zrnt.Util.Merkle.specRoot` (the specification C19 proves `VerifyMerkleBranch` against) over the
first `depth` siblings; a branch shorter than `depth` is the pyspec's `IndexError`. -/
def is_valid_merkle_branch (leaf : Bytes) (branch : List Bytes) (depth index : Nat) (root : Bytes) : SM Bool := do
  if branch.length < depth then invalid "merkle branch"
  pure (decide (Zrnt.Util.Merkle.specRoot (fun a b => hash (a ++ b)) leaf index (branch.take depth) = root))

/-! ## Registry mutators -/

/-- `slash_validator` [Modified in Altair: quotient, proposer reward] [Modified in Bellatrix: quotient] -/
def slash_validator_m (cfg : Config) (s : State) (slashed_index : Nat) (whistleblower_index : Option Nat := none) : SM State := do
  let epoch := get_current_epoch cfg s
  let s ← initiate_validator_exit cfg s slashed_index
  let validator ← idx s.validators slashed_index "validators"
  let withdrawable ← u64 (epoch + cfg.EPOCHS_PER_SLASHINGS_VECTOR) "slash_validator.withdrawable_epoch"
  let validator := { validator with slashed := true, withdrawable_epoch := max validator.withdrawable_epoch withdrawable }
  let s := { s with validators := s.validators.set slashed_index validator }
  if cfg.EPOCHS_PER_SLASHINGS_VECTOR = 0 then invalid "division by zero"
  let si := epoch % cfg.EPOCHS_PER_SLASHINGS_VECTOR
  let sl ← u64 ((← idx s.slashings si "slashings") + validator.effective_balance) "slashings overflow"
  let s := { s with slashings := s.slashings.set si sl }
  let quotient := min_slashing_penalty_quotient cfg s.fork
  if quotient = 0 then invalid "division by zero"
  let s ← decrease_balance s slashed_index (validator.effective_balance / quotient)
  -- Apply proposer and whistleblower rewards
  let proposer_index ← get_beacon_proposer_index cfg s
  let whistleblower_index := whistleblower_index.getD proposer_index
  if cfg.WHISTLEBLOWER_REWARD_QUOTIENT = 0 then invalid "division by zero"
  let whistleblower_reward := validator.effective_balance / cfg.WHISTLEBLOWER_REWARD_QUOTIENT
  let proposer_reward ←
    if s.fork = .phase0 then do
      if cfg.PROPOSER_REWARD_QUOTIENT = 0 then invalid "division by zero"
      pure (whistleblower_reward / cfg.PROPOSER_REWARD_QUOTIENT)
    else  -- [Modified in Altair]
      pure (whistleblower_reward * PROPOSER_WEIGHT / WEIGHT_DENOMINATOR)
  let s ← increase_balance s proposer_index proposer_reward
  increase_balance s whistleblower_index (whistleblower_reward - proposer_reward)

/-- `slash_validator` as block processing calls it (no whistleblower argument): the monadic version, compared with
`slash_validator_pure` (which the refinement theorem `slash_eq` is about) on every evaluation -/
def slash_validator (cfg : Config) (s : State) (slashed_index : Nat) : SM State :=
  let r := slash_validator_m cfg s slashed_index
  match get_beacon_proposer_index cfg s with
  | .ok p => crossCheck "slash_validator" (slash_validator_pure cfg s slashed_index p) r
  | .error _ => r

/-! ## Block header, RANDAO, Eth1 data -/

/-- `process_block_header` -/
def process_block_header (cfg : Config) (s : State) (block : SignedBlock) : SM State := do
  -- Verify that the slots match
  require (block.slot = s.slot) "header.slot_mismatch"
  -- Verify that the block is newer than latest block header
  require (block.slot > s.latest_block_header.slot) "header.not_newer_than_latest"
  -- Verify that proposer index is the correct index
  require (block.proposer_index = (← get_beacon_proposer_index cfg s)) "header.wrong_proposer"
  -- Verify that the parent matches
  require (block.parent_root = hash_tree_root_header s.latest_block_header) "header.parent_root"
  -- Cache current block as the new latest block
  let s := { s with latest_block_header :=
    { slot := block.slot, proposer_index := block.proposer_index, parent_root := block.parent_root,
      state_root := ZERO32,  -- Overwritten in the next process_slot call
      body_root := block.o_body_root } }
  -- Verify proposer is not slashed
  let proposer ← idx s.validators block.proposer_index "header.proposer_out_of_range"
  require (!proposer.slashed) "header.proposer_slashed"
  pure s

/-- `process_randao` -/
def process_randao (cfg : Config) (s : State) (block : SignedBlock) : SM State := do
  let epoch := get_current_epoch cfg s
  -- Verify RANDAO reveal (the oracle Boolean is for validators[block.proposer_index], which
  -- process_block_header has shown to be get_beacon_proposer_index(state))
  let proposer_index ← get_beacon_proposer_index cfg s
  require (proposer_index = block.proposer_index) "randao.proposer (unreachable after process_block_header)"
  require block.o_randao "randao.signature"
  -- Mix in RANDAO reveal
  let mix := xor (← get_randao_mix cfg s epoch) (hash block.randao_reveal)
  pure { s with randao_mixes := ← setIdx s.randao_mixes (epoch % cfg.EPOCHS_PER_HISTORICAL_VECTOR) mix "randao_mixes" }

/-- `process_eth1_data` -/
def process_eth1_data (cfg : Config) (s : State) (block : SignedBlock) : SM State := do
  -- state.eth1_data_votes: List[Eth1Data, EPOCHS_PER_ETH1_VOTING_PERIOD * SLOTS_PER_EPOCH]
  require (s.eth1_data_votes.length < cfg.EPOCHS_PER_ETH1_VOTING_PERIOD * cfg.SLOTS_PER_EPOCH) "eth1_data.votes_list_full"
  let votes := s.eth1_data_votes ++ [block.eth1_data]
  let s := { s with eth1_data_votes := votes }
  if (votes.filter (· = block.eth1_data)).length * 2 > cfg.EPOCHS_PER_ETH1_VOTING_PERIOD * cfg.SLOTS_PER_EPOCH then
    pure { s with eth1_data := block.eth1_data }
  else pure s

/-! ## Operations -/

/-- `process_proposer_slashing` -/
def process_proposer_slashing (cfg : Config) (s : State) (proposer_slashing : ProposerSlashing) : SM State := do
  let header_1 := proposer_slashing.signed_header_1.message
  let header_2 := proposer_slashing.signed_header_2.message
  -- Verify header slots match
  require (header_1.slot = header_2.slot) "proposer_slashing.slot_mismatch"
  -- Verify header proposer indices match
  require (header_1.proposer_index = header_2.proposer_index) "proposer_slashing.proposer_mismatch"
  -- Verify the headers are different
  require (header_1 ≠ header_2) "proposer_slashing.headers_equal"
  -- Verify the proposer is slashable
  let proposer ← idx s.validators header_1.proposer_index "proposer_slashing.index_out_of_range"
  require (is_slashable_validator proposer (get_current_epoch cfg s)) "proposer_slashing.not_slashable"
  -- Verify signatures
  require proposer_slashing.signed_header_1.sig_ok "proposer_slashing.signature_1"
  require proposer_slashing.signed_header_2.sig_ok "proposer_slashing.signature_2"
  slash_validator cfg s header_1.proposer_index

/-- insert into a strictly increasing list, keeping it strictly increasing (an element already present is not repeated) -/
def insertSortedUniq (x : Nat) : List Nat → List Nat
  | [] => [x]
  | y :: ys => if x < y then x :: y :: ys else if x = y then y :: ys else y :: insertSortedUniq x ys

/-- `sorted(set(a).intersection(b))`: the common elements, each once, in increasing order -/
def sortedIntersection (a b : List Nat) : List Nat :=
  (a.filter (b.contains ·)).foldl (fun acc x => insertSortedUniq x acc) []

/-- `process_attester_slashing` -/
def process_attester_slashing (cfg : Config) (s : State) (attester_slashing : AttesterSlashing) : SM State := do
  let attestation_1 := attester_slashing.attestation_1
  let attestation_2 := attester_slashing.attestation_2
  require (is_slashable_attestation_data attestation_1.data attestation_2.data) "attester_slashing.not_slashable_data"
  require (← is_valid_indexed_attestation s attestation_1.attesting_indices attestation_1.sig_ok) "attester_slashing.attestation_1_invalid"
  require (← is_valid_indexed_attestation s attestation_2.attesting_indices attestation_2.sig_ok) "attester_slashing.attestation_2_invalid"
  let indices := sortedIntersection attestation_1.attesting_indices attestation_2.attesting_indices
  -- `for index in sorted(indices): if is_slashable_validator(...): slash_validator(state, index); slashed_any = True`
  let (s, slashed_any) ← indices.foldlM (fun (acc : State × Bool) index => do
    if is_slashable_validator (← idx acc.1.validators index "validators") (get_current_epoch cfg acc.1) then
      pure ((← slash_validator cfg acc.1 index), true)
    else pure acc) (s, false)
  require slashed_any "attester_slashing.nobody_slashed"
  pure s

/-- The first assertions of `process_attestation`, on the data's epochs and slot:
```python
    assert data.target.epoch in (get_previous_epoch(state), get_current_epoch(state))
    assert data.target.epoch == compute_epoch_at_slot(data.slot)
    assert data.slot + MIN_ATTESTATION_INCLUSION_DELAY <= state.slot <= data.slot + SLOTS_PER_EPOCH
    # [Modified in Deneb:EIP7045]  assert data.slot + MIN_ATTESTATION_INCLUSION_DELAY <= state.slot
```
(`uint64` sums that overflow raise in the pyspec: rejected.) -/
def attestation_timing (cfg : Config) (s : State) (data : AttestationData) : SM Unit := do
  require (data.target.epoch = get_previous_epoch cfg s || data.target.epoch = get_current_epoch cfg s) "attestation.target_epoch_not_prev_or_curr"
  require (data.target.epoch = compute_epoch_at_slot cfg data.slot) "attestation.target_epoch_vs_slot"
  let _ ← u64 (data.slot + cfg.MIN_ATTESTATION_INCLUSION_DELAY) "attestation.slot overflow"
  require (data.slot + cfg.MIN_ATTESTATION_INCLUSION_DELAY ≤ s.slot) "attestation.too_early"
  if s.fork ≥ .deneb then pure ()  -- [Modified in Deneb:EIP7045]
  else
    let _ ← u64 (data.slot + cfg.SLOTS_PER_EPOCH) "attestation.slot overflow"
    require (s.slot ≤ data.slot + cfg.SLOTS_PER_EPOCH) "attestation.too_late"

/-- `process_attestation` [phase0: pending attestations] [Modified in Altair: participation flags,
proposer reward] [Modified in Deneb:EIP7045: no upper bound of the inclusion window] -/
def process_attestation_m (cfg : Config) (s : State) (attestation : Attestation) : SM State := do
  let data := attestation.data
  attestation_timing cfg s data
  require (data.index < (← get_committee_count_per_slot cfg s data.target.epoch)) "attestation.committee_index"
  let committee ← get_beacon_committee cfg s data.slot data.index
  require (attestation.aggregation_bits.length = committee.length) "attestation.bits_length"
  if s.fork = .phase0 then
    let pending_attestation : PendingAttestation := {
      data := data, aggregation_bits := attestation.aggregation_bits,
      inclusion_delay := s.slot - data.slot,
      proposer_index := ← get_beacon_proposer_index cfg s }
    let limit := cfg.MAX_ATTESTATIONS * cfg.SLOTS_PER_EPOCH
    let s ←
      if data.target.epoch = get_current_epoch cfg s then do
        require (data.source = s.current_justified_checkpoint) "attestation.source_vs_current_justified"
        require (s.current_epoch_attestations.length < limit) "attestation.pending_list_full"
        pure { s with current_epoch_attestations := s.current_epoch_attestations ++ [pending_attestation] }
      else do
        require (data.source = s.previous_justified_checkpoint) "attestation.source_vs_previous_justified"
        require (s.previous_epoch_attestations.length < limit) "attestation.pending_list_full"
        pure { s with previous_epoch_attestations := s.previous_epoch_attestations ++ [pending_attestation] }
    -- Verify signature
    let indices := insertionSort (← get_attesting_indices cfg s data attestation.aggregation_bits)
    if attestation.oracle_indices ≠ some indices then throw (.oracle "attestation: harness derived other attesting indices")
    require (← is_valid_indexed_attestation s indices attestation.sig_ok) "attestation.signature"
    pure s
  else
    -- Participation flag indices
    let participation_flag_indices ← get_attestation_participation_flag_indices cfg s data (s.slot - data.slot)
    -- Verify signature
    let attesting := ← get_attesting_indices cfg s data attestation.aggregation_bits
    let indices := insertionSort attesting
    if attestation.oracle_indices ≠ some indices then throw (.oracle "attestation: harness derived other attesting indices")
    require (← is_valid_indexed_attestation s indices attestation.sig_ok) "attestation.signature"
    -- Update epoch participation flags
    let current := decide (data.target.epoch = get_current_epoch cfg s)
    let mut epoch_participation := if current then s.current_epoch_participation else s.previous_epoch_participation
    let mut proposer_reward_numerator := 0
    for index in indices do
      for (flag_index, weight) in (List.range PARTICIPATION_FLAG_WEIGHTS.length).zip PARTICIPATION_FLAG_WEIGHTS do
        let flags ← idx epoch_participation index "epoch_participation"
        if participation_flag_indices.contains flag_index && !has_flag flags flag_index then
          epoch_participation := epoch_participation.set index (add_flag flags flag_index)
          proposer_reward_numerator ← u64 (proposer_reward_numerator + (← get_base_reward cfg s index) * weight) "proposer_reward_numerator"
    let s := if current then { s with current_epoch_participation := epoch_participation }
             else { s with previous_epoch_participation := epoch_participation }
    -- Reward proposer
    let proposer_reward_denominator := (WEIGHT_DENOMINATOR - PROPOSER_WEIGHT) * WEIGHT_DENOMINATOR / PROPOSER_WEIGHT
    let proposer_reward := proposer_reward_numerator / proposer_reward_denominator
    increase_balance s (← get_beacon_proposer_index cfg s) proposer_reward

/-- `process_attestation`: the monadic version, compared on every evaluation with the pure cores
`process_attestation_phase0_pure` / `process_attestation_altair_pure` (which the refinement theorems
`attestation_phase0_eq` / `attestation_altair_eq` are about), instantiated with the specification's committee
count, committee, proposer and total active balance of this state -/
def process_attestation (cfg : Config) (s : State) (attestation : Attestation) : SM State :=
  let r := process_attestation_m cfg s attestation
  let count := (get_committee_count_per_slot cfg s attestation.data.target.epoch).toOption
  let committee := (get_beacon_committee cfg s attestation.data.slot attestation.data.index).toOption
  let proposer := (get_beacon_proposer_index cfg s).toOption
  if s.fork = .phase0 then
    crossCheck "process_attestation" (process_attestation_phase0_pure cfg s attestation count committee proposer) r
  else
    match get_total_active_balance cfg s with
    | .ok T => crossCheck "process_attestation" (process_attestation_altair_pure cfg s attestation count committee proposer T) r
    | .error _ => r

/-- `get_validator_from_deposit` -/
def get_validator_from_deposit (cfg : Config) (pubkey withdrawal_credentials : Bytes) (amount : Nat) : SM Validator := do
  if cfg.EFFECTIVE_BALANCE_INCREMENT = 0 then invalid "division by zero"
  let effective_balance := min (amount - amount % cfg.EFFECTIVE_BALANCE_INCREMENT) cfg.MAX_EFFECTIVE_BALANCE
  pure { pubkey := pubkey, withdrawal_credentials := withdrawal_credentials,
         activation_eligibility_epoch := FAR_FUTURE_EPOCH, activation_epoch := FAR_FUTURE_EPOCH,
         exit_epoch := FAR_FUTURE_EPOCH, withdrawable_epoch := FAR_FUTURE_EPOCH,
         effective_balance := effective_balance, slashed := false }

/-- `add_validator_to_registry` [Modified in Altair: participation and inactivity entries] -/
def add_validator_to_registry (cfg : Config) (s : State) (pubkey withdrawal_credentials : Bytes) (amount : Nat) : SM State := do
  require (s.validators.length < cfg.VALIDATOR_REGISTRY_LIMIT) "deposit.registry_full"
  let v ← get_validator_from_deposit cfg pubkey withdrawal_credentials amount
  let s := { s with validators := s.validators ++ [v], balances := s.balances ++ [amount] }
  if s.fork = .phase0 then pure s else
  pure { s with previous_epoch_participation := s.previous_epoch_participation ++ [0],
                current_epoch_participation := s.current_epoch_participation ++ [0],
                inactivity_scores := s.inactivity_scores ++ [0] }

/-- `apply_deposit` -/
def apply_deposit (cfg : Config) (s : State) (d : Deposit) : SM State := do
  let validator_pubkeys := s.validators.map (·.pubkey)
  if !validator_pubkeys.contains d.data.pubkey then
    -- Verify the deposit signature (proof of possession) which is not checked by the deposit contract
    if d.sig_ok then add_validator_to_registry cfg s d.data.pubkey d.data.withdrawal_credentials d.data.amount
    else pure s
  else
    -- Increase balance by deposit amount
    let index := validator_pubkeys.findIdx (· = d.data.pubkey)
    increase_balance s index d.data.amount

/-- `process_deposit` -/
def process_deposit (cfg : Config) (s : State) (deposit : Deposit) : SM State := do
  -- Verify the Merkle branch
  require (← is_valid_merkle_branch deposit.data_root deposit.proof (DEPOSIT_CONTRACT_TREE_DEPTH + 1)
    s.eth1_deposit_index s.eth1_data.deposit_root) "deposit.merkle_branch"
  -- Deposits must be processed in order
  let s := { s with eth1_deposit_index := ← u64 (s.eth1_deposit_index + 1) "eth1_deposit_index" }
  apply_deposit cfg s deposit

/-- `process_voluntary_exit` [Modified in Deneb:EIP7044: the domain — part of the oracle Boolean] -/
def process_voluntary_exit (cfg : Config) (s : State) (signed_voluntary_exit : SignedVoluntaryExit) : SM State := do
  let voluntary_exit := signed_voluntary_exit
  let validator ← idx s.validators voluntary_exit.validator_index "voluntary_exit.index_out_of_range"
  -- Verify the validator is active
  require (is_active_validator validator (get_current_epoch cfg s)) "voluntary_exit.not_active"
  -- Verify exit has not been initiated
  require (validator.exit_epoch = FAR_FUTURE_EPOCH) "voluntary_exit.already_exiting"
  -- Exits must specify an epoch when they become valid; they are not valid before then
  require (get_current_epoch cfg s ≥ voluntary_exit.epoch) "voluntary_exit.epoch_in_future"
  -- Verify the validator has been active long enough
  let _ ← u64 (validator.activation_epoch + cfg.SHARD_COMMITTEE_PERIOD) "voluntary_exit.age overflow"
  require (get_current_epoch cfg s ≥ validator.activation_epoch + cfg.SHARD_COMMITTEE_PERIOD) "voluntary_exit.too_young"
  -- Verify signature
  require signed_voluntary_exit.sig_ok "voluntary_exit.signature"
  -- Initiate exit
  initiate_validator_exit cfg s voluntary_exit.validator_index

/-- `process_bls_to_execution_change` [New in Capella] -/
def process_bls_to_execution_change (_cfg : Config) (s : State) (signed_address_change : SignedBLSToExecutionChange) : SM State := do
  let address_change := signed_address_change
  require (address_change.validator_index < s.validators.length) "bls_change.index_out_of_range"
  let validator ← idx s.validators address_change.validator_index "validators"
  require (validator.withdrawal_credentials.extract 0 1 = ⟨#[BLS_WITHDRAWAL_PREFIX]⟩) "bls_change.not_bls_credentials"
  require (validator.withdrawal_credentials.extract 1 32 = (hash address_change.from_bls_pubkey).extract 1 32) "bls_change.pubkey_hash_mismatch"
  require signed_address_change.sig_ok "bls_change.signature"
  let wc : Bytes := ⟨#[ETH1_ADDRESS_WITHDRAWAL_PREFIX]⟩ ++ ⟨Array.replicate 11 0⟩ ++ address_change.to_execution_address
  pure { s with validators := s.validators.set address_change.validator_index { validator with withdrawal_credentials := wc } }

/-- The SSZ type limits of a block's containers that are per element, or that zrnt enforces when it decodes the
block rather than in `CheckLimits` (an object violating one of them is not a value of the `SignedBeaconBlock` type: the
pyspec cannot even construct it). The rule names feed the first-rule statistics. -/
def check_types (cfg : Config) (block : SignedBlock) : SM Unit := do
  require (block.blob_kzg_commitments.length ≤ cfg.MAX_BLOB_COMMITMENTS_PER_BLOCK) "limits.blob_kzg_commitments"
  block.attestations.forM fun a => do
    require a.bits_wellformed "ssz.malformed_bitlist"
    require (a.aggregation_bits.length ≤ cfg.MAX_VALIDATORS_PER_COMMITTEE) "limits.aggregation_bits"
  if let some sa := block.sync_aggregate then
    -- Bitvector[SYNC_COMMITTEE_SIZE]: exactly ceil(SIZE/8) bytes, padding bits zero
    require (sa.sync_committee_bits.length = 8 * ((cfg.SYNC_COMMITTEE_SIZE + 7) / 8)) "ssz.sync_bitvector_length"
    require ((sa.sync_committee_bits.drop cfg.SYNC_COMMITTEE_SIZE).all (· = false)) "ssz.sync_bitvector_padding"
  block.attester_slashings.forM fun a => do
    require (a.attestation_1.attesting_indices.length ≤ cfg.MAX_VALIDATORS_PER_COMMITTEE) "limits.attesting_indices"
    require (a.attestation_2.attesting_indices.length ≤ cfg.MAX_VALIDATORS_PER_COMMITTEE) "limits.attesting_indices"
  if let some p := block.execution_payload then
    require (p.withdrawals.length ≤ cfg.MAX_WITHDRAWALS_PER_PAYLOAD) "limits.withdrawals"
    require (p.fields.extra_data.size ≤ cfg.MAX_EXTRA_DATA_BYTES) "limits.extra_data"
    p.transactions.forM fun t => require (t.size ≤ cfg.MAX_BYTES_PER_TRANSACTION) "limits.transaction_bytes"

/-- The list limits of the body's operation lists (the containers of the state's fork: transactions from bellatrix,
BLS changes from capella, blob commitments from deneb — where `MAX_BLOBS_PER_BLOCK`, already asserted by
`process_execution_payload`, is the effective bound). Checked where the operations start, which is where zrnt checks
them; for the verdict the place makes no difference (a violated limit ⇒ the block is invalid). -/
def check_counts (cfg : Config) (fork : Fork) (block : SignedBlock) : SM Unit := do
  require (block.proposer_slashings.length ≤ cfg.MAX_PROPOSER_SLASHINGS) "limits.proposer_slashings"
  require (block.attester_slashings.length ≤ cfg.MAX_ATTESTER_SLASHINGS) "limits.attester_slashings"
  require (block.attestations.length ≤ cfg.MAX_ATTESTATIONS) "limits.attestations"
  require (block.deposits.length ≤ cfg.MAX_DEPOSITS) "limits.deposits"
  require (block.voluntary_exits.length ≤ cfg.MAX_VOLUNTARY_EXITS) "limits.voluntary_exits"
  if fork ≥ .bellatrix then
    require ((block.execution_payload.map (·.transactions.length)).getD 0 ≤ cfg.MAX_TRANSACTIONS_PER_PAYLOAD) "limits.transactions"
  if fork ≥ .capella then
    require (block.bls_to_execution_changes.length ≤ cfg.MAX_BLS_TO_EXECUTION_CHANGES) "limits.bls_changes"
  if fork ≥ .deneb then
    require (block.blob_kzg_commitments.length ≤ cfg.MAX_BLOBS_PER_BLOCK) "payload.blob_commitments_limit"

/-- `process_operations` [Modified in Capella: bls_to_execution_changes]
(`for operation in operations: fn(state, operation)` is a left fold) -/
def process_operations (cfg : Config) (s : State) (block : SignedBlock) : SM State := do
  check_counts cfg s.fork block
  -- Verify that outstanding deposits are processed up to the maximum number of deposits
  require (s.eth1_data.deposit_count ≥ s.eth1_deposit_index) "operations.deposit_count_underflow"
  require (block.deposits.length = min cfg.MAX_DEPOSITS (s.eth1_data.deposit_count - s.eth1_deposit_index)) "operations.deposit_count"
  let s ← block.proposer_slashings.foldlM (process_proposer_slashing cfg) s
  let s ← block.attester_slashings.foldlM (process_attester_slashing cfg) s
  let s ← block.attestations.foldlM (process_attestation cfg) s
  let s ← block.deposits.foldlM (process_deposit cfg) s
  let s ← block.voluntary_exits.foldlM (process_voluntary_exit cfg) s
  if s.fork ≥ .capella then
    block.bls_to_execution_changes.foldlM (process_bls_to_execution_change cfg) s  -- [New in Capella]
  else pure s

/-! ## Sync aggregate [New in Altair] -/

def process_sync_aggregate_m (cfg : Config) (s : State) (sync_aggregate : SyncAggregate) : SM State := do
  let some committee := s.current_sync_committee | invalid "sync_aggregate.no_committee"
  let sync_committee_bits := sync_aggregate.sync_committee_bits.take cfg.SYNC_COMMITTEE_SIZE
  require (sync_committee_bits.length = cfg.SYNC_COMMITTEE_SIZE) "sync_aggregate.bits_length"
  -- Verify sync committee aggregate signature signing over the previous slot block root
  let previous_slot := max s.slot 1 - 1
  let _ ← get_block_root_at_slot cfg s previous_slot
  require sync_aggregate.sig_ok "sync_aggregate.signature"
  -- Compute participant and proposer rewards
  if cfg.EFFECTIVE_BALANCE_INCREMENT = 0 || cfg.SLOTS_PER_EPOCH = 0 || cfg.SYNC_COMMITTEE_SIZE = 0 then invalid "division by zero"
  let total_active_increments := (← get_total_active_balance cfg s) / cfg.EFFECTIVE_BALANCE_INCREMENT
  let total_base_rewards ← u64 ((← get_base_reward_per_increment cfg s) * total_active_increments) "total_base_rewards"
  let max_participant_rewards := total_base_rewards * SYNC_REWARD_WEIGHT / WEIGHT_DENOMINATOR / cfg.SLOTS_PER_EPOCH
  let participant_reward := max_participant_rewards / cfg.SYNC_COMMITTEE_SIZE
  let proposer_reward := participant_reward * PROPOSER_WEIGHT / (WEIGHT_DENOMINATOR - PROPOSER_WEIGHT)
  -- Apply participant and proposer rewards
  let all_pubkeys := s.validators.map (·.pubkey)
  let committee_indices ← committee.pubkeys.mapM fun pubkey => do
    let i := all_pubkeys.findIdx (· = pubkey)
    require (i < all_pubkeys.length) "sync_aggregate.committee_pubkey_unknown"
    pure i
  let mut s := s
  for (participant_index, participation_bit) in committee_indices.zip sync_committee_bits do
    if participation_bit then
      s ← increase_balance s participant_index participant_reward
      s ← increase_balance s (← get_beacon_proposer_index cfg s) proposer_reward
    else
      s ← decrease_balance s participant_index participant_reward
  pure s

/-- `process_sync_aggregate` [New in Altair]: the monadic version above, compared on every evaluation with its pure core
`process_sync_aggregate_pure` (which the refinement theorem `syncAggregate_eq` is about), instantiated with the
specification's total active balance and proposer of the state -/
def process_sync_aggregate (cfg : Config) (s : State) (sync_aggregate : SyncAggregate) : SM State :=
  let r := process_sync_aggregate_m cfg s sync_aggregate
  match get_total_active_balance cfg s, get_beacon_proposer_index cfg s with
  | .ok T, .ok p => crossCheck "process_sync_aggregate" (process_sync_aggregate_pure cfg s sync_aggregate T p) r
  | _, _ => r

/-! ## Execution payload and withdrawals -/

/-- `ExecutionPayloadHeader()` of the state's fork -/
def defaultHeaderOf (cfg : Config) (fork : Fork) : ExecutionPayloadHeader :=
  let h := defaultPayloadHeader cfg
  let h := if fork ≥ .capella then { h with withdrawals_root := some ZERO32 } else h
  if fork ≥ .deneb then { h with blob_gas_used := some 0, excess_blob_gas := some 0 } else h

/-- `is_merge_transition_complete` -/
def is_merge_transition_complete (cfg : Config) (s : State) : Bool :=
  s.latest_execution_payload_header ≠ some (defaultHeaderOf cfg s.fork)

/-- `body.execution_payload != ExecutionPayload()`: all scalar fields default and both lists empty
(the two list roots of an empty payload are those of empty lists, so they are not compared). -/
def isDefaultPayload (cfg : Config) (fork : Fork) (p : ExecutionPayload) : Bool :=
  let d := defaultHeaderOf cfg fork
  p.transactions.isEmpty && p.withdrawals.isEmpty &&
  decide ({ p.fields with transactions_root := ZERO32, withdrawals_root := d.withdrawals_root } = d)

/-- `is_merge_transition_block` -/
def is_merge_transition_block (cfg : Config) (s : State) (p : ExecutionPayload) : Bool :=
  !is_merge_transition_complete cfg s && !isDefaultPayload cfg s.fork p

/-- `is_execution_enabled` -/
def is_execution_enabled (cfg : Config) (s : State) (p : ExecutionPayload) : Bool :=
  is_merge_transition_block cfg s p || is_merge_transition_complete cfg s

/-- `compute_timestamp_at_slot` -/
def compute_timestamp_at_slot (cfg : Config) (s : State) (slot : Nat) : SM Nat := do
  let slots_since_genesis := slot - GENESIS_SLOT
  u64 (s.genesis_time + slots_since_genesis * cfg.SECONDS_PER_SLOT) "compute_timestamp_at_slot"

def has_eth1_withdrawal_credential (v : Validator) : Bool :=
  v.withdrawal_credentials.extract 0 1 = ⟨#[ETH1_ADDRESS_WITHDRAWAL_PREFIX]⟩

def is_fully_withdrawable_validator (v : Validator) (balance epoch : Nat) : Bool :=
  has_eth1_withdrawal_credential v && v.withdrawable_epoch ≤ epoch && balance > 0

def is_partially_withdrawable_validator (cfg : Config) (v : Validator) (balance : Nat) : Bool :=
  let has_max_effective_balance := v.effective_balance == cfg.MAX_EFFECTIVE_BALANCE
  let has_excess_balance := balance > cfg.MAX_EFFECTIVE_BALANCE
  has_eth1_withdrawal_credential v && has_max_effective_balance && has_excess_balance

/-- The body of the sweep loop of `get_expected_withdrawals`, `n` iterations left:
```python
    for _ in range(bound):
        validator = state.validators[validator_index]
        balance = state.balances[validator_index]
        if is_fully_withdrawable_validator(validator, balance, epoch):
            withdrawals.append(Withdrawal(index=withdrawal_index, validator_index=validator_index,
                address=ExecutionAddress(validator.withdrawal_credentials[12:]), amount=balance))
            withdrawal_index += WithdrawalIndex(1)
        elif is_partially_withdrawable_validator(validator, balance):
            withdrawals.append(Withdrawal(..., amount=balance - MAX_EFFECTIVE_BALANCE))
            withdrawal_index += WithdrawalIndex(1)
        if len(withdrawals) == MAX_WITHDRAWALS_PER_PAYLOAD:
            break
        validator_index = ValidatorIndex((validator_index + 1) % len(state.validators))
    return withdrawals
``` -/
def withdrawals_sweep (cfg : Config) (s : State) (epoch : Nat) :
    (n : Nat) → (withdrawal_index validator_index : Nat) → (withdrawals : List Withdrawal) → SM (List Withdrawal)
  | 0, _, _, withdrawals => pure withdrawals
  | n + 1, withdrawal_index, validator_index, withdrawals => do
    let validator ← idx s.validators validator_index "withdrawals.validator_index"
    let balance ← idx s.balances validator_index "withdrawals.balance_index"
    let address := validator.withdrawal_credentials.extract 12 32
    let (withdrawals, next_index) :=
      if is_fully_withdrawable_validator validator balance epoch then
        (withdrawals ++ [⟨withdrawal_index, validator_index, address, balance⟩], withdrawal_index + 1)
      else if is_partially_withdrawable_validator cfg validator balance then
        (withdrawals ++ [⟨withdrawal_index, validator_index, address, balance - cfg.MAX_EFFECTIVE_BALANCE⟩], withdrawal_index + 1)
      else (withdrawals, withdrawal_index)
    let withdrawal_index ← u64 next_index "withdrawal_index"
    if withdrawals.length = cfg.MAX_WITHDRAWALS_PER_PAYLOAD then pure withdrawals  -- break
    else withdrawals_sweep cfg s epoch n withdrawal_index ((validator_index + 1) % s.validators.length) withdrawals

/-- `get_expected_withdrawals` [New in Capella] -/
def get_expected_withdrawals (cfg : Config) (s : State) : SM (List Withdrawal) :=
  let epoch := get_current_epoch cfg s
  let bound := min s.validators.length cfg.MAX_VALIDATORS_PER_WITHDRAWALS_SWEEP
  withdrawals_sweep cfg s epoch bound s.next_withdrawal_index s.next_withdrawal_validator_index []

/-- `process_withdrawals` [New in Capella] -/
def process_withdrawals_m (cfg : Config) (s : State) (payload : ExecutionPayload) (expected_withdrawals : List Withdrawal) : SM State := do
  require (payload.withdrawals.length = expected_withdrawals.length) "withdrawals.count"
  require (payload.withdrawals = expected_withdrawals) "withdrawals.mismatch"
  let mut s := s
  for withdrawal in expected_withdrawals do
    s ← decrease_balance s withdrawal.validator_index withdrawal.amount
  -- Update the next withdrawal index if this block contained withdrawals
  if let some latest_withdrawal := expected_withdrawals.getLast? then
    s := { s with next_withdrawal_index := ← u64 (latest_withdrawal.index + 1) "next_withdrawal_index" }
  if s.validators.length = 0 then invalid "division by zero"
  -- Update the next validator index to start the next withdrawal sweep
  if expected_withdrawals.length = cfg.MAX_WITHDRAWALS_PER_PAYLOAD then
    -- Next sweep starts after the latest withdrawal's validator index
    let some latest := expected_withdrawals.getLast? | invalid "withdrawals: MAX_WITHDRAWALS_PER_PAYLOAD = 0"
    pure { s with next_withdrawal_validator_index := (latest.validator_index + 1) % s.validators.length }
  else
    -- Advance sweep by the max length of the sweep if there was not a full set of withdrawals
    let next_index ← u64 (s.next_withdrawal_validator_index + cfg.MAX_VALIDATORS_PER_WITHDRAWALS_SWEEP) "next_withdrawal_validator_index"
    pure { s with next_withdrawal_validator_index := next_index % s.validators.length }

/-- `process_withdrawals` [New in Capella]: the monadic version above, compared with its pure core
`process_withdrawals_pure` (which the refinement theorem `withdrawalsApply_eq` is about) on every evaluation -/
def process_withdrawals (cfg : Config) (s : State) (payload : ExecutionPayload) : SM State := do
  let expected_withdrawals ← get_expected_withdrawals cfg s
  crossCheck "process_withdrawals" (process_withdrawals_pure cfg s expected_withdrawals payload.withdrawals)
    (process_withdrawals_m cfg s payload expected_withdrawals)

/-- `process_execution_payload` [New in Bellatrix] [Modified in Capella: parent hash check
unconditional, withdrawals_root] [Modified in Deneb: commitments limit, blob gas fields]. The execution
engine's answer is the input `block.o_engine` (an engine *error* is not an answer: the transition fails). -/
def process_execution_payload (cfg : Config) (s : State) (block : SignedBlock) (payload : ExecutionPayload) : SM State := do
  let some latest := s.latest_execution_payload_header | invalid "payload.state_has_no_header"
  -- Verify consistency of the parent hash with respect to the previous execution payload header
  if s.fork ≥ .capella || is_merge_transition_complete cfg s then
    require (payload.fields.parent_hash = latest.block_hash) "payload.parent_hash"
  -- Verify prev_randao
  require (payload.fields.prev_randao = (← get_randao_mix cfg s (get_current_epoch cfg s))) "payload.prev_randao"
  -- Verify timestamp
  require (payload.fields.timestamp = (← compute_timestamp_at_slot cfg s s.slot)) "payload.timestamp"
  -- [New in Deneb:EIP4844] Verify commitments are under limit
  if s.fork ≥ .deneb then
    require (block.blob_kzg_commitments.length ≤ cfg.MAX_BLOBS_PER_BLOCK) "payload.blob_commitments_limit"
  -- Verify the execution payload is valid
  require (block.o_engine = .valid) "payload.engine"
  -- Cache execution payload header
  pure { s with latest_execution_payload_header := some payload.fields }

end Zrnt.Beacon.Block
