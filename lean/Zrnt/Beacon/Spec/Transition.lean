import Zrnt.Beacon.Spec.SlotsPure
/-!
# Specification layer `S`: `process_slot(s)` and the fork upgrades `upgrade_to_*`

`hash_tree_root(state)` is the one thing `S` cannot compute (SSZ merkleization of the whole state is a
different component); it is an input: `RootOracle` gives, for the slot being processed, the state root
the Go library computed for the state at that point. `hash_tree_root(state.latest_block_header)` and
the historical batch/summary roots ARE computed here (literal SSZ `merkleize` with SHA-256).
-/
namespace Zrnt.Beacon.Spec
open Zrnt.Beacon

/-- `hash_tree_root(state)` for the state at the start of `process_slot` at the given slot. -/
abbrev RootOracle := Nat → Option Bytes

def process_slot (cfg : Config) (roots : RootOracle) (s : State) : SM State := do
  -- Cache state root
  let some previous_state_root := roots s.slot | throw (.oracle s!"state root for slot {s.slot} not supplied")
  if cfg.SLOTS_PER_HISTORICAL_ROOT = 0 then invalid "division by zero"
  let _ ← idx s.state_roots (s.slot % cfg.SLOTS_PER_HISTORICAL_ROOT) "state_roots"
  let _ ← idx s.block_roots (s.slot % cfg.SLOTS_PER_HISTORICAL_ROOT) "block_roots"
  -- Cache latest block header state root; cache block root
  pure (process_slot_pure cfg previous_state_root s)

/-! ## Upgrades -/

/-- altair `get_attestation_participation_flag_indices` [Modified in Deneb:EIP7045] -/
def get_attestation_participation_flag_indices (cfg : Config) (s : State) (data : AttestationData)
    (inclusion_delay : Nat) : SM (List Nat) := do
  let justified_checkpoint :=
    if data.target.epoch = get_current_epoch cfg s then s.current_justified_checkpoint
    else s.previous_justified_checkpoint
  -- Matching roots
  let is_matching_source := decide (data.source = justified_checkpoint)
  -- (Python `and` is short-circuit: the block roots are only looked up when the left operand holds)
  let is_matching_target : Bool ← if is_matching_source then do
      pure (decide (data.target.root = (← get_block_root cfg s data.target.epoch))) else pure false
  let is_matching_head : Bool ← if is_matching_target then do
      pure (decide (data.beacon_block_root = (← get_block_root_at_slot cfg s data.slot))) else pure false
  require is_matching_source "assert is_matching_source"
  let mut participation_flag_indices : List Nat := []
  if is_matching_source && inclusion_delay ≤ integer_squareroot cfg.SLOTS_PER_EPOCH then
    participation_flag_indices := participation_flag_indices ++ [TIMELY_SOURCE_FLAG_INDEX]
  if s.fork ≥ .deneb then
    if is_matching_target then  -- [Modified in Deneb:EIP7045]
      participation_flag_indices := participation_flag_indices ++ [TIMELY_TARGET_FLAG_INDEX]
  else
    if is_matching_target && inclusion_delay ≤ cfg.SLOTS_PER_EPOCH then
      participation_flag_indices := participation_flag_indices ++ [TIMELY_TARGET_FLAG_INDEX]
  if is_matching_head && inclusion_delay = cfg.MIN_ATTESTATION_INCLUSION_DELAY then
    participation_flag_indices := participation_flag_indices ++ [TIMELY_HEAD_FLAG_INDEX]
  pure participation_flag_indices

/-- altair fork.md `translate_participation` -/
def translate_participation (cfg : Config) (s : State) (pending_attestations : List PendingAttestation) : SM State := do
  let mut s := s
  for attestation in pending_attestations do
    let data := attestation.data
    let inclusion_delay := attestation.inclusion_delay
    -- Translate attestation inclusion info to flag indices
    let participation_flag_indices ← get_attestation_participation_flag_indices cfg s data inclusion_delay
    -- Apply flags to all attesting validators
    let mut epoch_participation := s.previous_epoch_participation
    for index in ← get_attesting_indices cfg s data attestation.aggregation_bits do
      for flag_index in participation_flag_indices do
        epoch_participation ← setIdx epoch_participation index
          (add_flag (← idx epoch_participation index "epoch_participation") flag_index) "epoch_participation"
    s := { s with previous_epoch_participation := epoch_participation }
  pure s

/-- the pending attestations as `translate_participation` sees them on the (altair) state `s` -/
def resolve_flag_atts (cfg : Config) (s : State) (pending : List PendingAttestation) : SM (List FlagAtt) :=
  pending.mapM fun a => do
    let justified_checkpoint :=
      if a.data.target.epoch = get_current_epoch cfg s then s.current_justified_checkpoint else s.previous_justified_checkpoint
    let source_ok := decide (a.data.source = justified_checkpoint)
    let target_ok : Bool ← if source_ok then do
        pure (decide (a.data.target.root = (← get_block_root cfg s a.data.target.epoch))) else pure false
    let head_ok : Bool ← if source_ok && target_ok then do
        pure (decide (a.data.beacon_block_root = (← get_block_root_at_slot cfg s a.data.slot))) else pure false
    let indices ← get_attesting_indices cfg s a.data a.aggregation_bits
    pure { indices := indices, inclusion_delay := a.inclusion_delay, source_ok := source_ok, target_ok := target_ok, head_ok := head_ok }

def upgrade_to_altair (cfg : Config) (agg : AggOracle) (pre : State) : SM State := do
  let epoch := get_current_epoch cfg pre
  let post : State := { pre with
    fork := .altair
    -- fork=Fork(previous_version=pre.fork.current_version, current_version=ALTAIR_FORK_VERSION, epoch=epoch)
    fork_rec := ⟨pre.fork_rec.current_version, cfg.ALTAIR_FORK_VERSION, epoch⟩
    previous_epoch_attestations := []
    current_epoch_attestations := []
    previous_epoch_participation := List.replicate pre.validators.length 0
    current_epoch_participation := List.replicate pre.validators.length 0
    inactivity_scores := List.replicate pre.validators.length 0 }
  -- Fill in previous epoch participation from the pre state's pending attestations
  let post ← translate_participation cfg post pre.previous_epoch_attestations
  -- Fill in sync committees
  -- Note: A duplicate committee is assigned for the current and next committee at the fork boundary
  let c ← get_next_sync_committee cfg agg post
  let post := { post with current_sync_committee := some c }
  let n ← get_next_sync_committee cfg agg post
  let post := { post with next_sync_committee := some n }
  -- the theorem-facing pure form must agree
  let flagAtts ← resolve_flag_atts cfg (upgrade_to_altair_pure cfg ⟨[], none⟩ pre) pre.previous_epoch_attestations
  crossCheck post (upgrade_to_altair_pure cfg ⟨flagAtts, some c⟩ pre) "upgrade_to_altair"
  pure post

def upgrade_to_bellatrix (cfg : Config) (pre : State) : SM State :=
  pure (upgrade_to_bellatrix_pure cfg pre)

def upgrade_to_capella (cfg : Config) (pre : State) : SM State := do
  let some _ := pre.latest_execution_payload_header | invalid "no payload header"
  -- all bellatrix header fields are carried over; withdrawals_root=Root()  # [New in Capella]
  pure (upgrade_to_capella_pure cfg pre)

def upgrade_to_deneb (cfg : Config) (pre : State) : SM State := do
  let some _ := pre.latest_execution_payload_header | invalid "no payload header"
  -- all capella header fields are carried over; blob_gas_used=0, excess_blob_gas=0  # [New in Deneb:EIP4844]
  pure (upgrade_to_deneb_pure cfg pre)

/-- The fork documents: "the upgrade occurs after the completion of the inner loop of `process_slots` that
sets `state.slot` equal to `X_FORK_EPOCH * SLOTS_PER_EPOCH`". Applied in fork order, so several forks
scheduled at the same epoch are all applied. -/
def upgrade_maybe (cfg : Config) (agg : AggOracle) (s : State) : SM State := do
  let atFork (fork_epoch : Nat) (s : State) : Bool :=
    s.slot % cfg.SLOTS_PER_EPOCH = 0 && compute_epoch_at_slot cfg s.slot = fork_epoch
  let mut s := s
  if s.fork = .phase0 && atFork cfg.ALTAIR_FORK_EPOCH s then s ← upgrade_to_altair cfg agg s
  if s.fork = .altair && atFork cfg.BELLATRIX_FORK_EPOCH s then s ← upgrade_to_bellatrix cfg s
  if s.fork = .bellatrix && atFork cfg.CAPELLA_FORK_EPOCH s then s ← upgrade_to_capella cfg s
  if s.fork = .capella && atFork cfg.DENEB_FORK_EPOCH s then s ← upgrade_to_deneb cfg s
  if s.fork = .deneb && atFork cfg.ELECTRA_FORK_EPOCH s then invalid "electra is not supported"
  pure s

/-- `process_slots` including the in-place fork upgrades, with the epoch transition as a parameter (the specification's
`process_epoch`, or the code-shaped pipeline for the model column). Recursion on the number of slots. -/
def process_slots_with (epochFn : Config → AggOracle → State → SM State) (cfg : Config) (agg : AggOracle)
    (roots : RootOracle) (s : State) (slot : Nat) : SM State := do
  require (s.slot < slot) "assert state.slot < slot"
  if cfg.SLOTS_PER_EPOCH = 0 then invalid "division by zero"
  let rec loop (n : Nat) (s : State) : SM State :=
    match n with
    | 0 => pure s
    | n + 1 => do
      let s ← process_slot cfg roots s
      -- Process epoch on the start slot of the next epoch
      let s ← if (s.slot + 1) % cfg.SLOTS_PER_EPOCH = 0 then epochFn cfg agg s else pure s
      let next_slot ← u64 (s.slot + 1) "slot"
      let s := { s with slot := next_slot }
      let s ← upgrade_maybe cfg agg s
      loop n s
  loop (slot - s.slot) s

/-- `process_slots` -/
def process_slots (cfg : Config) (agg : AggOracle) (roots : RootOracle) (s : State) (slot : Nat) : SM State :=
  process_slots_with process_epoch cfg agg roots s slot

end Zrnt.Beacon.Spec
